(** Ids only flow forward: whatever micro step is taken, the id counter does not decrease and every put id that is pending
    afterwards was pending before or has just been drawn (is at least the old counter).  Hence an id that is below the
    counter and not pending - an id that has been used - never becomes pending again.  No premise on the state. *)
From CacheD Require Import Base Sketch Model Window Micro.
From CacheD.proofs Require Import Defs AListLemmas InvLemmas InvOps InvCalls InvWorker InvProofs ApiProofs HistoryProofs.
From Coq Require Import ZifyBool.

Definition pids (s : state) : list Z := put_ids (pending_cmds s).

Definition FL (s s' : state) : Prop :=
  next_id s <= next_id s' /\ forall id, In id (pids s') -> In id (pids s) \/ next_id s <= id.

Definition Oldp (s : state) (id : Z) : Prop := id < next_id s /\ ~ In id (pids s).

Lemma FL_refl : forall s, FL s s.
Proof. intros s. split; [lia|auto]. Qed.

Lemma FL_trans : forall a b c, FL a b -> FL b c -> FL a c.
Proof.
  intros a b c [N1 P1] [N2 P2]. split; [lia|]. intros id H.
  destruct (P2 id H) as [H2|H2]; [|right; lia]. destruct (P1 id H2) as [H1|H1]; [left; exact H1|right; exact H1].
Qed.

Lemma FL_oldp : forall s s' id, FL s s' -> Oldp s id -> Oldp s' id.
Proof.
  intros s s' id [N P] [Hlt Hn]. split; [lia|]. intros H. destruct (P id H) as [H1|H1]; [exact (Hn H1)|lia].
Qed.

Lemma FL_same : forall s s', next_id s' = next_id s -> queue s' = queue s -> blocked s' = blocked s -> FL s s'.
Proof.
  intros s s' Hn Hq Hb. split; [lia|]. intros id H. left. unfold pids in *. rewrite (pending_same s s' Hq Hb) in H. exact H.
Qed.

(** the pending commands only lose members *)
Lemma FL_shrink : forall s s', next_id s' = next_id s -> (forall c, In c (pending_cmds s') -> In c (pending_cmds s)) -> FL s s'.
Proof.
  intros s s' Hn Hsub. split; [lia|]. intros id H. left. unfold pids in *.
  apply in_put_ids in H as (c & Hc & Hid). apply in_put_ids. exists c. split; [apply Hsub; exact Hc|exact Hid].
Qed.

(** one command more, whose put id (if any) is pending already or at least the old counter *)
Lemma FL_add : forall s s' c, next_id s <= next_id s' ->
  (forall c', In c' (pending_cmds s') -> c' = c \/ In c' (pending_cmds s)) ->
  (forall id, cmd_put_id c = Some id -> In id (pids s) \/ next_id s <= id) -> FL s s'.
Proof.
  intros s s' c Hn Hsub Hc. split; [exact Hn|]. intros id H. unfold pids in *.
  apply in_put_ids in H as (c' & Hc' & Hid). destruct (Hsub c' Hc') as [->|Hold].
  - apply Hc. exact Hid.
  - left. apply in_put_ids. exists c'. split; assumption.
Qed.

Lemma pending_unpark_sub : forall s tid c', In c' (pending_cmds (set_blocked s (aremove tid (blocked s)))) -> In c' (pending_cmds s).
Proof.
  intros s tid c' H. rewrite (pending_of _ _ _ eq_refl eq_refl) in H. rewrite (pending_of s _ _ eq_refl eq_refl).
  cbn [queue blocked set_blocked] in H. apply in_app_or in H. apply in_or_app. destruct H as [H|H]; [left; exact H|right].
  eapply bcmds_aremove_in. exact H.
Qed.

Lemma pending_park_sub : forall s tid k c', In c' (pending_cmds (set_blocked s (aset tid k (blocked s)))) ->
  In c' (cont_cmds k) \/ In c' (pending_cmds s).
Proof.
  intros s tid k c' H. rewrite (pending_of _ _ _ eq_refl eq_refl) in H. rewrite (pending_of s _ _ eq_refl eq_refl).
  cbn [queue blocked set_blocked] in H. unfold aset in H. rewrite bcmds_cons in H.
  apply in_app_or in H. destruct H as [H|H]; [right; apply in_or_app; left; exact H|].
  apply in_app_or in H. destruct H as [H|H]; [left; exact H|right]. apply in_or_app. right. eapply bcmds_aremove_in. exact H.
Qed.

(** do_send of a command whose put id is already accounted for *)
Lemma do_send_FL : forall cfg tid c s s0, next_id s0 <= next_id s ->
  (forall c', In c' (pending_cmds s) -> In c' (pending_cmds s0)) ->
  (forall id, cmd_put_id c = Some id -> In id (pids s0) \/ next_id s0 <= id) ->
  FL s0 (fst (do_send cfg tid c s)).
Proof.
  intros cfg tid c s s0 Hn Hsub Hc. unfold do_send.
  destruct (worker s); [destruct (_ <? c_queue cfg)|..]; cbn [fst].
  - apply (FL_add s0 _ c); [exact Hn| |exact Hc].
    intros c' H. rewrite (pending_of _ _ _ eq_refl eq_refl) in H. sred. rewrite map_fst_app_one in H.
    apply in_app_or in H. destruct H as [H|H].
    + apply in_app_or in H. destruct H as [H|[H|[]]]; [right; apply Hsub; rewrite (pending_of s _ _ eq_refl eq_refl); apply in_or_app; left; exact H|left; symmetry; exact H].
    + right. apply Hsub. rewrite (pending_of s _ _ eq_refl eq_refl). apply in_or_app. right. exact H.
  - apply (FL_add s0 _ c); [exact Hn| |exact Hc].
    intros c' H. apply pending_park_sub in H. destruct H as [H|H]; [left; destruct H as [H|[]]; symmetry; exact H|right; apply Hsub; exact H].
  - split; [exact Hn|]. intros id H. left. unfold pids in *. apply in_put_ids in H as (c' & Hc' & Hid).
    apply in_put_ids. exists c'. split; [apply Hsub; exact Hc'|exact Hid].
  - split; [exact Hn|]. intros id H. left. unfold pids in *. apply in_put_ids in H as (c' & Hc' & Hid).
    apply in_put_ids. exists c'. split; [apply Hsub; exact Hc'|exact Hid].
  - split; [exact Hn|]. intros id H. left. unfold pids in *. apply in_put_ids in H as (c' & Hc' & Hid).
    apply in_put_ids. exists c'. split; [apply Hsub; exact Hc'|exact Hid].
Qed.

Lemma do_send_noput_FL : forall cfg tid c s, cmd_put_id c = None -> FL s (fst (do_send cfg tid c s)).
Proof. intros cfg tid c s Hc. apply do_send_FL; [lia|auto|]. intros id H. congruence. Qed.

Lemma send_new_put_FL : forall cfg tid c s, cmd_put_id c = Some (next_id s) ->
  FL s (fst (do_send cfg tid c (set_next_id s (next_id s + 1)))).
Proof.
  intros cfg tid c s Hc. apply do_send_FL; [cbn; lia|auto|]. intros id H. rewrite Hc in H. injection H as <-. right. lia.
Qed.

Lemma FL_frameA : forall s s', frameA s s' -> FL s s'.
Proof. intros s s' (_ & Fq & Fb & Fn & _). apply FL_same; assumption. Qed.

Lemma FL_frameR : forall s s', frameR s s' -> FL s s'.
Proof. intros s s' (_ & _ & _ & _ & _ & Fn & Fq & Fb & _). apply FL_same; assumption. Qed.

Lemma call_put_FL : forall cfg tid k v w ttl s, FL s (fst (call_put cfg tid k v w ttl s)).
Proof.
  intros cfg tid k v w ttl s. unfold call_put.
  destruct (w <=? 0); [apply FL_refl|]. destruct (amem k (store s)); [apply FL_refl|].
  destruct ttl; apply send_new_put_FL; reflexivity.
Qed.

Lemma ups_s2_same : forall cfg k v e new_exp s,
  next_id (ups_s2 cfg k v e new_exp s) = next_id s /\ queue (ups_s2 cfg k v e new_exp s) = queue s /\
  blocked (ups_s2 cfg k v e new_exp s) = blocked s.
Proof.
  intros cfg k v e new_exp s. unfold ups_s2. cbv zeta.
  destruct (type_of_expiry_update (e_exp e) new_exp); sred; repeat split.
Qed.

Lemma ups_tail_FL : forall cfg tid id s2 uw', FL s2 (fst (ups_tail cfg tid id s2 uw')).
Proof.
  intros cfg tid id s2 uw'. unfold ups_tail.
  destruct uw' as [[wt|]|]; try apply FL_refl.
  destruct (wt <=? 0); [apply FL_refl|]. apply do_send_noput_FL. reflexivity.
Qed.

Lemma call_upsert_FL : forall cfg tid k v w ttl rm s, FL s (fst (call_upsert cfg tid k v w ttl rm s)).
Proof.
  intros cfg tid k v w ttl rm s.
  destruct (alookup k (store s)) as [e0|] eqn:El0.
  - rewrite call_upsert_present_eq with (e := e0) by exact El0.
    destruct (ups_new_exp_o rm ttl e0 s) as [new_exp|]; [|apply FL_refl].
    destruct (ups_s2_same cfg k v e0 new_exp s) as (A & B & C).
    eapply FL_trans; [apply (FL_same s _ A B C)|apply ups_tail_FL].
  - destruct v as [val|].
    + rewrite upsert_absent_is_put by exact El0. apply call_put_FL.
    + unfold call_upsert. rewrite El0. cbv zeta. destruct w; apply FL_refl.
Qed.

Lemma shutdown_finish_FL : forall s, FL s (shutdown_finish s).
Proof. intros s. apply FL_same; reflexivity. Qed.

Lemma shutdown_chan_FL : forall tid s, FL s (fst (shutdown_chan tid s)).
Proof.
  intros tid s. unfold shutdown_chan.
  destruct (consumer s); try apply shutdown_finish_FL.
  destruct (_ <? chan_capacity); cbn [fst].
  - eapply FL_trans; [|apply shutdown_finish_FL]. apply FL_same; reflexivity.
  - apply FL_shrink; [reflexivity|]. intros c' H. apply pending_park_sub in H. destruct H as [[]|H]; exact H.
Qed.

Lemma shutdown_cmd_FL : forall cfg tid s, FL s (fst (shutdown_cmd cfg tid s)).
Proof.
  intros cfg tid s. unfold shutdown_cmd.
  destruct (worker s); try apply shutdown_chan_FL.
  destruct (_ <? c_queue cfg); cbn [fst].
  - eapply FL_trans; [|apply shutdown_chan_FL].
    apply (FL_add s _ CShutdown); [cbn; lia| |intros id H; discriminate].
    intros c' H. rewrite (pending_of _ _ _ eq_refl eq_refl) in H. sred. rewrite map_fst_app_one in H.
    rewrite (pending_of s _ _ eq_refl eq_refl). apply in_app_or in H. destruct H as [H|H].
    + apply in_app_or in H. destruct H as [H|[H|[]]]; [right; apply in_or_app; left; exact H|left; symmetry; exact H].
    + right. apply in_or_app. right. exact H.
  - apply FL_shrink; [reflexivity|]. intros c' H. apply pending_park_sub in H. destruct H as [[]|H]; exact H.
Qed.

Lemma call_FL : forall cfg tid r idxs s, FL s (fst (call cfg tid r idxs s)).
Proof.
  intros cfg tid r idxs s. unfold call.
  destruct (amem tid (blocked s)); [apply FL_refl|].
  assert (Hr1 : forall k (g : Z -> list Z), FL s (fst (match read_one cfg k idxs s with
                                         | Some (v, s', []) => (s', g v) | _ => (s, [7]) end))).
  { intros k g. destruct (read_one cfg k idxs s) as [[[v0 s0] [|i0 idxs0]]|] eqn:E; cbn [fst]; try apply FL_refl.
    apply FL_frameR. eapply InvCalls.read_one_frame. exact E. }
  assert (Hrm : forall ks (g : list Z -> list Z), FL s (fst (match read_many cfg ks idxs s with
                                         | Some (vs, s', []) => (s', g vs) | _ => (s, [7]) end))).
  { intros ks g. destruct (read_many cfg ks idxs s) as [[[v0 s0] [|i0 idxs0]]|] eqn:E; cbn [fst]; try apply FL_refl.
    apply FL_frameR. eapply InvCalls.read_many_frame. exact E. }
  destruct r as [k0 v|k0 v w|k0 v ttl|k0 v w ttl|k0 v w ttl rm|k0|k0|k0|k0|k0|ks|ks|ks| | |]; cbv beta iota zeta.
  - destruct (_ <=? 0); [apply FL_refl|]. destruct (shut s); [apply FL_refl|apply call_put_FL].
  - destruct (shut s); [apply FL_refl|apply call_put_FL].
  - destruct (shut s); [apply FL_refl|apply call_put_FL].
  - destruct (shut s); [apply FL_refl|apply call_put_FL].
  - destruct (shut s); [apply FL_refl|apply call_upsert_FL].
  - destruct (shut s); [apply FL_refl|].
    eapply FL_trans; [|apply do_send_noput_FL; reflexivity].
    destruct (alookup k0 (store s)); [apply FL_same; reflexivity|apply FL_refl].
  - destruct (shut s); [apply FL_refl|]. apply (Hr1 k0 (fun v => if v =? -1 then [5] else [5; v])).
  - destruct (shut s); [apply FL_refl|]. apply (Hr1 k0 (fun v => if v =? -1 then [5] else [5; v])).
  - destruct (shut s); [apply FL_refl|]. apply (Hr1 k0 (fun v => if v =? -1 then [5] else [5; mapped v])).
  - destruct (shut s); [apply FL_refl|]. apply (Hr1 k0 (fun v => if v =? -1 then [5] else [5; mapped v])).
  - destruct (shut s); [apply FL_refl|]. apply (Hrm ks (fun vs => 5 :: vs)).
  - destruct (shut s); [apply FL_refl|]. apply (Hrm ks (fun vs => 5 :: vs)).
  - destruct (shut s); [apply FL_refl|]. apply (Hrm ks (fun vs => 5 :: map mapped vs)).
  - apply FL_refl.
  - apply FL_refl.
  - destruct (shut s); [apply FL_refl|]. eapply FL_trans; [|apply shutdown_cmd_FL]. apply FL_same; reflexivity.
Qed.

Lemma unparked_send_FL : forall cfg tid c s, alookup tid (blocked s) = Some (KSend c) ->
  FL s (fst (do_send cfg tid c (set_blocked s (aremove tid (blocked s))))).
Proof.
  intros cfg tid c s Hl. apply do_send_FL; [cbn; lia|apply pending_unpark_sub|].
  intros id Hid. left. unfold pids. apply in_put_ids. exists c. split; [|exact Hid].
  rewrite (pending_of s _ _ eq_refl eq_refl). apply in_or_app. right.
  apply (bcmds_found_in tid (KSend c) (blocked s) c Hl). left. reflexivity.
Qed.

Lemma unpark_FL : forall tid s, FL s (set_blocked s (aremove tid (blocked s))).
Proof. intros tid s. apply FL_shrink; [reflexivity|apply pending_unpark_sub]. Qed.

Lemma resume_FL : forall cfg tid s, FL s (fst (resume cfg tid s)).
Proof.
  intros cfg tid s. unfold resume.
  destruct (alookup tid (blocked s)) as [k|] eqn:Hl; [|apply FL_refl]. cbv zeta.
  destruct k as [c| |].
  - destruct (worker _); [destruct (_ <? c_queue cfg); [|apply FL_refl]|..]; apply unparked_send_FL; exact Hl.
  - destruct (worker _); [destruct (_ <? c_queue cfg); [|apply FL_refl]|..];
      (eapply FL_trans; [apply (unpark_FL tid s)|apply shutdown_cmd_FL]).
  - destruct (consumer _); [destruct (_ <? chan_capacity); [|apply FL_refl]|..];
      (eapply FL_trans; [apply (unpark_FL tid s)|apply shutdown_chan_FL]).
Qed.

(** the worker: the head leaves the queue; nothing else about ids changes *)
Lemma FL_pop : forall s c a q s', queue s = (c, a) :: q -> queue s' = q -> blocked s' = blocked s -> next_id s' = next_id s -> FL s s'.
Proof.
  intros s c a q s' Hq Hq' Hb Hn. apply FL_shrink; [exact Hn|]. intros c' H.
  rewrite (pending_of s' _ _ Hq' Hb) in H. rewrite (pending_of s _ _ Hq eq_refl). cbn [map fst app]. right. exact H.
Qed.

Lemma worker_step_FL : forall cfg orc s, FL s (fst (worker_step cfg orc s)).
Proof.
  intros cfg orc s. unfold worker_step.
  destruct (worker s); try apply FL_refl.
  destruct (queue s) as [|[c a] q] eqn:Hq; [apply FL_refl|]. cbv zeta.
  assert (H0 : FL s (set_queue s q)) by (apply (FL_pop s c a q); [exact Hq|reflexivity|reflexivity|reflexivity]).
  assert (Hadm : forall k id h w r s1 vs, admission cfg orc k id h w (set_queue s q) = (r, s1, vs) ->
                 forall s2, next_id s2 = next_id s1 -> queue s2 = queue s1 -> blocked s2 = blocked s1 -> FL s s2).
  { intros k id h w r s1 vs E s2 A B C. pose proof (admission_frame _ _ _ _ _ _ _ _ _ _ E) as (_ & Fq & Fb & Fn & _).
    eapply FL_trans; [exact H0|]. apply FL_same; congruence. }
  destruct c as [k v id h w|k v id h w ttl|k|id w|].
  - destruct (amem k _); [eapply FL_trans; [exact H0|apply FL_same; reflexivity]|].
    destruct (admission cfg orc k id h w (set_queue s q)) as [[r s1] vs] eqn:E.
    destruct r as [[| |rj|]|site|why]; cbn [fst]; try (eapply Hadm; [exact E|reflexivity|reflexivity|reflexivity]). apply FL_refl.
  - destruct (amem k _); [eapply FL_trans; [exact H0|apply FL_same; reflexivity]|].
    destruct (admission cfg orc k id h w (set_queue s q)) as [[r s1] vs] eqn:E.
    destruct r as [[| |rj|]|site|why]; cbn [fst]; try (eapply Hadm; [exact E|reflexivity|reflexivity|reflexivity]); try apply FL_refl.
    destruct (calc_expiry (now s1) ttl); cbn [fst]; (eapply Hadm; [exact E|reflexivity|reflexivity|reflexivity]).
  - destruct (alookup k (store (set_queue s q))) as [e|]; [|eapply FL_trans; [exact H0|apply FL_same; reflexivity]].
    pose proof (weights_delete_frame cfg (e_id e) false (store_delete k (set_queue s q))) as Hf.
    pose proof (store_delete_frame k (set_queue s q)) as (_ & Gq & Gb & Gn & _).
    destruct (weights_delete cfg (e_id e) false (store_delete k (set_queue s q))) as [s2|site s2|why]; cbn [fst].
    + destruct Hf as (_ & Fq & Fb & Fn & _). eapply FL_trans; [exact H0|].
      destruct (e_exp e); apply FL_same; sred; congruence.
    + destruct Hf as (_ & Fq & Fb & Fn & _). eapply FL_trans; [exact H0|]. apply FL_same; sred; congruence.
    + exact H0.
  - pose proof (weights_update_frame cfg id w (set_queue s q)) as Hf.
    destruct (weights_update cfg id w (set_queue s q)) as [s1|site s1|why]; cbn [fst].
    + destruct Hf as (_ & Fq & Fb & Fn & _). eapply FL_trans; [exact H0|]. apply FL_same; sred; congruence.
    + destruct Hf as (_ & Fq & Fb & Fn & _). eapply FL_trans; [exact H0|]. apply FL_same; sred; congruence.
    + exact H0.
  - cbn [fst]. pose proof (drain_queue_frame q (set_queue s q)) as (_ & _ & _ & _ & _ & Fn & Fq & Fb & _).
    apply FL_shrink; [sred; congruence|]. intros c' H.
    rewrite (pending_of _ _ _ eq_refl eq_refl) in H. sred. cbn [map app] in H. rewrite Fb in H. sred.
    rewrite (pending_of s _ _ eq_refl eq_refl). apply in_or_app. right. exact H.
Qed.

Lemma sweep_FL : forall cfg s, FL s (fst (sweep cfg s)).
Proof.
  intros cfg s. unfold sweep. destruct (sweeper s); try apply FL_refl. cbv zeta.
  match goal with |- context [sweep_entries ?c ?n ?es ?s1] =>
    pose proof (sweep_entries_frame c n es s1) as Hf; destruct (sweep_entries c n es s1) as [s2|site s2|why] end; cbn [fst].
  - destruct Hf as (_ & Fq & Fb & Fn & _). destruct (sweeper_run s2); apply FL_same; sred; congruence.
  - destruct Hf as (_ & Fq & Fb & Fn & _). apply FL_same; sred; congruence.
  - apply FL_refl.
Qed.

Lemma drain_FL : forall cfg bl s, FL s (fst (drain cfg bl s)).
Proof.
  intros cfg bl s. unfold drain. destruct (consumer s); try apply FL_refl.
  destruct (chan s) as [|[hs|] rest]; try apply FL_refl; [|apply FL_same; reflexivity].
  destruct (apply_batch (lfu s) hs bl) as [[l'| |] [|b t]]; cbn [fst]; try apply FL_refl; try (apply FL_same; reflexivity).
  destruct (consumer_run _); apply FL_same; reflexivity.
Qed.

Lemma step_FL : forall cfg s ev, FL s (fst (step cfg s ev)).
Proof.
  intros cfg s ev. destruct ev as [tid r idxs|tid|orc| |bl|dt|a]; cbn [step].
  - apply call_FL.
  - apply resume_FL.
  - apply worker_step_FL.
  - apply sweep_FL.
  - apply drain_FL.
  - apply FL_same; reflexivity.
  - apply FL_refl.
Qed.

Lemma upsert_half1_FL : forall cfg k v w ttl rm s,
  match upsert_half1 cfg k v w ttl rm s with inl (s', _) => FL s s' | inr (s', _) => FL s s' end.
Proof.
  intros cfg k v w ttl rm s. unfold upsert_half1.
  destruct (alookup k (store s)); [|apply FL_refl]. cbv zeta.
  destruct rm; [apply FL_same; reflexivity|].
  destruct ttl as [t|]; [destruct (calc_expiry (now s) t)|]; first [apply FL_refl|apply FL_same; reflexivity].
Qed.

Lemma upsert_half2_FL : forall cfg tid u s, FL s (fst (upsert_half2 cfg tid u s)).
Proof.
  intros cfg tid u s. unfold upsert_half2. cbv zeta.
  destruct (u_resp u) as [[[id old] new_exp]|].
  - destruct (type_of_expiry_update old new_exp);
      repeat (match goal with
              | |- FL _ (fst (match ?x with _ => _ end)) => destruct x eqn:?
              | |- FL _ (fst (if ?b then _ else _)) => destruct b eqn:?
              end); cbn [fst];
      first [ apply FL_refl
            | solve [apply FL_same; reflexivity]
            | match goal with |- FL ?s (fst (do_send ?c ?t ?cm ?s0)) =>
                apply (FL_trans s s0); [apply FL_same; reflexivity|apply do_send_noput_FL; reflexivity] end ].
  - destruct (u_v u) as [val|]; [|apply FL_refl].
    destruct (requested_weight cfg (u_k u) (Some val) (u_w u) (u_ttl u)) as [wt|]; [|apply FL_refl].
    destruct (wt <=? 0); [apply FL_refl|].
    destruct (u_ttl u); apply send_new_put_FL; reflexivity.
Qed.

Lemma worker_half1_FL : forall cfg orc s,
  match worker_half1 cfg orc s with inl (s', _) => FL s s' | inr (s', _) => FL s s' end.
Proof.
  intros cfg orc s. unfold worker_half1.
  pose proof (worker_step_FL cfg orc s) as Hws.
  destruct (worker_step cfg orc s) as [sw rw] eqn:Ew. cbn [fst] in Hws.
  destruct (worker s) eqn:Hwk; try exact Hws.
  destruct (queue s) as [|[c a] q] eqn:Hq; [exact Hws|].
  destruct c as [k v id h w|k v id h w ttl|k|id w|]; try exact Hws.
  cbv zeta.
  destruct (amem k (store (set_queue s q))); [exact Hws|].
  destruct (admission cfg orc k id h w (set_queue s q)) as [[r s1] vs] eqn:E.
  pose proof (admission_frame _ _ _ _ _ _ _ _ _ _ E) as (_ & Fq & Fb & Fn & _).
  destruct r as [[| |rj|]|site|why]; try exact Hws.
  destruct (calc_expiry (now s1) ttl); [|exact Hws].
  apply (FL_pop s (CPutTTL k v id h w ttl) a q); [exact Hq|sred; congruence|sred; congruence|sred; congruence].
Qed.

Lemma wstep_FL : forall cfg ws ev, FL (base ws) (base (fst (wstep cfg ws ev))).
Proof.
  intros cfg ws ev. destruct ev as [e|tid k v w ttl rm|tid|orc|]; cbn [wstep].
  - match goal with |- context [if ?b then _ else _] => destruct b end; [|apply FL_refl].
    pose proof (step_FL cfg (base ws) e) as H. destruct (step cfg (base ws) e) as [s' ret]. exact H.
  - destruct (_ || _); [apply FL_refl|]. destruct (shut (base ws)); [apply FL_refl|].
    pose proof (upsert_half1_FL cfg k v w ttl rm (base ws)) as H.
    destruct (upsert_half1 cfg k v w ttl rm (base ws)) as [[s' u]|[s' ret]]; exact H.
  - destruct (alookup tid (ups ws)) as [u|]; [|apply FL_refl].
    pose proof (upsert_half2_FL cfg tid u (base ws)) as H.
    destruct (upsert_half2 cfg tid u (base ws)) as [s' ret]. exact H.
  - destruct (wpending ws); [apply FL_refl|].
    pose proof (worker_half1_FL cfg orc (base ws)) as H.
    destruct (worker_half1 cfg orc (base ws)) as [[s' p]|[s' ret]]; exact H.
  - destruct (wpending ws) as [p|]; [|apply FL_refl]. unfold worker_half2. cbn [fst base]. apply FL_same; reflexivity.
Qed.

Lemma shutdown_stage_FL : forall cfg ms tid n, FL (mbase ms) (mbase (fst (shutdown_stage cfg ms tid n))).
Proof.
  intros cfg ms tid n. unfold shutdown_stage. cbv zeta.
  assert (Hpark : forall k, cont_cmds k = [] -> FL (mbase ms) (set_blocked (mbase ms) (aset tid k (blocked (mbase ms))))).
  { intros k Hk. apply FL_shrink; [reflexivity|]. intros c' H. apply pending_park_sub in H. rewrite Hk in H.
    destruct H as [[]|H]; exact H. }
  destruct (n =? 0).
  { destruct (worker (mbase ms)); try apply FL_refl.
    destruct (_ <? c_queue cfg); cbn [fst]; [|apply (Hpark KShutdownCmd); reflexivity].
    apply (FL_add (mbase ms) _ CShutdown); [cbn; lia| |intros id H; discriminate].
    intros c' H. rewrite (pending_of _ _ _ eq_refl eq_refl) in H. sred. cbn [mbase set_cp win with_base base] in H. sred.
    rewrite map_fst_app_one in H.
    rewrite (pending_of (mbase ms) _ _ eq_refl eq_refl). apply in_app_or in H. destruct H as [H|H].
    + apply in_app_or in H. destruct H as [H|[H|[]]]; [right; apply in_or_app; left; exact H|left; symmetry; exact H].
    + right. apply in_or_app. right. exact H. }
  destruct (n =? 1).
  { destruct (consumer (mbase ms)); try (apply FL_same; reflexivity).
    destruct (_ <? chan_capacity); cbn [fst]; [apply FL_same; reflexivity|apply (Hpark KShutdownChan); reflexivity]. }
  repeat match goal with |- context [if ?b then _ else _] => destruct b end; apply FL_same; reflexivity.
Qed.

(* STATEMENT (ids only flow forward, every micro step, from any state): the id counter never decreases, and every put id that
   is pending after the step was pending before it or has just been drawn - so an id below the counter that is not pending
   (an id that has been used) never becomes pending again *)
Lemma micro_ids_flow_all : forall cfg ms ev, FL (mbase ms) (mbase (fst (mstep cfg ms ev))).
Proof.
  intros cfg ms ev. destruct ev as [e|tid r idxs|tid idxs|orc|]; cbn [mstep].
  - destruct (mwin_enabled ms e); [|apply FL_refl].
    pose proof (wstep_FL cfg (win ms) e) as H. destruct (wstep cfg (win ms) e) as [w' ret]. exact H.
  - unfold menter. destruct (negb (caller_free ms tid)); [apply FL_refl|]. cbv zeta.
    destruct (shut (mbase ms) || negb (micro_request r) || early_panic cfg r).
    + pose proof (call_FL cfg tid r idxs (mbase ms)) as H. destruct (call cfg tid r idxs (mbase ms)) as [s' ret]. exact H.
    + destruct r; cbn [fst]; first [apply FL_refl|apply FL_same; reflexivity].
  - unfold mstepc. cbv zeta. destruct (alookup tid (cps ms)) as [p|] eqn:Hp; [|apply FL_refl].
    destruct p as [r|k v w ttl| |h obs|n].
    + destruct r; try apply FL_refl;
        try (unfold put_check; cbv zeta; repeat match goal with |- context [if ?b then _ else _] => destruct b end; apply FL_refl);
        try (unfold read_lookup; cbv zeta; destruct (lookup_alive _ _); apply FL_same; reflexivity).
      * pose proof (upsert_half1_FL cfg k v w ttl rm (mbase ms)) as H.
        destruct (upsert_half1 cfg k v w ttl rm (mbase ms)) as [[s' u]|[s' ret]]; exact H.
      * cbn [fst]. unfold park.
        assert (Hsm : FL (mbase ms) (soft_mark k (mbase ms))).
        { unfold soft_mark. destruct (alookup k (store (mbase ms))); [apply FL_same; reflexivity|apply FL_refl]. }
        eapply FL_trans; [exact Hsm|].
        apply (FL_add _ _ (CDelete k)); [cbn; lia| |intros id H; discriminate].
        intros c' H. apply pending_park_sub in H. destruct H as [[H|[]]|H]; [left; symmetry; exact H|right; exact H].
      * unfold read_body. destruct (read_one cfg k idxs (mbase ms)) as [[[v0 s'] [|i l]]|] eqn:Hr; try apply FL_refl.
        apply FL_frameR. eapply InvCalls.read_one_frame. exact Hr.
      * unfold read_body. destruct (read_one cfg k idxs (mbase ms)) as [[[v0 s'] [|i l]]|] eqn:Hr; try apply FL_refl.
        apply FL_frameR. eapply InvCalls.read_one_frame. exact Hr.
    + cbn [fst]. unfold park.
      set (c := match ttl with None => CPut k v (next_id (mbase ms)) (key_hash (c_hash cfg) k) w
                             | Some t => CPutTTL k v (next_id (mbase ms)) (key_hash (c_hash cfg) k) w t end).
      apply (FL_add (mbase ms) _ c); [cbn; lia| |].
      * intros c' H. apply pending_park_sub in H. destruct H as [[H|[]]|H]; [left; symmetry; exact H|right; exact H].
      * intros id H. right. subst c. destruct ttl; cbn in H; injection H as <-; lia.
    + destruct (alookup tid (blocked (mbase ms))) as [[c| |]|] eqn:Hb; try apply FL_refl.
      pose proof (unparked_send_FL cfg tid c (mbase ms) Hb) as H.
      destruct (do_send cfg tid c (set_blocked (mbase ms) (aremove tid (blocked (mbase ms))))) as [s' ret]. exact H.
    + destruct idxs as [|i [|j l]]; try apply FL_refl.
      destruct (pool_add cfg i h (mbase ms)) as [s'|] eqn:Hpa; [|apply FL_refl].
      apply FL_frameR. eapply InvCalls.pool_add_frame. exact Hpa.
    + apply shutdown_stage_FL.
  - unfold mworker1. cbv zeta. destruct (wdel ms); [apply FL_refl|]. destruct (wpending (win ms)); [apply FL_refl|].
    assert (Hfall : FL (mbase ms) (mbase (fst (let '(w', ret) := wstep cfg (win ms) (WPut1 orc) in
                                               ({| win := w'; cps := cps ms; wdel := None |}, ret))))).
    { pose proof (wstep_FL cfg (win ms) (WPut1 orc)) as H. destruct (wstep cfg (win ms) (WPut1 orc)) as [w' ret]. exact H. }
    destruct (worker (mbase ms)) eqn:Hwk; try exact Hfall.
    destruct (queue (mbase ms)) as [|[c a] q] eqn:Hq; [exact Hfall|].
    assert (H0 : FL (mbase ms) (set_queue (mbase ms) q)) by (apply (FL_pop _ c a q); [exact Hq|reflexivity|reflexivity|reflexivity]).
    assert (Hput : forall k v id h w ttl, FL (mbase ms) (mbase (fst (mput1 cfg ms orc k v id h w ttl a q)))).
    { intros k v id h w ttl. unfold mput1. cbv zeta.
      destruct (amem k _); [eapply FL_trans; [exact H0|apply FL_same; reflexivity]|].
      destruct (admission cfg orc k id h w (set_queue (mbase ms) q)) as [[r s1] vs] eqn:E.
      pose proof (admission_frame _ _ _ _ _ _ _ _ _ _ E) as (_ & Fq & Fb & Fn & _).
      destruct r as [[| |rj|]|site|why]; cbn [fst]; try apply FL_refl;
        (eapply FL_trans; [exact H0|]; apply FL_same; cbn [mbase with_mbase win with_base base]; unfold set_ack; sred; congruence). }
    destruct c as [k v id h w|k v id h w ttl|k|id w|]; try exact Hfall; try apply Hput.
    destruct (alookup k (store (set_queue (mbase ms) q))) as [e|]; cbn [fst].
    + eapply FL_trans; [exact H0|]. apply FL_frameA. apply (store_delete_frame k (set_queue (mbase ms) q)).
    + eapply FL_trans; [exact H0|]. apply FL_same; reflexivity.
  - unfold mworker2. cbv zeta. destruct (wdel ms) as [[a id exp|a id exp|a k v id ttl obs]|].
    + pose proof (weights_delete_frame cfg id false (mbase ms)) as Hf.
      destruct (weights_delete cfg id false (mbase ms)) as [s2|site s2|why]; cbn [fst]; try apply FL_refl;
        destruct Hf as (_ & Fq & Fb & Fn & _); apply FL_same; cbn [mbase win with_base base]; sred; congruence.
    + cbn [fst]. destruct exp; apply FL_same; reflexivity.
    + destruct ttl as [t|]; [destruct (calc_expiry (now (mbase ms)) t)|]; apply FL_same; reflexivity.
    + pose proof (wstep_FL cfg (win ms) WPut2) as H. destruct (wstep cfg (win ms) WPut2) as [w' ret]. exact H.
Qed.
