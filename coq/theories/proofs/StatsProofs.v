(** Access accounting (C15) and statistics (C16) on the phase-contiguous model. *)
From CacheD.proofs Require Import Defs ApiProofs.
From Coq Require Import ZifyBool Setoid Morphisms.

(** * Arithmetic modulo 2^64 *)

Definition eqm (x y : Z) : Prop := x mod two64 = y mod two64.

Lemma two64_nz : two64 <> 0.
Proof. unfold two64; lia. Qed.

#[local] Instance eqm_equiv : Equivalence eqm.
Proof.
  split; unfold eqm.
  - intros x; reflexivity.
  - intros x y H; symmetry; exact H.
  - intros x y z H1 H2; congruence.
Qed.

#[local] Instance eqm_add_proper : Proper (eqm ==> eqm ==> eqm) Z.add.
Proof.
  intros a b H c d H2. unfold eqm in *.
  rewrite (Z.add_mod a c), (Z.add_mod b d) by apply two64_nz. rewrite H, H2. reflexivity.
Qed.

#[local] Instance eqm_sub_proper : Proper (eqm ==> eqm ==> eqm) Z.sub.
Proof.
  intros a b H c d H2. unfold eqm in *.
  rewrite (Zminus_mod a c), (Zminus_mod b d). rewrite H, H2. reflexivity.
Qed.

Lemma eqm_wrap : forall x, eqm (wrap_u64 x) x.
Proof. intros x. unfold eqm, wrap_u64. apply Z.mod_mod. apply two64_nz. Qed.

Lemma eqm_as_u64 : forall x, eqm (i64_as_u64 x) x.
Proof. intros x. unfold eqm, i64_as_u64. apply Z.mod_mod. apply two64_nz. Qed.

Lemma eqm_wrap_i64 : forall x, eqm (wrap_i64 x) x.
Proof.
  intros x. unfold eqm, wrap_i64. rewrite Zminus_mod_idemp_l. f_equal. lia.
Qed.

(** the work horse: a congruence follows from a known one by linear arithmetic *)
Lemma eqm_shift : forall a b x y, eqm a b -> x - y = a - b -> eqm x y.
Proof.
  intros a b x y H E. replace x with (y + (a - b)) by lia. rewrite H.
  replace (y + (b - b)) with y by lia. reflexivity.
Qed.

Lemma eqm_of_eq : forall x y, x = y -> eqm x y.
Proof. intros x y ->. reflexivity. Qed.

Lemma add_i64_eqm : forall cfg a b u, add_i64 cfg a b = Some u -> eqm u (a + b).
Proof.
  intros cfg a b u H. unfold add_i64 in H.
  destruct (in_i64 (a + b)); [inversion H; subst; reflexivity|].
  destruct (c_debug cfg); [discriminate|]. inversion H; subst. apply eqm_wrap_i64.
Qed.

(** * Lists *)

Lemma zsum_set_nth : forall (A : Type) (f : A -> Z) (l : list A) i b b',
  nth_error l i = Some b -> zsum (map f (set_nth i b' l)) = zsum (map f l) - f b + f b'.
Proof.
  intros A f l. induction l as [|a t IH]; intros i b b' H.
  - destruct i; discriminate.
  - destruct i as [|i]; cbn [nth_error] in H.
    + inversion H; subst. cbn [set_nth map zsum]. lia.
    + cbn [set_nth map zsum]. rewrite (IH _ _ b' H). lia.
Qed.

Lemma alookup_some_in : forall (A : Type) k (v : A) l, alookup k l = Some v -> In k (map fst l).
Proof.
  intros A k v l. induction l as [|[k' v'] t IH]; cbn [alookup map fst]; [discriminate|].
  destruct (k =? k') eqn:E; intros H.
  - left. lia.
  - right. apply IH; exact H.
Qed.

Lemma alookup_notin_none : forall (A : Type) k (l : list (Z * A)), ~ In k (map fst l) -> alookup k l = None.
Proof.
  intros A k l Hn. destruct (alookup k l) as [v|] eqn:E; [|reflexivity].
  exfalso. apply Hn. eapply alookup_some_in; exact E.
Qed.

Lemma aremove_absent : forall (A : Type) k (l : list (Z * A)), alookup k l = None -> aremove k l = l.
Proof.
  intros A k l. induction l as [|[k' v'] t IH]; cbn [alookup aremove]; [reflexivity|].
  destruct (k =? k') eqn:E; [discriminate|]. intros H. rewrite (IH H). reflexivity.
Qed.

Lemma aremove_keys_in : forall (A : Type) k x (l : list (Z * A)),
  In x (map fst (aremove k l)) -> In x (map fst l) /\ x <> k.
Proof.
  intros A k x l. induction l as [|[k' v'] t IH]; cbn [aremove map fst]; [intros []|].
  destruct (k =? k') eqn:E.
  - intros H. destruct (IH H) as (H1 & H2). split; [right; exact H1|exact H2].
  - cbn [map fst In]. intros [H|H].
    + split; [left; exact H|lia].
    + destruct (IH H) as (H1 & H2). split; [right; exact H1|exact H2].
Qed.

Lemma aremove_nodup : forall (A : Type) k (l : list (Z * A)),
  NoDup (map fst l) -> NoDup (map fst (aremove k l)).
Proof.
  intros A k l. induction l as [|[k' v'] t IH]; cbn [aremove map fst]; intros H; [constructor|].
  inversion H as [|x l' Hn Hd]; subst.
  destruct (k =? k') eqn:E; [apply IH; exact Hd|].
  cbn [map fst]. constructor; [|apply IH; exact Hd].
  intros Hin. apply aremove_keys_in in Hin as (Hin & _). contradiction.
Qed.

Lemma aset_nodup : forall (A : Type) k (v : A) l, NoDup (map fst l) -> NoDup (map fst (aset k v l)).
Proof.
  intros A k v l H. unfold aset. cbn [map fst]. constructor; [|apply aremove_nodup; exact H].
  intros Hin. apply aremove_keys_in in Hin as (_ & Hne). congruence.
Qed.

Lemma aremove_length_present : forall (A : Type) k (v : A) l,
  NoDup (map fst l) -> alookup k l = Some v -> S (length (aremove k l)) = length l.
Proof.
  intros A k v l. induction l as [|[k' v'] t IH]; cbn [alookup aremove map fst]; intros Hnd H; [discriminate|].
  inversion Hnd as [|x l' Hn Hd]; subst.
  destruct (k =? k') eqn:E.
  - assert (k = k') by lia. subst k'.
    rewrite aremove_absent by (apply alookup_notin_none; exact Hn). reflexivity.
  - cbn [length]. rewrite (IH Hd H). reflexivity.
Qed.

Lemma aset_length_present : forall (A : Type) k (v v0 : A) l,
  NoDup (map fst l) -> alookup k l = Some v0 -> length (aset k v l) = length l.
Proof.
  intros A k v v0 l Hnd H. unfold aset. cbn [length]. eapply aremove_length_present; eassumption.
Qed.

Lemma aset_length_absent : forall (A : Type) k (v : A) l,
  alookup k l = None -> length (aset k v l) = S (length l).
Proof.
  intros A k v l H. unfold aset. cbn [length]. rewrite aremove_absent by exact H. reflexivity.
Qed.

Lemma run_from_snoc : forall cfg s evs ev,
  run_from cfg s (evs ++ [ev]) = step_state cfg (run_from cfg s evs) ev.
Proof. intros cfg s evs ev. unfold run_from. rewrite fold_left_app. reflexivity. Qed.

(** statistics record projections *)
Ltac stred :=
  sred;
  unfold add_hits, add_misses, add_keys_added, add_keys_deleted, add_keys_updated, add_keys_rejected,
         add_weight_added, add_weight_removed, add_access_added, add_access_dropped in *;
  cbn [s_hits s_misses s_keys_added s_keys_deleted s_keys_updated s_keys_rejected s_weight_added
       s_weight_removed s_access_added s_access_dropped] in *.

(** ** Lifting a relation on states through the eviction loop, admission and the sweeper's loop *)
Section Lift.
  Variable R : state -> state -> Prop.
  Hypothesis R_refl : forall s, R s s.
  Hypothesis R_trans : forall s1 s2 s3, R s1 s2 -> R s2 s3 -> R s1 s3.
  Hypothesis R_wdel : forall cfg id hook s,
    match weights_delete cfg id hook s with Ok s' | Panic _ s' => R s s' | Inadmissible _ => True end.
  Hypothesis R_wadd : forall cfg k id h w s,
    match weights_add cfg k id h w s with Ok s' | Panic _ s' => R s s' | Inadmissible _ => True end.

  Lemma create_space_loop_lift : forall fuel cfg est inc_freq w orders pops sm space s victims r s' vs,
    create_space_loop fuel cfg est inc_freq w orders pops sm space s victims = (r, s', vs) -> R s s'.
  Proof.
    induction fuel as [|fuel IH]; intros cfg est inc_freq w orders pops sm space s victims r s' vs H;
      cbn [create_space_loop] in H.
    - inversion H; subst. apply R_refl.
    - destruct (w <=? space) eqn:E1; [inversion H; subst; apply R_refl|].
      destruct pops as [|p pops']; [inversion H; subst; apply R_refl|].
      destruct (p =? -1) eqn:E2.
      { destruct sm as [|x0 sm0]; [|inversion H; subst; apply R_refl].
        destruct (w <=? c_max cfg - used s); inversion H; subst; apply R_refl. }
      destruct (sample_find p sm) as [x|] eqn:E3; [|inversion H; subst; apply R_refl].
      destruct (negb (is_max x sm)) eqn:E4; [inversion H; subst; apply R_refl|].
      destruct (inc_freq <? sk_freq x) eqn:E5; [inversion H; subst; apply R_refl|].
      pose proof (R_wdel cfg p true s) as Hwd.
      destruct (weights_delete cfg p true s) as [s1|site s1|why] eqn:E6.
      + destruct orders as [|order orders']; [inversion H; subst; exact Hwd|].
        destruct (sample_fill est (weights s1) order (sample_remove p sm)) as [sm'|] eqn:E7;
          [|inversion H; subst; exact Hwd].
        eapply R_trans; [exact Hwd|]. eapply IH; exact H.
      + inversion H; subst; exact Hwd.
      + inversion H; subst; apply R_refl.
  Qed.

  Lemma admission_lift : forall cfg orc k id h w s r s' vs,
    admission cfg orc k id h w s = (r, s', vs) -> R s s'.
  Proof.
    intros cfg orc k id h w s r s' vs H. unfold admission in H.
    destruct (c_max cfg <? w) eqn:E0; [inversion H; subst; apply R_refl|].
    destruct (w <=? c_max cfg - used s) eqn:E1.
    { pose proof (R_wadd cfg k id h w s) as Hwa.
      destruct (weights_add cfg k id h w s) as [s1|site s1|why] eqn:E2; inversion H; subst;
        first [exact Hwa|apply R_refl]. }
    destruct (negb (bloom_admissible _ _)) eqn:E2; [inversion H; subst; apply R_refl|].
    destruct (est_panics (lfu s)) eqn:E3; [inversion H; subst; apply R_refl|].
    destruct (o_orders orc) as [|order0 orders] eqn:E4; [inversion H; subst; apply R_refl|].
    destruct (negb (Nat.leb (length order0) sample_size)) eqn:E5; [inversion H; subst; apply R_refl|].
    destruct (sample_fill _ (weights s) order0 []) as [sm0|] eqn:E6; [|inversion H; subst; apply R_refl].
    destruct (create_space_loop _ cfg _ _ w orders (o_pops orc) sm0 _ s []) as [[sr s1] vs1] eqn:E7.
    assert (Hcs : R s s1) by (eapply create_space_loop_lift; exact E7).
    destruct sr as [| |site|why]; try (inversion H; subst; exact Hcs).
    pose proof (R_wadd cfg k id h w s1) as Hwa.
    destruct (weights_add cfg k id h w s1) as [s2|site s2|why] eqn:E8; inversion H; subst;
      first [eapply R_trans; [exact Hcs|exact Hwa]|exact Hcs].
  Qed.

  Lemma sweep_entries_lift : forall cfg now_ es s,
    match sweep_entries cfg now_ es s with Ok s' | Panic _ s' => R s s' | Inadmissible _ => True end.
  Proof.
    intros cfg now_ es. induction es as [|[id ex] t IH]; intros s; cbn [sweep_entries].
    - apply R_refl.
    - destruct (ex <? now_); [|apply IH].
      pose proof (R_wdel cfg id true s) as Hwd.
      destruct (weights_delete cfg id true s) as [s1|site s1|why]; [|exact Hwd|exact I].
      specialize (IH s1).
      destruct (sweep_entries cfg now_ t s1); try exact I; eapply R_trans; eassumption.
  Qed.
End Lift.

Section Stats.
(** proved in InvProofs.v; discharged in proofs/Closing.v.
    NOTE: none of the proofs in this file ends up using these four hypotheses (the balances of C16 are invariants
    of every step from every state, carried together with [NoDup] of the store's keys), so after [End Stats] the
    lemmas do not take them as premises. *)
Hypothesis run_inv : forall cfg evs, wf_config cfg -> Forall valid_event evs ->
  worker (run_from cfg (init cfg) evs) <> Dead -> Inv cfg (run_from cfg (init cfg) evs).
Hypothesis step_inv : forall cfg s ev, wf_config cfg -> Inv cfg s -> valid_event ev ->
  worker (step_state cfg s ev) <> Dead -> Inv cfg (step_state cfg s ev).
Hypothesis init_inv : forall cfg, wf_config cfg -> Inv cfg (init cfg).
Hypothesis dead_stays : forall cfg s ev, worker s = Dead -> worker (step_state cfg s ev) = Dead.

(** * C15 *)
Definition pool_total (s : state) : Z := zsum (map (fun b => Z.of_nat (length b)) (pool s)).
Definition chan_total (s : state) : Z :=
  zsum (map (fun it => match it with Batch hs => Z.of_nat (length hs) | ChanShutdown => 0 end) (chan s)).

(** every hit is still buffered, or was handed over (AccessAdded), or was dropped (AccessDropped) *)
Definition hits_accounted (s : state) : Prop :=
  (pool_total s + s_access_added (st s) + s_access_dropped (st s)) mod two64 = s_hits (st s) mod two64.

(** (definitions used by the C16 statements below; moved up so that the helper lemmas can mention them) *)
Definition cmd_put_key_of (c : cmd) : option Z :=
  match c with CPut k _ _ _ _ => Some k | CPutTTL k _ _ _ _ _ => Some k | _ => None end.

(** number of key lookups an event performs *)
Definition lookups_of (s : state) (ev : event) : Z :=
  match ev with
  | ECall tid r _ =>
      if amem tid (blocked s) || shut s then 0 else
      match r with
      | RGet _ | RGetRef _ | RMapGet _ | RMapGetRef _ => 1
      | RMultiGet ks | RMultiIter ks | RMultiMapIter ks => Z.of_nat (length ks)
      | _ => 0
      end
  | _ => 0
  end.

(* STATEMENT: handing a full buffer over is all-or-nothing: the whole batch is queued for the consumer and counted as
   added, or the whole batch is counted as dropped; nothing else changes *)
Lemma accept_batch_spec : forall hs s,
  let n := Z.of_nat (length hs) in
  let s' := accept_batch hs s in
  (chan s' = chan s ++ [Batch hs] /\ st s' = add_access_added (st s) n /\ consumer s = Alive /\
     Z.of_nat (length (chan s)) < chan_capacity) \/
  (chan s' = chan s /\ st s' = add_access_dropped (st s) n /\
     (consumer s <> Alive \/ chan_capacity <= Z.of_nat (length (chan s)))).
Proof.
  intros hs s n s'. subst n s'. unfold accept_batch.
  destruct (consumer s) eqn:Ec.
  - destruct (Z.of_nat (length (chan s)) <? chan_capacity) eqn:El.
    + left. sred. repeat split. lia.
    + right. sred. repeat split. right. lia.
  - right. sred. repeat split. left. discriminate.
  - right. sred. repeat split. left. discriminate.
  - right. sred. repeat split. left. discriminate.
Qed.

(** ** Frames for the read-side statistics *)

Definition acct (s : state) : Z := pool_total s + s_access_added (st s) + s_access_dropped (st s).

Lemma hits_accounted_eqm : forall s, hits_accounted s <-> eqm (acct s - s_hits (st s)) 0.
Proof.
  intros s. unfold hits_accounted. fold (acct s). fold (eqm (acct s) (s_hits (st s))). split; intros H.
  - eapply eqm_shift; [exact H|lia].
  - eapply eqm_shift; [exact H|lia].
Qed.

(** only [KSend] continuations are parked *)
Definition blocked_sends (s : state) : Prop :=
  forall tid k, alookup tid (blocked s) = Some k -> exists c, k = KSend c.

(** what the worker's and the sweeper's helpers leave alone *)
Definition sframe (s s' : state) : Prop :=
  pool s' = pool s /\ shut s' = shut s /\ blocked s' = blocked s /\
  s_hits (st s') = s_hits (st s) /\ s_misses (st s') = s_misses (st s) /\
  s_access_added (st s') = s_access_added (st s) /\ s_access_dropped (st s') = s_access_dropped (st s) /\
  s_keys_rejected (st s') = s_keys_rejected (st s).

(** what every event except a read or a shutdown leaves alone *)
Definition qframe (s s' : state) : Prop :=
  pool s' = pool s /\ shut s' = shut s /\ (blocked_sends s -> blocked_sends s') /\
  s_hits (st s') = s_hits (st s) /\ s_misses (st s') = s_misses (st s) /\
  s_access_added (st s') = s_access_added (st s) /\ s_access_dropped (st s') = s_access_dropped (st s).

Ltac frame_fin :=
  unfold sframe, qframe in *; stred;
  repeat match goal with H : _ /\ _ |- _ => destruct H end;
  repeat split; try congruence; try assumption.

Lemma sframe_refl : forall s, sframe s s.
Proof. intros s. frame_fin. Qed.

Lemma sframe_trans : forall s1 s2 s3, sframe s1 s2 -> sframe s2 s3 -> sframe s1 s3.
Proof. intros s1 s2 s3 H1 H2. frame_fin. Qed.

Lemma sframe_qframe : forall s s', sframe s s' -> qframe s s'.
Proof.
  intros s s' H. unfold sframe, qframe, blocked_sends in *.
  destruct H as (H1 & H2 & H3 & H4 & H5 & H6 & H7 & H8). rewrite H3. repeat split; try assumption. intros H; exact H.
Qed.

Lemma qframe_refl : forall s, qframe s s.
Proof. intros s. apply sframe_qframe, sframe_refl. Qed.

Lemma qframe_trans : forall s1 s2 s3, qframe s1 s2 -> qframe s2 s3 -> qframe s1 s3.
Proof.
  intros s1 s2 s3 (A1 & A2 & A3 & A4 & A5 & A6 & A7) (B1 & B2 & B3 & B4 & B5 & B6 & B7).
  unfold qframe. repeat split; try congruence. intros H. apply B3, A3, H.
Qed.

Lemma store_delete_sframe : forall k s, sframe s (store_delete k s).
Proof.
  intros k s. unfold store_delete. destruct (alookup k (store s)); frame_fin.
Qed.

Lemma weights_delete_sframe : forall cfg id hook s,
  match weights_delete cfg id hook s with
  | Ok s' | Panic _ s' => sframe s s'
  | Inadmissible _ => True
  end.
Proof.
  intros cfg id hook s. unfold weights_delete.
  destruct (alookup id (weights s)) as [wk|] eqn:E; [|apply sframe_refl].
  destruct (add_i64 cfg _ _) as [u|] eqn:Ea; [|frame_fin].
  destruct hook; [|frame_fin].
  match goal with |- context [store_delete ?k ?s2] => pose proof (store_delete_sframe k s2) as F end.
  frame_fin.
Qed.

Lemma weights_add_sframe : forall cfg k id h w s,
  match weights_add cfg k id h w s with
  | Ok s' | Panic _ s' => sframe s s'
  | Inadmissible _ => True
  end.
Proof.
  intros cfg k id h w s. unfold weights_add. destruct (add_i64 cfg _ _) as [u|] eqn:Ea; frame_fin.
Qed.

Lemma weights_update_sframe : forall cfg id w s,
  match weights_update cfg id w s with
  | Ok s' | Panic _ s' => sframe s s'
  | Inadmissible _ => True
  end.
Proof.
  intros cfg id w s. unfold weights_update.
  destruct (alookup id (weights s)) as [wk|] eqn:E; [|apply sframe_refl].
  destruct (add_i64 cfg _ _) as [u|] eqn:Ea; frame_fin.
Qed.

Lemma qframe_intro : forall s s', pool s' = pool s -> shut s' = shut s -> blocked s' = blocked s ->
  s_hits (st s') = s_hits (st s) -> s_misses (st s') = s_misses (st s) ->
  s_access_added (st s') = s_access_added (st s) -> s_access_dropped (st s') = s_access_dropped (st s) ->
  qframe s s'.
Proof.
  intros s s' H1 H2 H3 H4 H5 H6 H7. unfold qframe, blocked_sends. rewrite H3.
  repeat split; try assumption. intros H; exact H.
Qed.

Ltac qfin := apply qframe_intro; unfold sframe in *; stred;
  repeat match goal with H : _ /\ _ |- _ => destruct H end; congruence.

Lemma create_space_loop_sframe : forall fuel cfg est inc_freq w orders pops sm space s victims r s' vs,
  create_space_loop fuel cfg est inc_freq w orders pops sm space s victims = (r, s', vs) -> sframe s s'.
Proof. exact (create_space_loop_lift sframe sframe_refl sframe_trans weights_delete_sframe). Qed.

Lemma admission_sframe : forall cfg orc k id h w s r s' vs,
  admission cfg orc k id h w s = (r, s', vs) -> sframe s s'.
Proof. exact (admission_lift sframe sframe_refl sframe_trans weights_delete_sframe weights_add_sframe). Qed.

Lemma sweep_entries_sframe : forall cfg now_ es s,
  match sweep_entries cfg now_ es s with Ok s' | Panic _ s' => sframe s s' | Inadmissible _ => True end.
Proof. exact (sweep_entries_lift sframe sframe_refl sframe_trans weights_delete_sframe). Qed.

Lemma drain_queue_sframe : forall q s, sframe s (drain_queue q s).
Proof.
  induction q as [|[c a] t IH]; intros s; cbn [drain_queue]; [apply sframe_refl|].
  eapply sframe_trans; [|apply IH]. frame_fin.
Qed.

(** ** Reads *)

Lemma accept_batch_acct : forall hs s,
  let s' := accept_batch hs s in
  pool s' = pool s /\ shut s' = shut s /\ blocked s' = blocked s /\
  s_hits (st s') = s_hits (st s) /\ s_misses (st s') = s_misses (st s) /\
  eqm (s_access_added (st s') + s_access_dropped (st s'))
      (s_access_added (st s) + s_access_dropped (st s) + Z.of_nat (length hs)).
Proof.
  intros hs s s'. subst s'. unfold accept_batch.
  destruct (consumer s); [destruct (_ <? chan_capacity)|..]; stred; repeat split;
    rewrite eqm_wrap; apply eqm_of_eq; lia.
Qed.

Lemma pool_add_acct : forall cfg i h s s', pool_add cfg i h s = Some s' ->
  shut s' = shut s /\ blocked s' = blocked s /\
  s_hits (st s') = s_hits (st s) /\ s_misses (st s') = s_misses (st s) /\ eqm (acct s') (acct s + 1).
Proof.
  intros cfg i h s s' H. unfold pool_add in H.
  destruct ((i <? 0) || (c_pool cfg <=? i)); [discriminate|].
  destruct (nth_error (pool s) (Z.to_nat i)) as [buf|] eqn:En; [|discriminate].
  destruct (c_buffer cfg <=? Z.of_nat (length buf)); inversion H; subst; clear H.
  - pose proof (accept_batch_acct buf s) as (P & Sh & Bl & Hh & Hm & Ha). cbv zeta in *.
    unfold acct, pool_total; sred. rewrite P.
    rewrite (zsum_set_nth _ (fun b => Z.of_nat (length b)) _ _ _ [h] En). cbn [length].
    repeat split; try assumption.
    eapply eqm_shift; [exact Ha|]. lia.
  - unfold acct, pool_total; sred.
    rewrite (zsum_set_nth _ (fun b => Z.of_nat (length b)) _ _ _ (buf ++ [h]) En). rewrite app_length. cbn [length].
    repeat split. apply eqm_of_eq. lia.
Qed.

Lemma read_one_acct : forall cfg k idxs s v s' idxs',
  read_one cfg k idxs s = Some (v, s', idxs') ->
  shut s' = shut s /\ blocked s' = blocked s /\
  eqm (acct s' - s_hits (st s')) (acct s - s_hits (st s)) /\
  eqm (s_hits (st s') + s_misses (st s')) (s_hits (st s) + s_misses (st s) + 1).
Proof.
  intros cfg k idxs s v s' idxs' H. apply read_one_spec in H as (_ & H).
  destruct H as [(_ & _ & -> & _)|(e & i & _ & _ & _ & Hp)].
  - assert (Ha : acct (upd_st add_misses 1 s) = acct s) by reflexivity. rewrite Ha. stred.
    split; [reflexivity|]. split; [reflexivity|]. split; [reflexivity|].
    rewrite eqm_wrap. apply eqm_of_eq. lia.
  - apply pool_add_acct in Hp as (Sh & Bl & Hh & Hm & Ha).
    assert (Ha1 : acct (upd_st add_hits 1 s) = acct s) by reflexivity. rewrite Ha1 in Ha.
    rewrite Hh, Hm, Ha. stred. split; [exact Sh|]. split; [exact Bl|]. split.
    + rewrite eqm_wrap. apply eqm_of_eq. lia.
    + rewrite eqm_wrap. apply eqm_of_eq. lia.
Qed.

Lemma read_many_acct : forall cfg ks idxs s vs s' idxs',
  read_many cfg ks idxs s = Some (vs, s', idxs') ->
  shut s' = shut s /\ blocked s' = blocked s /\
  eqm (acct s' - s_hits (st s')) (acct s - s_hits (st s)) /\
  eqm (s_hits (st s') + s_misses (st s')) (s_hits (st s) + s_misses (st s) + Z.of_nat (length ks)).
Proof.
  intros cfg ks. induction ks as [|k t IH]; intros idxs s vs s' idxs' H; cbn [read_many] in H.
  - inversion H; subst. repeat split; try reflexivity. cbn [length]. apply eqm_of_eq. lia.
  - destruct (read_one cfg k idxs s) as [[[v s1] idxs1]|] eqn:E1; [|discriminate].
    destruct (read_many cfg t idxs1 s1) as [[[vs2 s2] idxs2]|] eqn:E2; [|discriminate].
    inversion H; subst.
    apply read_one_acct in E1 as (A1 & A2 & A3 & A4). apply IH in E2 as (B1 & B2 & B3 & B4).
    split; [congruence|]. split; [congruence|]. split.
    + rewrite B3. exact A3.
    + rewrite B4, A4. cbn [length]. apply eqm_of_eq. lia.
Qed.

(** ** Summary of one step for the read-side statistics *)

Definition sumN (s s' : state) (n : Z) (ret : list Z) : Prop :=
  shut s' = shut s /\ (blocked_sends s -> blocked_sends s') /\
  eqm (acct s' - s_hits (st s')) (acct s - s_hits (st s)) /\
  (eqm (s_hits (st s') + s_misses (st s')) (s_hits (st s) + s_misses (st s) + n) \/ ret = [7]).

Definition sumB (s s' : state) : Prop :=
  (shut s' = true \/ ~ blocked_sends s) /\ (shut s = true -> shut s' = true) /\
  (st s' = stats_zero \/ st s' = st s).

Lemma qframe_sumN : forall s s' ret, qframe s s' -> sumN s s' 0 ret.
Proof.
  intros s s' ret (H1 & H2 & H3 & H4 & H5 & H6 & H7). unfold sumN, acct, pool_total.
  rewrite H1, H4, H5, H6, H7. repeat split; try assumption; try reflexivity.
  left. apply eqm_of_eq. lia.
Qed.

Lemma blocked_sends_eq : forall s s', blocked s' = blocked s -> blocked_sends s -> blocked_sends s'.
Proof. intros s s' Hb H tid0 k0 Hl. rewrite Hb in Hl. eapply H; exact Hl. Qed.

Lemma sumN_bad : forall s n, sumN s s n [7].
Proof.
  intros s n. unfold sumN. split; [reflexivity|]. split; [intros H; exact H|]. split; [reflexivity|].
  right; reflexivity.
Qed.

Lemma blocked_sends_aset : forall s s' tid c,
  blocked s' = aset tid (KSend c) (blocked s) -> blocked_sends s -> blocked_sends s'.
Proof.
  intros s s' tid c Hb H tid0 k0 Hl. rewrite Hb in Hl.
  destruct (Z.eq_dec tid0 tid) as [->|Hne].
  - rewrite alookup_aset_eq in Hl. inversion Hl; subst. eexists; reflexivity.
  - rewrite alookup_aset_neq in Hl by assumption. eapply H; exact Hl.
Qed.

Lemma blocked_sends_aremove : forall s s' tid,
  blocked s' = aremove tid (blocked s) -> blocked_sends s -> blocked_sends s'.
Proof.
  intros s s' tid Hb H tid0 k0 Hl. rewrite Hb in Hl.
  destruct (alookup_aremove_shrink _ tid0 tid (blocked s)) as [E|E]; rewrite E in Hl; [|discriminate].
  eapply H; exact Hl.
Qed.

Lemma do_send_q : forall cfg tid c s s' ret, do_send cfg tid c s = (s', ret) -> qframe s s'.
Proof.
  intros cfg tid c s s' ret H. unfold do_send in H.
  destruct (worker s); [destruct (_ <? c_queue cfg)|..]; inversion H; subst; try qfin.
  unfold qframe; sred. repeat split. apply blocked_sends_aset with (tid := tid) (c := c). reflexivity.
Qed.

Lemma shutdown_chan_sum : forall tid s s' ret, shutdown_chan tid s = (s', ret) ->
  shut s' = shut s /\ (st s' = stats_zero \/ st s' = st s).
Proof.
  intros tid s s' ret H. unfold shutdown_chan in H.
  destruct (consumer s); [destruct (_ <? chan_capacity)|..]; inversion H; subst; sred;
    (split; [reflexivity|auto]).
Qed.

Lemma shutdown_cmd_sum : forall cfg tid s s' ret, shutdown_cmd cfg tid s = (s', ret) ->
  shut s' = shut s /\ (st s' = stats_zero \/ st s' = st s).
Proof.
  intros cfg tid s s' ret H. unfold shutdown_cmd in H.
  destruct (worker s); [destruct (_ <? c_queue cfg)|..];
    try (apply shutdown_chan_sum in H; sred; exact H).
  inversion H; subst; sred. split; [reflexivity|auto].
Qed.

Lemma call_put_q : forall cfg tid k v w ttl s s' ret, call_put cfg tid k v w ttl s = (s', ret) -> qframe s s'.
Proof.
  intros cfg tid k v w ttl s s' ret H. unfold call_put in H.
  destruct (w <=? 0); [inversion H; subst; apply qframe_refl|].
  destruct (amem k (store s)); [inversion H; subst; apply qframe_refl|].
  eapply qframe_trans with (s2 := set_next_id s (next_id s + 1)); [qfin|].
  destruct ttl; eapply do_send_q; exact H.
Qed.

Lemma ups_s2_q : forall cfg k v e new_exp s, qframe s (ups_s2 cfg k v e new_exp s).
Proof.
  intros cfg k v e new_exp s. unfold ups_s2. cbv zeta. destruct (type_of_expiry_update _ _); qfin.
Qed.

Lemma ups_tail_q : forall cfg tid id s2 uw' s' ret, ups_tail cfg tid id s2 uw' = (s', ret) -> qframe s2 s'.
Proof.
  intros cfg tid id s2 uw' s' ret H. unfold ups_tail in H.
  destruct uw' as [[wt|]|]; try (inversion H; subst; apply qframe_refl).
  destruct (wt <=? 0); [inversion H; subst; apply qframe_refl|]. eapply do_send_q; exact H.
Qed.

Lemma call_upsert_q : forall cfg tid k v w ttl rm s s' ret,
  call_upsert cfg tid k v w ttl rm s = (s', ret) -> qframe s s'.
Proof.
  intros cfg tid k v w ttl rm s s' ret H.
  destruct (alookup k (store s)) as [e|] eqn:El.
  - rewrite call_upsert_present_eq with (e := e) in H by exact El.
    destruct (ups_new_exp_o rm ttl e s) as [new_exp|]; [|inversion H; subst; apply qframe_refl].
    eapply qframe_trans; [apply ups_s2_q|]. eapply ups_tail_q; exact H.
  - destruct v as [val|].
    + rewrite upsert_absent_is_put in H by exact El. eapply call_put_q; exact H.
    + unfold call_upsert in H. rewrite El in H. cbv zeta in H.
      destruct w; inversion H; subst; apply qframe_refl.
Qed.

Lemma call_summary : forall cfg tid r idxs s s' ret, call cfg tid r idxs s = (s', ret) ->
  sumN s s' (lookups_of s (ECall tid r idxs)) ret \/ (sumB s s' /\ lookups_of s (ECall tid r idxs) = 0).
Proof.
  intros cfg tid r idxs s s' ret H. unfold call in H.
  destruct (amem tid (blocked s)) eqn:Hb.
  { inversion H; subst. left. cbn [lookups_of]. rewrite Hb. cbn [orb]. apply qframe_sumN, qframe_refl. }
  assert (Hq : forall r0, match r0 with
                          | RGet _ | RGetRef _ | RMapGet _ | RMapGetRef _ | RMultiGet _ | RMultiIter _
                          | RMultiMapIter _ => False | _ => True end ->
               qframe s s' -> sumN s s' (lookups_of s (ECall tid r0 idxs)) ret).
  { intros r0 Hr0 Hqf. assert (E : lookups_of s (ECall tid r0 idxs) = 0).
    { cbn [lookups_of]. destruct (amem tid (blocked s) || shut s); [reflexivity|].
      destruct r0; try reflexivity; contradiction. }
    rewrite E. apply qframe_sumN; exact Hqf. }
  assert (Hshut : forall r0 ret0, shut s = true -> (s, ret0) = (s', ret) ->
            sumN s s' (lookups_of s (ECall tid r0 idxs)) ret).
  { intros r0 ret0 Hsh Heq. inversion Heq; subst. cbn [lookups_of]. rewrite Hsh, Bool.orb_true_r.
    apply qframe_sumN, qframe_refl. }
  assert (Hone : forall k r0, shut s = false ->
            lookups_of s (ECall tid r0 idxs) = 1 ->
            forall f : Z -> list Z,
            match read_one cfg k idxs s with
            | Some (v, s1, []) => (s1, f v)
            | _ => (s, [7])
            end = (s', ret) -> sumN s s' (lookups_of s (ECall tid r0 idxs)) ret).
  { intros k r0 Hsh El f Hr. rewrite El.
    destruct (read_one cfg k idxs s) as [[[v0 s0] [|i0 idxs0]]|] eqn:E; inversion Hr; subst.
    - apply read_one_acct in E as (A1 & A2 & A3 & A4). unfold sumN.
      split; [exact A1|]. split; [apply blocked_sends_eq; exact A2|]. split; [exact A3|left; exact A4].
    - apply sumN_bad.
    - apply sumN_bad. }
  assert (Hmany : forall ks r0, shut s = false ->
            lookups_of s (ECall tid r0 idxs) = Z.of_nat (length ks) ->
            forall f : list Z -> list Z,
            match read_many cfg ks idxs s with
            | Some (vs, s1, []) => (s1, f vs)
            | _ => (s, [7])
            end = (s', ret) -> sumN s s' (lookups_of s (ECall tid r0 idxs)) ret).
  { intros ks r0 Hsh El f Hr. rewrite El.
    destruct (read_many cfg ks idxs s) as [[[v0 s0] [|i0 idxs0]]|] eqn:E; inversion Hr; subst.
    - apply read_many_acct in E as (A1 & A2 & A3 & A4). unfold sumN.
      split; [exact A1|]. split; [apply blocked_sends_eq; exact A2|]. split; [exact A3|left; exact A4].
    - apply sumN_bad.
    - apply sumN_bad. }
  assert (Hlk : forall r0, shut s = false ->
            lookups_of s (ECall tid r0 idxs) =
            match r0 with
            | RGet _ | RGetRef _ | RMapGet _ | RMapGetRef _ => 1
            | RMultiGet ks | RMultiIter ks | RMultiMapIter ks => Z.of_nat (length ks)
            | _ => 0
            end).
  { intros r0 Hsh. cbn [lookups_of]. rewrite Hb, Hsh. reflexivity. }
  destruct r as [k v|k v w|k v ttl|k v w ttl|k v w ttl rm|k|k|k|k|k|ks|ks|ks| | |]; cbv beta iota zeta in H.
  - left. apply Hq; [exact I|].
    destruct (_ <=? 0); [inversion H; subst; apply qframe_refl|].
    destruct (shut s); [inversion H; subst; apply qframe_refl|]. eapply call_put_q; exact H.
  - left. apply Hq; [exact I|].
    destruct (shut s); [inversion H; subst; apply qframe_refl|]. eapply call_put_q; exact H.
  - left. apply Hq; [exact I|].
    destruct (shut s); [inversion H; subst; apply qframe_refl|]. eapply call_put_q; exact H.
  - left. apply Hq; [exact I|].
    destruct (shut s); [inversion H; subst; apply qframe_refl|]. eapply call_put_q; exact H.
  - left. apply Hq; [exact I|].
    destruct (shut s); [inversion H; subst; apply qframe_refl|]. eapply call_upsert_q; exact H.
  - left. apply Hq; [exact I|].
    destruct (shut s); [inversion H; subst; apply qframe_refl|].
    apply do_send_q in H. eapply qframe_trans; [|exact H].
    destruct (alookup k (store s)); [qfin|apply qframe_refl].
  - left. destruct (shut s) eqn:Hsh; [eapply Hshut; [reflexivity|exact H]|].
    eapply (Hone k); [reflexivity|apply Hlk; reflexivity|exact H].
  - left. destruct (shut s) eqn:Hsh; [eapply Hshut; [reflexivity|exact H]|].
    eapply (Hone k); [reflexivity|apply Hlk; reflexivity|exact H].
  - left. destruct (shut s) eqn:Hsh; [eapply Hshut; [reflexivity|exact H]|].
    eapply (Hone k); [reflexivity|apply Hlk; reflexivity|exact H].
  - left. destruct (shut s) eqn:Hsh; [eapply Hshut; [reflexivity|exact H]|].
    eapply (Hone k); [reflexivity|apply Hlk; reflexivity|exact H].
  - left. destruct (shut s) eqn:Hsh; [eapply Hshut; [reflexivity|exact H]|].
    eapply (Hmany ks); [reflexivity|apply Hlk; reflexivity|exact H].
  - left. destruct (shut s) eqn:Hsh; [eapply Hshut; [reflexivity|exact H]|].
    eapply (Hmany ks); [reflexivity|apply Hlk; reflexivity|exact H].
  - left. destruct (shut s) eqn:Hsh; [eapply Hshut; [reflexivity|exact H]|].
    eapply (Hmany ks); [reflexivity|apply Hlk; reflexivity|exact H].
  - left. apply Hq; [exact I|]. inversion H; subst; apply qframe_refl.
  - left. apply Hq; [exact I|]. inversion H; subst; apply qframe_refl.
  - destruct (shut s) eqn:Hsh.
    + left. apply Hq; [exact I|]. inversion H; subst; apply qframe_refl.
    + right. split; [|rewrite Hlk by reflexivity; reflexivity].
      apply shutdown_cmd_sum in H as (A1 & A2). sred. unfold sumB.
      split; [left; exact A1|]. split; [intros _; exact A1|exact A2].
Qed.

Lemma resume_summary : forall cfg tid s s' ret, resume cfg tid s = (s', ret) ->
  sumN s s' 0 ret \/ sumB s s'.
Proof.
  intros cfg tid s s' ret H. unfold resume in H.
  destruct (alookup tid (blocked s)) as [k|] eqn:El;
    [|inversion H; subst; left; apply qframe_sumN, qframe_refl].
  cbv zeta in H. sred.
  set (s0 := set_blocked s (aremove tid (blocked s))) in *.
  assert (Hq0 : qframe s s0).
  { unfold qframe, s0; sred. repeat split. apply blocked_sends_aremove with (tid := tid). reflexivity. }
  assert (Hnb : (forall c, k <> KSend c) -> ~ blocked_sends s).
  { intros Hk Hbs. destruct (Hbs _ _ El) as (c & ->). eapply Hk; reflexivity. }
  destruct k as [c| |].
  - left. apply qframe_sumN.
    destruct (worker s); [destruct (_ <? c_queue cfg)|..];
      first [eapply qframe_trans; [exact Hq0|eapply do_send_q; exact H]
            |inversion H; subst; apply qframe_refl].
  - assert (Hd : forall s1 r1, shutdown_cmd cfg tid s0 = (s1, r1) -> sumB s s1).
    { intros s1 r1 Hd. apply shutdown_cmd_sum in Hd as (A1 & A2). unfold sumB.
      split; [right; apply Hnb; intros c; discriminate|]. split; [intros Hs; rewrite A1; exact Hs|exact A2]. }
    destruct (worker s); [destruct (_ <? c_queue cfg)|..];
      first [right; eapply Hd; exact H | inversion H; subst; left; apply qframe_sumN, qframe_refl].
  - assert (Hd : forall s1 r1, shutdown_chan tid s0 = (s1, r1) -> sumB s s1).
    { intros s1 r1 Hd. apply shutdown_chan_sum in Hd as (A1 & A2). unfold sumB.
      split; [right; apply Hnb; intros c; discriminate|]. split; [intros Hs; rewrite A1; exact Hs|exact A2]. }
    destruct (consumer s); [destruct (_ <? chan_capacity)|..];
      first [right; eapply Hd; exact H | inversion H; subst; left; apply qframe_sumN, qframe_refl].
Qed.

Lemma worker_step_q : forall cfg orc s s' ret, worker_step cfg orc s = (s', ret) -> qframe s s'.
Proof.
  intros cfg orc s s' ret H. unfold worker_step in H.
  destruct (worker s); try (inversion H; subst; apply qframe_refl).
  destruct (queue s) as [|[c a] q]; [inversion H; subst; apply qframe_refl|].
  cbv zeta in H.
  destruct c as [k v id h w|k v id h w ttl|k|id w|].
  - destruct (amem k (store (set_queue s q))); [inversion H; subst; qfin|].
    destruct (admission cfg orc k id h w (set_queue s q)) as [[r s1] vs] eqn:Ead. apply admission_sframe in Ead.
    destruct r as [x|site|why].
    + destruct x as [| |rr|]; inversion H; subst; qfin.
    + inversion H; subst; qfin.
    + inversion H; subst; apply qframe_refl.
  - destruct (amem k (store (set_queue s q))); [inversion H; subst; qfin|].
    destruct (admission cfg orc k id h w (set_queue s q)) as [[r s1] vs] eqn:Ead. apply admission_sframe in Ead.
    destruct r as [x|site|why].
    + destruct x as [| |rr|]; [|destruct (calc_expiry (now s1) ttl)| |]; inversion H; subst; qfin.
    + inversion H; subst; qfin.
    + inversion H; subst; apply qframe_refl.
  - destruct (alookup k (store (set_queue s q))) as [e|]; [|inversion H; subst; qfin].
    pose proof (store_delete_sframe k (set_queue s q)) as Hsd.
    pose proof (weights_delete_sframe cfg (e_id e) false (store_delete k (set_queue s q))) as Hwd.
    destruct (weights_delete cfg (e_id e) false (store_delete k (set_queue s q))) as [s2|site s2|why].
    + destruct (e_exp e); inversion H; subst; qfin.
    + inversion H; subst; qfin.
    + inversion H; subst; qfin.
  - pose proof (weights_update_sframe cfg id w (set_queue s q)) as Hwu.
    destruct (weights_update cfg id w (set_queue s q)) as [s1|site s1|why]; inversion H; subst; qfin.
  - pose proof (drain_queue_sframe q (set_queue s q)) as Hd. inversion H; subst; qfin.
Qed.

Lemma sweep_q : forall cfg s s' ret, sweep cfg s = (s', ret) -> qframe s s'.
Proof.
  intros cfg s s' ret H. unfold sweep in H.
  destruct (sweeper s); try (inversion H; subst; apply qframe_refl).
  cbv zeta in H.
  match type of H with context [sweep_entries ?c ?n ?es ?s1] =>
    pose proof (sweep_entries_sframe c n es s1) as Hsw; destruct (sweep_entries c n es s1) as [s2|site s2|why] end.
  - destruct (sweeper_run s2); inversion H; subst; qfin.
  - inversion H; subst; qfin.
  - inversion H; subst; apply qframe_refl.
Qed.

Lemma drain_q : forall cfg bl s s' ret, drain cfg bl s = (s', ret) -> qframe s s' /\ st s' = st s.
Proof.
  intros cfg bl s s' ret H. unfold drain in H.
  destruct (consumer s); try (inversion H; subst; split; [apply qframe_refl|reflexivity]).
  destruct (chan s) as [|[hs|] rest]; [inversion H; subst; split; [apply qframe_refl|reflexivity]| |
                                        inversion H; subst; split; [qfin|reflexivity]].
  destruct (apply_batch (lfu s) hs bl) as [[l'| |] [|b bl']]; cbv zeta in H; sred;
    try (inversion H; subst; split; [first [apply qframe_refl|qfin]|reflexivity]).
  destruct (consumer_run s); inversion H; subst; (split; [qfin|reflexivity]).
Qed.

Lemma step_summary : forall cfg s ev s' ret, step cfg s ev = (s', ret) ->
  sumN s s' (lookups_of s ev) ret \/ (sumB s s' /\ lookups_of s ev = 0).
Proof.
  intros cfg s ev s' ret H.
  destruct ev as [tid r idxs|tid|orc| |bl|dt|a]; cbn [step] in H.
  - apply call_summary in H. exact H.
  - apply resume_summary in H. destruct H as [H|H]; [left; exact H|right; split; [exact H|reflexivity]].
  - left. apply qframe_sumN. eapply worker_step_q; exact H.
  - left. apply qframe_sumN. eapply sweep_q; exact H.
  - left. apply qframe_sumN. eapply drain_q; exact H.
  - left. apply qframe_sumN. inversion H; subst. qfin.
  - left. apply qframe_sumN. inversion H; subst. apply qframe_refl.
Qed.

(** [hits_accounted_step] as stated is false: a state (not a reachable one) may hold a caller of shutdown() parked in
    front of the buffer channel while [shut] is still false; resuming it clears the statistics but not the pool. *)
Definition cex_cfg : config :=
  {| c_max := 100; c_counters := 10; c_shards := 2; c_queue := 4; c_pool := 1; c_buffer := 4;
     c_hash := 0; c_wcalc := 0; c_seeds := [1;2;3;4]; c_t0 := 0; c_debug := true |}.
Definition cex_state : state :=
  set_blocked (set_consumer (set_st (set_pool (init cex_cfg) [[5]]) (add_hits stats_zero 1)) Exited)
              [(0, KShutdownChan)].

Lemma hits_accounted_step_counterexample :
  wf_config cex_cfg /\ length (pool cex_state) = Z.to_nat (c_pool cex_cfg) /\
  hits_accounted cex_state /\ shut (step_state cex_cfg cex_state (ERun 0)) = false /\
  ~ hits_accounted (step_state cex_cfg cex_state (ERun 0)).
Proof.
  split; [|split; [|split; [|split]]].
  - split; cbn; unfold two63, i64_max; try lia; reflexivity.
  - reflexivity.
  - reflexivity.
  - reflexivity.
  - intros H. vm_compute in H. discriminate.
Qed.

(** after resuming the parked caller: answer [5], flag still down, one access still in the pool, all counters zero *)
Eval vm_compute in
  (let s' := step_state cex_cfg cex_state (ERun 0) in
   (snd (step cex_cfg cex_state (ERun 0)), shut s', pool_total s',
    s_access_added (st s'), s_access_dropped (st s'), s_hits (st s'))).

(* STATEMENT (original, FALSE as stated, see [hits_accounted_step_counterexample]):
Lemma hits_accounted_step : forall cfg s ev, wf_config cfg ->
  length (pool s) = Z.to_nat (c_pool cfg) ->
  hits_accounted s -> shut (step_state cfg s ev) = false -> hits_accounted (step_state cfg s ev).
*)

(** the step lemma under [blocked_sends s]; the delivered variant [hits_accounted_step_partial] is below *)
Lemma hits_accounted_step_gen : forall cfg s ev,
  blocked_sends s ->
  hits_accounted s -> shut (step_state cfg s ev) = false -> hits_accounted (step_state cfg s ev).
Proof.
  intros cfg s ev Hbs Hacc Hsh. unfold step_state in *.
  destruct (step cfg s ev) as [s' ret] eqn:E. cbn [fst] in *.
  apply step_summary in E as [(N1 & N2 & N3 & N4)|((B1 & B2 & B3) & _)].
  - apply hits_accounted_eqm. rewrite N3. apply hits_accounted_eqm. exact Hacc.
  - destruct B1 as [B1|B1]; [congruence|contradiction].
Qed.

Lemma step_ctl : forall cfg s ev,
  (shut s = true -> shut (step_state cfg s ev) = true) /\
  (shut (step_state cfg s ev) = false -> blocked_sends s -> blocked_sends (step_state cfg s ev)).
Proof.
  intros cfg s ev. unfold step_state.
  destruct (step cfg s ev) as [s' ret] eqn:E. cbn [fst].
  apply step_summary in E as [(N1 & N2 & N3 & N4)|((B1 & B2 & B3) & _)].
  - split; [intros Hs; congruence|intros _; exact N2].
  - split; [exact B2|]. intros Hs Hbs. destruct B1 as [B1|B1]; [congruence|contradiction].
Qed.

(** [hits_accounted_step] with the one extra premise it needs: while the shutdown flag is down, no caller of
    shutdown() is parked ([blocked_sends]: only writes waiting to enqueue their command are).  Every reachable state
    satisfies it (shutdown() raises the flag before it can park; see the proof of [hits_accounted_run]).  The two
    premises [wf_config cfg] and the pool size of the original statement are kept, though the proof needs neither. *)
(* STATEMENT *)
Lemma hits_accounted_step_partial : forall cfg s ev, wf_config cfg ->
  length (pool s) = Z.to_nat (c_pool cfg) ->
  (shut s = false -> blocked_sends s) ->
  hits_accounted s -> shut (step_state cfg s ev) = false -> hits_accounted (step_state cfg s ev).
Proof.
  intros cfg s ev _ _ Hbs Hacc Hsh. apply hits_accounted_step_gen; [|exact Hacc|exact Hsh].
  apply Hbs. destruct (step_ctl cfg s ev) as (C1 & _).
  destruct (shut s); [|reflexivity]. rewrite C1 in Hsh by reflexivity. discriminate.
Qed.

Lemma zsum_repeat_nil : forall (A : Type) n,
  zsum (map (fun b : list A => Z.of_nat (length b)) (repeat [] n)) = 0.
Proof. intros A n. induction n as [|n IH]; cbn [repeat map zsum length]; [reflexivity|]. rewrite IH. reflexivity. Qed.

(* STATEMENT *)
Lemma hits_accounted_run : forall cfg evs, wf_config cfg ->
  shut (run_from cfg (init cfg) evs) = false -> hits_accounted (run_from cfg (init cfg) evs).
Proof.
  intros cfg evs Hwf.
  assert (Hgen : shut (run_from cfg (init cfg) evs) = false ->
                 hits_accounted (run_from cfg (init cfg) evs) /\ blocked_sends (run_from cfg (init cfg) evs)).
  { induction evs as [|ev evs IH] using rev_ind.
    - intros _. cbn [run_from fold_left]. split.
      + unfold hits_accounted, pool_total. cbn [init pool st]. rewrite zsum_repeat_nil. reflexivity.
      + intros tid k Hl. cbn [init blocked alookup] in Hl. discriminate.
    - rewrite run_from_snoc. intros Hsh.
      destruct (step_ctl cfg (run_from cfg (init cfg) evs) ev) as (C1 & C2).
      assert (Hsh0 : shut (run_from cfg (init cfg) evs) = false).
      { destruct (shut (run_from cfg (init cfg) evs)); [|reflexivity]. rewrite C1 in Hsh by reflexivity. discriminate. }
      destruct (IH Hsh0) as (Hacc & Hbs). split.
      + apply hits_accounted_step_gen; assumption.
      + apply C2; assumption. }
  intros Hsh. apply Hgen; exact Hsh.
Qed.

(* STATEMENT: a read never waits: whatever the state of the buffer channel and of the consumer (full, stalled, gone),
   a read call by a caller that is not parked completes: it is never parked and never disabled *)
Lemma read_never_blocks : forall cfg tid r idxs s,
  amem tid (blocked s) = false ->
  match r with
  | RGet _ | RGetRef _ | RMapGet _ | RMapGetRef _ | RMultiGet _ | RMultiIter _ | RMultiMapIter _ =>
      let '(s', ret) := step cfg s (ECall tid r idxs) in
      (exists vs, ret = 5 :: vs) \/ ret = [7]     (* a result, or an inadmissible index oracle (never the real code) *)
  | _ => True
  end /\
  (forall k, blocked (step_state cfg s (ECall tid (RGet k) idxs)) = blocked s).
Proof.
  intros cfg tid r idxs s Hb. split.
  - assert (Hone : forall k (f : Z -> list Z),
              (forall v, exists vs, f v = 5 :: vs) ->
              let '(s', ret) := (if shut s then (s, [5]) else
                                 match read_one cfg k idxs s with
                                 | Some (v, s', []) => (s', f v)
                                 | _ => (s, [7])
                                 end) in
              (exists vs, ret = 5 :: vs) \/ ret = [7]).
    { intros k f Hf. destruct (shut s); [left; exists []; reflexivity|].
      destruct (read_one cfg k idxs s) as [[[v s1] [|i l]]|]; [|right; reflexivity|right; reflexivity].
      left. apply Hf. }
    assert (Hmany : forall ks (f : list Z -> list Z),
              (forall v, exists vs, f v = 5 :: vs) ->
              let '(s', ret) := (if shut s then (s, [5]) else
                                 match read_many cfg ks idxs s with
                                 | Some (v, s', []) => (s', f v)
                                 | _ => (s, [7])
                                 end) in
              (exists vs, ret = 5 :: vs) \/ ret = [7]).
    { intros ks f Hf. destruct (shut s); [left; exists []; reflexivity|].
      destruct (read_many cfg ks idxs s) as [[[v s1] [|i l]]|]; [|right; reflexivity|right; reflexivity].
      left. apply Hf. }
    destruct r as [k v|k v w|k v ttl|k v w ttl|k v w ttl rm|k|k|k|k|k|ks|ks|ks| | |]; try exact I;
      cbn [step]; unfold call; rewrite Hb.
    + apply (Hone k (fun v => if v =? -1 then [5] else [5; v])).
      intros v. destruct (v =? -1); eexists; reflexivity.
    + apply (Hone k (fun v => if v =? -1 then [5] else [5; v])).
      intros v. destruct (v =? -1); eexists; reflexivity.
    + apply (Hone k (fun v => if v =? -1 then [5] else [5; mapped v])).
      intros v. destruct (v =? -1); eexists; reflexivity.
    + apply (Hone k (fun v => if v =? -1 then [5] else [5; mapped v])).
      intros v. destruct (v =? -1); eexists; reflexivity.
    + apply (Hmany ks (fun vs => 5 :: vs)). intros v. eexists; reflexivity.
    + apply (Hmany ks (fun vs => 5 :: vs)). intros v. eexists; reflexivity.
    + apply (Hmany ks (fun vs => 5 :: map mapped vs)). intros v. eexists; reflexivity.
  - intros k. unfold step_state. cbn [step]. unfold call. rewrite Hb.
    destruct (shut s); [reflexivity|].
    destruct (read_one cfg k idxs s) as [[[v s1] [|i l]]|] eqn:E; cbn [fst]; try reflexivity.
    apply read_one_acct in E as (_ & E & _). exact E.
Qed.

Lemma apply_batch_run : forall hs l bl l', apply_batch l hs bl = (LOk l', []) ->
  length bl = length hs /\ lfu_run l (combine hs bl) = LOk l'.
Proof.
  induction hs as [|h t IH]; intros l bl l' H; cbn [apply_batch] in H.
  - inversion H; subst. split; reflexivity.
  - destruct bl as [|b bl']; [discriminate|].
    destruct (lfu_access l h b) as [l1| |] eqn:E; try discriminate.
    apply IH in H as (H1 & H2). split; cbn [length combine lfu_run]; [congruence|rewrite E; exact H2].
Qed.

(* STATEMENT: the consumer applies a batch as a whole, under its one write lock: the sketch afterwards is the sketch
   after every access of the batch; the batch leaves the channel; statistics are untouched *)
Lemma drain_applies_whole_batch : forall cfg bl s hs rest s' ret,
  consumer s = Alive -> chan s = Batch hs :: rest ->
  step cfg s (EDrain bl) = (s', ret) -> ret = [5] ->
  length bl = length hs /\
  lfu_run (lfu s) (combine hs bl) = LOk (lfu s') /\
  (chan s' = rest \/ (chan s' = [] /\ consumer s' = Exited)) /\
  st s' = st s /\ store s' = store s /\ weights s' = weights s /\ used s' = used s /\ pool s' = pool s.
Proof.
  intros cfg bl s hs rest s' ret Hc Hch H Hret. cbn [step] in H. unfold drain in H. rewrite Hc, Hch in H.
  destruct (apply_batch (lfu s) hs bl) as [[l'| |] [|b bl']] eqn:E; cbv zeta in H; sred;
    try (inversion H; subst; discriminate).
  apply apply_batch_run in E as (E1 & E2).
  destruct (consumer_run s); inversion H; subst; sred.
  - split; [exact E1|]. split; [exact E2|]. split; [left; reflexivity|]. repeat split.
  - split; [exact E1|]. split; [exact E2|]. split; [right; split; reflexivity|]. repeat split.
Qed.

(* STATEMENT: hits plus misses grows by exactly the number of lookups of each event (unless the event is a shutdown
   that clears the statistics, or its oracle is inadmissible) *)
Lemma lookups_counted_step : forall cfg s ev,
  let s' := step_state cfg s ev in
  snd (step cfg s ev) <> [7] ->
  st s' = stats_zero \/
  (s_hits (st s') + s_misses (st s')) mod two64 = (s_hits (st s) + s_misses (st s) + lookups_of s ev) mod two64.
Proof.
  intros cfg s ev s' Hret. subst s'. unfold step_state.
  destruct (step cfg s ev) as [s1 ret] eqn:E. cbn [fst snd] in *.
  apply step_summary in E as [(_ & _ & _ & [N4|N4])|((_ & _ & [B3|B3]) & L0)].
  - right. exact N4.
  - contradiction.
  - left. exact B3.
  - right. rewrite B3, L0, Z.add_0_r. reflexivity.
Qed.

Lemma worker_step_rejected : forall cfg orc s c a q s' ret,
  worker s = Alive -> queue s = (c, a) :: q -> alookup a (acks s) = Some Pending ->
  worker_step cfg orc s = (s', ret) -> worker s' <> Dead ->
  (s_keys_rejected (st s') = wrap_u64 (s_keys_rejected (st s) + 1) /\
   (exists k, cmd_put_key_of c = Some k) /\
   (alookup a (acks s') = Some (Rejected NoSpace) \/ alookup a (acks s') = Some (Rejected TooHeavy))) \/
  (s_keys_rejected (st s') = s_keys_rejected (st s) /\
   ~ ((exists k, cmd_put_key_of c = Some k) /\
      (alookup a (acks s') = Some (Rejected NoSpace) \/ alookup a (acks s') = Some (Rejected TooHeavy)))).
Proof.
  intros cfg orc s c a q s' ret Hw Hq Ha H Hnd. unfold worker_step in H. rewrite Hw, Hq in H. cbv zeta in H.
  assert (Hput : forall k id h w r s1 vs, admission cfg orc k id h w (set_queue s q) = (r, s1, vs) ->
            s_keys_rejected (st s1) = s_keys_rejected (st s) /\ acks s1 = acks s /\
            (forall x, r = AdStatus x -> admission_status_ok x)).
  { intros k id h w r s1 vs Had. pose proof (admission_sframe _ _ _ _ _ _ _ _ _ _ Had) as F.
    apply admission_wframe in Had as ((_ & Hacks & _) & Hst). unfold sframe in F; sred.
    split; [apply F|]. split; [exact Hacks|exact Hst]. }
  destruct c as [k v id h w|k v id h w ttl|k|id w|]; sred.
  - destruct (amem k (store s)) eqn:Em.
    { inversion H; subst. right. sred. split; [reflexivity|]. rewrite alookup_aset_eq.
      intros (_ & [Hx|Hx]); discriminate. }
    destruct (admission cfg orc k id h w (set_queue s q)) as [[r s1] vs] eqn:Ead.
    destruct (Hput _ _ _ _ _ _ _ Ead) as (Hkr & Hacks & Hst).
    destruct r as [x|site|why].
    + destruct x as [| |rr|]; inversion H; subst; clear H; stred; rewrite alookup_aset_eq.
      * destruct (Hst _ eq_refl) as [Hx|[Hx|Hx]]; discriminate.
      * right. split; [exact Hkr|]. intros (_ & [Hx|Hx]); discriminate.
      * left. rewrite Hkr. split; [reflexivity|]. split; [eexists; reflexivity|].
        destruct (Hst _ eq_refl) as [Hx|[Hx|Hx]]; [discriminate|right; exact (f_equal Some Hx)|left; exact (f_equal Some Hx)].
      * destruct (Hst _ eq_refl) as [Hx|[Hx|Hx]]; discriminate.
    + inversion H; subst. exfalso. apply Hnd. reflexivity.
    + inversion H; subst. right. split; [reflexivity|]. rewrite Ha. intros (_ & [Hx|Hx]); discriminate.
  - destruct (amem k (store s)) eqn:Em.
    { inversion H; subst. right. sred. split; [reflexivity|]. rewrite alookup_aset_eq.
      intros (_ & [Hx|Hx]); discriminate. }
    destruct (admission cfg orc k id h w (set_queue s q)) as [[r s1] vs] eqn:Ead.
    destruct (Hput _ _ _ _ _ _ _ Ead) as (Hkr & Hacks & Hst).
    destruct r as [x|site|why].
    + destruct x as [| |rr|].
      * destruct (Hst _ eq_refl) as [Hx|[Hx|Hx]]; discriminate.
      * destruct (calc_expiry (now s1) ttl) as [ex|]; inversion H; subst; clear H.
        -- stred; rewrite alookup_aset_eq. right. split; [exact Hkr|]. intros (_ & [Hx|Hx]); discriminate.
        -- exfalso. apply Hnd. reflexivity.
      * inversion H; subst; clear H; stred; rewrite alookup_aset_eq.
        left. rewrite Hkr. split; [reflexivity|]. split; [eexists; reflexivity|].
        destruct (Hst _ eq_refl) as [Hx|[Hx|Hx]]; [discriminate|right; exact (f_equal Some Hx)|left; exact (f_equal Some Hx)].
      * destruct (Hst _ eq_refl) as [Hx|[Hx|Hx]]; discriminate.
    + inversion H; subst. exfalso. apply Hnd. reflexivity.
    + inversion H; subst. right. split; [reflexivity|]. rewrite Ha. intros (_ & [Hx|Hx]); discriminate.
  - right. split; [|intros ((k0 & Hk0) & _); discriminate].
    destruct (alookup k (store s)) as [e|]; [|inversion H; subst; reflexivity].
    pose proof (store_delete_sframe k (set_queue s q)) as Hsd.
    pose proof (weights_delete_sframe cfg (e_id e) false (store_delete k (set_queue s q))) as Hwd.
    destruct (weights_delete cfg (e_id e) false (store_delete k (set_queue s q))) as [s2|site s2|why].
    + destruct (e_exp e); inversion H; subst; unfold sframe in *; stred; intuition congruence.
    + inversion H; subst. exfalso. apply Hnd. reflexivity.
    + inversion H; subst. reflexivity.
  - right. split; [|intros ((k0 & Hk0) & _); discriminate].
    pose proof (weights_update_sframe cfg id w (set_queue s q)) as Hwu.
    destruct (weights_update cfg id w (set_queue s q)) as [s1|site s1|why]; inversion H; subst;
      unfold sframe in *; stred; intuition congruence.
  - right. split; [|intros ((k0 & Hk0) & _); discriminate].
    pose proof (drain_queue_sframe q (set_queue s q)) as Hd. inversion H; subst.
    unfold sframe in *; stred; intuition congruence.
Qed.

(* STATEMENT: rejected keys counts exactly the puts refused by admission *)
Lemma rejected_counted_step : forall cfg s orc c a q,
  worker s = Alive -> queue s = (c, a) :: q -> alookup a (acks s) = Some Pending ->
  let s' := step_state cfg s (EWorker orc) in
  worker s' <> Dead ->
  let refused_by_admission :=
    (exists k, cmd_put_key_of c = Some k) /\
    (alookup a (acks s') = Some (Rejected NoSpace) \/ alookup a (acks s') = Some (Rejected TooHeavy)) in
  (refused_by_admission -> s_keys_rejected (st s') = wrap_u64 (s_keys_rejected (st s) + 1)) /\
  (~ refused_by_admission -> s_keys_rejected (st s') = s_keys_rejected (st s)).
Proof.
  intros cfg s orc c a q Hw Hq Ha s' Hnd refused. subst refused. subst s'.
  unfold step_state in *. cbn [step] in *.
  destruct (worker_step cfg orc s) as [s1 r1] eqn:E. cbn [fst] in *.
  destruct (worker_step_rejected _ _ _ _ _ _ _ _ Hw Hq Ha E Hnd) as [(K & P & A)|(K & N)].
  - split; [intros _; exact K|]. intros Hn. exfalso. apply Hn. split; assumption.
  - split; [intros Hr; contradiction|]. intros _; exact K.
Qed.

(* STATEMENT: the hit ratio is hits / (hits + misses), and zero only when there were no hits *)
Lemma hit_ratio_spec : forall x, 0 <= s_hits x -> 0 <= s_misses x ->
  (s_hits x = 0 -> hit_ratio x = (0, 1)) /\
  (0 < s_hits x -> hit_ratio x = (s_hits x, s_hits x + s_misses x) /\ 0 < snd (hit_ratio x)) /\
  (fst (hit_ratio x) = 0 <-> s_hits x = 0).
Proof.
  intros x Hh Hm. unfold hit_ratio. destruct (s_hits x =? 0) eqn:E; cbn [fst snd].
  - split; [reflexivity|]. split; [intros Hp; lia|]. split; intros _; [lia|reflexivity].
  - split; [intros H0; lia|]. split; [intros Hp; split; [reflexivity|lia]|]. split; intros H0; lia.
Qed.

(** * C16: the key and weight balances.  Both are invariants of every step, from every state, together with the
    fact that the store's keys are pairwise distinct (which the length bookkeeping needs) *)

Definition KB (s : state) : Prop :=
  NoDup (map fst (store s)) /\
  eqm (s_keys_added (st s) - s_keys_deleted (st s)) (Z.of_nat (length (store s))).
Definition WB (s : state) : Prop := eqm (s_weight_added (st s) - s_weight_removed (st s)) (used s).
Definition BAL (s : state) : Prop := KB s /\ WB s.

(** what leaves both balances alone *)
Definition cframe (s s' : state) : Prop :=
  store s' = store s /\ used s' = used s /\
  s_keys_added (st s') = s_keys_added (st s) /\ s_keys_deleted (st s') = s_keys_deleted (st s) /\
  s_weight_added (st s') = s_weight_added (st s) /\ s_weight_removed (st s') = s_weight_removed (st s).

Lemma cframe_refl : forall s, cframe s s.
Proof. intros s. unfold cframe. repeat split. Qed.

Lemma cframe_trans : forall s1 s2 s3, cframe s1 s2 -> cframe s2 s3 -> cframe s1 s3.
Proof.
  intros s1 s2 s3 (A1 & A2 & A3 & A4 & A5 & A6) (B1 & B2 & B3 & B4 & B5 & B6).
  unfold cframe. repeat split; congruence.
Qed.

Lemma cframe_bal : forall s s', cframe s s' -> BAL s -> BAL s'.
Proof.
  intros s s' (A1 & A2 & A3 & A4 & A5 & A6) H. unfold BAL, KB, WB in *.
  rewrite A1, A2, A3, A4, A5, A6. exact H.
Qed.

Lemma send_frame_cframe : forall s s', send_frame s s' -> cframe s s'.
Proof.
  intros s s' (A1 & _ & A3 & _ & A5 & _). unfold cframe. rewrite A1, A3, A5. repeat split.
Qed.

Ltac cfin := unfold cframe in *; stred;
  repeat match goal with H : _ /\ _ |- _ => destruct H end; repeat split; congruence.

Ltac bal_conv H := unfold BAL, KB, WB in *; stred; exact H.

Lemma store_delete_kb : forall k s, KB s -> KB (store_delete k s).
Proof.
  intros k s (Hnd & HK). unfold store_delete.
  destruct (alookup k (store s)) as [e|] eqn:E; [|split; assumption].
  unfold KB; stred. split; [apply aremove_nodup; exact Hnd|].
  pose proof (aremove_length_present _ _ _ _ Hnd E) as Hlen.
  rewrite eqm_wrap. eapply eqm_shift; [exact HK|lia].
Qed.

Lemma store_delete_wfields : forall k s,
  used (store_delete k s) = used s /\
  s_weight_added (st (store_delete k s)) = s_weight_added (st s) /\
  s_weight_removed (st (store_delete k s)) = s_weight_removed (st s).
Proof. intros k s. unfold store_delete. destruct (alookup k (store s)); stred; repeat split. Qed.

Lemma store_delete_bal : forall k s, BAL s -> BAL (store_delete k s).
Proof.
  intros k s (HK & HW). split; [apply store_delete_kb; exact HK|].
  destruct (store_delete_wfields k s) as (A1 & A2 & A3). unfold WB in *. rewrite A1, A2, A3. exact HW.
Qed.

Lemma weights_delete_bal : forall cfg id hook s,
  match weights_delete cfg id hook s with
  | Ok s' | Panic _ s' => BAL s -> BAL s'
  | Inadmissible _ => True
  end.
Proof.
  intros cfg id hook s. unfold weights_delete.
  destruct (alookup id (weights s)) as [wk|] eqn:E; [|intros H; exact H].
  sred. destruct (add_i64 cfg (used s) (- w_weight wk)) as [u|] eqn:Ea; [|intros H; bal_conv H].
  apply add_i64_eqm in Ea. intros (HK & HW).
  set (s2 := set_used (set_weights s (aremove id (weights s))) u).
  assert (HK2 : KB s2) by (unfold KB, s2 in *; sred; exact HK).
  split.
  - destruct hook.
    + pose proof (store_delete_kb (w_key wk) s2 HK2) as HK3. unfold KB in *; stred. exact HK3.
    + unfold KB in *; stred. exact HK2.
  - assert (Hf : used (if hook then store_delete (w_key wk) s2 else s2) = u /\
                 s_weight_added (st (if hook then store_delete (w_key wk) s2 else s2)) = s_weight_added (st s) /\
                 s_weight_removed (st (if hook then store_delete (w_key wk) s2 else s2)) = s_weight_removed (st s)).
    { destruct hook; [|unfold s2; sred; repeat split].
      destruct (store_delete_wfields (w_key wk) s2) as (A1 & A2 & A3). rewrite A1, A2, A3. unfold s2; sred.
      repeat split. }
    destruct Hf as (A1 & A2 & A3). unfold WB in *; stred. rewrite A1, A2, A3.
    rewrite eqm_wrap, eqm_as_u64, Ea. eapply eqm_shift; [exact HW|lia].
Qed.

Lemma weights_add_bal : forall cfg k id h w s,
  match weights_add cfg k id h w s with
  | Ok s' | Panic _ s' => BAL s -> BAL s'
  | Inadmissible _ => True
  end.
Proof.
  intros cfg k id h w s. unfold weights_add. sred.
  destruct (add_i64 cfg (used s) w) as [u|] eqn:Ea; [|intros H; bal_conv H].
  apply add_i64_eqm in Ea. intros (HK & HW). split; [bal_conv HK|].
  unfold WB in *; stred. rewrite eqm_wrap, eqm_as_u64, Ea. eapply eqm_shift; [exact HW|lia].
Qed.

Lemma weights_update_bal : forall cfg id w s,
  match weights_update cfg id w s with
  | Ok s' | Panic _ s' => BAL s -> BAL s'
  | Inadmissible _ => True
  end.
Proof.
  intros cfg id w s. unfold weights_update.
  destruct (alookup id (weights s)) as [wk|] eqn:E; [|intros H; exact H].
  destruct (add_i64 cfg (used s) (w - w_weight wk)) as [u|] eqn:Ea; [|intros H; exact H].
  apply add_i64_eqm in Ea. intros (HK & HW). split; [bal_conv HK|].
  unfold WB in *; stred. rewrite eqm_wrap, eqm_as_u64, Ea. eapply eqm_shift; [exact HW|lia].
Qed.

Definition balR (s s' : state) : Prop := BAL s -> BAL s'.

Lemma balR_refl : forall s, balR s s.
Proof. intros s H; exact H. Qed.
Lemma balR_trans : forall s1 s2 s3, balR s1 s2 -> balR s2 s3 -> balR s1 s3.
Proof. intros s1 s2 s3 H1 H2 H. apply H2, H1, H. Qed.

Lemma admission_bal : forall cfg orc k id h w s r s' vs,
  admission cfg orc k id h w s = (r, s', vs) -> BAL s -> BAL s'.
Proof. exact (admission_lift balR balR_refl balR_trans weights_delete_bal weights_add_bal). Qed.

Lemma sweep_entries_bal : forall cfg now_ es s,
  match sweep_entries cfg now_ es s with Ok s' | Panic _ s' => BAL s -> BAL s' | Inadmissible _ => True end.
Proof. exact (sweep_entries_lift balR balR_refl balR_trans weights_delete_bal). Qed.

Lemma store_insert_bal : forall k v id exp s,
  alookup k (store s) = None -> BAL s -> BAL (store_insert k v id exp s).
Proof.
  intros k v id exp s Hl ((Hnd & HK) & HW). split; [|bal_conv HW].
  unfold KB; stred. split; [apply aset_nodup; exact Hnd|].
  rewrite aset_length_absent by exact Hl.
  rewrite eqm_wrap. eapply eqm_shift; [exact HK|lia].
Qed.

Lemma drain_queue_cframe : forall q s, cframe s (drain_queue q s).
Proof.
  induction q as [|[c a] t IH]; intros s; cbn [drain_queue]; [apply cframe_refl|].
  eapply cframe_trans; [|apply IH]. cfin.
Qed.

Lemma worker_step_bal : forall cfg orc s s' ret, worker_step cfg orc s = (s', ret) -> BAL s -> BAL s'.
Proof.
  intros cfg orc s s' ret H HB. unfold worker_step in H.
  destruct (worker s); try (inversion H; subst; exact HB).
  destruct (queue s) as [|[c a] q]; [inversion H; subst; exact HB|].
  cbv zeta in H.
  assert (HB0 : BAL (set_queue s q)) by bal_conv HB.
  assert (Hput : forall k id h w r s1 vs, amem k (store s) = false ->
            admission cfg orc k id h w (set_queue s q) = (r, s1, vs) ->
            BAL s1 /\ alookup k (store s1) = None).
  { intros k id h w r s1 vs Hm Had. split; [eapply admission_bal; [exact Had|exact HB0]|].
    apply admission_wframe in Had as ((_ & _ & _ & _ & Hsh) & _). apply amem_false_iff in Hm.
    destruct (Hsh k) as [Hk|Hk]; sred; congruence. }
  destruct c as [k v id h w|k v id h w ttl|k|id w|]; sred.
  - destruct (amem k (store s)) eqn:Em; [inversion H; subst; bal_conv HB|].
    destruct (admission cfg orc k id h w (set_queue s q)) as [[r s1] vs] eqn:Ead.
    destruct (Hput _ _ _ _ _ _ _ Em Ead) as (HB1 & Hk1).
    pose proof (store_insert_bal k v id None s1 Hk1 HB1) as HB2.
    destruct r as [x|site|why].
    + destruct x as [| |rr|]; inversion H; subst; first [bal_conv HB2|bal_conv HB1].
    + inversion H; subst; bal_conv HB1.
    + inversion H; subst; exact HB.
  - destruct (amem k (store s)) eqn:Em; [inversion H; subst; bal_conv HB|].
    destruct (admission cfg orc k id h w (set_queue s q)) as [[r s1] vs] eqn:Ead.
    destruct (Hput _ _ _ _ _ _ _ Em Ead) as (HB1 & Hk1).
    destruct r as [x|site|why].
    + destruct x as [| |rr|]; [|destruct (calc_expiry (now s1) ttl) as [ex|]| |]; inversion H; subst;
        try (bal_conv HB1).
      pose proof (store_insert_bal k v id (Some ex) s1 Hk1 HB1) as HB2. bal_conv HB2.
    + inversion H; subst; bal_conv HB1.
    + inversion H; subst; exact HB.
  - destruct (alookup k (store s)) as [e|]; [|inversion H; subst; bal_conv HB].
    pose proof (store_delete_bal k (set_queue s q) HB0) as HB1.
    pose proof (weights_delete_bal cfg (e_id e) false (store_delete k (set_queue s q))) as Hwd.
    destruct (weights_delete cfg (e_id e) false (store_delete k (set_queue s q))) as [s2|site s2|why].
    + specialize (Hwd HB1). destruct (e_exp e); inversion H; subst; bal_conv Hwd.
    + specialize (Hwd HB1). inversion H; subst; bal_conv Hwd.
    + inversion H; subst; exact HB0.
  - pose proof (weights_update_bal cfg id w (set_queue s q)) as Hwu.
    destruct (weights_update cfg id w (set_queue s q)) as [s1|site s1|why]; inversion H; subst;
      first [specialize (Hwu HB0); bal_conv Hwu|exact HB0].
  - inversion H; subst. pose proof (drain_queue_cframe q (set_queue s q)) as Hd.
    eapply cframe_bal; [|exact HB]. cfin.
Qed.

Lemma sweep_bal : forall cfg s s' ret, sweep cfg s = (s', ret) -> BAL s -> BAL s'.
Proof.
  intros cfg s s' ret H HB. unfold sweep in H.
  destruct (sweeper s); try (inversion H; subst; exact HB).
  cbv zeta in H.
  match type of H with context [sweep_entries ?c ?n ?es ?s1] =>
    pose proof (sweep_entries_bal c n es s1) as Hsw; destruct (sweep_entries c n es s1) as [s2|site s2|why] end.
  - assert (HB2 : BAL s2) by (apply Hsw; bal_conv HB).
    destruct (sweeper_run s2); inversion H; subst; [exact HB2|bal_conv HB2].
  - assert (HB2 : BAL s2) by (apply Hsw; bal_conv HB). inversion H; subst; bal_conv HB2.
  - inversion H; subst; exact HB.
Qed.

Lemma drain_bal : forall cfg bl s s' ret, drain cfg bl s = (s', ret) -> BAL s -> BAL s'.
Proof.
  intros cfg bl s s' ret H HB. unfold drain in H.
  destruct (consumer s); try (inversion H; subst; exact HB).
  destruct (chan s) as [|[hs|] rest]; [inversion H; subst; exact HB| |inversion H; subst; bal_conv HB].
  destruct (apply_batch (lfu s) hs bl) as [[l'| |] [|b bl']]; cbv zeta in H; sred;
    try (inversion H; subst; first [exact HB|bal_conv HB]).
  destruct (consumer_run s); inversion H; subst; bal_conv HB.
Qed.

(** reads *)
Lemma accept_batch_cframe : forall hs s, cframe s (accept_batch hs s).
Proof.
  intros hs s. unfold accept_batch. destruct (consumer s); [destruct (_ <? chan_capacity)|..]; cfin.
Qed.

Lemma pool_add_cframe : forall cfg i h s s', pool_add cfg i h s = Some s' -> cframe s s'.
Proof.
  intros cfg i h s s' H. unfold pool_add in H.
  destruct ((i <? 0) || (c_pool cfg <=? i)); [discriminate|].
  destruct (nth_error (pool s) (Z.to_nat i)) as [buf|]; [|discriminate].
  destruct (c_buffer cfg <=? Z.of_nat (length buf)); inversion H; subst.
  - pose proof (accept_batch_cframe buf s) as F. cfin.
  - cfin.
Qed.

Lemma read_one_cframe : forall cfg k idxs s v s' idxs',
  read_one cfg k idxs s = Some (v, s', idxs') -> cframe s s'.
Proof.
  intros cfg k idxs s v s' idxs' H. apply read_one_spec in H as (_ & H).
  destruct H as [(_ & _ & -> & _)|(e & i & _ & _ & _ & Hp)]; [cfin|].
  apply pool_add_cframe in Hp. cfin.
Qed.

Lemma read_many_cframe : forall cfg ks idxs s vs s' idxs',
  read_many cfg ks idxs s = Some (vs, s', idxs') -> cframe s s'.
Proof.
  intros cfg ks. induction ks as [|k t IH]; intros idxs s vs s' idxs' H; cbn [read_many] in H.
  - inversion H; subst. apply cframe_refl.
  - destruct (read_one cfg k idxs s) as [[[v s1] idxs1]|] eqn:E1; [|discriminate].
    destruct (read_many cfg t idxs1 s1) as [[[vs2 s2] idxs2]|] eqn:E2; [|discriminate].
    inversion H; subst. eapply cframe_trans; [eapply read_one_cframe; exact E1|eapply IH; exact E2].
Qed.

(** shutdown *)
Lemma shutdown_finish_bal : forall s, BAL (shutdown_finish s).
Proof.
  intros s. unfold BAL, KB, WB, shutdown_finish; stred. cbn [stats_zero s_keys_added s_keys_deleted
    s_weight_added s_weight_removed map length].
  split; [split; [constructor|reflexivity]|reflexivity].
Qed.

Lemma shutdown_chan_bal : forall tid s s' ret, shutdown_chan tid s = (s', ret) -> BAL s -> BAL s'.
Proof.
  intros tid s s' ret H HB. unfold shutdown_chan in H.
  destruct (consumer s); [destruct (_ <? chan_capacity)|..]; inversion H; subst;
    first [apply shutdown_finish_bal|bal_conv HB].
Qed.

Lemma shutdown_cmd_bal : forall cfg tid s s' ret, shutdown_cmd cfg tid s = (s', ret) -> BAL s -> BAL s'.
Proof.
  intros cfg tid s s' ret H HB. unfold shutdown_cmd in H.
  destruct (worker s); [destruct (_ <? c_queue cfg)|..];
    try (eapply shutdown_chan_bal; [exact H|bal_conv HB]).
  inversion H; subst; bal_conv HB.
Qed.

Lemma aset_present_bal : forall s s' k e e',
  alookup k (store s) = Some e -> store s' = aset k e' (store s) -> used s' = used s -> st s' = st s ->
  BAL s -> BAL s'.
Proof.
  intros s s' k e e' Hl Hst Hu Hstt ((Hnd & HK) & HW). unfold BAL, KB, WB. rewrite Hst, Hu, Hstt.
  split; [split|exact HW]; [apply aset_nodup; exact Hnd|].
  rewrite (aset_length_present _ _ e' _ _ Hnd Hl). exact HK.
Qed.

Lemma ups_s2_st : forall cfg k v e new_exp s, st (ups_s2 cfg k v e new_exp s) = st s.
Proof.
  intros cfg k v e new_exp s. unfold ups_s2. cbv zeta. destruct (type_of_expiry_update _ _); reflexivity.
Qed.

Lemma call_upsert_bal : forall cfg tid k v w ttl rm s s' ret,
  call_upsert cfg tid k v w ttl rm s = (s', ret) -> BAL s -> BAL s'.
Proof.
  intros cfg tid k v w ttl rm s s' ret H HB.
  destruct (alookup k (store s)) as [e|] eqn:El.
  - rewrite call_upsert_present_eq with (e := e) in H by exact El.
    destruct (ups_new_exp_o rm ttl e s) as [new_exp|]; [|inversion H; subst; exact HB].
    apply ups_tail_frame, send_frame_cframe in H. eapply cframe_bal; [exact H|].
    pose proof (ups_s2_fields cfg k v e new_exp s) as (Fst & _ & Fu & _).
    eapply aset_present_bal; [exact El|exact Fst|exact Fu|apply ups_s2_st|exact HB].
  - destruct v as [val|].
    + rewrite upsert_absent_is_put in H by exact El. apply call_put_spec in H as (F & _).
      eapply cframe_bal; [apply send_frame_cframe; exact F|exact HB].
    + unfold call_upsert in H. rewrite El in H. cbv zeta in H.
      destruct w; inversion H; subst; exact HB.
Qed.

Lemma call_bal : forall cfg tid r idxs s s' ret, call cfg tid r idxs s = (s', ret) -> BAL s -> BAL s'.
Proof.
  intros cfg tid r idxs s s' ret H HB. unfold call in H.
  destruct (amem tid (blocked s)); [inversion H; subst; exact HB|].
  assert (Hput : forall k v w ttl, call_put cfg tid k v w ttl s = (s', ret) -> BAL s').
  { intros k v w ttl Hp. apply call_put_spec in Hp as (F & _).
    eapply cframe_bal; [apply send_frame_cframe; exact F|exact HB]. }
  assert (Hone : forall k (f : Z -> list Z),
            match read_one cfg k idxs s with
            | Some (v, s1, []) => (s1, f v)
            | _ => (s, [7])
            end = (s', ret) -> BAL s').
  { intros k f Hr.
    destruct (read_one cfg k idxs s) as [[[v0 s0] [|i0 idxs0]]|] eqn:E; inversion Hr; subst; try exact HB.
    eapply cframe_bal; [eapply read_one_cframe; exact E|exact HB]. }
  assert (Hmany : forall ks (f : list Z -> list Z),
            match read_many cfg ks idxs s with
            | Some (v, s1, []) => (s1, f v)
            | _ => (s, [7])
            end = (s', ret) -> BAL s').
  { intros ks f Hr.
    destruct (read_many cfg ks idxs s) as [[[v0 s0] [|i0 idxs0]]|] eqn:E; inversion Hr; subst; try exact HB.
    eapply cframe_bal; [eapply read_many_cframe; exact E|exact HB]. }
  destruct r as [k v|k v w|k v ttl|k v w ttl|k v w ttl rm|k|k|k|k|k|ks|ks|ks| | |]; cbv beta iota zeta in H.
  - destruct (_ <=? 0); [inversion H; subst; exact HB|].
    destruct (shut s); [inversion H; subst; exact HB|]. eapply Hput; exact H.
  - destruct (shut s); [inversion H; subst; exact HB|]. eapply Hput; exact H.
  - destruct (shut s); [inversion H; subst; exact HB|]. eapply Hput; exact H.
  - destruct (shut s); [inversion H; subst; exact HB|]. eapply Hput; exact H.
  - destruct (shut s); [inversion H; subst; exact HB|]. eapply call_upsert_bal; [exact H|exact HB].
  - destruct (shut s); [inversion H; subst; exact HB|].
    apply do_send_spec in H as (F & _). eapply cframe_bal; [apply send_frame_cframe; exact F|].
    destruct (alookup k (store s)) as [e|] eqn:El; [|exact HB].
    eapply aset_present_bal; [exact El|reflexivity|reflexivity|reflexivity|exact HB].
  - destruct (shut s); [inversion H; subst; exact HB|]. eapply (Hone k); exact H.
  - destruct (shut s); [inversion H; subst; exact HB|]. eapply (Hone k); exact H.
  - destruct (shut s); [inversion H; subst; exact HB|]. eapply (Hone k); exact H.
  - destruct (shut s); [inversion H; subst; exact HB|]. eapply (Hone k); exact H.
  - destruct (shut s); [inversion H; subst; exact HB|]. eapply (Hmany ks); exact H.
  - destruct (shut s); [inversion H; subst; exact HB|]. eapply (Hmany ks); exact H.
  - destruct (shut s); [inversion H; subst; exact HB|]. eapply (Hmany ks); exact H.
  - inversion H; subst; exact HB.
  - inversion H; subst; exact HB.
  - destruct (shut s); [inversion H; subst; exact HB|].
    eapply shutdown_cmd_bal; [exact H|bal_conv HB].
Qed.

Lemma resume_bal : forall cfg tid s s' ret, resume cfg tid s = (s', ret) -> BAL s -> BAL s'.
Proof.
  intros cfg tid s s' ret H HB. unfold resume in H.
  destruct (alookup tid (blocked s)) as [k|]; [|inversion H; subst; exact HB].
  cbv zeta in H. sred.
  set (s0 := set_blocked s (aremove tid (blocked s))) in *.
  assert (HB0 : BAL s0) by (unfold s0; bal_conv HB).
  destruct k as [c| |].
  - assert (Hd : forall s1 r1, do_send cfg tid c s0 = (s1, r1) -> BAL s1).
    { intros s1 r1 Hd. apply do_send_spec in Hd as (F & _).
      eapply cframe_bal; [apply send_frame_cframe; exact F|exact HB0]. }
    destruct (worker s); [destruct (_ <? c_queue cfg)|..];
      first [eapply Hd; exact H | inversion H; subst; exact HB].
  - destruct (worker s); [destruct (_ <? c_queue cfg)|..];
      first [eapply shutdown_cmd_bal; [exact H|exact HB0] | inversion H; subst; exact HB].
  - destruct (consumer s); [destruct (_ <? chan_capacity)|..];
      first [eapply shutdown_chan_bal; [exact H|exact HB0] | inversion H; subst; exact HB].
Qed.

Lemma step_bal : forall cfg s ev, BAL s -> BAL (step_state cfg s ev).
Proof.
  intros cfg s ev HB. unfold step_state.
  destruct (step cfg s ev) as [s' ret] eqn:E. cbn [fst].
  destruct ev as [tid r idxs|tid|orc| |bl|dt|a]; cbn [step] in E.
  - eapply call_bal; eassumption.
  - eapply resume_bal; eassumption.
  - eapply worker_step_bal; eassumption.
  - eapply sweep_bal; eassumption.
  - eapply drain_bal; eassumption.
  - inversion E; subst. bal_conv HB.
  - inversion E; subst. exact HB.
Qed.

Lemma init_bal : forall cfg, BAL (init cfg).
Proof.
  intros cfg. unfold BAL, KB, WB. cbn [init store st used stats_zero s_keys_added s_keys_deleted
    s_weight_added s_weight_removed map length].
  split; [split; [constructor|reflexivity]|reflexivity].
Qed.

Lemma run_bal : forall cfg evs, BAL (run_from cfg (init cfg) evs).
Proof.
  intros cfg evs. induction evs as [|ev evs IH] using rev_ind.
  - apply init_bal.
  - rewrite run_from_snoc. apply step_bal. exact IH.
Qed.

(* STATEMENT: keys added minus keys deleted is the number of keys held *)
Lemma keys_balance_run : forall cfg evs, wf_config cfg -> Forall valid_event evs ->
  let s := run_from cfg (init cfg) evs in
  worker s <> Dead ->
  (s_keys_added (st s) - s_keys_deleted (st s)) mod two64 = Z.of_nat (length (store s)) mod two64.
Proof.
  intros cfg evs _ _ s _. subst s. destruct (run_bal cfg evs) as ((_ & HK) & _). exact HK.
Qed.

(* STATEMENT: weight added minus weight removed is the total weight used (two's-complement add for decreases) *)
Lemma weight_balance_run : forall cfg evs, wf_config cfg -> Forall valid_event evs ->
  let s := run_from cfg (init cfg) evs in
  worker s <> Dead ->
  (s_weight_added (st s) - s_weight_removed (st s)) mod two64 = used s mod two64.
Proof.
  intros cfg evs _ _ s _. subst s. destruct (run_bal cfg evs) as (_ & HW). exact HW.
Qed.

End Stats.

Print Assumptions keys_balance_run.
Print Assumptions weight_balance_run.
Print Assumptions hits_accounted_run.
Print Assumptions hits_accounted_step_partial.
Print Assumptions hits_accounted_step_counterexample.
Print Assumptions lookups_counted_step.
Print Assumptions rejected_counted_step.
Print Assumptions read_never_blocks.
Print Assumptions drain_applies_whole_batch.
Print Assumptions accept_batch_spec.
Print Assumptions hit_ratio_spec.
