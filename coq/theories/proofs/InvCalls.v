(** Preservation of the invariant by the caller-side part of the API calls and by the resumption of parked
    callers; these never touch the three roles. *)
From CacheD.proofs Require Import Defs AListLemmas InvLemmas InvOps.
From Coq Require Import ZifyBool Permutation.

Lemma pending_of : forall s q b, queue s = q -> blocked s = b -> pending_cmds s = map fst q ++ bcmds b.
Proof. intros s q b Hq Hb. subst. reflexivity. Qed.

(** * Adding one command to the pending ones *)
Definition cmd_fresh (s : state) (c : cmd) : Prop :=
  forall id, cmd_put_id c = Some id ->
    id < next_id s /\ alookup id (weights s) = None /\ ~ In id (ticker_ids s) /\ ~ In id (put_ids (pending_cmds s)).

Lemma cmd_fresh_noput : forall s c, cmd_put_id c = None -> cmd_fresh s c.
Proof. intros s c H id Hid. rewrite H in Hid. discriminate. Qed.

Lemma Inv_add_cmd : forall cfg s s' c, Inv cfg s ->
  store s' = store s -> weights s' = weights s -> used s' = used s -> ticker s' = ticker s -> lfu s' = lfu s ->
  next_id s' = next_id s ->
  cmd_weight_ok c -> cmd_fresh s c ->
  (forall x, (idcount x (pending_cmds s') <= idcount x [c] + idcount x (pending_cmds s))%nat) ->
  (forall c', In c' (pending_cmds s') -> c' = c \/ In c' (pending_cmds s)) -> Inv cfg s'.
Proof.
  intros cfg s s' c HI Hst Hw Hu Htk Hl Hn Hwok Hfr Hcnt Hin.
  apply (Inv_transfer cfg s s' HI Hst Hw Hu Htk Hl); [lia| |].
  - intros x. specialize (Hcnt x).
    pose proof (proj1 (nodup_idcount (pending_cmds s)) (proj1 (inv_ids_pending cfg s HI)) x) as Hold.
    destruct (cmd_put_id c) as [id|] eqn:E.
    + rewrite (idcount_one_put x c id E) in Hcnt. destruct (Z.eq_dec id x) as [He|Hne]; [|lia].
      subst id. destruct (Hfr x E) as (_ & _ & _ & Hnot). apply notin_put_ids_idcount in Hnot. lia.
    + rewrite (idcount_one_noput x c E) in Hcnt. lia.
  - intros c' Hc'. rewrite Hn. destruct (Hin c' Hc') as [He|Hold].
    + subst c'. split; [exact Hwok|]. intros id Hid. destruct (Hfr id Hid) as (A & B & C & _). auto.
    + exact (Inv_pending_ok cfg s c' HI Hold).
Qed.

Lemma Inv_enqueue : forall cfg s s' c a, Inv cfg s ->
  store s' = store s -> weights s' = weights s -> used s' = used s -> ticker s' = ticker s -> lfu s' = lfu s ->
  next_id s' = next_id s -> queue s' = queue s ++ [(c, a)] -> blocked s' = blocked s ->
  cmd_weight_ok c -> cmd_fresh s c -> Inv cfg s'.
Proof.
  intros cfg s s' c a HI Hst Hw Hu Htk Hl Hn Hq Hb Hwok Hfr.
  apply (Inv_add_cmd cfg s s' c HI Hst Hw Hu Htk Hl Hn Hwok Hfr).
  - intros x. rewrite (pending_of s' _ _ Hq Hb), (pending_of s _ _ eq_refl eq_refl).
    rewrite map_fst_app_one, !idcount_app. lia.
  - intros c' H. rewrite (pending_of s' _ _ Hq Hb) in H. rewrite (pending_of s _ _ eq_refl eq_refl).
    rewrite map_fst_app_one in H. apply in_app_or in H. destruct H as [H|H].
    + apply in_app_or in H. destruct H as [H|H].
      * right. apply in_or_app. left. exact H.
      * left. destruct H as [H|[]]. symmetry. exact H.
    + right. apply in_or_app. right. exact H.
Qed.

Lemma Inv_park : forall cfg s s' tid k, Inv cfg s ->
  store s' = store s -> weights s' = weights s -> used s' = used s -> ticker s' = ticker s -> lfu s' = lfu s ->
  next_id s' = next_id s -> queue s' = queue s -> blocked s' = aset tid k (blocked s) ->
  (forall c, k = KSend c -> cmd_weight_ok c /\ cmd_fresh s c) -> Inv cfg s'.
Proof.
  intros cfg s s' tid k HI Hst Hw Hu Htk Hl Hn Hq Hb Hk.
  assert (Hp' : pending_cmds s' = map fst (queue s) ++ cont_cmds k ++ bcmds (aremove tid (blocked s))).
  { rewrite (pending_of s' _ _ Hq Hb). unfold aset. rewrite bcmds_cons. reflexivity. }
  assert (Hp : pending_cmds s = map fst (queue s) ++ bcmds (blocked s)) by reflexivity.
  destruct k as [c| |].
  - destruct (Hk c eq_refl) as [Hwok Hfr].
    apply (Inv_add_cmd cfg s s' c HI Hst Hw Hu Htk Hl Hn Hwok Hfr).
    + intros x. rewrite Hp', Hp. cbn [cont_cmds]. rewrite !idcount_app.
      pose proof (bcmds_aremove_count x tid (blocked s)). lia.
    + intros c' H. rewrite Hp' in H. rewrite Hp. cbn [cont_cmds] in H.
      apply in_app_or in H. destruct H as [H|H].
      * right. apply in_or_app. left. exact H.
      * apply in_app_or in H. destruct H as [H|H].
        -- left. destruct H as [H|[]]. symmetry. exact H.
        -- right. apply in_or_app. right. eapply bcmds_aremove_in. exact H.
  - apply (Inv_shrink cfg s s' HI Hst Hw Hu Htk Hl Hn).
    + intros x. rewrite Hp', Hp. cbn [cont_cmds app]. rewrite !idcount_app.
      pose proof (bcmds_aremove_count x tid (blocked s)). lia.
    + intros c' H. rewrite Hp' in H. rewrite Hp. cbn [cont_cmds app] in H.
      apply in_app_or in H. apply in_or_app. destruct H as [H|H]; [left; exact H|right].
      eapply bcmds_aremove_in. exact H.
  - apply (Inv_shrink cfg s s' HI Hst Hw Hu Htk Hl Hn).
    + intros x. rewrite Hp', Hp. cbn [cont_cmds app]. rewrite !idcount_app.
      pose proof (bcmds_aremove_count x tid (blocked s)). lia.
    + intros c' H. rewrite Hp' in H. rewrite Hp. cbn [cont_cmds app] in H.
      apply in_app_or in H. apply in_or_app. destruct H as [H|H]; [left; exact H|right].
      eapply bcmds_aremove_in. exact H.
Qed.

Lemma Inv_unpark : forall cfg s s' tid, Inv cfg s ->
  store s' = store s -> weights s' = weights s -> used s' = used s -> ticker s' = ticker s -> lfu s' = lfu s ->
  next_id s' = next_id s -> queue s' = queue s -> blocked s' = aremove tid (blocked s) -> Inv cfg s'.
Proof.
  intros cfg s s' tid HI Hst Hw Hu Htk Hl Hn Hq Hb.
  apply (Inv_shrink cfg s s' HI Hst Hw Hu Htk Hl Hn).
  - intros x. rewrite (pending_of s' _ _ Hq Hb), (pending_of s _ _ eq_refl eq_refl). rewrite !idcount_app.
    pose proof (bcmds_aremove_count x tid (blocked s)). lia.
  - intros c' H. rewrite (pending_of s' _ _ Hq Hb) in H. rewrite (pending_of s _ _ eq_refl eq_refl).
    apply in_app_or in H. apply in_or_app. destruct H as [H|H]; [left; exact H|right].
    eapply bcmds_aremove_in. exact H.
Qed.

Lemma unparked_cmd_fresh : forall cfg s s' tid c, Inv cfg s ->
  weights s' = weights s -> ticker s' = ticker s -> next_id s' = next_id s ->
  queue s' = queue s -> blocked s' = aremove tid (blocked s) ->
  alookup tid (blocked s) = Some (KSend c) -> cmd_weight_ok c /\ cmd_fresh s' c.
Proof.
  intros cfg s s' tid c HI Hw Htk Hn Hq Hb Hlk.
  assert (Hin : In c (pending_cmds s)).
  { rewrite (pending_of s _ _ eq_refl eq_refl). apply in_or_app. right.
    apply (bcmds_found_in tid (KSend c) (blocked s) c Hlk). left. reflexivity. }
  destruct (Inv_pending_ok cfg s c HI Hin) as [Hwok Hids]. split; [exact Hwok|].
  intros id Hid. destruct (Hids id Hid) as (A & B & C).
  split; [rewrite Hn; exact A|]. split; [rewrite Hw; exact B|]. split; [unfold ticker_ids; rewrite Htk; exact C|].
  apply notin_put_ids_idcount.
  pose proof (proj1 (nodup_idcount (pending_cmds s)) (proj1 (inv_ids_pending cfg s HI)) id) as Hold.
  rewrite (pending_of s _ _ eq_refl eq_refl), idcount_app in Hold.
  rewrite (pending_of s' _ _ Hq Hb), idcount_app.
  pose proof (bcmds_aremove_count_found id tid (KSend c) (blocked s) Hlk) as Hf.
  cbn [cont_cmds] in Hf. rewrite (idcount_one_put id c id Hid) in Hf.
  destruct (Z.eq_dec id id) as [_|Hne]; [lia|contradiction].
Qed.

(** * do_send *)
Lemma do_send_roles : forall cfg tid c s, roles s (fst (do_send cfg tid c s)).
Proof.
  intros cfg tid c s. unfold do_send.
  destruct (worker s) eqn:Hw; [destruct (Z.of_nat (length (queue s)) <? c_queue cfg)| | |];
    unfold roles; cbn [fst]; repeat split; reflexivity.
Qed.

Lemma do_send_inv : forall cfg tid c s, Inv cfg s -> cmd_weight_ok c -> cmd_fresh s c ->
  Inv cfg (fst (do_send cfg tid c s)).
Proof.
  intros cfg tid c s HI Hwok Hfr. unfold do_send.
  destruct (worker s) eqn:Hwk.
  - destruct (Z.of_nat (length (queue s)) <? c_queue cfg); cbn [fst].
    + apply (Inv_enqueue cfg s _ c (next_ack s) HI); try reflexivity; assumption.
    + apply (Inv_park cfg s _ tid (KSend c) HI); try reflexivity.
      intros c' Hc'. inversion Hc'; subst c'. split; assumption.
  - cbn [fst]. apply (Inv_ext cfg s _ HI); reflexivity.
  - exact HI.
  - exact HI.
Qed.

(** * A new id *)
Lemma Inv_bump : forall cfg s, Inv cfg s -> Inv cfg (set_next_id s (next_id s + 1)).
Proof.
  intros cfg s HI.
  apply (Inv_transfer cfg s _ HI); try reflexivity.
  - cbn. lia.
  - intros x. exact (proj1 (nodup_idcount (pending_cmds s)) (proj1 (inv_ids_pending cfg s HI)) x).
  - intros c Hc. change (pending_cmds (set_next_id s (next_id s + 1))) with (pending_cmds s) in Hc.
    destruct (Inv_pending_ok cfg s c HI Hc) as [Hwok Hids]. split; [exact Hwok|].
    intros id Hid. destruct (Hids id Hid) as (A & B & C). cbn. repeat split; try assumption. lia.
Qed.

Lemma next_id_fresh : forall cfg s c, Inv cfg s -> cmd_put_id c = Some (next_id s) ->
  cmd_fresh (set_next_id s (next_id s + 1)) c.
Proof.
  intros cfg s c HI Hc id Hid. rewrite Hc in Hid. inversion Hid; subst id. clear Hid.
  split; [cbn; lia|]. split; [|split].
  - change (weights (set_next_id s (next_id s + 1))) with (weights s).
    destruct (alookup (next_id s) (weights s)) as [wk|] eqn:E; [|reflexivity].
    pose proof (inv_ids_weights cfg s HI _ _ E). lia.
  - change (ticker_ids (set_next_id s (next_id s + 1))) with (ticker_ids s).
    intros H. pose proof (inv_ids_ticker cfg s HI _ H). lia.
  - change (pending_cmds (set_next_id s (next_id s + 1))) with (pending_cmds s).
    intros H. pose proof (proj2 (inv_ids_pending cfg s HI) _ H) as (A & _). lia.
Qed.

Lemma send_new_put_inv : forall cfg tid s c, Inv cfg s -> cmd_put_id c = Some (next_id s) -> cmd_weight_ok c ->
  Inv cfg (fst (do_send cfg tid c (set_next_id s (next_id s + 1)))).
Proof.
  intros cfg tid s c HI Hc Hwok. apply do_send_inv.
  - apply Inv_bump. exact HI.
  - exact Hwok.
  - apply (next_id_fresh cfg s c HI Hc).
Qed.

Lemma send_new_put_roles : forall cfg tid s c, roles s (fst (do_send cfg tid c (set_next_id s (next_id s + 1)))).
Proof.
  intros cfg tid s c. eapply roles_trans; [|apply do_send_roles]. unfold roles. repeat split; reflexivity.
Qed.

(** * put *)
Lemma call_put_inv : forall cfg tid k v w ttl s, Inv cfg s -> Inv cfg (fst (call_put cfg tid k v w ttl s)).
Proof.
  intros cfg tid k v w ttl s HI. unfold call_put.
  destruct (w <=? 0) eqn:Hw; [exact HI|].
  destruct (amem k (store s)); [exact HI|].
  destruct ttl as [t|]; apply send_new_put_inv; try exact HI; try reflexivity; cbn [cmd_weight_ok]; lia.
Qed.

Lemma call_put_roles : forall cfg tid k v w ttl s, roles s (fst (call_put cfg tid k v w ttl s)).
Proof.
  intros cfg tid k v w ttl s. unfold call_put.
  destruct (w <=? 0); [apply roles_refl|].
  destruct (amem k (store s)); [apply roles_refl|].
  destruct ttl as [t|]; apply send_new_put_roles.
Qed.

(** * put_or_update *)
Lemma upsert_store_inv : forall cfg s s' k e e', Inv cfg s -> alookup k (store s) = Some e ->
  e_id e' = e_id e ->
  store s' = aset k e' (store s) ->
  ticker s' = match type_of_expiry_update (e_exp e) (e_exp e') with
              | XNothing => ticker s
              | XAdded n => ticker_put cfg (e_id e) n (ticker s)
              | XDeleted o => ticker_delete cfg (e_id e) o (ticker s)
              | XUpdated o n => ticker_update cfg (e_id e) o n (ticker s)
              end ->
  weights s' = weights s -> used s' = used s -> queue s' = queue s -> blocked s' = blocked s ->
  next_id s' = next_id s -> lfu s' = lfu s -> Inv cfg s'.
Proof.
  intros cfg s s' k e e' HI Hke Heid Hst Htk Hw Hu Hq Hb Hn Hl.
  pose proof (Inv_ticker_wf cfg s HI) as Hwf.
  apply (Inv_store_update cfg s s' k e e' HI Hke Heid Hst); try assumption.
  - rewrite Htk. destruct (type_of_expiry_update (e_exp e) (e_exp e')).
    + exact Hwf.
    + apply ticker_put_wf. exact Hwf.
    + apply ticker_delete_wf. exact Hwf.
    + unfold ticker_update. apply ticker_put_wf. apply ticker_delete_wf. exact Hwf.
  - intros sh id t Hne. rewrite Htk. destruct (type_of_expiry_update (e_exp e) (e_exp e')).
    + reflexivity.
    + rewrite tent_ticker_put. tauto.
    + rewrite tent_ticker_delete. tauto.
    + unfold ticker_update. rewrite tent_ticker_put, tent_ticker_delete. tauto.
  - intros sh t. rewrite Htk.
    assert (F : forall t', tent (ticker s) sh (e_id e) t' <-> e_exp e = Some t' /\ sh = shard_index cfg t').
    { intros t'. apply (Inv_stored_tent cfg s k e sh t' HI Hke). }
    unfold type_of_expiry_update.
    destruct (e_exp e) as [o|] eqn:Eo; destruct (e_exp e') as [n|] eqn:En.
    + destruct (Z.eqb_spec o n) as [Hon|Hon].
      * subst n. apply F.
      * unfold ticker_update. rewrite tent_ticker_put, tent_ticker_delete. rewrite F. split.
        -- intros [(H1 & _ & H3)|(H1 & H2 & H3 & H4)].
           ++ subst t. split; [reflexivity|exact H1].
           ++ inversion H3; subst t. exfalso. apply H2. split; [exact H4|reflexivity].
        -- intros [H1 H2]. inversion H1; subst t. left. repeat split; auto.
    + rewrite tent_ticker_delete, F. split.
      * intros (H1 & H2 & H3). inversion H2; subst t. exfalso. apply H1. split; [exact H3|reflexivity].
      * intros [H1 _]. discriminate.
    + rewrite tent_ticker_put, F. split.
      * intros [(H1 & _ & H3)|(_ & H2 & _)]; [|discriminate]. subst t. split; [reflexivity|exact H1].
      * intros [H1 H2]. inversion H1; subst t. left. repeat split; auto.
    + apply F.
Qed.

Lemma call_upsert_inv : forall cfg tid k v w ttl rm s, Inv cfg s ->
  Inv cfg (fst (call_upsert cfg tid k v w ttl rm s)).
Proof.
  intros cfg tid k v w ttl rm s HI. unfold call_upsert.
  cbv zeta. set (uw0 := match w with Some x => Some x | None => _ end). clearbody uw0.
  destruct (alookup k (store s)) as [e|] eqn:Hke.
  - destruct (if rm then Some None else
              match ttl with
              | Some t => match calc_expiry (now s) t with Some x => Some (Some x) | None => None end
              | None => Some (e_exp e)
              end) as [new_exp|] eqn:Hne; [|exact HI].
    set (e' := {| e_val := match v with Some val => val | None => e_val e end;
                  e_id := e_id e; e_exp := new_exp; e_soft := e_soft e |}).
    pose proof (upsert_store_inv cfg s) as Hup.
    destruct (type_of_expiry_update (e_exp e) new_exp) eqn:Ht.
    + assert (HI2 : Inv cfg (set_store s (aset k e' (store s)))).
      { apply (Hup _ k e e' HI Hke); try reflexivity. cbn [e_exp e']. rewrite Ht. reflexivity. }
      repeat dmatch; cbn [fst]; try exact HI2.
      apply do_send_inv; [exact HI2|cbn [cmd_weight_ok]; lia|apply cmd_fresh_noput; reflexivity].
    + assert (HI2 : Inv cfg (set_ticker (set_store s (aset k e' (store s)))
                               (ticker_put cfg (e_id e) n (ticker (set_store s (aset k e' (store s))))))).
      { apply (Hup _ k e e' HI Hke); try reflexivity. cbn [e_exp e']. rewrite Ht. reflexivity. }
      repeat dmatch; cbn [fst]; try exact HI2;
      (apply do_send_inv; [exact HI2|cbn [cmd_weight_ok]; lia|apply cmd_fresh_noput; reflexivity]).
    + assert (HI2 : Inv cfg (set_ticker (set_store s (aset k e' (store s)))
                               (ticker_delete cfg (e_id e) o (ticker (set_store s (aset k e' (store s))))))).
      { apply (Hup _ k e e' HI Hke); try reflexivity. cbn [e_exp e']. rewrite Ht. reflexivity. }
      repeat dmatch; cbn [fst]; try exact HI2;
      (apply do_send_inv; [exact HI2|cbn [cmd_weight_ok]; lia|apply cmd_fresh_noput; reflexivity]).
    + assert (HI2 : Inv cfg (set_ticker (set_store s (aset k e' (store s)))
                               (ticker_update cfg (e_id e) o n (ticker (set_store s (aset k e' (store s))))))).
      { apply (Hup _ k e e' HI Hke); try reflexivity. cbn [e_exp e']. rewrite Ht. reflexivity. }
      repeat dmatch; cbn [fst]; try exact HI2.
      apply do_send_inv; [exact HI2|cbn [cmd_weight_ok]; lia|apply cmd_fresh_noput; reflexivity].
  - destruct v as [val|]; [|exact HI]. destruct uw0 as [wt|]; [|exact HI].
    destruct (wt <=? 0) eqn:Hwt; [exact HI|].
    destruct ttl as [t|]; apply send_new_put_inv; try exact HI; try reflexivity; cbn [cmd_weight_ok]; lia.
Qed.

Lemma call_upsert_roles : forall cfg tid k v w ttl rm s, roles s (fst (call_upsert cfg tid k v w ttl rm s)).
Proof.
  intros cfg tid k v w ttl rm s. unfold call_upsert.
  cbv zeta. set (uw0 := match w with Some x => Some x | None => _ end). clearbody uw0.
  destruct (alookup k (store s)) as [e|] eqn:Hke.
  - destruct (if rm then Some None else
              match ttl with
              | Some t => match calc_expiry (now s) t with Some x => Some (Some x) | None => None end
              | None => Some (e_exp e)
              end) as [new_exp|] eqn:Hne; [|apply roles_refl].
    destruct (type_of_expiry_update (e_exp e) new_exp) eqn:Ht;
      repeat dmatch; cbn [fst];
      try (unfold roles; repeat split; reflexivity);
      (eapply roles_trans; [|apply do_send_roles]; unfold roles; repeat split; reflexivity).
  - destruct v as [val|]; [|apply roles_refl]. destruct uw0 as [wt|]; [|apply roles_refl].
    destruct (wt <=? 0) eqn:Hwt; [apply roles_refl|].
    destruct ttl as [t|]; apply send_new_put_roles.
Qed.

(** * Reads *)
Lemma accept_batch_frame : forall hs s, frameR s (accept_batch hs s).
Proof.
  intros hs s. unfold accept_batch.
  destruct (consumer s); [destruct (Z.of_nat (length (chan s)) <? chan_capacity)| | |];
    unfold frameR; repeat split; reflexivity.
Qed.

Lemma pool_add_frame : forall cfg idx h s s', pool_add cfg idx h s = Some s' -> frameR s s'.
Proof.
  intros cfg idx h s s' H. unfold pool_add in H.
  destruct ((idx <? 0) || (c_pool cfg <=? idx)); [discriminate|].
  destruct (nth_error (pool s) (Z.to_nat idx)) as [buf|]; [|discriminate].
  destruct (c_buffer cfg <=? Z.of_nat (length buf)); inversion H; subst s'.
  - eapply frameR_trans; [apply (accept_batch_frame buf s)|]. unfold frameR. repeat split; reflexivity.
  - unfold frameR. repeat split; reflexivity.
Qed.

Lemma read_one_frame : forall cfg k idxs s v s' idxs', read_one cfg k idxs s = Some (v, s', idxs') -> frameR s s'.
Proof.
  intros cfg k idxs s v s' idxs' H. unfold read_one in H.
  destruct (lookup_alive k s) as [e|].
  - destruct idxs as [|i idxs0]; [discriminate|].
    destruct (pool_add cfg i (key_hash (c_hash cfg) k) (upd_st add_hits 1 s)) as [s1|] eqn:Hp; [|discriminate].
    inversion H; subst. apply pool_add_frame in Hp.
    eapply frameR_trans; [|exact Hp]. unfold frameR. repeat split; reflexivity.
  - inversion H; subst. unfold frameR. repeat split; reflexivity.
Qed.

Lemma read_many_frame : forall cfg ks idxs s vs s' idxs', read_many cfg ks idxs s = Some (vs, s', idxs') -> frameR s s'.
Proof.
  intros cfg ks. induction ks as [|k t IH]; intros idxs s vs s' idxs' H; cbn [read_many] in H.
  - inversion H; subst. apply frameR_refl.
  - destruct (read_one cfg k idxs s) as [[[v s1] idxs1]|] eqn:H1; [|discriminate].
    destruct (read_many cfg t idxs1 s1) as [[[vs2 s2] idxs2]|] eqn:H2; [|discriminate].
    inversion H; subst. eapply frameR_trans; [eapply read_one_frame; exact H1|eapply IH; exact H2].
Qed.

(** * Shutdown *)
Lemma shutdown_finish_inv : forall cfg s, Inv cfg s -> Inv cfg (shutdown_finish s).
Proof. intros cfg s HI. apply (Inv_cleared cfg s _ HI); reflexivity. Qed.

Lemma shutdown_finish_roles : forall s, roles s (shutdown_finish s).
Proof. intros s. unfold roles. repeat split; reflexivity. Qed.

Lemma shutdown_chan_inv : forall cfg tid s, Inv cfg s -> Inv cfg (fst (shutdown_chan tid s)).
Proof.
  intros cfg tid s HI. unfold shutdown_chan.
  destruct (consumer s); [destruct (Z.of_nat (length (chan s)) <? chan_capacity)| | |]; cbn [fst].
  - apply (Inv_cleared cfg s _ HI); reflexivity.
  - apply (Inv_park cfg s _ tid KShutdownChan HI); try reflexivity. intros c Hc. discriminate.
  - apply shutdown_finish_inv. exact HI.
  - apply shutdown_finish_inv. exact HI.
  - apply shutdown_finish_inv. exact HI.
Qed.

Lemma shutdown_chan_roles : forall tid s, roles s (fst (shutdown_chan tid s)).
Proof.
  intros tid s. unfold shutdown_chan.
  destruct (consumer s); [destruct (Z.of_nat (length (chan s)) <? chan_capacity)| | |]; cbn [fst];
    unfold roles; repeat split; reflexivity.
Qed.

Lemma shutdown_cmd_inv : forall cfg tid s, Inv cfg s -> Inv cfg (fst (shutdown_cmd cfg tid s)).
Proof.
  intros cfg tid s HI. unfold shutdown_cmd.
  destruct (worker s); [destruct (Z.of_nat (length (queue s)) <? c_queue cfg)| | |].
  - apply shutdown_chan_inv.
    apply (Inv_enqueue cfg s _ CShutdown (-1) HI); try reflexivity; try exact I.
    apply cmd_fresh_noput. reflexivity.
  - cbn [fst]. apply (Inv_park cfg s _ tid KShutdownCmd HI); try reflexivity. intros c Hc. discriminate.
  - apply shutdown_chan_inv. exact HI.
  - apply shutdown_chan_inv. exact HI.
  - apply shutdown_chan_inv. exact HI.
Qed.

Lemma shutdown_cmd_roles : forall cfg tid s, roles s (fst (shutdown_cmd cfg tid s)).
Proof.
  intros cfg tid s. unfold shutdown_cmd.
  destruct (worker s) eqn:Hw; [destruct (Z.of_nat (length (queue s)) <? c_queue cfg)| | |];
    try apply shutdown_chan_roles.
  - eapply roles_trans; [|apply shutdown_chan_roles]. unfold roles. repeat split; reflexivity.
  - cbn [fst]. unfold roles. repeat split; reflexivity.
Qed.

(** * The API call *)
Lemma soft_delete_inv : forall cfg s k e, Inv cfg s -> alookup k (store s) = Some e ->
  Inv cfg (set_store s (aset k {| e_val := e_val e; e_id := e_id e; e_exp := e_exp e; e_soft := true |} (store s))).
Proof.
  intros cfg s k e HI Hke.
  apply (Inv_store_update cfg s _ k e {| e_val := e_val e; e_id := e_id e; e_exp := e_exp e; e_soft := true |} HI Hke);
    try reflexivity.
  - exact (Inv_ticker_wf cfg s HI).
  - intros sh t. cbn [e_exp]. apply (Inv_stored_tent cfg s k e sh t HI Hke).
Qed.

Lemma call_inv : forall cfg tid r idxs s, Inv cfg s -> Inv cfg (fst (call cfg tid r idxs s)).
Proof.
  intros cfg tid r idxs s HI. unfold call.
  destruct (amem tid (blocked s)); [exact HI|].
  destruct r.
  - destruct (weight_calc (c_wcalc cfg) k v false <=? 0); [exact HI|].
    destruct (shut s); [exact HI|]. apply call_put_inv. exact HI.
  - destruct (shut s); [exact HI|]. apply call_put_inv. exact HI.
  - destruct (shut s); [exact HI|]. apply call_put_inv. exact HI.
  - destruct (shut s); [exact HI|]. apply call_put_inv. exact HI.
  - destruct (shut s); [exact HI|]. apply call_upsert_inv. exact HI.
  - destruct (shut s); [exact HI|]. apply do_send_inv.
    + destruct (alookup k (store s)) as [e|] eqn:Hke; [|exact HI]. apply soft_delete_inv; assumption.
    + exact I.
    + apply cmd_fresh_noput. reflexivity.
  - destruct (shut s); [exact HI|].
    destruct (read_one cfg k idxs s) as [[[v s'] idxs']|] eqn:Hr; [|exact HI].
    destruct idxs'; [|exact HI]. cbn [fst]. eapply frameR_inv; [eapply read_one_frame; exact Hr|exact HI].
  - destruct (shut s); [exact HI|].
    destruct (read_one cfg k idxs s) as [[[v s'] idxs']|] eqn:Hr; [|exact HI].
    destruct idxs'; [|exact HI]. cbn [fst]. eapply frameR_inv; [eapply read_one_frame; exact Hr|exact HI].
  - destruct (shut s); [exact HI|].
    destruct (read_one cfg k idxs s) as [[[v s'] idxs']|] eqn:Hr; [|exact HI].
    destruct idxs'; [|exact HI]. cbn [fst]. eapply frameR_inv; [eapply read_one_frame; exact Hr|exact HI].
  - destruct (shut s); [exact HI|].
    destruct (read_one cfg k idxs s) as [[[v s'] idxs']|] eqn:Hr; [|exact HI].
    destruct idxs'; [|exact HI]. cbn [fst]. eapply frameR_inv; [eapply read_one_frame; exact Hr|exact HI].
  - destruct (shut s); [exact HI|].
    destruct (read_many cfg ks idxs s) as [[[vs s'] idxs']|] eqn:Hr; [|exact HI].
    destruct idxs'; [|exact HI]. cbn [fst]. eapply frameR_inv; [eapply read_many_frame; exact Hr|exact HI].
  - destruct (shut s); [exact HI|].
    destruct (read_many cfg ks idxs s) as [[[vs s'] idxs']|] eqn:Hr; [|exact HI].
    destruct idxs'; [|exact HI]. cbn [fst]. eapply frameR_inv; [eapply read_many_frame; exact Hr|exact HI].
  - destruct (shut s); [exact HI|].
    destruct (read_many cfg ks idxs s) as [[[vs s'] idxs']|] eqn:Hr; [|exact HI].
    destruct idxs'; [|exact HI]. cbn [fst]. eapply frameR_inv; [eapply read_many_frame; exact Hr|exact HI].
  - exact HI.
  - exact HI.
  - destruct (shut s); [exact HI|]. apply shutdown_cmd_inv.
    apply (Inv_ext cfg s _ HI); reflexivity.
Qed.

Lemma call_roles : forall cfg tid r idxs s, roles s (fst (call cfg tid r idxs s)).
Proof.
  intros cfg tid r idxs s. unfold call.
  destruct (amem tid (blocked s)); [apply roles_refl|].
  destruct r.
  - destruct (weight_calc (c_wcalc cfg) k v false <=? 0); [apply roles_refl|].
    destruct (shut s); [apply roles_refl|]. apply call_put_roles.
  - destruct (shut s); [apply roles_refl|]. apply call_put_roles.
  - destruct (shut s); [apply roles_refl|]. apply call_put_roles.
  - destruct (shut s); [apply roles_refl|]. apply call_put_roles.
  - destruct (shut s); [apply roles_refl|]. apply call_upsert_roles.
  - destruct (shut s); [apply roles_refl|]. eapply roles_trans; [|apply do_send_roles].
    destruct (alookup k (store s)); unfold roles; repeat split; reflexivity.
  - destruct (shut s); [apply roles_refl|].
    destruct (read_one cfg k idxs s) as [[[v s'] idxs']|] eqn:Hr; [|apply roles_refl].
    destruct idxs'; [|apply roles_refl]. cbn [fst]. apply frameR_roles. eapply read_one_frame. exact Hr.
  - destruct (shut s); [apply roles_refl|].
    destruct (read_one cfg k idxs s) as [[[v s'] idxs']|] eqn:Hr; [|apply roles_refl].
    destruct idxs'; [|apply roles_refl]. cbn [fst]. apply frameR_roles. eapply read_one_frame. exact Hr.
  - destruct (shut s); [apply roles_refl|].
    destruct (read_one cfg k idxs s) as [[[v s'] idxs']|] eqn:Hr; [|apply roles_refl].
    destruct idxs'; [|apply roles_refl]. cbn [fst]. apply frameR_roles. eapply read_one_frame. exact Hr.
  - destruct (shut s); [apply roles_refl|].
    destruct (read_one cfg k idxs s) as [[[v s'] idxs']|] eqn:Hr; [|apply roles_refl].
    destruct idxs'; [|apply roles_refl]. cbn [fst]. apply frameR_roles. eapply read_one_frame. exact Hr.
  - destruct (shut s); [apply roles_refl|].
    destruct (read_many cfg ks idxs s) as [[[vs s'] idxs']|] eqn:Hr; [|apply roles_refl].
    destruct idxs'; [|apply roles_refl]. cbn [fst]. apply frameR_roles. eapply read_many_frame. exact Hr.
  - destruct (shut s); [apply roles_refl|].
    destruct (read_many cfg ks idxs s) as [[[vs s'] idxs']|] eqn:Hr; [|apply roles_refl].
    destruct idxs'; [|apply roles_refl]. cbn [fst]. apply frameR_roles. eapply read_many_frame. exact Hr.
  - destruct (shut s); [apply roles_refl|].
    destruct (read_many cfg ks idxs s) as [[[vs s'] idxs']|] eqn:Hr; [|apply roles_refl].
    destruct idxs'; [|apply roles_refl]. cbn [fst]. apply frameR_roles. eapply read_many_frame. exact Hr.
  - apply roles_refl.
  - apply roles_refl.
  - destruct (shut s); [apply roles_refl|]. eapply roles_trans; [|apply shutdown_cmd_roles].
    unfold roles. repeat split; reflexivity.
Qed.

(** * Resumption of a parked caller *)
Lemma resume_inv : forall cfg tid s, Inv cfg s -> Inv cfg (fst (resume cfg tid s)).
Proof.
  intros cfg tid s HI. unfold resume.
  destruct (alookup tid (blocked s)) as [k|] eqn:Hlk; [|exact HI].
  cbv zeta.
  assert (HI0 : Inv cfg (set_blocked s (aremove tid (blocked s)))).
  { apply (Inv_unpark cfg s _ tid HI); reflexivity. }
  destruct k as [c| |].
  - destruct (unparked_cmd_fresh cfg s (set_blocked s (aremove tid (blocked s))) tid c HI
                eq_refl eq_refl eq_refl eq_refl eq_refl Hlk) as [Hwok Hfr].
    destruct (worker (set_blocked s (aremove tid (blocked s))));
      [destruct (Z.of_nat (length (queue (set_blocked s (aremove tid (blocked s))))) <? c_queue cfg);
         [|exact HI]| | |];
      apply do_send_inv; assumption.
  - destruct (worker (set_blocked s (aremove tid (blocked s))));
      [destruct (Z.of_nat (length (queue (set_blocked s (aremove tid (blocked s))))) <? c_queue cfg);
         [|exact HI]| | |];
      apply shutdown_cmd_inv; exact HI0.
  - destruct (consumer (set_blocked s (aremove tid (blocked s))));
      [destruct (Z.of_nat (length (chan (set_blocked s (aremove tid (blocked s))))) <? chan_capacity);
         [|exact HI]| | |];
      apply shutdown_chan_inv; exact HI0.
Qed.

Lemma resume_roles : forall cfg tid s, roles s (fst (resume cfg tid s)).
Proof.
  intros cfg tid s. unfold resume.
  destruct (alookup tid (blocked s)) as [k|] eqn:Hlk; [|apply roles_refl].
  cbv zeta.
  assert (R0 : roles s (set_blocked s (aremove tid (blocked s)))) by (unfold roles; repeat split; reflexivity).
  destruct k as [c| |].
  - destruct (worker (set_blocked s (aremove tid (blocked s))));
      [destruct (Z.of_nat (length (queue (set_blocked s (aremove tid (blocked s))))) <? c_queue cfg);
         [|apply roles_refl]| | |];
      (eapply roles_trans; [exact R0|apply do_send_roles]).
  - destruct (worker (set_blocked s (aremove tid (blocked s))));
      [destruct (Z.of_nat (length (queue (set_blocked s (aremove tid (blocked s))))) <? c_queue cfg);
         [|apply roles_refl]| | |];
      (eapply roles_trans; [exact R0|apply shutdown_cmd_roles]).
  - destruct (consumer (set_blocked s (aremove tid (blocked s))));
      [destruct (Z.of_nat (length (chan (set_blocked s (aremove tid (blocked s))))) <? chan_capacity);
         [|apply roles_refl]| | |];
      (eapply roles_trans; [exact R0|apply shutdown_chan_roles]).
Qed.
