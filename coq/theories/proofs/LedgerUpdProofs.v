(** Proofs about LedgerUpd.v: with the entry guard held across CacheWeight::update the total is exact whenever nothing is
    half-way, for every interleaving with the sweeper's deletes; without the guard it is not. *)
From CacheD Require Import Base Ledger LedgerUpd.
From CacheD.proofs Require Import LedgerProofs.
From Coq Require Import ZifyBool.

Lemma charges_sum_aset : forall (l : list (Z * Z)) k v old,
  NoDup (map fst l) -> alookup k l = Some old -> charges_sum (aset k v l) = charges_sum l + (v - old).
Proof.
  intros l k v old Hnd Hl. unfold aset. rewrite charges_sum_cons.
  rewrite (charges_sum_aremove l k old Hnd Hl). lia.
Qed.

Lemma aset_nodup : forall (l : list (Z * Z)) k v, NoDup (map fst l) -> NoDup (map fst (aset k v l)).
Proof.
  intros l k v Hnd. unfold aset. cbn [map fst]. constructor.
  - intro Hin. assert (H : alookup k (aremove k l) = None).
    { clear Hnd Hin. induction l as [|[k' v'] t IH]; cbn [aremove alookup]; [reflexivity|].
      destruct (k =? k') eqn:E; [exact IH|]. cbn [alookup]. rewrite E. exact IH. }
    exact (alookup_none_notin _ _ H Hin).
  - apply aremove_nodup. exact Hnd.
Qed.

(** the invariant: the total is the sum of the charges, plus what the sweeper still has to subtract, plus what an update
    has already added for a weight it has not stored yet; under the guard the entry an update works on stays put *)
Definition pending_del (s : ustate) : Z := match u_del s with Some vw => vw | None => 0 end.
Definition pending_wdel (s : ustate) : Z := match u_wdel s with Some vw => vw | None => 0 end.
Definition pending_upd (s : ustate) : Z := match u_upd s with Some (_, old, w, true) => w - old | _ => 0 end.

Record UInv (s : ustate) : Prop := {
  ui_nodup : NoDup (map fst (u_charges s));
  ui_total : u_used s = charges_sum (u_charges s) + pending_del s + pending_wdel s + pending_upd s;
  ui_guard : forall id old w b, u_upd s = Some (id, old, w, b) -> alookup id (u_charges s) = Some old
}.

Lemma uinv_step : forall s a, UInv s -> UInv (ustep true s a).
Proof.
  intros s a HI. pose proof HI as [Hnd Ht Hg]. destruct a as [id w| | |vid| |vid|]; cbn [ustep].
  - destruct (u_upd s) as [[[[i o] nw] b]|] eqn:Eu; [exact HI|].
    destruct (alookup id (u_charges s)) as [old|] eqn:El; [|exact HI].
    destruct (0 <? w); [|exact HI].
    constructor; cbn [u_used u_charges u_upd u_del u_wdel]; try assumption.
    + unfold pending_del, pending_wdel, pending_upd in *. cbn [u_upd u_del u_wdel]. rewrite Eu in Ht. exact Ht.
    + intros id' old' w' b' H. inversion H; subst. exact El.
  - destruct (u_upd s) as [[[[i o] nw] [|]]|] eqn:Eu; try exact HI.
    constructor; cbn [u_used u_charges u_upd u_del u_wdel]; try assumption.
    + unfold pending_del, pending_wdel, pending_upd in *. cbn [u_upd u_del u_wdel]. rewrite Eu in Ht. lia.
    + intros id' old' w' b' H. inversion H; subst. exact (Hg _ _ _ _ eq_refl).
  - destruct (u_upd s) as [[[[i o] nw] [|]]|] eqn:Eu; try exact HI.
    pose proof (Hg _ _ _ _ eq_refl) as Hl.
    assert (Hm : amem i (u_charges s) = true) by (unfold amem; rewrite Hl; reflexivity).
    rewrite Hm.
    constructor; cbn [u_used u_charges u_upd u_del u_wdel].
    + apply aset_nodup. exact Hnd.
    + unfold pending_del, pending_wdel, pending_upd in *. cbn [u_upd u_del u_wdel]. rewrite Eu in Ht.
      rewrite (charges_sum_aset _ i nw o Hnd Hl). lia.
    + intros id' old' w' b' H. discriminate.
  - destruct (u_del s) as [d|] eqn:Ed; [exact HI|].
    destruct (alookup vid (u_charges s)) as [vw|] eqn:El; [|exact HI].
    cbn [andb]. destruct (holds_guard s vid) eqn:Eh; [exact HI|].
    constructor; cbn [u_used u_charges u_upd u_del u_wdel].
    + apply aremove_nodup. exact Hnd.
    + unfold pending_del, pending_wdel, pending_upd in *. cbn [u_upd u_del u_wdel]. rewrite Ed in Ht.
      rewrite (charges_sum_aremove _ vid vw Hnd El). lia.
    + intros id' old' w' b' H. unfold holds_guard in Eh. rewrite H in Eh.
      rewrite alookup_aremove_other by lia. exact (Hg _ _ _ _ H).
  - destruct (u_del s) as [d|] eqn:Ed; [|exact HI].
    constructor; cbn [u_used u_charges u_upd u_del u_wdel]; try assumption.
    unfold pending_del, pending_wdel, pending_upd in *. cbn [u_upd u_del u_wdel]. rewrite Ed in Ht. lia.
  - destruct (u_upd s) as [[[[i o] nw] b]|] eqn:Eu; [exact HI|].
    destruct (u_wdel s) as [d|] eqn:Ed; [exact HI|].
    destruct (alookup vid (u_charges s)) as [vw|] eqn:El; [|exact HI].
    constructor; cbn [u_used u_charges u_upd u_del u_wdel].
    + apply aremove_nodup. exact Hnd.
    + unfold pending_del, pending_wdel, pending_upd in *. cbn [u_upd u_del u_wdel]. rewrite Ed, Eu in Ht.
      rewrite (charges_sum_aremove _ vid vw Hnd El). lia.
    + intros id' old' w' b' H. discriminate.
  - destruct (u_wdel s) as [d|] eqn:Ed; [|exact HI].
    constructor; cbn [u_used u_charges u_upd u_del u_wdel]; try assumption.
    unfold pending_del, pending_wdel, pending_upd in *. cbn [u_upd u_del u_wdel]. rewrite Ed in Ht. lia.
Qed.

Lemma uinv_of_consistent : forall s, uconsistent s -> UInv s.
Proof.
  intros s (Hnd & Ht & Hu & Hd & Hwd). constructor; [exact Hnd| |].
  - unfold pending_del, pending_wdel, pending_upd. rewrite Hu, Hd, Hwd. lia.
  - intros id old w b H. rewrite Hu in H. discriminate.
Qed.

Lemma uinv_run : forall sched s, UInv s -> UInv (urun true s sched).
Proof.
  induction sched as [|a t IH]; intros s HI; [exact HI|]. unfold urun in *. cbn [fold_left]. apply IH. apply uinv_step. exact HI.
Qed.

(* STATEMENT (C05 / C01, every interleaving of the worker's UpdateWeight and deletes with the sweeper's evictions, one
   lock-delimited action at a time; two deleters of one id: only one of them finds the entry): with the entry guard held across the update, whenever neither operation is half-way the total is exactly the
   sum of the charges *)
Lemma guarded_update_exact : forall s sched, uconsistent s ->
  uquiet (urun true s sched) -> u_used (urun true s sched) = charges_sum (u_charges (urun true s sched)).
Proof.
  intros s sched Hc (Hu & Hd & Hwd).
  pose proof (uinv_run sched s (uinv_of_consistent s Hc)) as [_ Ht _].
  unfold pending_del, pending_wdel, pending_upd in Ht. rewrite Hu, Hd, Hwd in Ht. lia.
Qed.

(** the schedule of the atomicity probe `probe_update_vs_sweep`: key id 1 charged 7, UpdateWeight to 60 *)
Definition u0 : ustate := {| u_used := 7; u_charges := [(1, 7)]; u_upd := None; u_del := None; u_wdel := None |}.
Definition unguarded_race : list uaction := [UStart 1 60; SRemove 1; SSub; UAdd; UStore].

(* STATEMENT: the guard is necessary - if update reads the existing weight and lets go of the entry (a narrowed lock
   scope), the sweeper's eviction of that id slips in between, and afterwards, with nothing half-way and no key charged,
   the total is 53 for ever; with the guard the same schedule ends at 0 *)
Lemma unguarded_update_refuted :
  uconsistent u0 /\
  uquiet (urun false u0 unguarded_race) /\ u_charges (urun false u0 unguarded_race) = [] /\ u_used (urun false u0 unguarded_race) = 53 /\
  u_used (urun true u0 (unguarded_race ++ [SRemove 1; SSub])) = 0 /\ u_charges (urun true u0 (unguarded_race ++ [SRemove 1; SSub])) = [].
Proof.
  split.
  - unfold uconsistent, uquiet, u0. cbn. repeat split; try reflexivity. repeat constructor. intros [].
  - vm_compute. repeat split; reflexivity.
Qed.
