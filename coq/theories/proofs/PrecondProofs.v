(** The premises of the theorems are what the builders accept. *)
From CacheD Require Import Base Sketch Model Precond.
From CacheD.proofs Require Import Defs.
From Coq Require Import ZifyBool.

(* STATEMENT: a configuration the builder accepts satisfies every numeric premise of [wf_config] (the remaining fields of
   [wf_config] are the harness's four sketch seeds, a clock that starts after the epoch, the overflow-checking profile,
   and the i64 / usize ranges of the arguments' types) *)
Lemma accepted_config_is_wf : forall cfg capacity,
  config_accepted (c_counters cfg) capacity (c_max cfg) (c_pool cfg) (c_buffer cfg) (c_queue cfg) (c_shards cfg) = true ->
  c_max cfg <= i64_max -> c_counters cfg <= two63 -> length (c_seeds cfg) = 4%nat -> 0 <= c_t0 cfg -> c_debug cfg = true ->
  wf_config cfg.
Proof.
  intros cfg capacity H Hm Hc Hs Ht Hd. unfold config_accepted in H.
  repeat (apply andb_prop in H; destruct H as [H ?]).
  constructor; try assumption; lia.
Qed.

(* STATEMENT: the put_or_update requests the builder accepts are exactly the valid ones *)
Lemma accepted_upsert_iff_valid : forall k v w ttl rm,
  (forall x, ttl = Some x -> 0 <= x) ->
  (upsert_accepted v w ttl rm = true <-> valid_request (RUpsert k v w ttl rm)).
Proof.
  intros k v w ttl rm Httl. unfold upsert_accepted, valid_request. split.
  - intros H. apply andb_prop in H as [H H3]. apply andb_prop in H as [H1 H2].
    split; [|split; [|split]].
    + destruct v; [left; discriminate|]. destruct w; [right; left; discriminate|].
      destruct ttl; [right; right; left; discriminate|]. destruct rm; [right; right; right; reflexivity|discriminate].
    + intros [Ht Hr]. destruct ttl; [|contradiction]. subst rm. discriminate.
    + intros x Hx. subst w. lia.
    + exact Httl.
  - intros (H1 & H2 & H3 & _). apply andb_true_intro; split; [apply andb_true_intro; split|].
    + destruct w as [x|]; [|reflexivity]. specialize (H3 x eq_refl). lia.
    + destruct v; [reflexivity|]. destruct w; [reflexivity|]. destruct ttl; [reflexivity|].
      destruct rm; [reflexivity|]. exfalso. destruct H1 as [H|[H|[H|H]]]; try congruence.
    + destruct ttl; [|reflexivity]. destruct rm; [|reflexivity]. exfalso. apply H2. split; [discriminate|reflexivity].
Qed.

(* STATEMENT: the explicit weights the put variants accept (assert!(weight > 0)) are the valid ones *)
Lemma accepted_put_weight_iff_valid : forall k v w ttl,
  0 <= ttl -> ((0 <? w) = true <-> valid_request (RPutWTTL k v w ttl)) /\ ((0 <? w) = true <-> valid_request (RPutW k v w)).
Proof. intros k v w ttl Ht. cbn [valid_request]. split; split; intros; try lia. Qed.
