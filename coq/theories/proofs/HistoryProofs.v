(** Properties of whole histories of the phase-contiguous model: value provenance (C02), the command queue (C11),
    acknowledgement bookkeeping and shutdown (C13). *)
From CacheD.proofs Require Import Defs ApiProofs.
From Coq Require Import ZifyBool.

(** * Helpers: frames *)

(** the fields the ledger helpers (admission, eviction, sweep) never touch *)
Definition xframe (s s' : state) : Prop :=
  queue s' = queue s /\ acks s' = acks s /\ next_ack s' = next_ack s /\ worker s' = worker s /\
  blocked s' = blocked s /\ shut s' = shut s /\ chan s' = chan s /\ consumer s' = consumer s.

(** the communication fields *)
Definition sframe (s s' : state) : Prop :=
  queue s' = queue s /\ acks s' = acks s /\ next_ack s' = next_ack s /\ worker s' = worker s /\
  blocked s' = blocked s /\ shut s' = shut s.

Lemma xframe_refl : forall s, xframe s s.
Proof. intros s. unfold xframe. repeat split. Qed.

Lemma xframe_trans : forall s1 s2 s3, xframe s1 s2 -> xframe s2 s3 -> xframe s1 s3.
Proof.
  intros s1 s2 s3 H12 H23. unfold xframe in *.
  repeat match goal with H : _ /\ _ |- _ => destruct H end.
  repeat split; congruence.
Qed.

Lemma xframe_sframe : forall s s', xframe s s' -> sframe s s'.
Proof. intros s s' H. unfold xframe in H. unfold sframe. tauto. Qed.

Lemma sframe_refl : forall s, sframe s s.
Proof. intros s. unfold sframe. repeat split. Qed.

Lemma sframe_trans : forall s1 s2 s3, sframe s1 s2 -> sframe s2 s3 -> sframe s1 s3.
Proof.
  intros s1 s2 s3 H12 H23. unfold sframe in *.
  repeat match goal with H : _ /\ _ |- _ => destruct H end.
  repeat split; congruence.
Qed.

Lemma read_frame_sframe : forall s s', read_frame s s' -> sframe s s'.
Proof. intros s s' H. unfold read_frame in H. unfold sframe. tauto. Qed.

Lemma store_delete_xframe : forall k s, xframe s (store_delete k s).
Proof.
  intros k s. unfold store_delete. destruct (alookup k (store s)); [|apply xframe_refl].
  unfold xframe; sred. repeat split.
Qed.

Lemma weights_delete_xframe : forall cfg id hook s,
  match weights_delete cfg id hook s with
  | Ok s' => xframe s s'
  | Panic _ s' => xframe s s'
  | Inadmissible _ => False
  end.
Proof.
  intros cfg id hook s. unfold weights_delete.
  destruct (alookup id (weights s)) as [wk|] eqn:E; [|apply xframe_refl].
  destruct (add_i64 cfg _ _) as [u|] eqn:Ea.
  - destruct hook.
    + set (s2 := set_used (set_weights s (aremove id (weights s))) u).
      apply xframe_trans with (s2 := store_delete (w_key wk) s2).
      * apply xframe_trans with (s2 := s2); [|apply store_delete_xframe].
        unfold xframe, s2; sred. repeat split.
      * unfold xframe; sred. repeat split.
    + unfold xframe; sred. repeat split.
  - unfold xframe; sred. repeat split.
Qed.

Lemma weights_add_xframe : forall cfg k id h w s,
  match weights_add cfg k id h w s with
  | Ok s' => xframe s s'
  | Panic _ s' => xframe s s'
  | Inadmissible _ => False
  end.
Proof.
  intros cfg k id h w s. unfold weights_add.
  destruct (add_i64 cfg _ _) as [u|] eqn:Ea; unfold xframe; sred; repeat split.
Qed.

Lemma weights_update_xframe : forall cfg id w s,
  match weights_update cfg id w s with
  | Ok s' => xframe s s'
  | Panic _ s' => xframe s s'
  | Inadmissible _ => False
  end.
Proof.
  intros cfg id w s. unfold weights_update.
  destruct (alookup id (weights s)) as [wk|] eqn:E; [|apply xframe_refl].
  destruct (add_i64 cfg _ _) as [u|] eqn:Ea; unfold xframe; sred; repeat split.
Qed.

Lemma create_space_loop_xframe : forall fuel cfg est inc_freq w orders pops sm space s victims r s' vs,
  create_space_loop fuel cfg est inc_freq w orders pops sm space s victims = (r, s', vs) -> xframe s s'.
Proof.
  induction fuel as [|fuel IH]; intros cfg est inc_freq w orders pops sm space s victims r s' vs H;
    cbn [create_space_loop] in H.
  - inversion H; subst. apply xframe_refl.
  - destruct (w <=? space) eqn:E1; [inversion H; subst; apply xframe_refl|].
    destruct pops as [|p pops']; [inversion H; subst; apply xframe_refl|].
    destruct (p =? -1) eqn:E2.
    { destruct sm as [|x0 sm0]; [|inversion H; subst; apply xframe_refl].
      destruct (w <=? c_max cfg - used s); inversion H; subst; apply xframe_refl. }
    destruct (sample_find p sm) as [x|] eqn:E3; [|inversion H; subst; apply xframe_refl].
    destruct (negb (is_max x sm)) eqn:E4; [inversion H; subst; apply xframe_refl|].
    destruct (inc_freq <? sk_freq x) eqn:E5; [inversion H; subst; apply xframe_refl|].
    pose proof (weights_delete_xframe cfg p true s) as Hwd.
    destruct (weights_delete cfg p true s) as [s1|site s1|why] eqn:E6.
    + destruct orders as [|order orders']; [inversion H; subst; exact Hwd|].
      destruct (sample_fill est (weights s1) order (sample_remove p sm)) as [sm'|] eqn:E7;
        [|inversion H; subst; exact Hwd].
      eapply xframe_trans; [exact Hwd|]. eapply IH; exact H.
    + inversion H; subst; exact Hwd.
    + inversion H; subst; apply xframe_refl.
Qed.

Lemma admission_xframe : forall cfg orc k id h w s r s' vs,
  admission cfg orc k id h w s = (r, s', vs) -> xframe s s'.
Proof.
  intros cfg orc k id h w s r s' vs H. unfold admission in H.
  destruct (c_max cfg <? w) eqn:E0; [inversion H; subst; apply xframe_refl|].
  destruct (w <=? c_max cfg - used s) eqn:E1.
  { pose proof (weights_add_xframe cfg k id h w s) as Hwa.
    destruct (weights_add cfg k id h w s) as [s1|site s1|why] eqn:E2; inversion H; subst;
      first [exact Hwa|apply xframe_refl]. }
  destruct (negb (bloom_admissible _ _)) eqn:E2; [inversion H; subst; apply xframe_refl|].
  destruct (est_panics (lfu s)) eqn:E3; [inversion H; subst; apply xframe_refl|].
  destruct (o_orders orc) as [|order0 orders] eqn:E4; [inversion H; subst; apply xframe_refl|].
  destruct (negb (Nat.leb (length order0) sample_size)) eqn:E5; [inversion H; subst; apply xframe_refl|].
  destruct (sample_fill _ (weights s) order0 []) as [sm0|] eqn:E6; [|inversion H; subst; apply xframe_refl].
  destruct (create_space_loop _ cfg _ _ w orders (o_pops orc) sm0 _ s []) as [[sr s1] vs1] eqn:E7.
  assert (Hcs : xframe s s1) by (eapply create_space_loop_xframe; exact E7).
  destruct sr as [| |site|why].
  - pose proof (weights_add_xframe cfg k id h w s1) as Hwa.
    destruct (weights_add cfg k id h w s1) as [s2|site s2|why] eqn:E8; inversion H; subst;
      first [eapply xframe_trans; [exact Hcs|exact Hwa]|exact Hcs].
  - inversion H; subst. exact Hcs.
  - inversion H; subst. exact Hcs.
  - inversion H; subst. exact Hcs.
Qed.

Lemma sweep_entries_xframe : forall cfg now_ es s,
  match sweep_entries cfg now_ es s with
  | Ok s' => xframe s s'
  | Panic _ s' => xframe s s'
  | Inadmissible _ => True
  end.
Proof.
  intros cfg now_ es. induction es as [|[id ex] t IH]; intros s; cbn [sweep_entries].
  - apply xframe_refl.
  - destruct (ex <? now_); [|apply IH].
    pose proof (weights_delete_xframe cfg id true s) as Hwd.
    destruct (weights_delete cfg id true s) as [s1|site s1|why]; [| |exact I].
    + specialize (IH s1).
      destruct (sweep_entries cfg now_ t s1); try exact I; eapply xframe_trans; eassumption.
    + exact Hwd.
Qed.

(** * Helpers: lists *)

Lemma zmem_In : forall x l, zmem x l = true <-> In x l.
Proof.
  intros x l. induction l as [|y t IH]; cbn [zmem In].
  - split; [discriminate|tauto].
  - destruct (x =? y) eqn:E.
    + split; [intros _; left; lia|reflexivity].
    + rewrite IH. split; [tauto|]. intros [H|H]; [lia|exact H].
Qed.

Lemma zmem_false_In : forall x l, zmem x l = false <-> ~ In x l.
Proof.
  intros x l. rewrite <- zmem_In. destruct (zmem x l); split; congruence.
Qed.

Lemma In_aremove : forall (A : Type) k (p : Z * A) l, In p (aremove k l) -> In p l /\ fst p <> k.
Proof.
  intros A k p l. induction l as [|[k' v] t IH]; cbn [aremove In]; [tauto|].
  destruct (k =? k') eqn:E.
  - intros H. destruct (IH H) as (H1 & H2). split; [right; exact H1|exact H2].
  - cbn [In]. intros [H|H].
    + subst p. cbn [fst]. split; [left; reflexivity|lia].
    + destruct (IH H) as (H1 & H2). split; [right; exact H1|exact H2].
Qed.

Lemma In_aset : forall (A : Type) k (v : A) (p : Z * A) l, In p (aset k v l) -> p = (k, v) \/ In p l.
Proof.
  intros A k v p l H. unfold aset in H. cbn [In] in H. destruct H as [H|H]; [left; congruence|].
  right. apply In_aremove in H. tauto.
Qed.

Lemma alookup_In : forall (A : Type) k (v : A) l, alookup k l = Some v -> In (k, v) l.
Proof.
  intros A k v l. induction l as [|[k' v'] t IH]; cbn [alookup In]; [discriminate|].
  destruct (k =? k') eqn:E.
  - intros H. injection H as H. subst v'. left. f_equal. lia.
  - intros H. right. apply IH; exact H.
Qed.

(** * Helpers: what a worker step does to the communication fields *)

Lemma drain_queue_fields : forall q s,
  store (drain_queue q s) = store s /\ queue (drain_queue q s) = queue s /\
  next_ack (drain_queue q s) = next_ack s /\ worker (drain_queue q s) = worker s /\
  blocked (drain_queue q s) = blocked s /\ shut (drain_queue q s) = shut s /\
  chan (drain_queue q s) = chan s /\ consumer (drain_queue q s) = consumer s.
Proof.
  induction q as [|[c a] t IH]; intros s; cbn [drain_queue]; [repeat split|].
  destruct (IH (set_ack a ShuttingDown s)) as (H1 & H2 & H3 & H4 & H5 & H6 & H7 & H8).
  rewrite H1, H2, H3, H4, H5, H6, H7, H8. sred. repeat split.
Qed.

Lemma drain_queue_acks : forall q s a,
  alookup a (acks (drain_queue q s)) =
  if zmem a (map snd q) then Some ShuttingDown else alookup a (acks s).
Proof.
  induction q as [|[c a0] t IH]; intros s a; cbn [drain_queue map snd zmem]; [reflexivity|].
  rewrite IH. destruct (zmem a (map snd t)) eqn:Em.
  - destruct (a =? a0); reflexivity.
  - sred. destruct (a =? a0) eqn:E.
    + assert (a = a0) by lia. subst a0. apply alookup_aset_eq.
    + apply alookup_aset_neq. lia.
Qed.

(** the acknowledgement table after a worker step *)
Definition wacks (s s' : state) : Prop :=
  s' = s \/
  (exists c a q, worker s = Alive /\ queue s = (c, a) :: q /\ c <> CShutdown /\ queue s' = q /\
     ((worker s' = Alive /\ exists x, x <> Pending /\ acks s' = aset a x (acks s)) \/
      (worker s' = Dead /\ acks s' = acks s))) \/
  (exists a q, worker s = Alive /\ queue s = (CShutdown, a) :: q /\ queue s' = [] /\ worker s' = Draining /\
     forall a', alookup a' (acks s') = if zmem a' (map snd q) then Some ShuttingDown else alookup a' (acks s)).

Lemma admission_status_not_pending : forall x, admission_status_ok x -> x <> Pending.
Proof. intros x [H|[H|H]]; subst x; discriminate. Qed.

Lemma wacks_ok : forall s s' c a q x,
  worker s = Alive -> queue s = (c, a) :: q -> c <> CShutdown -> queue s' = q -> worker s' = Alive ->
  x <> Pending -> acks s' = aset a x (acks s) -> wacks s s'.
Proof.
  intros s s' c a q x H1 H2 H3 H4 H5 H6 H7. right; left. exists c, a, q.
  repeat (split; [assumption|]). left. split; [assumption|]. exists x. split; assumption.
Qed.

Lemma wacks_dead : forall s s' c a q,
  worker s = Alive -> queue s = (c, a) :: q -> c <> CShutdown -> queue s' = q -> worker s' = Dead ->
  acks s' = acks s -> wacks s s'.
Proof.
  intros s s' c a q H1 H2 H3 H4 H5 H6. right; left. exists c, a, q.
  repeat (split; [assumption|]). right. split; assumption.
Qed.

Lemma worker_step_cases : forall cfg orc s s' ret, worker_step cfg orc s = (s', ret) ->
  next_ack s' = next_ack s /\ blocked s' = blocked s /\ shut s' = shut s /\ chan s' = chan s /\
  consumer s' = consumer s /\ wacks s s'.
Proof.
  intros cfg orc s s' ret H. unfold worker_step in H.
  assert (Hsame : next_ack s = next_ack s /\ blocked s = blocked s /\ shut s = shut s /\ chan s = chan s /\
                  consumer s = consumer s /\ wacks s s) by (repeat split; left; reflexivity).
  destruct (worker s) eqn:Hw; try (injection H as <- <-; exact Hsame).
  destruct (queue s) as [|[c a] q] eqn:Hq; [injection H as <- <-; exact Hsame|].
  cbv zeta in H.
  assert (Hput : forall k id h w r s1 vs,
            admission cfg orc k id h w (set_queue s q) = (r, s1, vs) ->
            queue s1 = q /\ acks s1 = acks s /\ next_ack s1 = next_ack s /\ worker s1 = Alive /\
            blocked s1 = blocked s /\ shut s1 = shut s /\ chan s1 = chan s /\ consumer s1 = consumer s /\
            (forall x, r = AdStatus x -> x <> Pending)).
  { intros k id h w r s1 vs Had. pose proof (admission_xframe _ _ _ _ _ _ _ _ _ _ Had) as X.
    apply admission_wframe in Had as (_ & Hst). unfold xframe in X. sred.
    destruct X as (X1 & X2 & X3 & X4 & X5 & X6 & X7 & X8).
    repeat split; try congruence. intros x Hx. apply admission_status_not_pending. apply Hst; exact Hx. }
  assert (Hfin : forall s1, next_ack s1 = next_ack s -> blocked s1 = blocked s -> shut s1 = shut s ->
            chan s1 = chan s -> consumer s1 = consumer s -> wacks s s1 ->
            next_ack s1 = next_ack s /\ blocked s1 = blocked s /\ shut s1 = shut s /\ chan s1 = chan s /\
            consumer s1 = consumer s /\ wacks s s1) by (intros; repeat split; assumption).
  destruct c as [k v id h w|k v id h w ttl|k|id w|]; sred.
  - destruct (amem k (store s)) eqn:Em.
    { injection H as <- <-. apply Hfin; sred; try reflexivity.
      eapply wacks_ok with (x := Rejected KeyAlreadyExists); sred; try eassumption; try reflexivity; discriminate. }
    destruct (admission cfg orc k id h w (set_queue s q)) as [[r s1] vs] eqn:Ead.
    destruct (Hput _ _ _ _ _ _ _ Ead) as (A1 & A2 & A3 & A4 & A5 & A6 & A7 & A8 & A9).
    destruct r as [x|site|why].
    + assert (Hx : x <> Pending) by (apply A9; reflexivity).
      destruct x as [| |rr|]; injection H as <- <-; apply Hfin; sred; try assumption;
        (eapply wacks_ok; [exact Hw|exact Hq|discriminate|sred; first [assumption|reflexivity]|sred; exact A4|exact Hx|
                           sred; rewrite A2; reflexivity]).
    + injection H as <- <-. apply Hfin; sred; try assumption.
      eapply wacks_dead; [exact Hw|exact Hq|discriminate|sred; first [assumption|reflexivity]|sred; reflexivity|sred; exact A2].
    + injection H as <- <-. exact Hsame.
  - destruct (amem k (store s)) eqn:Em.
    { injection H as <- <-. apply Hfin; sred; try reflexivity.
      eapply wacks_ok with (x := Rejected KeyAlreadyExists); sred; try eassumption; try reflexivity; discriminate. }
    destruct (admission cfg orc k id h w (set_queue s q)) as [[r s1] vs] eqn:Ead.
    destruct (Hput _ _ _ _ _ _ _ Ead) as (A1 & A2 & A3 & A4 & A5 & A6 & A7 & A8 & A9).
    destruct r as [x|site|why].
    + assert (Hx : x <> Pending) by (apply A9; reflexivity).
      destruct x as [| |rr|]; [congruence|destruct (calc_expiry (now s1) ttl) as [ex|]| |];
        injection H as <- <-; apply Hfin; sred; try assumption;
        first [ eapply wacks_ok; [exact Hw|exact Hq|discriminate|sred; first [assumption|reflexivity]|sred; exact A4|exact Hx|
                           sred; rewrite A2; reflexivity]
              | eapply wacks_dead; [exact Hw|exact Hq|discriminate|sred; first [assumption|reflexivity]|sred; reflexivity|sred; exact A2] ].
    + injection H as <- <-. apply Hfin; sred; try assumption.
      eapply wacks_dead; [exact Hw|exact Hq|discriminate|sred; first [assumption|reflexivity]|sred; reflexivity|sred; exact A2].
    + injection H as <- <-. exact Hsame.
  - destruct (alookup k (store s)) as [e|] eqn:El.
    2:{ injection H as <- <-. apply Hfin; sred; try reflexivity.
        eapply wacks_ok with (x := Rejected KeyDoesNotExist); sred; try eassumption; try reflexivity; discriminate. }
    pose proof (store_delete_xframe k (set_queue s q)) as X0.
    pose proof (weights_delete_xframe cfg (e_id e) false (store_delete k (set_queue s q))) as X1.
    destruct (weights_delete cfg (e_id e) false (store_delete k (set_queue s q))) as [s2|site s2|why];
      [| |contradiction].
    + pose proof (xframe_trans _ _ _ X0 X1) as X. unfold xframe in X; sred.
      destruct X as (B1 & B2 & B3 & B4 & B5 & B6 & B7 & B8).
      destruct (e_exp e); injection H as <- <-; apply Hfin; sred; try assumption;
        (eapply wacks_ok with (x := Accepted); [exact Hw|exact Hq|discriminate|sred; exact B1|sred; congruence|
                                                discriminate|sred; rewrite B2; reflexivity]).
    + pose proof (xframe_trans _ _ _ X0 X1) as X. unfold xframe in X; sred.
      destruct X as (B1 & B2 & B3 & B4 & B5 & B6 & B7 & B8).
      injection H as <- <-. apply Hfin; sred; try assumption.
      eapply wacks_dead; [exact Hw|exact Hq|discriminate|sred; exact B1|sred; reflexivity|sred; exact B2].
  - pose proof (weights_update_xframe cfg id w (set_queue s q)) as X.
    destruct (weights_update cfg id w (set_queue s q)) as [s1|site s1|why]; [| |contradiction];
      unfold xframe in X; sred; destruct X as (B1 & B2 & B3 & B4 & B5 & B6 & B7 & B8);
      injection H as <- <-; apply Hfin; sred; try assumption.
    + eapply wacks_ok with (x := Accepted); [exact Hw|exact Hq|discriminate|sred; exact B1|sred; congruence|
                                             discriminate|sred; rewrite B2; reflexivity].
    + eapply wacks_dead; [exact Hw|exact Hq|discriminate|sred; exact B1|sred; reflexivity|sred; exact B2].
  - injection H as <- <-.
    pose proof (drain_queue_fields q (set_queue s q)) as D.
    apply Hfin; sred; destruct D as (_ & _ & D3 & _ & D5 & D6 & D7 & D8); try assumption.
    right; right. exists a, q. split; [exact Hw|]. split; [exact Hq|]. sred.
    split; [reflexivity|]. split; [reflexivity|].
    intros a'. rewrite drain_queue_acks. sred. reflexivity.
Qed.

(** * C02: a stored value was written to that very key by a put or upsert issued earlier in the history *)
Definition writes_value (k v : Z) (ev : event) : Prop :=
  match ev with
  | ECall _ (RPut k' v') _ => k' = k /\ v' = v
  | ECall _ (RPutW k' v' _) _ => k' = k /\ v' = v
  | ECall _ (RPutTTL k' v' _) _ => k' = k /\ v' = v
  | ECall _ (RPutWTTL k' v' _ _) _ => k' = k /\ v' = v
  | ECall _ (RUpsert k' (Some v') _ _ _) _ => k' = k /\ v' = v
  | _ => False
  end.

(** * Helpers: the shape of the events other than worker steps *)

Definition wreq (k v : Z) (r : request) : Prop := writes_value k v (ECall 0 r []).

Definition cmd_kv (c : cmd) : option (Z * Z) :=
  match c with CPut k v _ _ _ => Some (k, v) | CPutTTL k v _ _ _ _ => Some (k, v) | _ => None end.

(** every value stored afterwards was stored before under the same key, or is written by the event *)
Definition vstep (W : Z -> Z -> Prop) (s s' : state) : Prop :=
  forall k e, alookup k (store s') = Some e ->
    (exists e0, alookup k (store s) = Some e0 /\ e_val e0 = e_val e) \/ W k (e_val e).

Definition chb (s : state) : Prop := Z.of_nat (length (chan s)) <= chan_capacity.

Lemma vstep_same : forall W s s', store s' = store s -> vstep W s s'.
Proof. intros W s s' H k e Hl. left. exists e. rewrite <- H. split; [exact Hl|reflexivity]. Qed.

Lemma vstep_nil : forall W s s', store s' = [] -> vstep W s s'.
Proof. intros W s s' H k e Hl. rewrite H in Hl. discriminate. Qed.

Lemma vstep_shrinks : forall W s s', store_shrinks s s' -> vstep W s s'.
Proof.
  intros W s s' H k e Hl. destruct (H k) as [H1|H1]; [|congruence].
  left. exists e. rewrite <- H1. split; [exact Hl|reflexivity].
Qed.

Lemma vstep_trans : forall W s1 s2 s3, vstep W s1 s2 -> vstep W s2 s3 -> vstep W s1 s3.
Proof.
  intros W s1 s2 s3 H12 H23 k e Hl. destruct (H23 k e Hl) as [(e0 & H0 & Hv)|H0]; [|right; exact H0].
  destruct (H12 k e0 H0) as [(e1 & H1 & Hv1)|H1].
  - left. exists e1. split; [exact H1|congruence].
  - right. rewrite <- Hv. exact H1.
Qed.

Definition cshape (cfg : config) (tid : Z) (W : Z -> Z -> Prop) (s s' : state) : Prop :=
  (sframe s s' /\ consumer s' = consumer s /\ (chb s -> chb s') /\ vstep W s s') \/
  (amem tid (blocked s) = false /\ shut s = false /\
   exists c s1, sframe s s1 /\ chan s1 = chan s /\ consumer s1 = consumer s /\ vstep W s s1 /\
     c <> CShutdown /\ (forall k v, cmd_kv c = Some (k, v) -> W k v) /\ s' = fst (do_send cfg tid c s1)) \/
  (amem tid (blocked s) = false /\ shut s = false /\ s' = fst (shutdown_cmd cfg tid (set_shut s true))).

Lemma cshape_same : forall cfg tid (W : Z -> Z -> Prop) s, cshape cfg tid W s s.
Proof.
  intros cfg tid W s. left. split; [apply sframe_refl|]. split; [reflexivity|]. split; [tauto|].
  apply vstep_same; reflexivity.
Qed.

Lemma accept_batch_chb : forall hs s, chb s -> chb (accept_batch hs s).
Proof.
  intros hs s H. unfold accept_batch, chb in *.
  destruct (consumer s); [destruct (Z.of_nat (length (chan s)) <? chan_capacity) eqn:E|..]; sred; try exact H.
  rewrite app_length. cbn [length]. lia.
Qed.

Lemma pool_add_chb : forall cfg i h s s', pool_add cfg i h s = Some s' -> chb s -> chb s'.
Proof.
  intros cfg i h s s' H Hc. unfold pool_add in H.
  destruct ((i <? 0) || (c_pool cfg <=? i)); [discriminate|].
  destruct (nth_error (pool s) (Z.to_nat i)) as [buf|]; [|discriminate].
  destruct (c_buffer cfg <=? Z.of_nat (length buf)); injection H as <-.
  - pose proof (accept_batch_chb buf s Hc) as H1. unfold chb in *. sred. exact H1.
  - unfold chb in *. sred. exact Hc.
Qed.

Lemma read_one_chb : forall cfg k idxs s v s' idxs',
  read_one cfg k idxs s = Some (v, s', idxs') -> chb s -> chb s'.
Proof.
  intros cfg k idxs s v s' idxs' H Hc. unfold read_one in H.
  destruct (lookup_alive k s) as [e|].
  - destruct idxs as [|i idxs0]; [discriminate|].
    destruct (pool_add cfg i (key_hash (c_hash cfg) k) (upd_st add_hits 1 s)) as [s1|] eqn:Ep; [|discriminate].
    injection H as _ <- _. eapply pool_add_chb; [exact Ep|]. unfold chb in *; sred; exact Hc.
  - injection H as _ <- _. unfold chb in *; sred; exact Hc.
Qed.

Lemma read_many_chb : forall cfg ks idxs s vs s' idxs',
  read_many cfg ks idxs s = Some (vs, s', idxs') -> chb s -> chb s'.
Proof.
  intros cfg ks. induction ks as [|k t IH]; intros idxs s vs s' idxs' H Hc; cbn [read_many] in H.
  - injection H as _ <- _. exact Hc.
  - destruct (read_one cfg k idxs s) as [[[v s1] idxs1]|] eqn:E1; [|discriminate].
    destruct (read_many cfg t idxs1 s1) as [[[vs2 s2] idxs2]|] eqn:E2; [|discriminate].
    injection H as _ <- _. eapply IH; [exact E2|]. eapply read_one_chb; eassumption.
Qed.

Lemma read_frame_cshape : forall cfg tid (W : Z -> Z -> Prop) s s', read_frame s s' -> (chb s -> chb s') -> cshape cfg tid W s s'.
Proof.
  intros cfg tid W s s' F Hc. left. split; [apply read_frame_sframe; exact F|].
  unfold read_frame in F. split; [tauto|]. split; [exact Hc|]. apply vstep_same. tauto.
Qed.

Lemma call_put_shape : forall cfg tid k v w ttl s s' ret,
  call_put cfg tid k v w ttl s = (s', ret) ->
  s' = s \/ exists c, c <> CShutdown /\ cmd_kv c = Some (k, v) /\
                      s' = fst (do_send cfg tid c (set_next_id s (next_id s + 1))).
Proof.
  intros cfg tid k v w ttl s s' ret H. unfold call_put in H.
  destruct (w <=? 0); [injection H as <- <-; left; reflexivity|].
  destruct (amem k (store s)); [injection H as <- <-; left; reflexivity|].
  cbv zeta in H. right. destruct ttl as [t|].
  - eexists. split; [|split; [|rewrite H; reflexivity]]; [discriminate|reflexivity].
  - eexists. split; [|split; [|rewrite H; reflexivity]]; [discriminate|reflexivity].
Qed.

Lemma call_put_cshape : forall cfg tid (W : Z -> Z -> Prop) k v w ttl s s' ret,
  amem tid (blocked s) = false -> shut s = false -> W k v ->
  call_put cfg tid k v w ttl s = (s', ret) -> cshape cfg tid W s s'.
Proof.
  intros cfg tid W k v w ttl s s' ret Hb Hsh HW H.
  apply call_put_shape in H as [->|(c & Hc & Hkv & ->)]; [apply cshape_same|].
  right; left. split; [exact Hb|]. split; [exact Hsh|].
  exists c, (set_next_id s (next_id s + 1)).
  split; [unfold sframe; sred; repeat split|]. split; [reflexivity|]. split; [reflexivity|].
  split; [apply vstep_same; reflexivity|]. split; [exact Hc|]. split; [|reflexivity].
  intros k0 v0 Hk0. rewrite Hkv in Hk0. injection Hk0 as <- <-. exact HW.
Qed.

Lemma ups_s2_frame : forall cfg k v e new_exp s,
  let s2 := ups_s2 cfg k v e new_exp s in
  sframe s s2 /\ chan s2 = chan s /\ consumer s2 = consumer s.
Proof.
  intros cfg k v e new_exp s s2. subst s2. unfold ups_s2. cbv zeta.
  destruct (type_of_expiry_update (e_exp e) new_exp); unfold sframe; sred; repeat split.
Qed.

Lemma call_upsert_cshape : forall cfg tid k v w ttl rm s s' ret,
  amem tid (blocked s) = false -> shut s = false ->
  call_upsert cfg tid k v w ttl rm s = (s', ret) ->
  cshape cfg tid (fun k0 v0 => wreq k0 v0 (RUpsert k v w ttl rm)) s s'.
Proof.
  intros cfg tid k v w ttl rm s s' ret Hb Hsh H.
  destruct (alookup k (store s)) as [e|] eqn:El.
  - rewrite call_upsert_present_eq with (e := e) in H by exact El.
    destruct (ups_new_exp_o rm ttl e s) as [new_exp|]; [|injection H as <- <-; apply cshape_same].
    pose proof (ups_s2_frame cfg k v e new_exp s) as (F1 & F2 & F3).
    pose proof (ups_s2_fields cfg k v e new_exp s) as (Fst & _).
    set (s2 := ups_s2 cfg k v e new_exp s) in *.
    assert (Hv : vstep (fun k0 v0 => wreq k0 v0 (RUpsert k v w ttl rm)) s s2).
    { intros k0 e0 Hl. rewrite Fst in Hl. destruct (Z.eq_dec k0 k) as [->|Hne].
      - rewrite alookup_aset_eq in Hl. injection Hl as <-. cbn [ups_entry e_val].
        destruct v as [val|]; [right; unfold wreq; cbn [writes_value]; split; reflexivity|].
        left. exists e. split; [exact El|reflexivity].
      - rewrite alookup_aset_neq in Hl by exact Hne. left. exists e0. split; [exact Hl|reflexivity]. }
    assert (Hs2 : cshape cfg tid (fun k0 v0 => wreq k0 v0 (RUpsert k v w ttl rm)) s s2).
    { left. split; [exact F1|]. split; [exact F3|]. split; [|exact Hv]. unfold chb. rewrite F2. tauto. }
    unfold ups_tail in H.
    destruct (ups_uw' cfg _ (upsert_weight cfg k v w ttl) e new_exp) as [[wt|]|];
      [|injection H as <- <-; exact Hs2|injection H as <- <-; exact Hs2].
    destruct (wt <=? 0); [injection H as <- <-; exact Hs2|].
    right; left. split; [exact Hb|]. split; [exact Hsh|].
    exists (CUpdateWeight (e_id e) wt), s2.
    split; [exact F1|]. split; [exact F2|]. split; [exact F3|]. split; [exact Hv|].
    split; [discriminate|]. split; [intros k0 v0 Hk0; discriminate|]. rewrite H. reflexivity.
  - destruct v as [val|].
    + rewrite upsert_absent_is_put in H by exact El.
      eapply call_put_cshape; [exact Hb|exact Hsh| |exact H].
      unfold wreq; cbn [writes_value]; split; reflexivity.
    + unfold call_upsert in H. rewrite El in H. cbv zeta in H.
      destruct w; injection H as <- <-; apply cshape_same.
Qed.

Lemma call_cshape : forall cfg tid r idxs s s' ret, call cfg tid r idxs s = (s', ret) ->
  cshape cfg tid (fun k v => wreq k v r) s s'.
Proof.
  intros cfg tid r idxs s s' ret H. unfold call in H.
  destruct (amem tid (blocked s)) eqn:Hb; [injection H as <- <-; apply cshape_same|].
  destruct r as [k v|k v w|k v ttl|k v w ttl|k v w ttl rm|k|k|k|k|k|ks|ks|ks| | |]; cbv beta iota zeta in H.
  - destruct (_ <=? 0); [injection H as <- <-; apply cshape_same|].
    destruct (shut s) eqn:Hsh; [injection H as <- <-; apply cshape_same|].
    eapply call_put_cshape; [exact Hb|exact Hsh| |exact H]. unfold wreq; cbn [writes_value]; split; reflexivity.
  - destruct (shut s) eqn:Hsh; [injection H as <- <-; apply cshape_same|].
    eapply call_put_cshape; [exact Hb|exact Hsh| |exact H]. unfold wreq; cbn [writes_value]; split; reflexivity.
  - destruct (shut s) eqn:Hsh; [injection H as <- <-; apply cshape_same|].
    eapply call_put_cshape; [exact Hb|exact Hsh| |exact H]. unfold wreq; cbn [writes_value]; split; reflexivity.
  - destruct (shut s) eqn:Hsh; [injection H as <- <-; apply cshape_same|].
    eapply call_put_cshape; [exact Hb|exact Hsh| |exact H]. unfold wreq; cbn [writes_value]; split; reflexivity.
  - destruct (shut s) eqn:Hsh; [injection H as <- <-; apply cshape_same|].
    eapply call_upsert_cshape; eassumption.
  - destruct (shut s) eqn:Hsh; [injection H as <- <-; apply cshape_same|].
    right; left. split; [exact Hb|]. split; [exact Hsh|].
    eexists (CDelete k), _. split; [|split; [|split; [|split; [|split; [discriminate|split;
      [intros k0 v0 Hk0; discriminate|rewrite H; reflexivity]]]]]].
    + destruct (alookup k (store s)); unfold sframe; sred; repeat split.
    + destruct (alookup k (store s)); reflexivity.
    + destruct (alookup k (store s)); reflexivity.
    + destruct (alookup k (store s)) as [e|] eqn:El; [|apply vstep_same; reflexivity].
      intros k0 e0 Hl. sred. destruct (Z.eq_dec k0 k) as [->|Hne].
      * rewrite alookup_aset_eq in Hl. injection Hl as <-. left. exists e. split; [exact El|reflexivity].
      * rewrite alookup_aset_neq in Hl by exact Hne. left. exists e0. split; [exact Hl|reflexivity].
  - destruct (shut s); [injection H as <- <-; apply cshape_same|].
    destruct (read_one cfg k idxs s) as [[[v0 s0] [|i0 idxs0]]|] eqn:E; injection H as <- <-; try apply cshape_same.
    apply read_frame_cshape; [apply read_one_spec in E; tauto|eapply read_one_chb; exact E].
  - destruct (shut s); [injection H as <- <-; apply cshape_same|].
    destruct (read_one cfg k idxs s) as [[[v0 s0] [|i0 idxs0]]|] eqn:E; injection H as <- <-; try apply cshape_same.
    apply read_frame_cshape; [apply read_one_spec in E; tauto|eapply read_one_chb; exact E].
  - destruct (shut s); [injection H as <- <-; apply cshape_same|].
    destruct (read_one cfg k idxs s) as [[[v0 s0] [|i0 idxs0]]|] eqn:E; injection H as <- <-; try apply cshape_same.
    apply read_frame_cshape; [apply read_one_spec in E; tauto|eapply read_one_chb; exact E].
  - destruct (shut s); [injection H as <- <-; apply cshape_same|].
    destruct (read_one cfg k idxs s) as [[[v0 s0] [|i0 idxs0]]|] eqn:E; injection H as <- <-; try apply cshape_same.
    apply read_frame_cshape; [apply read_one_spec in E; tauto|eapply read_one_chb; exact E].
  - destruct (shut s); [injection H as <- <-; apply cshape_same|].
    destruct (read_many cfg ks idxs s) as [[[v0 s0] [|i0 idxs0]]|] eqn:E; injection H as <- <-; try apply cshape_same.
    apply read_frame_cshape; [apply read_many_spec in E; tauto|eapply read_many_chb; exact E].
  - destruct (shut s); [injection H as <- <-; apply cshape_same|].
    destruct (read_many cfg ks idxs s) as [[[v0 s0] [|i0 idxs0]]|] eqn:E; injection H as <- <-; try apply cshape_same.
    apply read_frame_cshape; [apply read_many_spec in E; tauto|eapply read_many_chb; exact E].
  - destruct (shut s); [injection H as <- <-; apply cshape_same|].
    destruct (read_many cfg ks idxs s) as [[[v0 s0] [|i0 idxs0]]|] eqn:E; injection H as <- <-; try apply cshape_same.
    apply read_frame_cshape; [apply read_many_spec in E; tauto|eapply read_many_chb; exact E].
  - injection H as <- <-; apply cshape_same.
  - injection H as <- <-; apply cshape_same.
  - destruct (shut s) eqn:Hsh; [injection H as <- <-; apply cshape_same|].
    right; right. split; [exact Hb|]. split; [exact Hsh|]. rewrite H. reflexivity.
Qed.

(** resumption of a parked caller: nothing, or the pending send on the state without the parking entry *)
Definition unpark (tid : Z) (s : state) : state := set_blocked s (aremove tid (blocked s)).

Lemma resume_shape : forall cfg tid s s' ret, resume cfg tid s = (s', ret) ->
  s' = s \/
  (exists c, alookup tid (blocked s) = Some (KSend c) /\ s' = fst (do_send cfg tid c (unpark tid s))) \/
  (alookup tid (blocked s) = Some KShutdownCmd /\ s' = fst (shutdown_cmd cfg tid (unpark tid s))) \/
  (alookup tid (blocked s) = Some KShutdownChan /\ s' = fst (shutdown_chan tid (unpark tid s))).
Proof.
  intros cfg tid s s' ret H. unfold resume in H. fold (unpark tid s) in H.
  destruct (alookup tid (blocked s)) as [k|]; [|injection H as <- <-; left; reflexivity].
  cbv zeta in H. destruct k as [c| |].
  - destruct (worker (unpark tid s)); [destruct (_ <? c_queue cfg)|..];
      first [ injection H as <- <-; left; reflexivity
            | right; left; exists c; split; [reflexivity|rewrite H; reflexivity] ].
  - destruct (worker (unpark tid s)); [destruct (_ <? c_queue cfg)|..];
      first [ injection H as <- <-; left; reflexivity
            | right; right; left; split; [reflexivity|rewrite H; reflexivity] ].
  - destruct (consumer (unpark tid s)); [destruct (_ <? chan_capacity)|..];
      first [ injection H as <- <-; left; reflexivity
            | right; right; right; split; [reflexivity|rewrite H; reflexivity] ].
Qed.

(** the building blocks, field by field *)
Lemma do_send_fields : forall cfg tid c s, let s' := fst (do_send cfg tid c s) in
  worker s' = worker s /\ shut s' = shut s /\ chan s' = chan s /\ consumer s' = consumer s /\ store s' = store s /\
  ((queue s' = queue s /\ acks s' = acks s /\ next_ack s' = next_ack s /\
    (blocked s' = blocked s \/ blocked s' = aset tid (KSend c) (blocked s))) \/
   (worker s = Alive /\ Z.of_nat (length (queue s)) < c_queue cfg /\ queue s' = queue s ++ [(c, next_ack s)] /\
    acks s' = aset (next_ack s) Pending (acks s) /\ next_ack s' = next_ack s + 1 /\ blocked s' = blocked s) \/
   (worker s = Draining /\ queue s' = queue s /\ acks s' = aset (next_ack s) ShuttingDown (acks s) /\
    next_ack s' = next_ack s + 1 /\ blocked s' = blocked s)).
Proof.
  intros cfg tid c s s'. subst s'. unfold do_send.
  destruct (worker s) eqn:Hw; [destruct (Z.of_nat (length (queue s)) <? c_queue cfg) eqn:E|..]; cbn [fst]; sred;
    repeat (split; [first [reflexivity|assumption]|]).
  - right; left. repeat split. lia.
  - left. repeat split. right; reflexivity.
  - right; right. repeat split.
  - left. repeat split. left; reflexivity.
  - left. repeat split. left; reflexivity.
Qed.

Lemma shutdown_chan_fields : forall tid s, let s' := fst (shutdown_chan tid s) in
  queue s' = queue s /\ acks s' = acks s /\ next_ack s' = next_ack s /\ worker s' = worker s /\ shut s' = shut s /\
  consumer s' = consumer s /\ (chb s -> chb s') /\ (store s' = store s \/ store s' = []) /\
  (blocked s' = blocked s \/ blocked s' = aset tid KShutdownChan (blocked s)).
Proof.
  intros tid s s'. subst s'. unfold shutdown_chan, chb.
  destruct (consumer s) eqn:Hc; [destruct (Z.of_nat (length (chan s)) <? chan_capacity) eqn:E|..];
    cbn [fst]; unfold shutdown_finish; sred; repeat (split; [first [reflexivity|assumption]|]).
  - split; [|split; [right; reflexivity|left; reflexivity]]. intros _. rewrite app_length. cbn [length]. lia.
  - split; [tauto|]. split; [left; reflexivity|right; reflexivity].
  - split; [tauto|]. split; [right; reflexivity|left; reflexivity].
  - split; [tauto|]. split; [right; reflexivity|left; reflexivity].
  - split; [tauto|]. split; [right; reflexivity|left; reflexivity].
Qed.

Lemma shutdown_cmd_fields : forall cfg tid s, let s' := fst (shutdown_cmd cfg tid s) in
  acks s' = acks s /\ next_ack s' = next_ack s /\ worker s' = worker s /\ shut s' = shut s /\
  consumer s' = consumer s /\ (chb s -> chb s') /\ (store s' = store s \/ store s' = []) /\
  ((queue s' = queue s /\
    (blocked s' = blocked s \/ blocked s' = aset tid KShutdownChan (blocked s) \/
     blocked s' = aset tid KShutdownCmd (blocked s))) \/
   (worker s = Alive /\ Z.of_nat (length (queue s)) < c_queue cfg /\ queue s' = queue s ++ [(CShutdown, -1)] /\
    (blocked s' = blocked s \/ blocked s' = aset tid KShutdownChan (blocked s)))).
Proof.
  intros cfg tid s s'. subst s'. unfold shutdown_cmd.
  assert (Hdirect : let s' := fst (shutdown_chan tid s) in
            acks s' = acks s /\ next_ack s' = next_ack s /\ worker s' = worker s /\ shut s' = shut s /\
            consumer s' = consumer s /\ (chb s -> chb s') /\ (store s' = store s \/ store s' = []) /\
            ((queue s' = queue s /\
              (blocked s' = blocked s \/ blocked s' = aset tid KShutdownChan (blocked s) \/
               blocked s' = aset tid KShutdownCmd (blocked s))) \/
             (worker s = Alive /\ Z.of_nat (length (queue s)) < c_queue cfg /\
              queue s' = queue s ++ [(CShutdown, -1)] /\
              (blocked s' = blocked s \/ blocked s' = aset tid KShutdownChan (blocked s))))).
  { pose proof (shutdown_chan_fields tid s) as (C1 & C2 & C3 & C4 & C5 & C6 & C7 & C8 & C9). cbv zeta.
    repeat (split; [assumption|]). left. split; [assumption|]. tauto. }
  destruct (worker s) eqn:Hw; [destruct (Z.of_nat (length (queue s)) <? c_queue cfg) eqn:E|..];
    try exact Hdirect.
  - pose proof (shutdown_chan_fields tid (set_queue s (queue s ++ [(CShutdown, -1)])))
      as (C1 & C2 & C3 & C4 & C5 & C6 & C7 & C8 & C9).
    unfold chb in *. sred. repeat (split; [first [assumption|congruence]|]). right.
    split; [reflexivity|]. split; [lia|]. split; [assumption|]. exact C9.
  - cbn [fst]; unfold chb; sred. repeat (split; [first [reflexivity|tauto]|]).
    left. split; [reflexivity|]. right; right; reflexivity.
Qed.

Lemma sweep_frame : forall cfg s s' ret, sweep cfg s = (s', ret) -> xframe s s' /\ store_shrinks s s'.
Proof.
  intros cfg s s' ret H. unfold sweep in H.
  assert (Hsame : xframe s s /\ store_shrinks s s) by (split; [apply xframe_refl|apply store_shrinks_refl]).
  destruct (sweeper s); try (injection H as <- <-; exact Hsame).
  cbv zeta in H.
  match type of H with context [sweep_entries ?c ?n ?es ?s1] =>
    pose proof (sweep_entries_shrinks c n es s1) as Hsw; pose proof (sweep_entries_xframe c n es s1) as Hx;
    destruct (sweep_entries c n es s1) as [s2|site s2|why] end.
  - assert (Hh : xframe s s2 /\ store_shrinks s s2).
    { split; [|intros k; apply (Hsw k)]. unfold xframe in *; sred; exact Hx. }
    destruct Hh as (Hh1 & Hh2).
    destruct (sweeper_run s2); injection H as <- <-; (split; [|intros k; apply (Hh2 k)]); unfold xframe in *; sred;
      exact Hh1.
  - assert (Hh : xframe s s2 /\ store_shrinks s s2).
    { split; [|intros k; apply (Hsw k)]. unfold xframe in *; sred; exact Hx. }
    destruct Hh as (Hh1 & Hh2).
    injection H as <- <-; (split; [|intros k; apply (Hh2 k)]); unfold xframe in *; sred; exact Hh1.
  - injection H as <- <-; exact Hsame.
Qed.

Lemma drain_frame : forall cfg bl s s' ret, drain cfg bl s = (s', ret) ->
  sframe s s' /\ store s' = store s /\ (chb s -> chb s').
Proof.
  intros cfg bl s s' ret H. unfold drain in H.
  assert (Hsame : sframe s s /\ store s = store s /\ (chb s -> chb s)) by (split; [apply sframe_refl|tauto]).
  assert (Hnil : forall s1, chan s1 = [] -> chb s1).
  { intros s1 H1. unfold chb. rewrite H1. cbn [length]. unfold chan_capacity. lia. }
  destruct (consumer s); try (injection H as <- <-; exact Hsame).
  destruct (chan s) as [|[hs|] rest] eqn:Hch; [injection H as <- <-; exact Hsame| |].
  - destruct (apply_batch (lfu s) hs bl) as [[l'| |] [|b bl']]; cbv zeta in H; sred;
      try (injection H as <- <-; exact Hsame).
    + destruct (consumer_run s); injection H as <- <-; unfold sframe; sred; repeat split.
      * unfold chb; sred. rewrite Hch. cbn [length]. lia.
      * intros _. apply Hnil; reflexivity.
    + injection H as <- <-. unfold sframe; sred; repeat split. intros _. apply Hnil; reflexivity.
    + injection H as <- <-. unfold sframe; sred; repeat split. intros _. apply Hnil; reflexivity.
  - injection H as <- <-. unfold sframe; sred; repeat split. intros _. apply Hnil; reflexivity.
Qed.

(** * C11: the command queue *)

(** what an event other than a worker step does to queue, acknowledgements and worker *)
Definition comm_step (cfg : config) (s s' : state) : Prop :=
  worker s' = worker s /\
  ((queue s' = queue s /\ acks s' = acks s /\ next_ack s' = next_ack s) \/
   (exists c, worker s = Alive /\ Z.of_nat (length (queue s)) < c_queue cfg /\
      queue s' = queue s ++ [(c, next_ack s)] /\ acks s' = aset (next_ack s) Pending (acks s) /\
      next_ack s' = next_ack s + 1) \/
   (worker s = Draining /\ queue s' = queue s /\ acks s' = aset (next_ack s) ShuttingDown (acks s) /\
    next_ack s' = next_ack s + 1) \/
   (worker s = Alive /\ Z.of_nat (length (queue s)) < c_queue cfg /\
    queue s' = queue s ++ [(CShutdown, -1)] /\ acks s' = acks s /\ next_ack s' = next_ack s)).

Definition f4 (s s1 : state) : Prop :=
  queue s1 = queue s /\ acks s1 = acks s /\ next_ack s1 = next_ack s /\ worker s1 = worker s.

Lemma comm_pre : forall cfg s s1 s', f4 s s1 -> comm_step cfg s1 s' -> comm_step cfg s s'.
Proof.
  intros cfg s s1 s' (F1 & F2 & F3 & F4) H. unfold comm_step in *. rewrite F1, F2, F3, F4 in H. exact H.
Qed.

Lemma comm_same : forall cfg s s', f4 s s' -> comm_step cfg s s'.
Proof. intros cfg s s' (F1 & F2 & F3 & F4). split; [exact F4|]. left. tauto. Qed.

Lemma sframe_f4 : forall s s', sframe s s' -> f4 s s'.
Proof. intros s s' H. unfold sframe in H. unfold f4. tauto. Qed.

Lemma unpark_f4 : forall tid s, f4 s (unpark tid s).
Proof. intros tid s. unfold f4, unpark; sred. repeat split. Qed.

Lemma do_send_comm : forall cfg tid c s, comm_step cfg s (fst (do_send cfg tid c s)).
Proof.
  intros cfg tid c s. pose proof (do_send_fields cfg tid c s) as (Hw & _ & _ & _ & _ & H). cbv zeta in *.
  split; [exact Hw|].
  destruct H as [(H1 & H2 & H3 & _)|[(H1 & H2 & H3 & H4 & H5 & _)|(H1 & H2 & H3 & H4 & _)]].
  - left. tauto.
  - right; left. exists c. tauto.
  - right; right; left. tauto.
Qed.

Lemma shutdown_chan_comm : forall cfg tid s, comm_step cfg s (fst (shutdown_chan tid s)).
Proof.
  intros cfg tid s. pose proof (shutdown_chan_fields tid s) as (C1 & C2 & C3 & C4 & _). cbv zeta in *.
  apply comm_same. unfold f4. tauto.
Qed.

Lemma shutdown_cmd_comm : forall cfg tid s, comm_step cfg s (fst (shutdown_cmd cfg tid s)).
Proof.
  intros cfg tid s. pose proof (shutdown_cmd_fields cfg tid s) as (C1 & C2 & C3 & _ & _ & _ & _ & H).
  cbv zeta in *. split; [exact C3|].
  destruct H as [(H1 & _)|(H1 & H2 & H3 & _)].
  - left. tauto.
  - right; right; right. tauto.
Qed.

Lemma nonworker_comm : forall cfg s ev, (forall orc, ev <> EWorker orc) -> comm_step cfg s (step_state cfg s ev).
Proof.
  intros cfg s ev Hnw. unfold step_state.
  destruct (step cfg s ev) as [s' ret] eqn:E. cbn [fst].
  destruct ev as [tid r idxs|tid|orc| |bl|dt|a]; cbn [step] in E.
  - apply call_cshape in E as [(F & _)|[(_ & _ & c & s1 & F & _ & _ & _ & _ & _ & ->)|(_ & _ & ->)]].
    + apply comm_same, sframe_f4, F.
    + eapply comm_pre; [apply sframe_f4; exact F|apply do_send_comm].
    + eapply comm_pre; [|apply shutdown_cmd_comm]. unfold f4; sred. repeat split.
  - apply resume_shape in E as [->|[(c & _ & ->)|[(_ & ->)|(_ & ->)]]].
    + apply comm_same. unfold f4; repeat split.
    + eapply comm_pre; [apply unpark_f4|apply do_send_comm].
    + eapply comm_pre; [apply unpark_f4|apply shutdown_cmd_comm].
    + eapply comm_pre; [apply unpark_f4|apply shutdown_chan_comm].
  - exfalso. eapply Hnw; reflexivity.
  - apply sweep_frame in E as (F & _). apply comm_same, sframe_f4, xframe_sframe, F.
  - apply drain_frame in E as (F & _). apply comm_same, sframe_f4, F.
  - injection E as <- <-. apply comm_same. unfold f4; sred. repeat split.
  - injection E as <- <-. apply comm_same. unfold f4; repeat split.
Qed.

(** the commands (with their ack ids) appended to the queue by one event, and the command executed by it *)
Definition enqueued_by (cfg : config) (s : state) (ev : event) : list (cmd * Z) :=
  match ev with
  | EWorker _ => []
  | _ => skipn (length (queue s)) (queue (step_state cfg s ev))
  end.
Definition executed_by (cfg : config) (s : state) (ev : event) : list (cmd * Z) :=
  match ev with
  | EWorker _ =>
      match worker s, queue s with
      | Alive, x :: _ => if Nat.ltb (length (queue (step_state cfg s ev))) (length (queue s)) then [x] else []
      | _, _ => []
      end
  | _ => []
  end.
Fixpoint sent_log (cfg : config) (s : state) (evs : list event) : list (cmd * Z) :=
  match evs with [] => [] | ev :: t => enqueued_by cfg s ev ++ sent_log cfg (step_state cfg s ev) t end.
Fixpoint exec_log (cfg : config) (s : state) (evs : list event) : list (cmd * Z) :=
  match evs with [] => [] | ev :: t => executed_by cfg s ev ++ exec_log cfg (step_state cfg s ev) t end.

(* STATEMENT: events other than worker steps only ever append to the queue *)
Lemma queue_only_appended : forall cfg s ev, (forall orc, ev <> EWorker orc) ->
  exists added, queue (step_state cfg s ev) = queue s ++ added.
Proof.
  intros cfg s ev Hnw. destruct (nonworker_comm cfg s ev Hnw) as (_ & H).
  destruct H as [(H & _)|[(c & _ & _ & H & _)|[(_ & H & _)|(_ & _ & H & _)]]].
  - exists []. rewrite app_nil_r. exact H.
  - eexists; exact H.
  - exists []. rewrite app_nil_r. exact H.
  - eexists; exact H.
Qed.

(* STATEMENT: a worker step removes exactly the head (one command at a time), or - executing Shutdown - answers and
   drops everything behind it, or does nothing *)
Lemma worker_takes_head : forall cfg s orc,
  let s' := step_state cfg s (EWorker orc) in
  queue s' = queue s \/
  (exists x q, queue s = x :: q /\ queue s' = q /\ worker s = Alive) \/
  (exists a q, queue s = (CShutdown, a) :: q /\ queue s' = [] /\ worker s' = Draining).
Proof.
  intros cfg s orc s'. subst s'. unfold step_state. cbn [step].
  destruct (worker_step cfg orc s) as [s' ret] eqn:E. cbn [fst].
  apply worker_step_cases in E as (_ & _ & _ & _ & _ & H).
  destruct H as [->|[(c & a & q & Hw & Hq & _ & Hq' & _)|(a & q & Hw & Hq & Hq' & Hw' & _)]].
  - left; reflexivity.
  - right; left. exists (c, a), q. tauto.
  - right; right. exists a, q. tauto.
Qed.

(** no transition leads back to [Alive] *)
Lemma worker_alive_back : forall cfg s ev, worker (step_state cfg s ev) = Alive -> worker s = Alive.
Proof.
  intros cfg s ev H.
  assert (Hd : (exists orc, ev = EWorker orc) \/ forall orc, ev <> EWorker orc).
  { destruct ev; try (right; intros orc0; discriminate). left; eexists; reflexivity. }
  destruct Hd as [(orc & ->)|Hnw].
  - unfold step_state in H. cbn [step] in H.
    destruct (worker_step cfg orc s) as [s' ret] eqn:E. cbn [fst] in H.
    apply worker_step_cases in E as (_ & _ & _ & _ & _ & Hc).
    destruct Hc as [->|[(c & a & q & Hw & _)|(a & q & Hw & _)]]; assumption.
  - destruct (nonworker_comm cfg s ev Hnw) as (Hw & _). congruence.
Qed.

Lemma run_from_cons : forall cfg s ev evs, run_from cfg s (ev :: evs) = run_from cfg (step_state cfg s ev) evs.
Proof. reflexivity. Qed.

Lemma run_from_app : forall cfg s evs ev, run_from cfg s (evs ++ [ev]) = step_state cfg (run_from cfg s evs) ev.
Proof. intros cfg s evs ev. unfold run_from. rewrite fold_left_app. reflexivity. Qed.

Lemma worker_alive_back_run : forall cfg evs s, worker (run_from cfg s evs) = Alive -> worker s = Alive.
Proof.
  intros cfg evs. induction evs as [|ev t IH]; intros s H; [exact H|].
  rewrite run_from_cons in H. apply IH in H. eapply worker_alive_back; exact H.
Qed.

Lemma skipn_app_exact : forall (A : Type) (l m : list A), skipn (length l) (l ++ m) = m.
Proof. intros A l m. induction l as [|x t IH]; [reflexivity|exact IH]. Qed.

Lemma one_step_log : forall cfg s ev, worker (step_state cfg s ev) = Alive ->
  executed_by cfg s ev ++ queue (step_state cfg s ev) = queue s ++ enqueued_by cfg s ev.
Proof.
  intros cfg s ev Hal.
  assert (Hd : (exists orc, ev = EWorker orc) \/ forall orc, ev <> EWorker orc).
  { destruct ev; try (right; intros orc0; discriminate). left; eexists; reflexivity. }
  destruct Hd as [(orc & ->)|Hnw].
  - cbn [enqueued_by executed_by]. rewrite app_nil_r.
    pose proof (worker_takes_head cfg s orc) as H. cbv zeta in H.
    destruct H as [H|[(x & q & Hq & Hq' & Hw)|(a & q & _ & _ & Hw')]].
    + rewrite H. destruct (worker s); try reflexivity. destruct (queue s) as [|x q]; [reflexivity|].
      rewrite Nat.ltb_irrefl. reflexivity.
    + rewrite Hw, Hq, Hq'. cbn [length]. destruct (Nat.ltb (length q) (S (length q))) eqn:E; [reflexivity|].
      apply Nat.ltb_ge in E. lia.
    + congruence.
  - destruct (queue_only_appended cfg s ev Hnw) as (added & Ha).
    assert (He : enqueued_by cfg s ev = added).
    { destruct ev; try (cbn [enqueued_by]; rewrite Ha; apply skipn_app_exact). exfalso; eapply Hnw; reflexivity. }
    assert (Hx : executed_by cfg s ev = []).
    { destruct ev; try reflexivity. exfalso; eapply Hnw; reflexivity. }
    rewrite He, Hx, Ha. reflexivity.
Qed.

Lemma executed_is_prefix_of_sent_from : forall cfg evs s,
  worker (run_from cfg s evs) = Alive ->
  exec_log cfg s evs ++ queue (run_from cfg s evs) = queue s ++ sent_log cfg s evs.
Proof.
  intros cfg evs. induction evs as [|ev t IH]; intros s Hal.
  - cbn [exec_log sent_log]. rewrite app_nil_r. reflexivity.
  - rewrite run_from_cons in *. cbn [exec_log sent_log].
    pose proof (worker_alive_back_run _ _ _ Hal) as Hal1.
    rewrite <- app_assoc. rewrite (IH _ Hal). rewrite !app_assoc. f_equal.
    apply one_step_log; exact Hal1.
Qed.

(* STATEMENT: FIFO, exactly once: while the worker has not executed Shutdown, what it has executed followed by what is
   still queued is exactly what was enqueued, in order: nothing dropped, duplicated or reordered, for every capacity *)
Lemma executed_is_prefix_of_sent : forall cfg evs,
  worker (run_from cfg (init cfg) evs) = Alive ->
  exec_log cfg (init cfg) evs ++ queue (run_from cfg (init cfg) evs) = sent_log cfg (init cfg) evs.
Proof.
  intros cfg evs H. apply executed_is_prefix_of_sent_from in H. exact H.
Qed.

Lemma queue_bounded_step : forall cfg s ev,
  Z.of_nat (length (queue s)) <= c_queue cfg -> Z.of_nat (length (queue (step_state cfg s ev))) <= c_queue cfg.
Proof.
  intros cfg s ev Hb.
  assert (Hd : (exists orc, ev = EWorker orc) \/ forall orc, ev <> EWorker orc).
  { destruct ev; try (right; intros orc0; discriminate). left; eexists; reflexivity. }
  destruct Hd as [(orc & ->)|Hnw].
  - pose proof (worker_takes_head cfg s orc) as H. cbv zeta in H.
    destruct H as [H|[(x & q & Hq & Hq' & _)|(a & q & _ & Hq' & _)]].
    + rewrite H; exact Hb.
    + rewrite Hq', Hq in *. cbn [length] in Hb. lia.
    + rewrite Hq'. cbn [length]. lia.
  - destruct (nonworker_comm cfg s ev Hnw) as (_ & H).
    destruct H as [(H & _)|[(c & _ & Hl & H & _)|[(_ & H & _)|(_ & Hl & H & _)]]]; rewrite H;
      try exact Hb; rewrite app_length; cbn [length]; lia.
Qed.

Lemma queue_bounded_from : forall cfg evs s,
  Z.of_nat (length (queue s)) <= c_queue cfg -> Z.of_nat (length (queue (run_from cfg s evs))) <= c_queue cfg.
Proof.
  intros cfg evs. induction evs as [|ev t IH]; intros s Hb; [exact Hb|].
  rewrite run_from_cons. apply IH. apply queue_bounded_step; exact Hb.
Qed.

(* STATEMENT: the queue never exceeds its capacity: a send on a full queue parks the caller instead *)
Lemma queue_bounded : forall cfg evs, 0 < c_queue cfg ->
  Z.of_nat (length (queue (run_from cfg (init cfg) evs))) <= c_queue cfg.
Proof.
  intros cfg evs Hc. apply queue_bounded_from. cbn [init queue length]. lia.
Qed.

(** * C02: provenance of stored values *)

Definition cmd_ok (W : Z -> Z -> Prop) (c : cmd) : Prop := forall k v, cmd_kv c = Some (k, v) -> W k v.

(** every value that is stored, carried by a queued command, or carried by a parked send was written *)
Definition PInv (W : Z -> Z -> Prop) (s : state) : Prop :=
  (forall k e, alookup k (store s) = Some e -> W k (e_val e)) /\
  (forall c a, In (c, a) (queue s) -> cmd_ok W c) /\
  (forall tid c, In (tid, KSend c) (blocked s) -> cmd_ok W c).

Lemma pinv_mono : forall (W W' : Z -> Z -> Prop) s, (forall k v, W k v -> W' k v) -> PInv W s -> PInv W' s.
Proof.
  intros W W' s Hm (P1 & P2 & P3). split; [|split].
  - intros k e Hl. apply Hm. eapply P1; exact Hl.
  - intros c a Hin k v Hkv. apply Hm. eapply P2; eassumption.
  - intros tid c Hin k v Hkv. apply Hm. eapply P3; eassumption.
Qed.

Lemma pinv_vstep : forall (W : Z -> Z -> Prop) s s',
  PInv W s -> vstep W s s' -> queue s' = queue s -> blocked s' = blocked s -> PInv W s'.
Proof.
  intros W s s' (P1 & P2 & P3) Hv Hq Hb. split; [|split].
  - intros k e Hl. destruct (Hv k e Hl) as [(e0 & H0 & Hv0)|H0]; [|exact H0]. rewrite <- Hv0. eapply P1; exact H0.
  - rewrite Hq. exact P2.
  - rewrite Hb. exact P3.
Qed.

Lemma vstep_mono : forall (W W' : Z -> Z -> Prop) s s', (forall k v, W k v -> W' k v) -> vstep W s s' -> vstep W' s s'.
Proof.
  intros W W' s s' Hm Hv k e Hl. destruct (Hv k e Hl) as [H|H]; [left; exact H|right; apply Hm; exact H].
Qed.

Lemma pinv_do_send : forall (W : Z -> Z -> Prop) cfg tid c s, PInv W s -> cmd_ok W c -> PInv W (fst (do_send cfg tid c s)).
Proof.
  intros W cfg tid c s (P1 & P2 & P3) Hc.
  pose proof (do_send_fields cfg tid c s) as (_ & _ & _ & _ & Hst & H). cbv zeta in *.
  split; [rewrite Hst; exact P1|].
  destruct H as [(H1 & _ & _ & Hb)|[(_ & _ & H1 & _ & _ & Hb)|(_ & H1 & _ & _ & Hb)]].
  - split; [rewrite H1; exact P2|]. destruct Hb as [Hb|Hb]; rewrite Hb; [exact P3|].
    intros tid0 c0 Hin. apply In_aset in Hin as [Hin|Hin]; [|eapply P3; exact Hin].
    injection Hin as _ ->. exact Hc.
  - split; [|rewrite Hb; exact P3]. rewrite H1. intros c0 a0 Hin. apply in_app_or in Hin as [Hin|Hin].
    + eapply P2; exact Hin.
    + cbn [In] in Hin. destruct Hin as [Hin|[]]. injection Hin as <- _. exact Hc.
  - split; [rewrite H1; exact P2|rewrite Hb; exact P3].
Qed.

Lemma pinv_unpark : forall (W : Z -> Z -> Prop) tid s, PInv W s -> PInv W (unpark tid s).
Proof.
  intros W tid s (P1 & P2 & P3). unfold unpark. split; [|split]; sred; [exact P1|exact P2|].
  intros tid0 c Hin. apply In_aremove in Hin as (Hin & _). eapply P3; exact Hin.
Qed.

Lemma pinv_blocked_other : forall (W : Z -> Z -> Prop) (s : state) tid k bl,
  (forall tid0 c, In (tid0, KSend c) (blocked s) -> cmd_ok W c) ->
  (forall c, k <> KSend c) ->
  bl = blocked s \/ bl = aset tid k (blocked s) ->
  forall tid0 c, In (tid0, KSend c) bl -> cmd_ok W c.
Proof.
  intros W s tid k bl P3 Hk [->| ->] tid0 c Hin; [eapply P3; exact Hin|].
  apply In_aset in Hin as [Hin|Hin]; [|eapply P3; exact Hin].
  injection Hin as _ Hin. exfalso. eapply Hk. symmetry; exact Hin.
Qed.

Lemma pinv_store_or_nil : forall (W : Z -> Z -> Prop) (s s' : state),
  (forall k e, alookup k (store s) = Some e -> W k (e_val e)) ->
  store s' = store s \/ store s' = [] ->
  forall k e, alookup k (store s') = Some e -> W k (e_val e).
Proof. intros W s s' P1 [H|H] k e Hl; rewrite H in Hl; [eapply P1; exact Hl|discriminate]. Qed.

Lemma pinv_shutdown_chan : forall (W : Z -> Z -> Prop) tid s, PInv W s -> PInv W (fst (shutdown_chan tid s)).
Proof.
  intros W tid s (P1 & P2 & P3).
  pose proof (shutdown_chan_fields tid s) as (C1 & _ & _ & _ & _ & _ & _ & C8 & C9). cbv zeta in *.
  split; [|split].
  - eapply pinv_store_or_nil; eassumption.
  - rewrite C1; exact P2.
  - eapply pinv_blocked_other with (k := KShutdownChan); [exact P3|intros c; discriminate|].
    destruct C9 as [C9|C9]; [left|right]; exact C9.
Qed.

Lemma pinv_shutdown_cmd : forall (W : Z -> Z -> Prop) cfg tid s, PInv W s -> PInv W (fst (shutdown_cmd cfg tid s)).
Proof.
  intros W cfg tid s (P1 & P2 & P3).
  pose proof (shutdown_cmd_fields cfg tid s) as (_ & _ & _ & _ & _ & _ & C7 & H). cbv zeta in *.
  split; [eapply pinv_store_or_nil; eassumption|].
  destruct H as [(H1 & Hb)|(_ & _ & H1 & Hb)].
  - split; [rewrite H1; exact P2|].
    destruct Hb as [Hb|[Hb|Hb]].
    + rewrite Hb; exact P3.
    + eapply pinv_blocked_other with (k := KShutdownChan); [exact P3|intros c; discriminate|right; exact Hb].
    + eapply pinv_blocked_other with (k := KShutdownCmd); [exact P3|intros c; discriminate|right; exact Hb].
  - split.
    + rewrite H1. intros c0 a0 Hin. apply in_app_or in Hin as [Hin|Hin]; [eapply P2; exact Hin|].
      cbn [In] in Hin. destruct Hin as [Hin|[]]. injection Hin as <- _. intros k v Hkv; discriminate.
    + eapply pinv_blocked_other with (k := KShutdownChan); [exact P3|intros c; discriminate|].
      destruct Hb as [Hb|Hb]; [left|right]; exact Hb.
Qed.

(** the worker only stores values carried by the command at the head of the queue *)
Lemma worker_step_store : forall cfg orc s s' ret, worker_step cfg orc s = (s', ret) ->
  forall k e, alookup k (store s') = Some e ->
    alookup k (store s) = Some e \/ exists c a q, queue s = (c, a) :: q /\ cmd_kv c = Some (k, e_val e).
Proof.
  intros cfg orc s s' ret H k e. unfold worker_step in H.
  destruct (worker s); try (injection H as <- <-; intros Hl; left; exact Hl).
  destruct (queue s) as [|[c a] q]; [injection H as <- <-; intros Hl; left; exact Hl|].
  cbv zeta in H.
  assert (Hsh : forall s1, store_shrinks (set_queue s q) s1 -> alookup k (store s1) = Some e ->
                           alookup k (store s) = Some e).
  { intros s1 Hs Hl. destruct (Hs k) as [H1|H1]; sred; congruence. }
  destruct c as [k0 v id h w|k0 v id h w ttl|k0|id w|]; sred.
  - destruct (amem k0 (store s)); [injection H as <- <-; sred; intros Hl; left; exact Hl|].
    destruct (admission cfg orc k0 id h w (set_queue s q)) as [[r s1] vs] eqn:Ead.
    apply admission_wframe in Ead as ((_ & _ & _ & _ & Hs) & _).
    destruct r as [x|site|why].
    + destruct x as [| |rr|]; injection H as <- <-; sred; try (intros Hl; left; eapply Hsh; eassumption).
      intros Hl. destruct (Z.eq_dec k k0) as [->|Hne].
      * rewrite alookup_aset_eq in Hl. injection Hl as <-. right. eexists _, _, _. split; reflexivity.
      * rewrite alookup_aset_neq in Hl by exact Hne. left; eapply Hsh; eassumption.
    + injection H as <- <-; sred. intros Hl; left; eapply Hsh; eassumption.
    + injection H as <- <-. intros Hl; left; exact Hl.
  - destruct (amem k0 (store s)); [injection H as <- <-; sred; intros Hl; left; exact Hl|].
    destruct (admission cfg orc k0 id h w (set_queue s q)) as [[r s1] vs] eqn:Ead.
    apply admission_wframe in Ead as ((_ & _ & _ & _ & Hs) & _).
    destruct r as [x|site|why].
    + destruct x as [| |rr|]; [|destruct (calc_expiry (now s1) ttl) as [ex|]| |]; injection H as <- <-; sred;
        try (intros Hl; left; eapply Hsh; eassumption).
      intros Hl. destruct (Z.eq_dec k k0) as [->|Hne].
      * rewrite alookup_aset_eq in Hl. injection Hl as <-. right. eexists _, _, _. split; reflexivity.
      * rewrite alookup_aset_neq in Hl by exact Hne. left; eapply Hsh; eassumption.
    + injection H as <- <-; sred. intros Hl; left; eapply Hsh; eassumption.
    + injection H as <- <-. intros Hl; left; exact Hl.
  - destruct (alookup k0 (store s)) as [e0|] eqn:El0; [|injection H as <- <-; sred; intros Hl; left; exact Hl].
    pose proof (weights_delete_nohook_store cfg (e_id e0) (store_delete k0 (set_queue s q))) as Hwd.
    assert (Hsd : store_shrinks (set_queue s q) (store_delete k0 (set_queue s q))).
    { destruct (store_delete_wframe k0 (set_queue s q)) as (_ & _ & _ & _ & Hs). exact Hs. }
    destruct (weights_delete cfg (e_id e0) false (store_delete k0 (set_queue s q))) as [s2|site s2|why];
      [| |contradiction].
    + destruct (e_exp e0); injection H as <- <-; sred; rewrite Hwd; intros Hl; left; eapply Hsh; eassumption.
    + injection H as <- <-; sred; rewrite Hwd; intros Hl; left; eapply Hsh; eassumption.
  - pose proof (weights_update_fields cfg id w (set_queue s q)) as Hwu.
    destruct (weights_update cfg id w (set_queue s q)) as [s1|site s1|why]; [| |contradiction];
      destruct Hwu as (Hst & _); injection H as <- <-; sred; rewrite Hst; sred; intros Hl; left; exact Hl.
  - injection H as <- <-. sred. rewrite drain_queue_store. sred. intros Hl; left; exact Hl.
Qed.

Lemma pinv_worker : forall (W : Z -> Z -> Prop) cfg orc s s' ret,
  PInv W s -> worker_step cfg orc s = (s', ret) -> PInv W s'.
Proof.
  intros W cfg orc s s' ret (P1 & P2 & P3) H.
  pose proof (worker_step_store _ _ _ _ _ H) as Hst.
  apply worker_step_cases in H as (_ & Hb & _ & _ & _ & Hc).
  split; [|split].
  - intros k e Hl. destruct (Hst k e Hl) as [H0|(c & a & q & Hq & Hkv)]; [eapply P1; exact H0|].
    eapply (P2 c a); [rewrite Hq; left; reflexivity|exact Hkv].
  - destruct Hc as [->|[(c & a & q & _ & Hq & _ & Hq' & _)|(a & q & _ & _ & Hq' & _)]]; [exact P2| |].
    + rewrite Hq'. intros c0 a0 Hin. eapply P2. rewrite Hq. right; exact Hin.
    + rewrite Hq'. intros c0 a0 [].
  - rewrite Hb. exact P3.
Qed.

Lemma pinv_step : forall (W : Z -> Z -> Prop) cfg s ev,
  PInv W s -> (forall k v, writes_value k v ev -> W k v) -> PInv W (step_state cfg s ev).
Proof.
  intros W cfg s ev HP HW. unfold step_state.
  destruct (step cfg s ev) as [s' ret] eqn:E. cbn [fst].
  destruct ev as [tid r idxs|tid|orc| |bl|dt|a]; cbn [step] in E.
  - assert (HW' : forall k v, wreq k v r -> W k v) by (intros k v Hr; apply HW; exact Hr).
    apply call_cshape in E as [(F & _ & _ & Hv)|[(_ & _ & c & s1 & F & _ & _ & Hv & _ & Hc & ->)|(_ & _ & ->)]].
    + destruct F as (F1 & _ & _ & _ & F5 & _).
      eapply pinv_vstep; [exact HP|eapply vstep_mono; [exact HW'|exact Hv]|exact F1|exact F5].
    + destruct F as (F1 & _ & _ & _ & F5 & _). apply pinv_do_send.
      * eapply pinv_vstep; [exact HP|eapply vstep_mono; [exact HW'|exact Hv]|exact F1|exact F5].
      * intros k v Hkv. apply HW'. apply Hc; exact Hkv.
    + apply pinv_shutdown_cmd. exact HP.
  - apply resume_shape in E as [->|[(c & Hl & ->)|[(_ & ->)|(_ & ->)]]].
    + exact HP.
    + apply pinv_do_send; [apply pinv_unpark; exact HP|].
      destruct HP as (_ & _ & P3). eapply P3. apply alookup_In; exact Hl.
    + apply pinv_shutdown_cmd, pinv_unpark, HP.
    + apply pinv_shutdown_chan, pinv_unpark, HP.
  - eapply pinv_worker; eassumption.
  - apply sweep_frame in E as ((F1 & _ & _ & _ & F5 & _) & Hs).
    eapply pinv_vstep; [exact HP|apply vstep_shrinks; exact Hs|exact F1|exact F5].
  - apply drain_frame in E as ((F1 & _ & _ & _ & F5 & _) & Hs & _).
    eapply pinv_vstep; [exact HP|apply vstep_same; exact Hs|exact F1|exact F5].
  - injection E as <- <-. exact HP.
  - injection E as <- <-. exact HP.
Qed.

Lemma pinv_run : forall cfg evs, PInv (fun k v => Exists (writes_value k v) evs) (run_from cfg (init cfg) evs).
Proof.
  intros cfg evs. induction evs as [|ev evs IH] using rev_ind.
  - split; [|split]; cbn [run_from fold_left init store queue blocked alookup In].
    + intros k e Hl; discriminate.
    + intros c a [].
    + intros tid c [].
  - rewrite run_from_app. apply pinv_step.
    + eapply pinv_mono; [|exact IH]. intros k v Hex. cbv beta. apply Exists_app. left; exact Hex.
    + intros k v Hw. cbv beta. apply Exists_app. right. apply Exists_cons_hd. exact Hw.
Qed.

(* STATEMENT: for every history, every hash function (the hash never enters the lookup), every oracle *)
Lemma store_value_provenance : forall cfg evs k e,
  alookup k (store (run_from cfg (init cfg) evs)) = Some e -> Exists (writes_value k (e_val e)) evs.
Proof.
  intros cfg evs k e Hl. destruct (pinv_run cfg evs) as (P1 & _). exact (P1 k e Hl).
Qed.

(* STATEMENT: hence a read never returns a value nobody wrote to that key *)
Lemma read_value_was_written : forall cfg evs k e,
  lookup_alive k (run_from cfg (init cfg) evs) = Some e -> Exists (writes_value k (e_val e)) evs.
Proof.
  intros cfg evs k e Hl. apply lookup_alive_spec in Hl as (Hl & _). eapply store_value_provenance; exact Hl.
Qed.

(** * acknowledgement bookkeeping (C11, C12 at this granularity, C13) *)

(** ack ids are handed out in increasing order; an acknowledgement is Pending exactly while its command is queued *)
Record AckInv (s : state) : Prop := {
  ai_acks_lt : forall a x, alookup a (acks s) = Some x -> 0 <= a < next_ack s;
  ai_queue_lt : forall c a, In (c, a) (queue s) -> a = -1 \/ 0 <= a < next_ack s;
  ai_queue_nodup : NoDup (filter (fun a => negb (a =? -1)) (map snd (queue s)));
  ai_pending_iff : worker s <> Dead -> forall a, 0 <= a ->
      (alookup a (acks s) = Some Pending <-> In a (map snd (queue s)));
  ai_draining_empty : worker s = Draining -> queue s = []
}.

(** ** shutdown tokens: at most one Shutdown command exists (queued, or held by a parked shutdown()), and only
    after the flag is set; only the Shutdown command carries the untracked ack id *)
Fixpoint qtok (q : list (cmd * Z)) : Z :=
  match q with
  | [] => 0
  | (CShutdown, _) :: t => 1 + qtok t
  | _ :: t => qtok t
  end.
Fixpoint btok (b : list (Z * cont)) : Z :=
  match b with
  | [] => 0
  | (_, KShutdownCmd) :: t => 1 + btok t
  | _ :: t => btok t
  end.

Lemma qtok_nonneg : forall q, 0 <= qtok q.
Proof. induction q as [|[c a] t IH]; cbn [qtok]; [lia|]. destruct c; lia. Qed.

Lemma btok_nonneg : forall b, 0 <= btok b.
Proof. induction b as [|[k c] t IH]; cbn [btok]; [lia|]. destruct c; lia. Qed.

Lemma qtok_app : forall q1 q2, qtok (q1 ++ q2) = qtok q1 + qtok q2.
Proof. induction q1 as [|[c a] t IH]; intros q2; cbn [qtok app]; [lia|]. rewrite IH. destruct c; lia. Qed.

Lemma qtok_in : forall q a, In (CShutdown, a) q -> 1 <= qtok q.
Proof.
  induction q as [|[c a0] t IH]; intros a Hin; cbn [In] in Hin; [contradiction|]. cbn [qtok].
  pose proof (qtok_nonneg t) as Hn. destruct Hin as [Hin|Hin].
  - injection Hin as -> _. lia.
  - specialize (IH _ Hin). destruct c; lia.
Qed.

Lemma qtok_single : forall c a, c <> CShutdown -> qtok [(c, a)] = 0.
Proof. intros c a Hc. cbn [qtok]. destruct c; try reflexivity. congruence. Qed.

Lemma btok_aremove_le : forall k l, btok (aremove k l) <= btok l.
Proof.
  intros k l. induction l as [|[k' c] t IH]; cbn [aremove btok]; [lia|].
  pose proof (btok_nonneg t) as Hn.
  destruct (k =? k'); cbn [btok]; destruct c; lia.
Qed.

Lemma btok_aremove_lt : forall k l, alookup k l = Some KShutdownCmd -> btok (aremove k l) + 1 <= btok l.
Proof.
  intros k l. induction l as [|[k' c] t IH]; cbn [alookup aremove btok]; [discriminate|].
  pose proof (btok_aremove_le k t) as Hle.
  destruct (k =? k').
  - intros H. injection H as ->. lia.
  - intros H. specialize (IH H). cbn [btok]. destruct c; lia.
Qed.

Lemma btok_aset_other : forall k x l, x <> KShutdownCmd -> btok (aset k x l) <= btok l.
Proof.
  intros k x l Hx. unfold aset. cbn [btok]. pose proof (btok_aremove_le k l) as Hle.
  destruct x; try lia. congruence.
Qed.

Lemma btok_aset_cmd : forall k l, btok (aset k KShutdownCmd l) <= btok l + 1.
Proof. intros k l. unfold aset. cbn [btok]. pose proof (btok_aremove_le k l) as Hle. lia. Qed.

Record TInv (s : state) : Prop := {
  ti_next : 0 <= next_ack s;
  ti_qcmd : forall c a, In (c, a) (queue s) -> (c = CShutdown /\ a = -1) \/ (c <> CShutdown /\ 0 <= a);
  ti_bcmd : forall tid, ~ In (tid, KSend CShutdown) (blocked s);
  ti_tok : qtok (queue s) + btok (blocked s) <= 1;
  ti_shut : shut s = false -> qtok (queue s) + btok (blocked s) = 0
}.

Lemma tinv_fields : forall s s',
  next_ack s' = next_ack s -> queue s' = queue s -> blocked s' = blocked s -> shut s' = shut s ->
  TInv s -> TInv s'.
Proof.
  intros s s' H1 H2 H3 H4 [T1 T2 T3 T4 T5]. constructor; rewrite ?H1, ?H2, ?H3, ?H4; assumption.
Qed.

Lemma tinv_sframe : forall s s', sframe s s' -> TInv s -> TInv s'.
Proof. intros s s' (F1 & _ & F3 & _ & F5 & F6) HT. eapply tinv_fields; eassumption. Qed.

Lemma tinv_blocked_aset : forall (s : state) tid k,
  (forall tid0, ~ In (tid0, KSend CShutdown) (blocked s)) -> k <> KSend CShutdown ->
  forall tid0, ~ In (tid0, KSend CShutdown) (aset tid k (blocked s)).
Proof.
  intros s tid k T3 Hk tid0 Hin. apply In_aset in Hin as [Hin|Hin]; [|eapply T3; exact Hin].
  injection Hin as _ Hin. congruence.
Qed.

Lemma tinv_do_send : forall cfg tid c s, TInv s -> c <> CShutdown -> TInv (fst (do_send cfg tid c s)).
Proof.
  intros cfg tid c s [T1 T2 T3 T4 T5] Hc.
  pose proof (do_send_fields cfg tid c s) as (_ & Hsh & _ & _ & _ & H). cbv zeta in *.
  destruct H as [(H1 & _ & H3 & Hb)|[(_ & _ & H1 & _ & H3 & Hb)|(_ & H1 & _ & H3 & Hb)]].
  - destruct Hb as [Hb|Hb].
    + constructor; rewrite ?H1, ?H3, ?Hb, ?Hsh; assumption.
    + pose proof (btok_aset_other tid (KSend c) (blocked s) ltac:(discriminate)) as Hle.
      pose proof (btok_nonneg (aset tid (KSend c) (blocked s))) as Hn.
      pose proof (qtok_nonneg (queue s)) as Hn2.
      constructor; rewrite ?H1, ?H3, ?Hb, ?Hsh; try assumption.
      * apply tinv_blocked_aset; [exact T3|congruence].
      * lia.
      * intros Hs. specialize (T5 Hs). lia.
  - constructor; rewrite ?H1, ?H3, ?Hb, ?Hsh; try assumption.
    + lia.
    + intros c0 a0 Hin. apply in_app_or in Hin as [Hin|Hin]; [apply T2; exact Hin|].
      cbn [In] in Hin. destruct Hin as [Hin|[]]. injection Hin as <- <-. right. split; [exact Hc|exact T1].
    + rewrite qtok_app, (qtok_single _ _ Hc). lia.
    + intros Hs. rewrite qtok_app, (qtok_single _ _ Hc). specialize (T5 Hs). lia.
  - constructor; rewrite ?H1, ?H3, ?Hb, ?Hsh; try assumption. lia.
Qed.

Lemma tinv_unpark : forall tid s, TInv s -> TInv (unpark tid s).
Proof.
  intros tid s [T1 T2 T3 T4 T5]. pose proof (btok_aremove_le tid (blocked s)) as Hle.
  pose proof (btok_nonneg (aremove tid (blocked s))) as Hn. pose proof (qtok_nonneg (queue s)) as Hn2.
  constructor; unfold unpark; sred; try assumption.
  - intros tid0 Hin. apply In_aremove in Hin as (Hin & _). eapply T3; exact Hin.
  - lia.
  - intros Hs. specialize (T5 Hs). lia.
Qed.

Lemma tinv_unpark_token : forall tid s, TInv s -> alookup tid (blocked s) = Some KShutdownCmd ->
  shut (unpark tid s) = true /\ qtok (queue (unpark tid s)) + btok (blocked (unpark tid s)) = 0.
Proof.
  intros tid s [T1 T2 T3 T4 T5] Hl. pose proof (btok_aremove_lt _ _ Hl) as Hlt.
  pose proof (btok_nonneg (aremove tid (blocked s))) as Hn. pose proof (qtok_nonneg (queue s)) as Hn2.
  unfold unpark; sred. split; [|lia].
  destruct (shut s) eqn:Hs; [reflexivity|]. specialize (T5 eq_refl). lia.
Qed.

Lemma tinv_shutdown_chan : forall tid s, TInv s -> TInv (fst (shutdown_chan tid s)).
Proof.
  intros tid s [T1 T2 T3 T4 T5].
  pose proof (shutdown_chan_fields tid s) as (C1 & _ & C3 & _ & C5 & _ & _ & _ & C9). cbv zeta in *.
  destruct C9 as [C9|C9].
  - constructor; rewrite ?C1, ?C3, ?C5, ?C9; assumption.
  - pose proof (btok_aset_other tid KShutdownChan (blocked s) ltac:(discriminate)) as Hle.
    pose proof (btok_nonneg (aset tid KShutdownChan (blocked s))) as Hn.
    pose proof (qtok_nonneg (queue s)) as Hn2.
    constructor; rewrite ?C1, ?C3, ?C5, ?C9; try assumption.
    + apply tinv_blocked_aset; [exact T3|discriminate].
    + lia.
    + intros Hs. specialize (T5 Hs). lia.
Qed.

Lemma tinv_shutdown_cmd : forall cfg tid s, TInv s -> shut s = true ->
  qtok (queue s) + btok (blocked s) = 0 -> TInv (fst (shutdown_cmd cfg tid s)).
Proof.
  intros cfg tid s [T1 T2 T3 T4 T5] Hs H0.
  pose proof (shutdown_cmd_fields cfg tid s) as (_ & C2 & _ & C4 & _ & _ & _ & H). cbv zeta in *.
  pose proof (qtok_nonneg (queue s)) as Hn2. pose proof (btok_nonneg (blocked s)) as Hn3.
  assert (Hsh : shut (fst (shutdown_cmd cfg tid s)) = false -> False) by (rewrite C4, Hs; discriminate).
  destruct H as [(H1 & Hb)|(_ & _ & H1 & Hb)].
  - destruct Hb as [Hb|[Hb|Hb]].
    + constructor; rewrite ?H1, ?C2, ?Hb; try assumption. intros Hf; exfalso; exact (Hsh Hf).
    + pose proof (btok_aset_other tid KShutdownChan (blocked s) ltac:(discriminate)) as Hle.
      pose proof (btok_nonneg (aset tid KShutdownChan (blocked s))) as Hn.
      constructor; rewrite ?H1, ?C2, ?Hb; try assumption.
      * apply tinv_blocked_aset; [exact T3|discriminate].
      * lia.
      * intros Hf; exfalso; exact (Hsh Hf).
    + pose proof (btok_aset_cmd tid (blocked s)) as Hle.
      constructor; rewrite ?H1, ?C2, ?Hb; try assumption.
      * apply tinv_blocked_aset; [exact T3|discriminate].
      * lia.
      * intros Hf; exfalso; exact (Hsh Hf).
  - assert (Hq : qtok (queue s ++ [(CShutdown, -1)]) = qtok (queue s) + 1) by (rewrite qtok_app; cbn [qtok]; lia).
    assert (Hqc : forall c a, In (c, a) (queue s ++ [(CShutdown, -1)]) ->
                   (c = CShutdown /\ a = -1) \/ (c <> CShutdown /\ 0 <= a)).
    { intros c0 a0 Hin. apply in_app_or in Hin as [Hin|Hin]; [apply T2; exact Hin|].
      cbn [In] in Hin. destruct Hin as [Hin|[]]. injection Hin as <- <-. left; split; reflexivity. }
    destruct Hb as [Hb|Hb].
    + constructor; rewrite ?H1, ?C2, ?Hb; try assumption; [lia|]. intros Hf; exfalso; exact (Hsh Hf).
    + pose proof (btok_aset_other tid KShutdownChan (blocked s) ltac:(discriminate)) as Hle.
      pose proof (btok_nonneg (aset tid KShutdownChan (blocked s))) as Hn.
      constructor; rewrite ?H1, ?C2, ?Hb; try assumption.
      * apply tinv_blocked_aset; [exact T3|discriminate].
      * lia.
      * intros Hf; exfalso; exact (Hsh Hf).
Qed.

Lemma tinv_worker : forall cfg orc s s' ret, TInv s -> worker_step cfg orc s = (s', ret) -> TInv s'.
Proof.
  intros cfg orc s s' ret [T1 T2 T3 T4 T5] H.
  apply worker_step_cases in H as (Hn & Hb & Hsh & _ & _ & Hc).
  destruct Hc as [->|[(c & a & q & _ & Hq & _ & Hq' & _)|(a & q & _ & Hq & Hq' & _)]].
  - constructor; assumption.
  - assert (Hle : qtok q <= qtok (queue s)) by (rewrite Hq; cbn [qtok]; destruct c; lia).
    pose proof (qtok_nonneg q) as Hn2. pose proof (btok_nonneg (blocked s)) as Hn3.
    constructor; rewrite ?Hn, ?Hb, ?Hsh, ?Hq'; try assumption.
    + intros c0 a0 Hin. apply T2. rewrite Hq. right; exact Hin.
    + lia.
    + intros Hs. specialize (T5 Hs). lia.
  - pose proof (qtok_nonneg (queue s)) as Hn2. pose proof (btok_nonneg (blocked s)) as Hn3.
    constructor; rewrite ?Hn, ?Hb, ?Hsh, ?Hq'; try assumption; cbn [qtok].
    + intros c0 a0 [].
    + lia.
    + intros Hs. specialize (T5 Hs). lia.
Qed.

Lemma tinv_step : forall cfg s ev, TInv s -> TInv (step_state cfg s ev).
Proof.
  intros cfg s ev HT. unfold step_state.
  destruct (step cfg s ev) as [s' ret] eqn:E. cbn [fst].
  destruct ev as [tid r idxs|tid|orc| |bl|dt|a]; cbn [step] in E.
  - apply call_cshape in E as [(F & _)|[(_ & _ & c & s1 & F & _ & _ & _ & Hc & _ & ->)|(_ & Hs & ->)]].
    + eapply tinv_sframe; eassumption.
    + apply tinv_do_send; [eapply tinv_sframe; eassumption|exact Hc].
    + apply tinv_shutdown_cmd.
      * destruct HT as [T1 T2 T3 T4 T5]. specialize (T5 Hs). constructor; sred; try assumption; try lia.
      * reflexivity.
      * sred. destruct HT as [T1 T2 T3 T4 T5]. exact (T5 Hs).
  - apply resume_shape in E as [->|[(c & Hl & ->)|[(Hl & ->)|(_ & ->)]]].
    + exact HT.
    + apply tinv_do_send; [apply tinv_unpark; exact HT|].
      intros ->. destruct HT as [T1 T2 T3 T4 T5]. eapply T3. apply alookup_In; exact Hl.
    + destruct (tinv_unpark_token tid s HT Hl) as (Hs & H0).
      apply tinv_shutdown_cmd; [apply tinv_unpark; exact HT|exact Hs|exact H0].
    + apply tinv_shutdown_chan, tinv_unpark, HT.
  - eapply tinv_worker; eassumption.
  - apply sweep_frame in E as (F & _). eapply tinv_sframe; [apply xframe_sframe; exact F|exact HT].
  - apply drain_frame in E as (F & _). eapply tinv_sframe; eassumption.
  - injection E as <- <-. eapply tinv_fields; [| | | |exact HT]; reflexivity.
  - injection E as <- <-. exact HT.
Qed.

Lemma NoDup_snoc : forall (A : Type) (l : list A) x, NoDup l -> ~ In x l -> NoDup (l ++ [x]).
Proof.
  intros A l x Hn Hx. induction Hn as [|y t Hy Hn IH]; cbn [app].
  - constructor; [intros []|constructor].
  - constructor.
    + intros Hin. apply in_app_or in Hin as [Hin|[Hin|[]]]; [exact (Hy Hin)|]. subst. apply Hx. left; reflexivity.
    + apply IH. intros Hin. apply Hx. right; exact Hin.
Qed.

Lemma in_map_snd : forall (a : Z) (q : list (cmd * Z)), In a (map snd q) -> exists c, In (c, a) q.
Proof.
  intros a q Hin. apply in_map_iff in Hin as ([c0 a0] & Heq & Hin). cbn [snd] in Heq. subst a0.
  exists c0; exact Hin.
Qed.

Lemma ackinv_comm : forall cfg s s', AckInv s -> 0 <= next_ack s -> comm_step cfg s s' -> AckInv s'.
Proof.
  intros cfg s s' [A1 A2 A3 A4 A5] Hn (Hw & H).
  assert (Hfresh : ~ In (next_ack s) (map snd (queue s))).
  { intros Hin. apply in_map_snd in Hin as (c0 & Hin). destruct (A2 _ _ Hin); lia. }
  destruct H as [(Hq & Ha & Hna)|[(c & Hal & _ & Hq & Ha & Hna)|[(Hdr & Hq & Ha & Hna)|(Hal & _ & Hq & Ha & Hna)]]].
  - constructor; rewrite ?Hq, ?Ha, ?Hna, ?Hw; assumption.
  - constructor; rewrite ?Hq, ?Ha, ?Hna, ?Hw.
    + intros a x Hl. destruct (Z.eq_dec a (next_ack s)) as [->|Hne]; [lia|].
      rewrite alookup_aset_neq in Hl by exact Hne. specialize (A1 _ _ Hl). lia.
    + intros c0 a0 Hin. apply in_app_or in Hin as [Hin|Hin].
      * destruct (A2 _ _ Hin) as [H|H]; [left; exact H|right; lia].
      * cbn [In] in Hin. destruct Hin as [Hin|[]]. injection Hin as _ <-. right; lia.
    + rewrite map_app, filter_app. cbn [map snd filter].
      destruct (negb (next_ack s =? -1)) eqn:E; [|lia].
      apply NoDup_snoc; [exact A3|]. intros Hin. apply filter_In in Hin as (Hin & _). exact (Hfresh Hin).
    + intros Hd a Ha0. rewrite map_app, in_app_iff. cbn [map snd In].
      destruct (Z.eq_dec a (next_ack s)) as [->|Hne].
      * rewrite alookup_aset_eq. split; [intros _; right; left; reflexivity|reflexivity].
      * rewrite alookup_aset_neq by exact Hne. rewrite (A4 Hd a Ha0).
        split; [tauto|]. intros [H|[H|[]]]; [exact H|congruence].
    + intros Hd. congruence.
  - assert (Hq0 : queue s = []) by (apply A5; exact Hdr).
    constructor; rewrite ?Hq, ?Ha, ?Hna, ?Hw.
    + intros a x Hl. destruct (Z.eq_dec a (next_ack s)) as [->|Hne]; [lia|].
      rewrite alookup_aset_neq in Hl by exact Hne. specialize (A1 _ _ Hl). lia.
    + intros c0 a0 Hin. destruct (A2 _ _ Hin) as [H|H]; [left; exact H|right; lia].
    + exact A3.
    + intros Hd a Ha0. destruct (Z.eq_dec a (next_ack s)) as [->|Hne].
      * rewrite alookup_aset_eq. split; [discriminate|]. intros Hin. exfalso; exact (Hfresh Hin).
      * rewrite alookup_aset_neq by exact Hne. exact (A4 Hd a Ha0).
    + exact A5.
  - constructor; rewrite ?Hq, ?Ha, ?Hna, ?Hw.
    + exact A1.
    + intros c0 a0 Hin. apply in_app_or in Hin as [Hin|Hin]; [exact (A2 _ _ Hin)|].
      cbn [In] in Hin. destruct Hin as [Hin|[]]. injection Hin as _ <-. left; reflexivity.
    + rewrite map_app, filter_app. cbn [map snd filter negb Z.eqb]. rewrite app_nil_r. exact A3.
    + intros Hd a Ha0. rewrite map_app, in_app_iff. cbn [map snd In]. rewrite (A4 Hd a Ha0).
      split; [tauto|]. intros [H|[H|[]]]; [exact H|lia].
    + intros Hd. congruence.
Qed.

Lemma ackinv_worker : forall s s', AckInv s -> TInv s -> next_ack s' = next_ack s -> wacks s s' -> AckInv s'.
Proof.
  intros s s' [A1 A2 A3 A4 A5] [T1 T2 T3 T4 T5] Hna Hc.
  destruct Hc as [->|[(c & a & q & Hw & Hq & Hcn & Hq' & Hc)|(a & q & Hw & Hq & Hq' & Hw' & Hac)]].
  - constructor; assumption.
  - assert (Ha0 : 0 <= a < next_ack s).
    { assert (Hin : In (c, a) (queue s)) by (rewrite Hq; left; reflexivity).
      destruct (T2 _ _ Hin) as [(H & _)|(_ & H)]; [congruence|]. destruct (A2 _ _ Hin); lia. }
    assert (Hnd : ~ In a (map snd q) /\ NoDup (filter (fun a => negb (a =? -1)) (map snd q))).
    { rewrite Hq in A3. cbn [map snd filter] in A3. destruct (negb (a =? -1)) eqn:E; [|lia].
      inversion A3 as [|x l Hx Hl]; subst. split; [|exact Hl].
      intros Hin. apply Hx. apply filter_In. split; [exact Hin|exact E]. }
    destruct Hnd as (Hnin & Hnd).
    assert (Hsub : forall c0 a0, In (c0, a0) q -> In (c0, a0) (queue s)) by (intros c0 a0 H; rewrite Hq; right; exact H).
    destruct Hc as [(Hw' & x & Hx & Hac)|(Hw' & Hac)].
    + constructor; rewrite ?Hq', ?Hac, ?Hna.
      * intros a' x' Hl. destruct (Z.eq_dec a' a) as [->|Hne]; [exact Ha0|].
        rewrite alookup_aset_neq in Hl by exact Hne. exact (A1 _ _ Hl).
      * intros c0 a0 Hin. apply (A2 c0 a0). apply Hsub; exact Hin.
      * exact Hnd.
      * intros _ a' Ha'. destruct (Z.eq_dec a' a) as [->|Hne].
        -- rewrite alookup_aset_eq. split; [intros H; injection H as H; congruence|]. intros Hin; exfalso; exact (Hnin Hin).
        -- rewrite alookup_aset_neq by exact Hne.
           assert (Hd : worker s <> Dead) by (rewrite Hw; discriminate).
           rewrite (A4 Hd a' Ha'). rewrite Hq. cbn [map snd In]. split; [|tauto].
           intros [H|H]; [congruence|exact H].
      * intros Hd. congruence.
    + constructor; rewrite ?Hq', ?Hac, ?Hna.
      * exact A1.
      * intros c0 a0 Hin. apply (A2 c0 a0). apply Hsub; exact Hin.
      * exact Hnd.
      * intros Hd. congruence.
      * intros Hd. congruence.
  - assert (Ha1 : a = -1).
    { assert (Hin : In (CShutdown, a) (queue s)) by (rewrite Hq; left; reflexivity).
      destruct (T2 _ _ Hin) as [(_ & H)|(H & _)]; [exact H|congruence]. }
    assert (Hq0 : qtok q = 0).
    { rewrite Hq in T4. cbn [qtok] in T4. pose proof (qtok_nonneg q). pose proof (btok_nonneg (blocked s)). lia. }
    assert (Hqr : forall a', In a' (map snd q) -> 0 <= a' < next_ack s).
    { intros a' Hin. apply in_map_snd in Hin as (c0 & Hin).
      assert (Hin' : In (c0, a') (queue s)) by (rewrite Hq; right; exact Hin).
      destruct (T2 _ _ Hin') as [(H & _)|(_ & H)].
      - subst c0. apply qtok_in in Hin. lia.
      - destruct (A2 _ _ Hin'); lia. }
    constructor; rewrite ?Hq', ?Hna.
    + intros a' x Hl. rewrite Hac in Hl. destruct (zmem a' (map snd q)) eqn:Em.
      * apply Hqr. apply zmem_In; exact Em.
      * exact (A1 _ _ Hl).
    + intros c0 a0 [].
    + cbn [map filter]. constructor.
    + intros _ a' Ha'. cbn [map In]. split; [|tauto]. intros Hl. rewrite Hac in Hl.
      destruct (zmem a' (map snd q)) eqn:Em; [discriminate|].
      assert (Hd : worker s <> Dead) by (rewrite Hw; discriminate).
      apply (A4 Hd a' Ha') in Hl. rewrite Hq in Hl. cbn [map snd In] in Hl.
      destruct Hl as [Hl|Hl]; [lia|]. apply zmem_In in Hl. congruence.
    + intros _. reflexivity.
Qed.

(** the invariant of reachable states *)
Definition CInv (s : state) : Prop := AckInv s /\ TInv s.

Lemma cinv_init : forall cfg, CInv (init cfg).
Proof.
  intros cfg. split.
  - constructor; cbn [init acks queue next_ack worker alookup In map filter].
    + intros a x H; discriminate.
    + intros c a [].
    + constructor.
    + intros _ a _. split; [discriminate|intros []].
    + intros _; reflexivity.
  - constructor; cbn [init queue next_ack blocked shut qtok btok In].
    + lia.
    + intros c a [].
    + intros tid [].
    + lia.
    + intros _; lia.
Qed.

Lemma cinv_step : forall cfg s ev, CInv s -> CInv (step_state cfg s ev).
Proof.
  intros cfg s ev (HA & HT). split; [|apply tinv_step; exact HT].
  assert (Hd : (exists orc, ev = EWorker orc) \/ forall orc, ev <> EWorker orc).
  { destruct ev; try (right; intros orc0; discriminate). left; eexists; reflexivity. }
  destruct Hd as [(orc & ->)|Hnw].
  - unfold step_state. cbn [step]. destruct (worker_step cfg orc s) as [s' ret] eqn:E. cbn [fst].
    apply worker_step_cases in E as (Hn & _ & _ & _ & _ & Hc).
    eapply ackinv_worker; eassumption.
  - eapply ackinv_comm; [exact HA|apply (ti_next _ HT)|apply nonworker_comm; exact Hnw].
Qed.

Lemma cinv_run_from : forall cfg evs s, CInv s -> CInv (run_from cfg s evs).
Proof.
  intros cfg evs. induction evs as [|ev t IH]; intros s H; [exact H|].
  rewrite run_from_cons. apply IH. apply cinv_step; exact H.
Qed.

Lemma cinv_run : forall cfg evs, CInv (run_from cfg (init cfg) evs).
Proof. intros cfg evs. apply cinv_run_from, cinv_init. Qed.

(* STATEMENT *)
Lemma ack_inv_run : forall cfg evs, AckInv (run_from cfg (init cfg) evs).
Proof. intros cfg evs. apply cinv_run. Qed.

(* STATEMENT: a resolved acknowledgement never changes again (resolves exactly once) *)
Lemma ack_resolved_stable : forall cfg evs ev a x,
  let s := run_from cfg (init cfg) evs in
  alookup a (acks s) = Some x -> x <> Pending ->
  alookup a (acks (step_state cfg s ev)) = Some x.
Proof.
  intros cfg evs ev a x s Hl Hx. destruct (cinv_run cfg evs) as ([A1 A2 A3 A4 A5] & [T1 T2 T3 T4 T5]). fold s in A1, A2, A3, A4, A5, T1, T2, T3, T4, T5.
  pose proof (A1 _ _ Hl) as Har.
  assert (Hd : (exists orc, ev = EWorker orc) \/ forall orc, ev <> EWorker orc).
  { destruct ev; try (right; intros orc0; discriminate). left; eexists; reflexivity. }
  destruct Hd as [(orc & ->)|Hnw].
  - unfold step_state. cbn [step]. destruct (worker_step cfg orc s) as [s' ret] eqn:E. cbn [fst].
    apply worker_step_cases in E as (_ & _ & _ & _ & _ & Hc).
    destruct Hc as [->|[(c & a0 & q & Hw & Hq & _ & _ & Hc)|(a0 & q & Hw & Hq & _ & _ & Hac)]].
    + exact Hl.
    + assert (Hd : worker s <> Dead) by (rewrite Hw; discriminate).
      destruct Hc as [(_ & x0 & _ & Hac)|(_ & Hac)]; rewrite Hac; [|exact Hl].
      destruct (Z.eq_dec a a0) as [->|Hne]; [|rewrite alookup_aset_neq by exact Hne; exact Hl].
      exfalso. assert (Hp : alookup a0 (acks s) = Some Pending).
      { apply (A4 Hd a0); [lia|]. rewrite Hq. left; reflexivity. }
      congruence.
    + assert (Hd : worker s <> Dead) by (rewrite Hw; discriminate).
      rewrite Hac. destruct (zmem a (map snd q)) eqn:Em; [|exact Hl].
      exfalso. assert (Hp : alookup a (acks s) = Some Pending).
      { apply (A4 Hd a); [lia|]. rewrite Hq. right. apply zmem_In; exact Em. }
      congruence.
  - destruct (nonworker_comm cfg s ev Hnw) as (_ & H).
    destruct H as [(_ & Ha & _)|[(c & _ & _ & _ & Ha & _)|[(_ & _ & Ha & _)|(_ & _ & _ & Ha & _)]]]; rewrite Ha;
      try exact Hl; rewrite alookup_aset_neq by lia; exact Hl.
Qed.

(* STATEMENT: acknowledgements of queued commands complete in queue order: when the worker resolves an ack, every
   ack queued before it is already resolved *)
Lemma acks_complete_in_order : forall cfg evs orc a,
  let s := run_from cfg (init cfg) evs in
  let s' := step_state cfg s (EWorker orc) in
  worker s = Alive -> worker s' <> Dead ->
  alookup a (acks s) = Some Pending -> alookup a (acks s') <> Some Pending ->
  (exists c q, queue s = (c, a) :: q) \/ (exists a0 q, queue s = (CShutdown, a0) :: q /\ In a (map snd q)).
Proof.
  intros cfg evs orc a s s' Hw Hnd Hp Hnp. subst s'. unfold step_state in *. cbn [step] in *.
  destruct (worker_step cfg orc s) as [s' ret] eqn:E. cbn [fst] in *.
  apply worker_step_cases in E as (_ & _ & _ & _ & _ & Hc).
  destruct Hc as [->|[(c & a0 & q & _ & Hq & _ & _ & Hc)|(a0 & q & _ & Hq & _ & _ & Hac)]].
  - congruence.
  - destruct Hc as [(_ & x0 & _ & Hac)|(Hd & _)]; [|congruence].
    left. exists c, q. rewrite Hq. destruct (Z.eq_dec a a0) as [->|Hne]; [reflexivity|].
    exfalso. apply Hnp. rewrite Hac, alookup_aset_neq by exact Hne. exact Hp.
  - right. exists a0, q. split; [exact Hq|]. rewrite Hac in Hnp.
    destruct (zmem a (map snd q)) eqn:Em; [apply zmem_In; exact Em|congruence].
Qed.

(* STATEMENT: once the worker has executed Shutdown no acknowledgement is left pending, and none ever will be *)
Lemma draining_no_pending : forall cfg evs a,
  worker (run_from cfg (init cfg) evs) = Draining ->
  alookup a (acks (run_from cfg (init cfg) evs)) <> Some Pending.
Proof.
  intros cfg evs a Hw Hl. destruct (ack_inv_run cfg evs) as [A1 A2 A3 A4 A5].
  pose proof (A1 _ _ Hl) as Har.
  assert (Hd : worker (run_from cfg (init cfg) evs) <> Dead) by (rewrite Hw; discriminate).
  apply (A4 Hd a) in Hl; [|lia]. rewrite (A5 Hw) in Hl. exact Hl.
Qed.

(** * C13 *)
Definition is_write_request (r : request) : Prop :=
  match r with
  | RPut _ _ | RPutW _ _ _ | RPutTTL _ _ _ | RPutWTTL _ _ _ _ | RUpsert _ _ _ _ _ | RDelete _ => True
  | _ => False
  end.
Definition is_read_request (r : request) : Prop :=
  match r with
  | RGet _ | RGetRef _ | RMapGet _ | RMapGetRef _ | RMultiGet _ | RMultiIter _ | RMultiMapIter _ => True
  | _ => False
  end.

(* STATEMENT: the shutdown flag is never reset *)
Lemma shut_stable : forall cfg s ev, shut s = true -> shut (step_state cfg s ev) = true.
Proof.
  intros cfg s ev Hs. unfold step_state.
  destruct (step cfg s ev) as [s' ret] eqn:E. cbn [fst].
  destruct ev as [tid r idxs|tid|orc| |bl|dt|a]; cbn [step] in E.
  - apply call_cshape in E as [(F & _)|[(_ & Hf & _)|(_ & Hf & _)]]; try congruence.
    destruct F as (_ & _ & _ & _ & _ & F6). congruence.
  - apply resume_shape in E as [->|[(c & _ & ->)|[(_ & ->)|(_ & ->)]]].
    + exact Hs.
    + pose proof (do_send_fields cfg tid c (unpark tid s)) as (_ & H & _). cbv zeta in H. rewrite H. exact Hs.
    + pose proof (shutdown_cmd_fields cfg tid (unpark tid s)) as (_ & _ & _ & H & _). cbv zeta in H. rewrite H. exact Hs.
    + pose proof (shutdown_chan_fields tid (unpark tid s)) as (_ & _ & _ & _ & H & _). cbv zeta in H. rewrite H. exact Hs.
  - apply worker_step_cases in E as (_ & _ & H & _). congruence.
  - apply sweep_frame in E as ((_ & _ & _ & _ & _ & H & _) & _). congruence.
  - apply drain_frame in E as ((_ & _ & _ & _ & _ & H) & _). congruence.
  - injection E as <- <-. exact Hs.
  - injection E as <- <-. exact Hs.
Qed.

(* STATEMENT: once the flag is set every write call returns an error and every read returns absent / empty, and
   neither changes anything (weight calculation of the harness's functions is positive, so put() reaches the check) *)
Lemma after_shutdown_refused : forall cfg tid r idxs s, shut s = true -> amem tid (blocked s) = false ->
  (is_write_request r -> valid_request r -> step cfg s (ECall tid r idxs) = (s, [2])) /\
  (is_read_request r -> step cfg s (ECall tid r idxs) = (s, [5])) /\
  (r = RShutdown -> step cfg s (ECall tid r idxs) = (s, [5])).
Proof.
  intros cfg tid r idxs s Hs Hb. cbn [step]. unfold call. rewrite Hb.
  destruct r as [k v|k v w|k v ttl|k v w ttl|k v w ttl rm|k|k|k|k|k|ks|ks|ks| | |];
    cbn [is_write_request is_read_request]; cbv beta iota zeta; rewrite ?Hs;
    (split; [|split]); try (intros; reflexivity); try (intros Hf; contradiction); try (intros Hf; discriminate Hf).
  intros _ _. pose proof (weight_calc_pos (c_wcalc cfg) k v false) as Hp.
  destruct (weight_calc (c_wcalc cfg) k v false <=? 0) eqn:E; [lia|]. reflexivity.
Qed.

Lemma shutdown_chan_ret : forall tid s, snd (shutdown_chan tid s) <> [6].
Proof.
  intros tid s. unfold shutdown_chan.
  destruct (consumer s); [destruct (_ <? chan_capacity)|..]; cbn [snd]; discriminate.
Qed.

Lemma resume_shutdown_cmd_ok : forall cfg s tid,
  alookup tid (blocked s) = Some KShutdownCmd ->
  Z.of_nat (length (queue s)) < c_queue cfg \/ worker s <> Alive ->
  snd (resume cfg tid s) <> [6].
Proof.
  intros cfg s tid Hl Hr. unfold resume. rewrite Hl. cbv zeta. sred. unfold shutdown_cmd. sred.
  destruct (worker s) eqn:Hw.
  - destruct (Z.of_nat (length (queue s)) <? c_queue cfg) eqn:E.
    + apply shutdown_chan_ret.
    + destruct Hr as [Hr|Hr]; [lia|congruence].
  - apply shutdown_chan_ret.
  - apply shutdown_chan_ret.
  - apply shutdown_chan_ret.
Qed.

(** [shutdown_unblocks] as stated is false for an arbitrary state [s]: nothing in its premises bounds the queue,
    and in a state whose queue holds more than [c_queue] commands one worker step does not make room.
    Counterexample (c_queue = 1, three commands queued, thread 5 parked in shutdown()): *)
Definition cex_cfg : config :=
  {| c_max := 100; c_counters := 16; c_shards := 4; c_queue := 1; c_pool := 1; c_buffer := 4; c_hash := 0;
     c_wcalc := 0; c_seeds := [1; 2; 3; 4]; c_t0 := 0; c_debug := true |}.
Definition cex_orc : worker_oracle := {| o_orders := []; o_pops := []; o_bloom := [] |}.
Definition cex_unblocks_state : state :=
  set_blocked (set_queue (init cex_cfg) [(CDelete 0, 0); (CDelete 1, 1); (CDelete 2, 2)]) [(5, KShutdownCmd)].

Lemma shutdown_unblocks_counterexample :
  let s := cex_unblocks_state in
  let s' := step_state cex_cfg s (EWorker cex_orc) in
  0 < c_queue cex_cfg /\ alookup 5 (blocked s) = Some KShutdownCmd /\ worker s = Alive /\
  c_queue cex_cfg <= Z.of_nat (length (queue s)) /\
  queue s' <> queue s /\ snd (step cex_cfg s' (ERun 5)) = [6].
Proof.
  cbv zeta. split; [reflexivity|]. split; [reflexivity|]. split; [reflexivity|].
  split; [vm_compute; discriminate|]. split; [vm_compute; discriminate|vm_compute; reflexivity].
Qed.

(* STATEMENT (original, false for unreachable states with an over-full queue; see the counterexample above)
Lemma shutdown_unblocks : forall cfg s tid,
  0 < c_queue cfg -> alookup tid (blocked s) = Some KShutdownCmd ->
  ((Z.of_nat (length (queue s)) < c_queue cfg \/ worker s <> Alive) -> snd (step cfg s (ERun tid)) <> [6]) /\
  (worker s = Alive -> c_queue cfg <= Z.of_nat (length (queue s)) ->
     queue s <> [] /\
     forall orc, let s' := step_state cfg s (EWorker orc) in
       queue s' <> queue s -> snd (step cfg s' (ERun tid)) <> [6]).
*)

(** the statement with the extra premise that the queue is within its capacity (true of every reachable state,
    [queue_bounded]) *)
Lemma shutdown_unblocks_partial : forall cfg s tid,
  0 < c_queue cfg -> alookup tid (blocked s) = Some KShutdownCmd ->
  Z.of_nat (length (queue s)) <= c_queue cfg ->
  ((Z.of_nat (length (queue s)) < c_queue cfg \/ worker s <> Alive) -> snd (step cfg s (ERun tid)) <> [6]) /\
  (worker s = Alive -> c_queue cfg <= Z.of_nat (length (queue s)) ->
     queue s <> [] /\
     forall orc, let s' := step_state cfg s (EWorker orc) in
       queue s' <> queue s -> snd (step cfg s' (ERun tid)) <> [6]).
Proof.
  intros cfg s tid Hc Hl Hbd. split.
  - intros Hr. cbn [step]. apply resume_shutdown_cmd_ok; assumption.
  - intros Hw Hfull. split.
    + intros Hq. rewrite Hq in Hfull. cbn [length] in Hfull. lia.
    + intros orc s' Hne. subst s'. unfold step_state in *. cbn [step] in *.
      destruct (worker_step cfg orc s) as [s' ret] eqn:E. cbn [fst] in *.
      apply worker_step_cases in E as (_ & Hb & _ & _ & _ & Hcs).
      apply resume_shutdown_cmd_ok; [rewrite Hb; exact Hl|].
      destruct Hcs as [->|[(c & a & q & _ & Hq & _ & Hq' & _)|(a & q & _ & _ & _ & Hw' & _)]].
      * congruence.
      * left. rewrite Hq', Hq in *. cbn [length] in Hbd. lia.
      * right. congruence.
Qed.

(** in particular it holds, as originally stated, in every reachable state *)
(* STATEMENT *)
Lemma shutdown_unblocks_reachable : forall cfg evs tid,
  let s := run_from cfg (init cfg) evs in
  0 < c_queue cfg -> alookup tid (blocked s) = Some KShutdownCmd ->
  ((Z.of_nat (length (queue s)) < c_queue cfg \/ worker s <> Alive) -> snd (step cfg s (ERun tid)) <> [6]) /\
  (worker s = Alive -> c_queue cfg <= Z.of_nat (length (queue s)) ->
     queue s <> [] /\
     forall orc, let s' := step_state cfg s (EWorker orc) in
       queue s' <> queue s -> snd (step cfg s' (ERun tid)) <> [6]).
Proof.
  intros cfg evs tid s Hc Hl. apply shutdown_unblocks_partial; [exact Hc|exact Hl|].
  apply queue_bounded; exact Hc.
Qed.

Lemma resume_shutdown_chan_ok : forall cfg s tid,
  alookup tid (blocked s) = Some KShutdownChan ->
  Z.of_nat (length (chan s)) < chan_capacity \/ consumer s <> Alive ->
  snd (resume cfg tid s) <> [6].
Proof.
  intros cfg s tid Hl Hr. unfold resume. rewrite Hl. cbv zeta. sred.
  destruct (consumer s) eqn:Hw.
  - destruct (Z.of_nat (length (chan s)) <? chan_capacity) eqn:E.
    + apply shutdown_chan_ret.
    + destruct Hr as [Hr|Hr]; [lia|congruence].
  - apply shutdown_chan_ret.
  - apply shutdown_chan_ret.
  - apply shutdown_chan_ret.
Qed.

Lemma drain_chan : forall cfg bl s s' ret, drain cfg bl s = (s', ret) ->
  blocked s' = blocked s /\
  (chan s' = chan s \/ (exists x, chan s = x :: chan s') \/ consumer s' <> Alive).
Proof.
  intros cfg bl s s' ret H. pose proof (drain_frame _ _ _ _ _ H) as ((_ & _ & _ & _ & Hb & _) & _).
  split; [exact Hb|]. unfold drain in H.
  destruct (consumer s); try (injection H as <- <-; left; reflexivity).
  destruct (chan s) as [|[hs|] rest] eqn:Hch; [injection H as <- <-; left; exact Hch| |].
  - destruct (apply_batch (lfu s) hs bl) as [[l'| |] [|b bl']]; cbv zeta in H; sred;
      try (injection H as <- <-; left; exact Hch).
    + destruct (consumer_run s); injection H as <- <-; sred.
      * right; left. eexists; reflexivity.
      * right; right. discriminate.
    + injection H as <- <-; sred. right; right. discriminate.
    + injection H as <- <-; sred. right; right. discriminate.
  - injection H as <- <-; sred. right; right. discriminate.
Qed.

(** [shutdown_unblocks_chan] as stated is likewise false for a state whose buffer channel holds more than
    [chan_capacity] items.  Counterexample (twelve batches in the channel, thread 5 parked): *)
Definition cex_chan_state : state :=
  set_blocked (set_chan (init cex_cfg) (repeat (Batch []) 12)) [(5, KShutdownChan)].

Lemma shutdown_unblocks_chan_counterexample :
  let s := cex_chan_state in
  let s' := step_state cex_cfg s (EDrain []) in
  alookup 5 (blocked s) = Some KShutdownChan /\ consumer s = Alive /\
  chan_capacity <= Z.of_nat (length (chan s)) /\
  chan s' <> chan s /\ snd (step cex_cfg s' (ERun 5)) = [6].
Proof.
  cbv zeta. split; [reflexivity|]. split; [reflexivity|].
  split; [vm_compute; discriminate|]. split; [vm_compute; discriminate|vm_compute; reflexivity].
Qed.

(* STATEMENT (original, false for unreachable states with an over-full channel; see the counterexample above)
Lemma shutdown_unblocks_chan : forall cfg s tid,
  alookup tid (blocked s) = Some KShutdownChan ->
  ((Z.of_nat (length (chan s)) < chan_capacity \/ consumer s <> Alive) -> snd (step cfg s (ERun tid)) <> [6]) /\
  (consumer s = Alive -> chan_capacity <= Z.of_nat (length (chan s)) ->
     chan s <> [] /\
     forall bl, let s' := step_state cfg s (EDrain bl) in
       chan s' <> chan s -> snd (step cfg s' (ERun tid)) <> [6]).
*)

(** the statement with the extra premise that the channel is within its capacity (true of every reachable state,
    [chan_bounded] below) *)
Lemma shutdown_unblocks_chan_partial : forall cfg s tid,
  alookup tid (blocked s) = Some KShutdownChan ->
  Z.of_nat (length (chan s)) <= chan_capacity ->
  ((Z.of_nat (length (chan s)) < chan_capacity \/ consumer s <> Alive) -> snd (step cfg s (ERun tid)) <> [6]) /\
  (consumer s = Alive -> chan_capacity <= Z.of_nat (length (chan s)) ->
     chan s <> [] /\
     forall bl, let s' := step_state cfg s (EDrain bl) in
       chan s' <> chan s -> snd (step cfg s' (ERun tid)) <> [6]).
Proof.
  intros cfg s tid Hl Hbd. split.
  - intros Hr. cbn [step]. apply resume_shutdown_chan_ok; assumption.
  - intros Hw Hfull. split.
    + intros Hq. rewrite Hq in Hfull. cbn [length] in Hfull. unfold chan_capacity in Hfull. lia.
    + intros bl s' Hne. subst s'. unfold step_state in *. cbn [step] in *.
      destruct (drain cfg bl s) as [s' ret] eqn:E. cbn [fst] in *.
      apply drain_chan in E as (Hb & Hcs).
      apply resume_shutdown_chan_ok; [rewrite Hb; exact Hl|].
      destruct Hcs as [Hcs|[(x & Hcs)|Hcs]].
      * congruence.
      * left. rewrite Hcs in Hbd. cbn [length] in Hbd. lia.
      * right. exact Hcs.
Qed.

Lemma chb_step : forall cfg s ev, chb s -> chb (step_state cfg s ev).
Proof.
  intros cfg s ev Hc. unfold step_state.
  destruct (step cfg s ev) as [s' ret] eqn:E. cbn [fst].
  destruct ev as [tid r idxs|tid|orc| |bl|dt|a]; cbn [step] in E.
  - apply call_cshape in E as [(_ & _ & H & _)|[(_ & _ & c & s1 & _ & Hch & _ & _ & _ & _ & ->)|(_ & _ & ->)]].
    + exact (H Hc).
    + pose proof (do_send_fields cfg tid c s1) as (_ & _ & H & _). cbv zeta in H. unfold chb in *. rewrite H, Hch.
      exact Hc.
    + pose proof (shutdown_cmd_fields cfg tid (set_shut s true)) as (_ & _ & _ & _ & _ & H & _). cbv zeta in H.
      apply H. unfold chb in *; sred. exact Hc.
  - assert (Hu : chb (unpark tid s)) by (unfold chb, unpark in *; sred; exact Hc).
    apply resume_shape in E as [->|[(c & _ & ->)|[(_ & ->)|(_ & ->)]]].
    + exact Hc.
    + pose proof (do_send_fields cfg tid c (unpark tid s)) as (_ & _ & H & _). cbv zeta in H. unfold chb in *.
      rewrite H. exact Hu.
    + pose proof (shutdown_cmd_fields cfg tid (unpark tid s)) as (_ & _ & _ & _ & _ & H & _). exact (H Hu).
    + pose proof (shutdown_chan_fields tid (unpark tid s)) as (_ & _ & _ & _ & _ & _ & H & _). exact (H Hu).
  - apply worker_step_cases in E as (_ & _ & _ & H & _). unfold chb in *. rewrite H. exact Hc.
  - apply sweep_frame in E as ((_ & _ & _ & _ & _ & _ & H & _) & _). unfold chb in *. rewrite H. exact Hc.
  - apply drain_frame in E as (_ & _ & H). exact (H Hc).
  - injection E as <- <-. exact Hc.
  - injection E as <- <-. exact Hc.
Qed.

(** the buffer channel never exceeds its capacity *)
(* STATEMENT *)
Lemma chan_bounded : forall cfg evs, Z.of_nat (length (chan (run_from cfg (init cfg) evs))) <= chan_capacity.
Proof.
  intros cfg evs. change (chb (run_from cfg (init cfg) evs)).
  induction evs as [|ev evs IH] using rev_ind.
  - unfold chb. cbn [run_from fold_left init chan length]. unfold chan_capacity. lia.
  - rewrite run_from_app. apply chb_step. exact IH.
Qed.

(** in particular the statement holds, as originally stated, in every reachable state *)
(* STATEMENT *)
Lemma shutdown_unblocks_chan_reachable : forall cfg evs tid,
  let s := run_from cfg (init cfg) evs in
  alookup tid (blocked s) = Some KShutdownChan ->
  ((Z.of_nat (length (chan s)) < chan_capacity \/ consumer s <> Alive) -> snd (step cfg s (ERun tid)) <> [6]) /\
  (consumer s = Alive -> chan_capacity <= Z.of_nat (length (chan s)) ->
     chan s <> [] /\
     forall bl, let s' := step_state cfg s (EDrain bl) in
       chan s' <> chan s -> snd (step cfg s' (ERun tid)) <> [6]).
Proof.
  intros cfg evs tid s Hl. apply shutdown_unblocks_chan_partial; [exact Hl|apply chan_bounded].
Qed.

Definition shutdown_done (s0 s' : state) : Prop :=
  shut s' = shut s0 /\ store s' = [] /\ weights s' = [] /\ used s' = 0 /\ ticker s' = [] /\
  consumer_run s' = false /\ sweeper_run s' = false.

Lemma shutdown_chan_done : forall tid s s', shutdown_chan tid s = (s', [5]) -> shutdown_done s s'.
Proof.
  intros tid s s' H. unfold shutdown_chan in H.
  destruct (consumer s); [destruct (_ <? chan_capacity)|..]; try discriminate;
    injection H as <-; unfold shutdown_done, shutdown_finish; sred; repeat split.
Qed.

Lemma shutdown_cmd_done : forall cfg tid s s', shutdown_cmd cfg tid s = (s', [5]) -> shutdown_done s s'.
Proof.
  intros cfg tid s s' H. unfold shutdown_cmd in H.
  destruct (worker s); [destruct (_ <? c_queue cfg)|..]; try discriminate;
    apply shutdown_chan_done in H; unfold shutdown_done in *; sred; exact H.
Qed.

(* STATEMENT: a completed shutdown() leaves the flag set, the stop flags cleared and the store, ledger and expiry
   index empty *)
Lemma shutdown_completed_effect : forall cfg tid idxs s s' ret,
  amem tid (blocked s) = false -> shut s = false ->
  step cfg s (ECall tid RShutdown idxs) = (s', ret) -> ret = [5] ->
  shut s' = true /\ store s' = [] /\ weights s' = [] /\ used s' = 0 /\ ticker s' = [] /\
  consumer_run s' = false /\ sweeper_run s' = false.
Proof.
  intros cfg tid idxs s s' ret Hb Hs H Hr. subst ret. cbn [step] in H. unfold call in H. rewrite Hb, Hs in H.
  apply shutdown_cmd_done in H. unfold shutdown_done in H. sred. exact H.
Qed.

(* STATEMENT: a second shutdown() returns at once *)
Lemma second_shutdown_returns : forall cfg tid idxs s, shut s = true -> amem tid (blocked s) = false ->
  step cfg s (ECall tid RShutdown idxs) = (s, [5]).
Proof.
  intros cfg tid idxs s Hs Hb. cbn [step]. unfold call. rewrite Hb, Hs. reflexivity.
Qed.
