(** C01 at the granularity of the individual ledger actions: for every interleaving of the worker's check / insert / add
    and evictions with the sweeper's evictions, the total stays within [0, max] at every instant. *)
From CacheD Require Import Base Ledger.
From Coq Require Import ZifyBool.

(** * Association-list facts *)

Lemma alookup_none_notin : forall (l : list (Z * Z)) k, alookup k l = None -> ~ In k (map fst l).
Proof.
  induction l as [|[k' v'] t IH]; intros k Hl; cbn [alookup map fst In] in *.
  - tauto.
  - destruct (k =? k') eqn:Ek; [discriminate|].
    intros [Heq|Hin]; [lia|]. exact (IH k Hl Hin).
Qed.

Lemma notin_alookup_none : forall (l : list (Z * Z)) k, ~ In k (map fst l) -> alookup k l = None.
Proof.
  induction l as [|[k' v'] t IH]; intros k Hn; cbn [alookup map fst In] in *.
  - reflexivity.
  - destruct (k =? k') eqn:Ek.
    + exfalso. apply Hn. left. lia.
    + apply IH. tauto.
Qed.

Lemma alookup_some_in : forall (l : list (Z * Z)) k v, alookup k l = Some v -> In (k, v) l.
Proof.
  induction l as [|[k' v'] t IH]; intros k v Hl; cbn [alookup In] in *.
  - discriminate.
  - destruct (k =? k') eqn:Ek.
    + left. injection Hl as Hv. f_equal; lia.
    + right. apply IH. exact Hl.
Qed.

Lemma aremove_none_id : forall (l : list (Z * Z)) k, alookup k l = None -> aremove k l = l.
Proof.
  induction l as [|[k' v'] t IH]; intros k Hl; cbn [alookup aremove] in *.
  - reflexivity.
  - destruct (k =? k') eqn:Ek; [discriminate|]. f_equal. apply IH. exact Hl.
Qed.

Lemma aremove_keys_incl : forall (l : list (Z * Z)) k x, In x (map fst (aremove k l)) -> In x (map fst l).
Proof.
  induction l as [|[k' v'] t IH]; intros k x Hin; cbn [aremove map fst In] in *.
  - exact Hin.
  - destruct (k =? k') eqn:Ek.
    + right. exact (IH k x Hin).
    + cbn [map fst In] in Hin. destruct Hin as [Heq|Hin]; [left; exact Heq|right; exact (IH k x Hin)].
Qed.

Lemma aremove_nodup : forall (l : list (Z * Z)) k, NoDup (map fst l) -> NoDup (map fst (aremove k l)).
Proof.
  induction l as [|[k' v'] t IH]; intros k Hnd; cbn [aremove map fst] in *.
  - exact Hnd.
  - inversion Hnd as [|x xs Hnotin Hnd']; subst.
    destruct (k =? k') eqn:Ek.
    + apply IH. exact Hnd'.
    + cbn [map fst]. constructor.
      * intro Hin. apply Hnotin. exact (aremove_keys_incl _ _ _ Hin).
      * apply IH. exact Hnd'.
Qed.

Lemma aremove_forall : forall (P : Z * Z -> Prop) (l : list (Z * Z)) k, Forall P l -> Forall P (aremove k l).
Proof.
  induction l as [|[k' v'] t IH]; intros k HF; cbn [aremove] in *.
  - exact HF.
  - inversion HF as [|x xs Hx HF']; subst.
    destruct (k =? k') eqn:Ek.
    + apply IH. exact HF'.
    + constructor; [exact Hx|apply IH; exact HF'].
Qed.

Lemma alookup_aremove_none : forall (l : list (Z * Z)) k k', alookup k l = None -> alookup k (aremove k' l) = None.
Proof.
  intros l k k' Hl. apply notin_alookup_none. intro Hin.
  apply (alookup_none_notin _ _ Hl). exact (aremove_keys_incl _ _ _ Hin).
Qed.

Lemma alookup_aremove_other : forall (l : list (Z * Z)) k k', k <> k' -> alookup k (aremove k' l) = alookup k l.
Proof.
  induction l as [|[k0 v0] t IH]; intros k k' Hne; cbn [alookup aremove] in *.
  - reflexivity.
  - destruct (k' =? k0) eqn:Ek'.
    + destruct (k =? k0) eqn:Ek; [lia|]. apply IH. exact Hne.
    + cbn [alookup]. destruct (k =? k0) eqn:Ek; [reflexivity|]. apply IH. exact Hne.
Qed.

Lemma charges_sum_cons : forall k v (l : list (Z * Z)), charges_sum ((k, v) :: l) = v + charges_sum l.
Proof. intros. reflexivity. Qed.

Lemma charges_sum_nil : charges_sum [] = 0.
Proof. reflexivity. Qed.

Lemma charges_sum_aremove : forall (l : list (Z * Z)) k v,
  NoDup (map fst l) -> alookup k l = Some v -> charges_sum (aremove k l) = charges_sum l - v.
Proof.
  induction l as [|[k' v'] t IH]; intros k v Hnd Hl; cbn [alookup aremove map fst] in *.
  - discriminate.
  - inversion Hnd as [|x xs Hnotin Hnd']; subst.
    destruct (k =? k') eqn:Ek.
    + injection Hl as Hv. subst v'.
      assert (Hk : k = k') by lia. subst k'.
      rewrite (aremove_none_id t k (notin_alookup_none t k Hnotin)).
      rewrite charges_sum_cons. lia.
    + rewrite !charges_sum_cons. rewrite (IH k v Hnd' Hl). lia.
Qed.

Lemma charges_sum_nonneg : forall (l : list (Z * Z)), Forall (fun p => 0 < snd p) l -> 0 <= charges_sum l.
Proof.
  induction l as [|[k' v'] t IH]; intros HF.
  - rewrite charges_sum_nil. lia.
  - inversion HF as [|x xs Hx HF']; subst. cbn [snd] in Hx.
    rewrite charges_sum_cons. specialize (IH HF'). lia.
Qed.

Lemma lookup_pos : forall (l : list (Z * Z)) k v,
  Forall (fun p => 0 < snd p) l -> alookup k l = Some v -> 0 < v.
Proof.
  intros l k v HF Hl. apply alookup_some_in in Hl.
  rewrite Forall_forall in HF. exact (HF _ Hl).
Qed.

Lemma charges_sum_ge_bound : forall (l : list (Z * Z)) k v,
  NoDup (map fst l) -> Forall (fun p => 0 < snd p) l -> alookup k l = Some v -> v <= charges_sum l.
Proof.
  intros l k v Hnd HF Hl.
  pose proof (charges_sum_aremove l k v Hnd Hl) as Hs.
  pose proof (charges_sum_nonneg _ (aremove_forall _ l k HF)) as Hn.
  lia.
Qed.

(** * The invariant *)

Definition padd (pc : wpc) : Z := match pc with WInserted _ w => w | _ => 0 end.
Definition pev (pc : wpc) : Z := match pc with WEvicting _ _ _ vw => vw | _ => 0 end.
Definition psp (o : option Z) : Z := match o with Some vw => vw | None => 0 end.

Definition wput_ok (wput : option (Z * Z)) (ch : list (Z * Z)) : Prop :=
  match wput with
  | Some (id, w) => 0 < w /\ alookup id ch = None
  | None => True
  end.

Definition pc_ok (pc : wpc) (wput : option (Z * Z)) (ch : list (Z * Z)) (used max : Z) : Prop :=
  match pc with
  | WIdle => wput_ok wput ch
  | WChecked id w => 0 < w /\ alookup id ch = None /\ used + w <= max
  | WInserted id w => 0 < w /\ alookup id ch = Some w /\ used + w <= max
  | WEvicting _ _ _ vw => 0 < vw /\ wput_ok wput ch
  end.

Definition Inv (s : gstate) : Prop :=
  NoDup (map fst (g_charges s)) /\
  Forall (fun p => 0 < snd p) (g_charges s) /\
  g_used s = charges_sum (g_charges s) - padd (g_wpc s) + pev (g_wpc s) + psp (g_spending s) /\
  (forall vw, g_spending s = Some vw -> 0 < vw) /\
  g_used s <= g_max s /\
  pc_ok (g_wpc s) (g_wput s) (g_charges s) (g_used s) (g_max s).

Lemma wput_ok_remove : forall wput ch vid, wput_ok wput ch -> wput_ok wput (aremove vid ch).
Proof.
  intros [[id w]|] ch vid H; cbn [wput_ok] in *; [|exact I].
  destruct H as [Hw Hl]. split; [exact Hw|]. apply alookup_aremove_none. exact Hl.
Qed.

Lemma pc_ok_remove : forall pc wput ch used max vid,
  (forall id w, pc = WInserted id w -> id <> vid) ->
  pc_ok pc wput ch used max -> pc_ok pc wput (aremove vid ch) used max.
Proof.
  intros pc wput ch used max vid Hne H.
  destruct pc as [|id w|id w|id w vid' vw]; cbn [pc_ok] in *.
  - apply wput_ok_remove. exact H.
  - destruct H as (Hw & Hl & Hb). repeat split; try assumption. apply alookup_aremove_none. exact Hl.
  - destruct H as (Hw & Hl & Hb). repeat split; try assumption.
    rewrite alookup_aremove_other; [exact Hl|]. exact (Hne id w eq_refl).
  - destruct H as (Hvw & Hok). split; [exact Hvw|]. apply wput_ok_remove. exact Hok.
Qed.

Lemma pc_ok_lower : forall pc wput ch used used' max,
  used' <= used -> pc_ok pc wput ch used max -> pc_ok pc wput ch used' max.
Proof.
  intros pc wput ch used used' max Hle H.
  destruct pc as [|id w|id w|id w vid' vw]; cbn [pc_ok] in *.
  - exact H.
  - destruct H as (Hw & Hl & Hb). repeat split; try assumption. lia.
  - destruct H as (Hw & Hl & Hb). repeat split; try assumption. lia.
  - exact H.
Qed.

Lemma Inv_init : forall max, 0 < max -> Inv (ginit max).
Proof.
  intros max Hmax. unfold Inv, ginit.
  cbn [g_max g_used g_charges g_wpc g_wput g_spending map padd pev psp pc_ok wput_ok].
  rewrite charges_sum_nil.
  split; [constructor|]. split; [constructor|]. split; [lia|].
  split; [intros vw Hvw; discriminate|]. split; [lia|exact I].
Qed.

Lemma gstep_max : forall s a, g_max (gstep s a) = g_max s.
Proof.
  intros s a. unfold gstep.
  destruct a as [id w| | | |vid| | |vid|]; destruct (g_wpc s) as [|id' w'|id' w'|id' w' vid' vw'] eqn:Epc;
    try reflexivity;
    repeat match goal with
    | |- context [match ?x with _ => _ end] => destruct x eqn:?; try reflexivity
    end.
Qed.

(** the sweeper's removal, common to the four worker positions *)
Lemma Inv_sweep_remove : forall s vid vw,
  Inv s -> g_spending s = None -> alookup vid (g_charges s) = Some vw ->
  (forall id w, g_wpc s = WInserted id w -> id <> vid) ->
  Inv (set_g s (g_used s) (aremove vid (g_charges s)) (g_wpc s) (g_wput s) (Some vw)).
Proof.
  intros s vid vw H Hsp Hl Hne.
  destruct H as (Hnd & Hpos & Hacc & Hspos & Hub & Hpc).
  unfold Inv, set_g. cbn [g_max g_used g_charges g_wpc g_wput g_spending].
  rewrite Hsp in Hacc. cbn [psp] in *.
  split; [apply aremove_nodup; exact Hnd|].
  split; [apply aremove_forall; exact Hpos|].
  split; [rewrite (charges_sum_aremove _ _ _ Hnd Hl); lia|].
  split; [intros vw' Hvw'; injection Hvw' as Hvw'; subst vw'; exact (lookup_pos _ _ _ Hpos Hl)|].
  split; [exact Hub|].
  apply pc_ok_remove; assumption.
Qed.

Lemma Inv_step : forall s a, Inv s -> Inv (gstep s a).
Proof.
  intros s a H. unfold gstep.
  destruct a as [id w| | | |vid| | |vid|].
  - (* AStart *)
    destruct (g_wpc s) as [|id' w'|id' w'|id' w' vid' vw'] eqn:Epc; try exact H.
    destruct ((0 <? w) && negb (amem id (g_charges s)) && (w <=? g_max s)) eqn:Ec; [|exact H].
    destruct H as (Hnd & Hpos & Hacc & Hspos & Hub & Hpc).
    rewrite Epc in Hacc, Hpc.
    unfold Inv, set_g. cbn [g_max g_used g_charges g_wpc g_wput g_spending].
    cbn [padd pev pc_ok wput_ok] in *.
    repeat (split; [assumption|]).
    apply andb_prop in Ec. destruct Ec as [Ec Ec3].
    apply andb_prop in Ec. destruct Ec as [Ec1 Ec2].
    split; [lia|].
    unfold amem in Ec2. destruct (alookup id (g_charges s)) eqn:El; [discriminate|reflexivity].
  - (* ACheck *)
    destruct (g_wpc s) as [|id' w'|id' w'|id' w' vid' vw'] eqn:Epc; try exact H.
    destruct (g_wput s) as [[id w]|] eqn:Ewp; [|exact H].
    destruct (w <=? g_max s - g_used s) eqn:Ec; [|exact H].
    destruct H as (Hnd & Hpos & Hacc & Hspos & Hub & Hpc).
    rewrite Epc in Hacc, Hpc. rewrite Ewp in Hpc.
    unfold Inv, set_g. cbn [g_max g_used g_charges g_wpc g_wput g_spending].
    cbn [padd pev pc_ok wput_ok] in *.
    repeat (split; [assumption|]).
    destruct Hpc as [Hw Hl]. repeat split; try assumption. lia.
  - (* AInsert *)
    destruct (g_wpc s) as [|id w|id' w'|id' w' vid' vw'] eqn:Epc; try exact H.
    destruct H as (Hnd & Hpos & Hacc & Hspos & Hub & Hpc).
    rewrite Epc in Hacc, Hpc.
    unfold Inv, set_g. cbn [g_max g_used g_charges g_wpc g_wput g_spending].
    cbn [padd pev pc_ok wput_ok] in *.
    destruct Hpc as (Hw & Hl & Hb).
    unfold aset. rewrite (aremove_none_id _ _ Hl).
    split; [cbn [map fst]; constructor; [exact (alookup_none_notin _ _ Hl)|exact Hnd]|].
    split; [constructor; [cbn [snd]; exact Hw|exact Hpos]|].
    split; [rewrite charges_sum_cons; lia|].
    split; [exact Hspos|].
    split; [exact Hub|].
    repeat split; try assumption.
    cbn [alookup]. rewrite Z.eqb_refl. reflexivity.
  - (* AAdd *)
    destruct (g_wpc s) as [|id' w'|id w|id' w' vid' vw'] eqn:Epc; try exact H.
    destruct H as (Hnd & Hpos & Hacc & Hspos & Hub & Hpc).
    rewrite Epc in Hacc, Hpc.
    unfold Inv, set_g. cbn [g_max g_used g_charges g_wpc g_wput g_spending].
    cbn [padd pev pc_ok wput_ok] in *.
    destruct Hpc as (Hw & Hl & Hb).
    split; [exact Hnd|]. split; [exact Hpos|]. split; [lia|]. split; [exact Hspos|]. split; [lia|exact I].
  - (* AEvictRemove *)
    destruct (g_wpc s) as [|id' w'|id' w'|id' w' vid' vw'] eqn:Epc; try exact H.
    destruct (g_wput s) as [[id w]|] eqn:Ewp; [|exact H].
    destruct (alookup vid (g_charges s)) as [vw|] eqn:El; [|exact H].
    destruct (g_max s - g_used s <? w) eqn:Ec; [|exact H].
    destruct H as (Hnd & Hpos & Hacc & Hspos & Hub & Hpc).
    rewrite Epc in Hacc, Hpc. rewrite Ewp in Hpc.
    unfold Inv, set_g. cbn [g_max g_used g_charges g_wpc g_wput g_spending].
    cbn [padd pev pc_ok] in *.
    split; [apply aremove_nodup; exact Hnd|].
    split; [apply aremove_forall; exact Hpos|].
    split; [rewrite (charges_sum_aremove _ _ _ Hnd El); lia|].
    split; [exact Hspos|].
    split; [exact Hub|].
    split; [exact (lookup_pos _ _ _ Hpos El)|].
    apply wput_ok_remove. exact Hpc.
  - (* AEvictSub *)
    destruct (g_wpc s) as [|id' w'|id' w'|id w vid vw] eqn:Epc; try exact H.
    destruct H as (Hnd & Hpos & Hacc & Hspos & Hub & Hpc).
    rewrite Epc in Hacc, Hpc.
    unfold Inv, set_g. cbn [g_max g_used g_charges g_wpc g_wput g_spending].
    cbn [padd pev pc_ok] in *.
    destruct Hpc as (Hvw & Hok).
    split; [exact Hnd|]. split; [exact Hpos|]. split; [lia|]. split; [exact Hspos|]. split; [lia|exact Hok].
  - (* AGiveUp *)
    destruct (g_wpc s) as [|id' w'|id' w'|id' w' vid' vw'] eqn:Epc; try exact H.
    destruct H as (Hnd & Hpos & Hacc & Hspos & Hub & Hpc).
    rewrite Epc in Hacc, Hpc.
    unfold Inv, set_g. cbn [g_max g_used g_charges g_wpc g_wput g_spending].
    cbn [padd pev pc_ok wput_ok] in *.
    repeat (split; [assumption|]). exact I.
  - (* ASweepRemove *)
    assert (Hgen : forall vw, g_spending s = None -> alookup vid (g_charges s) = Some vw ->
                   (forall id w, g_wpc s = WInserted id w -> id <> vid) ->
                   Inv (set_g s (g_used s) (aremove vid (g_charges s)) (g_wpc s) (g_wput s) (Some vw))).
    { intros vw Hsp Hl Hne. apply Inv_sweep_remove; assumption. }
    destruct (g_spending s) as [sw|] eqn:Esp.
    { destruct (g_wpc s); exact H. }
    destruct (alookup vid (g_charges s)) as [vw|] eqn:El.
    2:{ destruct (g_wpc s); exact H. }
    specialize (Hgen vw eq_refl eq_refl).
    destruct (g_wpc s) as [|id' w'|id' w'|id' w' vid' vw'] eqn:Epc.
    + apply Hgen. intros id w Heq. discriminate.
    + apply Hgen. intros id w Heq. discriminate.
    + destruct (id' =? vid) eqn:Eid; [exact H|].
      apply Hgen. intros id w Heq. injection Heq as Hid Hw. subst. lia.
    + apply Hgen. intros id w Heq. discriminate.
  - (* ASweepSub *)
    assert (Hgen : forall vw, g_spending s = Some vw ->
                   Inv (set_g s (g_used s - vw) (g_charges s) (g_wpc s) (g_wput s) None)).
    { intros vw Hsp.
      destruct H as (Hnd & Hpos & Hacc & Hspos & Hub & Hpc).
      pose proof (Hspos vw Hsp) as Hvw.
      unfold Inv, set_g. cbn [g_max g_used g_charges g_wpc g_wput g_spending].
      rewrite Hsp in Hacc. cbn [psp] in *.
      split; [exact Hnd|]. split; [exact Hpos|]. split; [lia|].
      split; [intros vw' Hvw'; discriminate|]. split; [lia|].
      apply (pc_ok_lower _ _ _ (g_used s)); [lia|exact Hpc]. }
    destruct (g_spending s) as [sw|] eqn:Esp.
    + specialize (Hgen sw eq_refl). destruct (g_wpc s); exact Hgen.
    + destruct (g_wpc s); exact H.
Qed.

Lemma fold_gstep_inv : forall sched s, Inv s -> Inv (fold_left gstep sched s).
Proof.
  induction sched as [|a t IH]; intros s H; cbn [fold_left].
  - exact H.
  - apply IH. apply Inv_step. exact H.
Qed.

Lemma fold_gstep_max : forall sched s, g_max (fold_left gstep sched s) = g_max s.
Proof.
  induction sched as [|a t IH]; intros s; cbn [fold_left].
  - reflexivity.
  - rewrite IH. apply gstep_max.
Qed.

Lemma grun_inv : forall max sched, 0 < max -> Inv (grun max sched).
Proof. intros max sched Hmax. unfold grun. apply fold_gstep_inv. apply Inv_init. exact Hmax. Qed.

Lemma grun_max : forall max sched, g_max (grun max sched) = max.
Proof. intros max sched. unfold grun. rewrite fold_gstep_max. reflexivity. Qed.

Lemma Inv_nonneg : forall s, Inv s -> 0 <= g_used s.
Proof.
  intros s H. destruct H as (Hnd & Hpos & Hacc & Hspos & Hub & Hpc).
  pose proof (charges_sum_nonneg _ Hpos) as Hsum.
  assert (Hsp : 0 <= psp (g_spending s)).
  { destruct (g_spending s) as [vw|] eqn:Esp; cbn [psp]; [|lia]. specialize (Hspos vw eq_refl). lia. }
  destruct (g_wpc s) as [|id w|id w|id w vid vw] eqn:Epc; cbn [padd pev pc_ok] in *.
  - lia.
  - lia.
  - destruct Hpc as (Hw & Hl & Hb).
    pose proof (charges_sum_ge_bound _ _ _ Hnd Hpos Hl) as Hge. lia.
  - destruct Hpc as (Hvw & Hok). lia.
Qed.

(* STATEMENT: at every instant of every interleaving *)
Lemma ledger_bounded : forall max sched, 0 < max -> 0 <= g_used (grun max sched) <= max.
Proof.
  intros max sched Hmax.
  pose proof (grun_inv max sched Hmax) as H.
  pose proof (Inv_nonneg _ H) as Hlo.
  destruct H as (Hnd & Hpos & Hacc & Hspos & Hub & Hpc).
  rewrite grun_max in Hub. lia.
Qed.

(* STATEMENT: whenever no ledger operation is half-way, the total is exactly the sum of the charges *)
Lemma ledger_exact_when_quiet : forall max sched, 0 < max ->
  let s := grun max sched in
  g_wpc s = WIdle -> g_spending s = None -> g_used s = charges_sum (g_charges s).
Proof.
  intros max sched Hmax s Hpc Hsp. subst s.
  pose proof (grun_inv max sched Hmax) as H.
  destruct H as (Hnd & Hpos & Hacc & Hspos & Hub & Hpcok).
  rewrite Hpc, Hsp in Hacc. cbn [padd pev psp] in Hacc. lia.
Qed.

(* STATEMENT: every put the worker completes (AAdd) leaves the total at or below the limit, whatever the sweeper did
   between the space check and the add *)
Lemma ledger_add_within_limit : forall max sched id w, 0 < max ->
  g_wpc (grun max sched) = WInserted id w ->
  g_used (gstep (grun max sched) AAdd) <= max /\ g_used (gstep (grun max sched) AAdd) = g_used (grun max sched) + w.
Proof.
  intros max sched id w Hmax Hpc.
  pose proof (grun_inv max sched Hmax) as H.
  destruct H as (Hnd & Hpos & Hacc & Hspos & Hub & Hpcok).
  rewrite Hpc in Hpcok. cbn [pc_ok] in Hpcok. destruct Hpcok as (Hw & Hl & Hb).
  rewrite grun_max in Hb.
  unfold gstep. rewrite Hpc. unfold set_g. cbn [g_used]. lia.
Qed.

(* non-vacuity: the sweeper evicts between the worker's check and its add *)
Example ledger_example :
  let s := grun 10 [AStart 1 6; ACheck; AInsert; AAdd; AStart 2 4; ACheck; ASweepRemove 1; AInsert; ASweepSub; AAdd] in
  g_used s = 4 /\ g_charges s = [(2, 4)] /\ g_wpc s = WIdle.
Proof. vm_compute. repeat split. Qed.

(* and an eviction by the worker racing the sweeper on the same victim *)
Example ledger_example_race :
  let s := grun 10 [AStart 1 6; ACheck; AInsert; AAdd; AStart 2 7; AEvictRemove 1; ASweepRemove 1; AEvictSub; ACheck; AInsert; AAdd] in
  g_used s = 7 /\ g_charges s = [(2, 7)].
Proof. vm_compute. repeat split. Qed.

Print Assumptions ledger_bounded.
Print Assumptions ledger_exact_when_quiet.
Print Assumptions ledger_add_within_limit.
