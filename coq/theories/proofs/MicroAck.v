(** C13 / C12 at every state of every micro schedule: an acknowledgement is pending exactly while its command is queued
    or in flight inside the worker (in any of the worker's windows), ids are never reused, and once the worker has
    executed Shutdown nothing is pending - whatever is overtaken by whatever, with no condition on the events. *)
From CacheD Require Import Base Sketch Model Window Micro.
From CacheD.proofs Require Import Defs AListLemmas InvOps InvCalls InvWorker InvProofs ApiProofs HistoryProofs.
From Coq Require Import ZifyBool.

(** acknowledgement ids of the commands the worker has taken from the queue and not yet answered *)
Definition inflight (ms : mstate) : list Z :=
  match wdel ms with
  | Some (WDStore a _ _) | Some (WDWeight a _ _) | Some (WPCharged a _ _ _ _ _) => [a]
  | None => []
  end ++ match wpending (win ms) with Some p => [p_ack p] | None => [] end.

Definition cnt (P : list Z) (a : Z) : nat := count_occ Z.eq_dec P a.

Record AInv (s : state) (L : list Z) : Prop := {
  a_next : 0 <= next_ack s;
  a_acks : forall a x, alookup a (acks s) = Some x -> a = -1 \/ 0 <= a < next_ack s;
  a_pend : forall a, (cnt (map snd (queue s) ++ L) a > 0)%nat -> a = -1 \/ 0 <= a < next_ack s;
  a_nodup : forall a, a <> -1 -> (cnt (map snd (queue s) ++ L) a <= 1)%nat;
  a_iff : worker s <> Dead -> forall a, 0 <= a ->
          (alookup a (acks s) = Some Pending <-> (cnt (map snd (queue s) ++ L) a > 0)%nat);
  a_drain : worker s = Draining -> queue s = [] /\ L = [];
  a_shut : forall c a, In (c, a) (queue s) -> c = CShutdown -> a = -1;
  a_bok : forall tid c, alookup tid (blocked s) = Some (KSend c) -> c <> CShutdown
}.

Lemma cnt_app : forall P Q a, cnt (P ++ Q) a = (cnt P a + cnt Q a)%nat.
Proof. intros. unfold cnt. apply count_occ_app. Qed.
Lemma cnt_one : forall x a, cnt [x] a = if Z.eq_dec x a then 1%nat else 0%nat.
Proof. intros. unfold cnt. cbn. destruct (Z.eq_dec x a); reflexivity. Qed.
Lemma cnt_nil : forall a, cnt [] a = 0%nat.
Proof. reflexivity. Qed.
Lemma cnt_cons : forall x P a, cnt (x :: P) a = ((if Z.eq_dec x a then 1 else 0) + cnt P a)%nat.
Proof. intros. unfold cnt. cbn. destruct (Z.eq_dec x a); reflexivity. Qed.

(** ** the pure transitions *)
(** nothing that concerns acknowledgements changes (the pending multiset may be rearranged between queue and worker) *)
Lemma ainv_move : forall s L s' L', AInv s L ->
  acks s' = acks s -> next_ack s' = next_ack s -> worker s' = worker s -> worker s <> Draining ->
  (forall a, cnt (map snd (queue s') ++ L') a = cnt (map snd (queue s) ++ L) a) ->
  (forall c a, In (c, a) (queue s') -> In (c, a) (queue s)) ->
  (forall tid c, alookup tid (blocked s') = Some (KSend c) -> c <> CShutdown) ->
  AInv s' L'.
Proof.
  intros s L s' L' [A0 A1 A2 A3 A4 A5 A6 A7] Ha Hn Hw Hnd Hc Hq Hb.
  constructor; rewrite ?Ha, ?Hn, ?Hw; try assumption.
  - intros a. rewrite Hc. apply A2.
  - intros a. rewrite Hc. apply A3.
  - intros Hd a Ha0. rewrite Hc. apply A4; assumption.
  - intros Hd. contradiction.
  - intros c a Hin. apply A6. apply Hq. exact Hin.
Qed.

(** same queue, same in-flight list; other fields of the acknowledgement state unchanged *)
Lemma ainv_same : forall s L s', AInv s L ->
  queue s' = queue s -> acks s' = acks s -> next_ack s' = next_ack s -> worker s' = worker s ->
  (forall tid c, alookup tid (blocked s') = Some (KSend c) -> c <> CShutdown) -> AInv s' L.
Proof.
  intros s L s' [A0 A1 A2 A3 A4 A5 A6 A7] Hq Ha Hn Hw Hb.
  constructor; rewrite ?Hq, ?Ha, ?Hn, ?Hw; assumption.
Qed.

(** a command is appended with a new acknowledgement id *)
Lemma ainv_enqueue : forall s L s' c, AInv s L -> c <> CShutdown -> worker s = Alive ->
  queue s' = queue s ++ [(c, next_ack s)] -> acks s' = aset (next_ack s) Pending (acks s) ->
  next_ack s' = next_ack s + 1 -> worker s' = worker s ->
  (forall tid c, alookup tid (blocked s') = Some (KSend c) -> c <> CShutdown) -> AInv s' L.
Proof.
  intros s L s' c [A0 A1 A2 A3 A4 A5 A6 A7] Hc Hal Hq Ha Hn Hw Hb.
  assert (Hfresh : cnt (map snd (queue s) ++ L) (next_ack s) = 0%nat).
  { destruct (cnt (map snd (queue s) ++ L) (next_ack s)) eqn:E; [reflexivity|].
    assert (H : (cnt (map snd (queue s) ++ L) (next_ack s) > 0)%nat) by lia. apply A2 in H. lia. }
  assert (Hcnt : forall a, cnt (map snd (queue s') ++ L) a =
                           (cnt (map snd (queue s) ++ L) a + (if Z.eq_dec (next_ack s) a then 1 else 0))%nat).
  { intros a. rewrite Hq, map_app, !cnt_app. cbn [map snd]. rewrite cnt_one. lia. }
  constructor; rewrite ?Ha, ?Hn, ?Hw.
  - lia.
  - intros a x Hl. destruct (Z.eq_dec a (next_ack s)) as [->|Hne]; [lia|].
    rewrite alookup_aset_neq in Hl by exact Hne. destruct (A1 _ _ Hl); lia.
  - intros a H. rewrite Hcnt in H. destruct (Z.eq_dec (next_ack s) a) as [<-|Hne]; [lia|].
    assert (H' : (cnt (map snd (queue s) ++ L) a > 0)%nat) by lia. destruct (A2 _ H'); lia.
  - intros a Hne. rewrite Hcnt. destruct (Z.eq_dec (next_ack s) a) as [<-|Hne2]; [lia|].
    specialize (A3 a Hne). lia.
  - intros Hd a Ha0. rewrite Hcnt. destruct (Z.eq_dec (next_ack s) a) as [<-|Hne].
    + rewrite alookup_aset_eq. split; [intros _; lia|reflexivity].
    + rewrite alookup_aset_neq by (intros E; apply Hne; symmetry; exact E). rewrite (A4 Hd a Ha0). lia.
  - intros Hd. rewrite Hal in Hd. discriminate.
  - intros c0 a0 Hin Hc0. rewrite Hq in Hin. apply in_app_or in Hin as [Hin|[Hin|[]]]; [exact (A6 _ _ Hin Hc0)|].
    injection Hin as <- _. contradiction.
  - exact Hb.
Qed.

(** a send on a draining worker is answered at once *)
Lemma ainv_answered : forall s L s' x, AInv s L -> x <> Pending ->
  queue s' = queue s -> acks s' = aset (next_ack s) x (acks s) -> next_ack s' = next_ack s + 1 -> worker s' = worker s ->
  (forall tid c, alookup tid (blocked s') = Some (KSend c) -> c <> CShutdown) -> AInv s' L.
Proof.
  intros s L s' x [A0 A1 A2 A3 A4 A5 A6 A7] Hx Hq Ha Hn Hw Hb.
  assert (Hfresh : cnt (map snd (queue s) ++ L) (next_ack s) = 0%nat).
  { destruct (cnt (map snd (queue s) ++ L) (next_ack s)) eqn:E; [reflexivity|].
    assert (H : (cnt (map snd (queue s) ++ L) (next_ack s) > 0)%nat) by lia. apply A2 in H. lia. }
  constructor; rewrite ?Hq, ?Ha, ?Hn, ?Hw; try assumption.
  - lia.
  - intros a y Hl. destruct (Z.eq_dec a (next_ack s)) as [->|Hne]; [lia|].
    rewrite alookup_aset_neq in Hl by exact Hne. destruct (A1 _ _ Hl); lia.
  - intros a H. destruct (A2 _ H); lia.
  - intros Hd a Ha0. destruct (Z.eq_dec a (next_ack s)) as [->|Hne].
    + rewrite alookup_aset_eq. split; [intros H; injection H as H; congruence|lia].
    + rewrite alookup_aset_neq by exact Hne. apply A4; assumption.
Qed.

(** the Shutdown command is appended with the untracked id *)
Lemma ainv_enqueue_shutdown : forall s L s', AInv s L -> worker s = Alive ->
  queue s' = queue s ++ [(CShutdown, -1)] -> acks s' = acks s -> next_ack s' = next_ack s -> worker s' = worker s ->
  (forall tid c, alookup tid (blocked s') = Some (KSend c) -> c <> CShutdown) -> AInv s' L.
Proof.
  intros s L s' [A0 A1 A2 A3 A4 A5 A6 A7] Hal Hq Ha Hn Hw Hb.
  assert (Hcnt : forall a, cnt (map snd (queue s') ++ L) a =
                           (cnt (map snd (queue s) ++ L) a + (if Z.eq_dec (-1) a then 1 else 0))%nat).
  { intros a. rewrite Hq, map_app, !cnt_app. cbn [map snd]. rewrite cnt_one. lia. }
  constructor; rewrite ?Ha, ?Hn, ?Hw; try assumption.
  - intros a H. rewrite Hcnt in H. destruct (Z.eq_dec (-1) a) as [<-|Hne]; [left; reflexivity|].
    apply A2. lia.
  - intros a Hne. rewrite Hcnt. destruct (Z.eq_dec (-1) a) as [<-|Hne2]; [contradiction|]. specialize (A3 a Hne). lia.
  - intros Hd a Ha0. rewrite Hcnt. destruct (Z.eq_dec (-1) a) as [<-|Hne]; [lia|]. rewrite (A4 Hd a Ha0). lia.
  - intros Hd. rewrite Hal in Hd. discriminate.
  - intros c0 a0 Hin Hc0. rewrite Hq in Hin. apply in_app_or in Hin as [Hin|[Hin|[]]]; [exact (A6 _ _ Hin Hc0)|].
    injection Hin as _ <-. reflexivity.
Qed.

(** the worker answers one pending command (taken from the head of the queue or in flight) *)
Lemma ainv_resolve : forall s L s' L' a x, AInv s L -> x <> Pending -> worker s' = worker s -> worker s <> Draining ->
  (cnt (map snd (queue s) ++ L) a > 0)%nat ->
  (forall a', cnt (map snd (queue s') ++ L') a' =
              (cnt (map snd (queue s) ++ L) a' - (if Z.eq_dec a a' then 1 else 0))%nat) ->
  acks s' = aset a x (acks s) -> next_ack s' = next_ack s ->
  (forall c0 a0, In (c0, a0) (queue s') -> In (c0, a0) (queue s)) ->
  (forall tid c, alookup tid (blocked s') = Some (KSend c) -> c <> CShutdown) -> AInv s' L'.
Proof.
  intros s L s' L' a x [A0 A1 A2 A3 A4 A5 A6 A7] Hx Hw Hnd Hin Hcnt Ha Hn Hq Hb.
  constructor; rewrite ?Ha, ?Hn, ?Hw.
  - exact A0.
  - intros a' y Hl. destruct (Z.eq_dec a' a) as [->|Hne]; [exact (A2 _ Hin)|].
    rewrite alookup_aset_neq in Hl by exact Hne. exact (A1 _ _ Hl).
  - intros a' H. rewrite Hcnt in H. apply A2. lia.
  - intros a' Hne. rewrite Hcnt. specialize (A3 a' Hne). lia.
  - intros Hd a' Ha0. rewrite Hcnt.
    destruct (Z.eq_dec a a') as [<-|Hne].
    + rewrite alookup_aset_eq. split; [intros H; injection H as H; congruence|].
      assert (Hne1 : a <> -1) by lia. specialize (A3 a Hne1). lia.
    + rewrite alookup_aset_neq by (intros E; apply Hne; symmetry; exact E). rewrite (A4 Hd a' Ha0). lia.
  - intros Hd. contradiction.
  - intros c0 a0 Hin0. apply A6. apply Hq. exact Hin0.
  - exact Hb.
Qed.

(** the worker panics: only the well-formedness clauses remain, and they survive dropping pending entries *)
Lemma ainv_dead : forall s L s' L', AInv s L -> worker s' = Dead ->
  acks s' = acks s -> next_ack s' = next_ack s ->
  (forall a', (cnt (map snd (queue s') ++ L') a' <= cnt (map snd (queue s) ++ L) a')%nat) ->
  (forall c0 a0, In (c0, a0) (queue s') -> In (c0, a0) (queue s)) ->
  (forall tid c, alookup tid (blocked s') = Some (KSend c) -> c <> CShutdown) -> AInv s' L'.
Proof.
  intros s L s' L' [A0 A1 A2 A3 A4 A5 A6 A7] Hw Ha Hn Hcnt Hq Hb.
  constructor; rewrite ?Ha, ?Hn; try assumption.
  - intros a' H. apply A2. specialize (Hcnt a'). lia.
  - intros a' Hne. specialize (A3 a' Hne). specialize (Hcnt a'). lia.
  - intros Hd. contradiction.
  - intros Hd. rewrite Hw in Hd. discriminate.
  - intros c0 a0 Hin0. apply A6. apply Hq. exact Hin0.
Qed.

(** the worker executes Shutdown: everything queued behind it is answered, the queue is empty from now on *)
Lemma ainv_drain : forall s s' a q, AInv s [] -> worker s = Alive -> queue s = (CShutdown, a) :: q ->
  queue s' = [] -> worker s' = Draining -> next_ack s' = next_ack s ->
  (forall a', alookup a' (acks s') = if zmem a' (map snd q) then Some ShuttingDown else alookup a' (acks s)) ->
  (forall tid c, alookup tid (blocked s') = Some (KSend c) -> c <> CShutdown) -> AInv s' [].
Proof.
  intros s s' a q [A0 A1 A2 A3 A4 A5 A6 A7] Hal Hq Hq' Hw' Hn Hac Hb.
  assert (Ha1 : a = -1) by (apply (A6 CShutdown a); [rewrite Hq; left; reflexivity|reflexivity]).
  rewrite app_nil_r in *. rewrite Hq in *. cbn [map snd] in *.
  constructor; rewrite ?Hq', ?Hn; cbn [map app].
  - exact A0.
  - intros a' x Hl. rewrite Hac in Hl. destruct (zmem a' (map snd q)) eqn:Em.
    + apply A2. rewrite cnt_cons. apply zmem_In in Em. apply (count_occ_In Z.eq_dec) in Em. unfold cnt. lia.
    + exact (A1 _ _ Hl).
  - intros a' H. rewrite cnt_nil in H. lia.
  - intros a' _. rewrite cnt_nil. lia.
  - intros _ a' Ha0. rewrite cnt_nil. rewrite Hac. destruct (zmem a' (map snd q)) eqn:Em.
    + split; [discriminate|lia].
    + assert (Hd : worker s <> Dead) by (rewrite Hal; discriminate).
      rewrite (A4 Hd a' Ha0). rewrite cnt_cons. destruct (Z.eq_dec a a') as [E|_]; [lia|].
      split; [|lia]. intros H. exfalso.
      assert (Hin : In a' (map snd q)) by (apply (count_occ_In Z.eq_dec); unfold cnt in H; lia).
      apply zmem_In in Hin. congruence.
  - intros _. split; reflexivity.
  - intros c0 a0 [].
  - exact Hb.
Qed.

(** ** callers *)
Definition bok (s : state) : Prop := forall tid c, alookup tid (blocked s) = Some (KSend c) -> c <> CShutdown.

Lemma bok_aset : forall (b : list (Z * cont)) tid k,
  (forall t c, alookup t b = Some (KSend c) -> c <> CShutdown) -> (forall c, k = KSend c -> c <> CShutdown) ->
  forall t c, alookup t (aset tid k b) = Some (KSend c) -> c <> CShutdown.
Proof.
  intros b tid k Hb Hk t c H. rewrite alookup_aset in H. destruct (t =? tid).
  - inversion H; subst. apply Hk. reflexivity.
  - eapply Hb; exact H.
Qed.

Lemma bok_aremove : forall (b : list (Z * cont)) tid,
  (forall t c, alookup t b = Some (KSend c) -> c <> CShutdown) ->
  forall t c, alookup t (aremove tid b) = Some (KSend c) -> c <> CShutdown.
Proof.
  intros b tid Hb t c H. rewrite alookup_aremove in H. destruct (t =? tid); [discriminate|]. eapply Hb; exact H.
Qed.

Lemma ainv_sframe : forall s L s', AInv s L -> HistoryProofs.sframe s s' -> AInv s' L.
Proof.
  intros s L s' HA (F1 & F2 & F3 & F4 & F5 & _).
  apply (ainv_same s L s' HA F1 F2 F3 F4). rewrite F5. exact (a_bok s L HA).
Qed.

Lemma do_send_ainv : forall cfg tid c s L, AInv s L -> c <> CShutdown -> AInv (fst (do_send cfg tid c s)) L.
Proof.
  intros cfg tid c s L HA Hc.
  pose proof (do_send_fields cfg tid c s) as (Hw & _ & _ & _ & _ & H). cbv zeta in *.
  destruct H as [(H1 & H2 & H3 & Hb)|[(Hal & _ & H1 & H2 & H3 & Hb)|(Hdr & H1 & H2 & H3 & Hb)]].
  - apply (ainv_same s L _ HA H1 H2 H3 Hw). destruct Hb as [Hb|Hb]; rewrite Hb; [exact (a_bok s L HA)|].
    apply bok_aset; [exact (a_bok s L HA)|]. intros c0 E. inversion E; subst. exact Hc.
  - apply (ainv_enqueue s L _ c HA Hc Hal H1 H2 H3 Hw). rewrite Hb. exact (a_bok s L HA).
  - apply (ainv_answered s L _ ShuttingDown HA ltac:(discriminate) H1 H2 H3 Hw). rewrite Hb. exact (a_bok s L HA).
Qed.

Lemma shutdown_chan_ainv : forall tid s L, AInv s L -> AInv (fst (shutdown_chan tid s)) L.
Proof.
  intros tid s L HA.
  pose proof (shutdown_chan_fields tid s) as (C1 & C2 & C3 & C4 & _ & _ & _ & _ & Hb). cbv zeta in *.
  apply (ainv_same s L _ HA C1 C2 C3 C4). destruct Hb as [Hb|Hb]; rewrite Hb; [exact (a_bok s L HA)|].
  apply bok_aset; [exact (a_bok s L HA)|]. intros c0 E. discriminate.
Qed.

Lemma shutdown_cmd_ainv : forall cfg tid s L, AInv s L -> AInv (fst (shutdown_cmd cfg tid s)) L.
Proof.
  intros cfg tid s L HA.
  pose proof (shutdown_cmd_fields cfg tid s) as (C1 & C2 & C3 & _ & _ & _ & _ & H). cbv zeta in *.
  assert (Hbk : forall b', (b' = blocked s \/ b' = aset tid KShutdownChan (blocked s) \/ b' = aset tid KShutdownCmd (blocked s)) ->
                forall t c, alookup t b' = Some (KSend c) -> c <> CShutdown).
  { intros b' [->|[->| ->]]; [exact (a_bok s L HA)| |]; (apply bok_aset; [exact (a_bok s L HA)|intros c0 E; discriminate]). }
  destruct H as [(H1 & Hb)|(Hal & _ & H1 & Hb)].
  - apply (ainv_same s L _ HA H1 C1 C2 C3). apply Hbk. exact Hb.
  - apply (ainv_enqueue_shutdown s L _ HA Hal H1 C1 C2 C3). apply Hbk. tauto.
Qed.

Lemma call_ainv : forall cfg tid r idxs s L, AInv s L -> AInv (fst (call cfg tid r idxs s)) L.
Proof.
  intros cfg tid r idxs s L HA. destruct (call cfg tid r idxs s) as [s' ret] eqn:E. cbn [fst].
  apply call_cshape in E as [(F & _)|[(_ & _ & c & s1 & F & _ & _ & _ & Hc & _ & ->)|(_ & Hs & ->)]].
  - eapply ainv_sframe; eassumption.
  - apply do_send_ainv; [eapply ainv_sframe; eassumption|exact Hc].
  - apply shutdown_cmd_ainv. apply (ainv_same s L _ HA); try reflexivity. exact (a_bok s L HA).
Qed.

Lemma unpark_ainv : forall tid s L, AInv s L -> AInv (unpark tid s) L.
Proof.
  intros tid s L HA. apply (ainv_same s L _ HA); try reflexivity.
  unfold unpark; sred. apply bok_aremove. exact (a_bok s L HA).
Qed.

Lemma resume_ainv : forall cfg tid s L, AInv s L -> AInv (fst (resume cfg tid s)) L.
Proof.
  intros cfg tid s L HA. destruct (resume cfg tid s) as [s' ret] eqn:E. cbn [fst].
  apply resume_shape in E as [->|[(c & Hl & ->)|[(Hl & ->)|(_ & ->)]]].
  - exact HA.
  - apply do_send_ainv; [apply unpark_ainv; exact HA|]. exact (a_bok s L HA tid c Hl).
  - apply shutdown_cmd_ainv, unpark_ainv, HA.
  - apply shutdown_chan_ainv, unpark_ainv, HA.
Qed.

(** ** the worker's whole step *)
Lemma worker_step_ainv : forall cfg orc s, AInv s [] -> AInv (fst (worker_step cfg orc s)) [].
Proof.
  intros cfg orc s HA. destruct (worker_step cfg orc s) as [s' ret] eqn:E. cbn [fst].
  apply worker_step_cases in E as (Hn & Hb & _ & _ & _ & Hc).
  assert (Hbk : bok s') by (unfold bok; rewrite Hb; exact (a_bok s [] HA)).
  destruct Hc as [->|[(c & a & q & Hw & Hq & Hcn & Hq' & Hc)|(a & q & Hw & Hq & Hq' & Hw' & Hac)]].
  - exact HA.
  - assert (Hcnt0 : forall a', cnt (map snd (queue s) ++ []) a' = ((if Z.eq_dec a a' then 1 else 0) + cnt (map snd q) a')%nat).
    { intros a'. rewrite app_nil_r, Hq. cbn [map snd]. apply cnt_cons. }
    assert (Hsub : forall c0 a0, In (c0, a0) (queue s') -> In (c0, a0) (queue s)).
    { intros c0 a0 H. rewrite Hq' in H. rewrite Hq. right. exact H. }
    destruct Hc as [(Hw' & x & Hx & Hac)|(Hw' & Hac)].
    + apply (ainv_resolve s [] s' [] a x HA Hx ltac:(congruence) ltac:(rewrite Hw; discriminate)); try assumption.
      * rewrite Hcnt0. destruct (Z.eq_dec a a); [lia|contradiction].
      * intros a'. rewrite Hcnt0, app_nil_r, Hq'. lia.
    + apply (ainv_dead s [] s' [] HA Hw' Hac Hn); try assumption.
      intros a'. rewrite Hcnt0, app_nil_r, Hq'. lia.
  - eapply ainv_drain; eassumption.
Qed.

Lemma step_ainv : forall cfg s ev L, AInv s L -> (forall orc, ev = EWorker orc -> L = []) -> AInv (step_state cfg s ev) L.
Proof.
  intros cfg s ev L HA HL. unfold step_state.
  destruct ev as [tid r idxs|tid|orc| |bl|dt|a]; cbn [step].
  - apply call_ainv; exact HA.
  - apply resume_ainv; exact HA.
  - rewrite (HL orc eq_refl) in *. apply worker_step_ainv; exact HA.
  - destruct (sweep cfg s) as [s' ret] eqn:E. cbn [fst]. apply sweep_frame in E as (F & _).
    eapply ainv_sframe; [exact HA|apply xframe_sframe; exact F].
  - destruct (drain cfg bl s) as [s' ret] eqn:E. cbn [fst]. apply drain_frame in E as (F & _).
    eapply ainv_sframe; eassumption.
  - cbn [fst]. apply (ainv_same s L _ HA); try reflexivity. exact (a_bok s L HA).
  - exact HA.
Qed.

(** ** the worker's windows *)
Ltac cnt_solve :=
  intros; cbn [map snd fst app]; repeat (rewrite cnt_cons || rewrite cnt_app || rewrite cnt_nil);
  repeat match goal with |- context [Z.eq_dec ?x ?y] => destruct (Z.eq_dec x y) end;
  try lia; try congruence.

(** the head of the queue goes in flight *)
Lemma ainv_take : forall s L s' L' c a q, AInv s L -> worker s = Alive -> queue s = (c, a) :: q ->
  queue s' = q -> acks s' = acks s -> next_ack s' = next_ack s -> worker s' = Alive -> blocked s' = blocked s ->
  (forall a', cnt L' a' = (cnt L a' + (if Z.eq_dec a a' then 1 else 0))%nat) -> AInv s' L'.
Proof.
  intros s L s' L' c a q HA Hw Hq Hq' Ha Hn Hw' Hb HL.
  apply (ainv_move s L s' L' HA Ha Hn); [congruence|rewrite Hw; discriminate| | |].
  - intros a'. rewrite Hq', Hq. cbn [map snd]. rewrite !cnt_app, cnt_cons, HL. lia.
  - intros c0 a0 H. rewrite Hq' in H. rewrite Hq. right. exact H.
  - rewrite Hb. exact (a_bok s L HA).
Qed.

(** the head of the queue is answered at once *)
Lemma ainv_take_resolve : forall s L s' c a q x, AInv s L -> x <> Pending -> worker s = Alive -> queue s = (c, a) :: q ->
  queue s' = q -> acks s' = aset a x (acks s) -> next_ack s' = next_ack s -> worker s' = Alive -> blocked s' = blocked s ->
  AInv s' L.
Proof.
  intros s L s' c a q x HA Hx Hw Hq Hq' Ha Hn Hw' Hb.
  apply (ainv_resolve s L s' L a x HA Hx ltac:(congruence) ltac:(rewrite Hw; discriminate)).
  - rewrite Hq. cnt_solve.
  - intros a'. rewrite Hq', Hq. cnt_solve.
  - exact Ha.
  - exact Hn.
  - intros c0 a0 H. rewrite Hq' in H. rewrite Hq. right. exact H.
  - rewrite Hb. exact (a_bok s L HA).
Qed.

(** the command in flight is answered *)
Lemma ainv_finish : forall s L s' L' a x, AInv s L -> x <> Pending -> worker s <> Draining ->
  queue s' = queue s -> acks s' = aset a x (acks s) -> next_ack s' = next_ack s -> worker s' = worker s -> blocked s' = blocked s ->
  (forall a', cnt L a' = (cnt L' a' + (if Z.eq_dec a a' then 1 else 0))%nat) -> AInv s' L'.
Proof.
  intros s L s' L' a x HA Hx Hw Hq Ha Hn Hw' Hb HL.
  apply (ainv_resolve s L s' L' a x HA Hx Hw' Hw).
  - rewrite cnt_app, HL. destruct (Z.eq_dec a a); [lia|contradiction].
  - intros a'. rewrite Hq, !cnt_app, (HL a'). lia.
  - exact Ha.
  - exact Hn.
  - intros c0 a0 H. rewrite Hq in H. exact H.
  - rewrite Hb. exact (a_bok s L HA).
Qed.

Lemma ainv_xframe : forall s L s', AInv s L -> xframe s s' -> AInv s' L.
Proof. intros s L s' HA F. eapply ainv_sframe; [exact HA|apply xframe_sframe; exact F]. Qed.

(** the worker dies inside a command: the queue is the old one or its tail, the in-flight list only shrinks *)
Lemma ainv_panic : forall s L s' L', AInv s L -> worker s' = Dead -> acks s' = acks s -> next_ack s' = next_ack s ->
  blocked s' = blocked s -> (queue s' = queue s \/ exists x, queue s = x :: queue s') ->
  (forall a', (cnt L' a' <= cnt L a')%nat) -> AInv s' L'.
Proof.
  intros s L s' L' HA Hw Ha Hn Hb Hq HL.
  apply (ainv_dead s L s' L' HA Hw Ha Hn).
  - intros a'. specialize (HL a'). destruct Hq as [Hq|(x & Hq)]; rewrite Hq; cnt_solve.
  - intros c0 a0 H. destruct Hq as [Hq|(x & Hq)]; [rewrite Hq in H; exact H|rewrite Hq; right; exact H].
  - rewrite Hb. exact (a_bok s L HA).
Qed.

Lemma admission_not_pending : forall cfg orc k id h w s x s1 vs,
  admission cfg orc k id h w s = (AdStatus x, s1, vs) -> x <> Pending.
Proof.
  intros cfg orc k id h w s x s1 vs H. apply admission_wframe in H as (_ & Hst).
  apply admission_status_not_pending. apply Hst. reflexivity.
Qed.

Definition wl (ws : wstate) : list Z := match wpending ws with Some p => [p_ack p] | None => [] end.

Lemma upsert_half1_xframe : forall cfg k v w ttl rm s,
  match upsert_half1 cfg k v w ttl rm s with inl (s', _) => xframe s s' | inr (s', _) => xframe s s' end.
Proof.
  intros cfg k v w ttl rm s. unfold upsert_half1.
  destruct (alookup k (store s)); [|apply xframe_refl]. cbv zeta.
  destruct rm; [unfold xframe; sred; repeat split|].
  destruct ttl as [t|]; [destruct (calc_expiry (now s) t)|]; first [apply xframe_refl|unfold xframe; sred; repeat split].
Qed.

Lemma upsert_half2_ainv : forall cfg tid u s L, AInv s L -> AInv (fst (upsert_half2 cfg tid u s)) L.
Proof.
  intros cfg tid u s L HA. unfold upsert_half2. cbv zeta.
  assert (Hsame : forall s1, xframe s s1 -> AInv s1 L) by (intros s1 F; eapply ainv_xframe; eassumption).
  destruct (u_resp u) as [[[id old] new_exp]|].
  - destruct (type_of_expiry_update old new_exp);
      repeat (match goal with
              | |- AInv (fst (match ?x with _ => _ end)) _ => destruct x eqn:?
              | |- AInv (fst (if ?b then _ else _)) _ => destruct b eqn:?
              end); cbn [fst];
      first [ exact HA
            | solve [apply Hsame; unfold xframe; sred; repeat split; reflexivity]
            | apply do_send_ainv; [first [exact HA|solve [apply Hsame; unfold xframe; sred; repeat split; reflexivity]]|discriminate] ].
  - destruct (u_v u) as [val|]; [|exact HA].
    destruct (requested_weight cfg (u_k u) (Some val) (u_w u) (u_ttl u)) as [wt|]; [|exact HA].
    destruct (wt <=? 0); [exact HA|].
    destruct (u_ttl u); (apply do_send_ainv; [apply Hsame; unfold xframe; sred; repeat split|discriminate]).
Qed.

Lemma worker_half1_ainv : forall cfg orc s D, AInv s D -> D = [] ->
  match worker_half1 cfg orc s with
  | inl (s', p) => AInv s' [p_ack p]
  | inr (s', _) => AInv s' []
  end.
Proof.
  intros cfg orc s D HA ->. unfold worker_half1.
  pose proof (worker_step_ainv cfg orc s HA) as Hws.
  destruct (worker_step cfg orc s) as [sw rw] eqn:Ew. cbn [fst] in Hws.
  destruct (worker s) eqn:Hwk; try exact Hws.
  destruct (queue s) as [|[c a] q] eqn:Hq; [exact Hws|].
  destruct c as [k v id h w|k v id h w ttl|k|id w|]; try exact Hws.
  cbv zeta.
  destruct (amem k (store (set_queue s q))); [exact Hws|].
  destruct (admission cfg orc k id h w (set_queue s q)) as [[r s1] vs] eqn:E.
  pose proof (admission_xframe _ _ _ _ _ _ _ _ _ _ E) as (X1 & X2 & X3 & X4 & X5 & _). sred.
  destruct r as [[| |rj|]|site|why]; try exact Hws.
  destruct (calc_expiry (now s1) ttl); [|exact Hws].
  cbn [p_ack].
  eapply (ainv_take s [] _ [a] _ a q HA Hwk Hq); sred; try congruence. cnt_solve.
Qed.

(** ** the invariant of the micro model *)
Definition dl (ms : mstate) : list Z :=
  match wdel ms with
  | Some (WDStore a _ _) | Some (WDWeight a _ _) | Some (WPCharged a _ _ _ _ _) => [a]
  | None => []
  end.

Lemma inflight_eq : forall ms, inflight ms = dl ms ++ wl (win ms).
Proof. reflexivity. Qed.

Definition MAInv (ms : mstate) : Prop :=
  AInv (mbase ms) (inflight ms) /\ (wdel ms = None \/ wpending (win ms) = None).

Lemma wstep_ainv : forall cfg ws ev D, AInv (base ws) (D ++ wl ws) ->
  ((exists orc, ev = WBase (EWorker orc)) \/ (exists orc, ev = WPut1 orc) -> D = []) ->
  AInv (base (fst (wstep cfg ws ev))) (D ++ wl (fst (wstep cfg ws ev))).
Proof.
  intros cfg ws ev D HA HD. destruct ev as [e|tid k v w ttl rm|tid|orc|]; cbn [wstep].
  - match goal with |- context [if ?b then _ else _] => destruct b eqn:Hen end; [|exact HA].
    pose proof (step_ainv cfg (base ws) e (D ++ wl ws) HA) as Hs. unfold step_state in Hs.
    destruct (step cfg (base ws) e) as [s' ret]. cbn [fst base with_base] in *.
    change (wl (with_base ws s')) with (wl ws).
    apply Hs. intros orc ->. rewrite (HD (or_introl (ex_intro _ orc eq_refl))).
    unfold wl. destruct (wpending ws); [discriminate|reflexivity].
  - destruct (_ || _); [exact HA|]. destruct (shut (base ws)); [exact HA|].
    pose proof (upsert_half1_xframe cfg k v w ttl rm (base ws)) as H.
    destruct (upsert_half1 cfg k v w ttl rm (base ws)) as [[s' u]|[s' ret]]; cbn [fst base with_base];
      (eapply ainv_xframe; [exact HA|exact H]).
  - destruct (alookup tid (ups ws)) as [u|]; [|exact HA].
    pose proof (upsert_half2_ainv cfg tid u (base ws) _ HA) as H.
    destruct (upsert_half2 cfg tid u (base ws)) as [s' ret]. exact H.
  - destruct (wpending ws) eqn:Hwp; [exact HA|].
    rewrite (HD (or_intror (ex_intro _ orc eq_refl))) in *. unfold wl in HA. rewrite Hwp in HA. cbn [app] in *.
    pose proof (worker_half1_ainv cfg orc (base ws) [] HA eq_refl) as H.
    destruct (worker_half1 cfg orc (base ws)) as [[s' p]|[s' ret]]; cbn [fst base with_base wl wpending]; [exact H|].
    unfold wl. cbn [with_base wpending]. rewrite Hwp. exact H.
  - destruct (wpending ws) as [p|] eqn:Hwp; [|exact HA].
    unfold worker_half2. cbn [fst base]. unfold wl in *. rewrite Hwp in HA. cbn [wpending].
    destruct (worker (base ws)) eqn:Hwk;
      try (eapply (ainv_finish (base ws) (D ++ [p_ack p]) _ (D ++ []) (p_ack p) Accepted HA ltac:(discriminate));
           sred; try reflexivity; try (rewrite Hwk; discriminate); cnt_solve).
    destruct (a_drain _ _ HA Hwk) as [_ Hl]. destruct D; discriminate.
Qed.

(** ** the micro steps *)
Lemma shutdown_stage_ainv : forall cfg ms tid n L, AInv (mbase ms) L -> AInv (mbase (fst (shutdown_stage cfg ms tid n))) L.
Proof.
  intros cfg ms tid n L HA. unfold shutdown_stage. cbv zeta.
  assert (Hsame : forall s1, HistoryProofs.sframe (mbase ms) s1 -> AInv s1 L) by (intros s1 F; eapply ainv_sframe; eassumption).
  assert (Hpark : forall k, (forall c, k <> KSend c) -> AInv (set_blocked (mbase ms) (aset tid k (blocked (mbase ms)))) L).
  { intros k Hk. apply (ainv_same (mbase ms) L _ HA); try reflexivity. sred.
    apply bok_aset; [exact (a_bok _ _ HA)|]. intros c E. exfalso. exact (Hk c E). }
  destruct (n =? 0).
  { destruct (worker (mbase ms)) eqn:Hw; try (cbn [fst]; exact HA).
    destruct (_ <? c_queue cfg); cbn [fst].
    - apply (ainv_enqueue_shutdown (mbase ms) L _ HA Hw); try reflexivity. exact (a_bok _ _ HA).
    - apply Hpark. intros c; discriminate. }
  destruct (n =? 1).
  { destruct (consumer (mbase ms)); try (cbn [fst]; apply Hsame; unfold HistoryProofs.sframe; sred; repeat split; reflexivity).
    destruct (_ <? chan_capacity); cbn [fst].
    - apply Hsame; unfold HistoryProofs.sframe; sred; repeat split; reflexivity.
    - apply Hpark. intros c; discriminate. }
  repeat match goal with |- context [if ?b then _ else _] => destruct b end; cbn [fst];
    apply Hsame; unfold HistoryProofs.sframe; sred; repeat split; reflexivity.
Qed.

Lemma menter_ainv : forall cfg ms tid r idxs L, AInv (mbase ms) L -> AInv (mbase (fst (menter cfg ms tid r idxs))) L.
Proof.
  intros cfg ms tid r idxs L HA. unfold menter.
  destruct (negb (caller_free ms tid)); [exact HA|]. cbv zeta.
  destruct (shut (mbase ms) || negb (micro_request r) || early_panic cfg r).
  - pose proof (call_ainv cfg tid r idxs (mbase ms) L HA) as H.
    destruct (call cfg tid r idxs (mbase ms)) as [s' ret]. exact H.
  - destruct r; cbn [fst]; first [exact HA|apply (ainv_same (mbase ms) L _ HA); try reflexivity; exact (a_bok _ _ HA)].
Qed.

Lemma ainv_read_frame : forall s L s', AInv s L -> read_frame s s' -> AInv s' L.
Proof.
  intros s L s' HA (_ & _ & _ & _ & Fq & Fa & _ & _ & _ & Fn & _ & Fw & _ & _ & Fb).
  apply (ainv_same s L s' HA Fq Fa Fn Fw). rewrite Fb. exact (a_bok s L HA).
Qed.

Lemma mstepc_ainv : forall cfg ms tid idxs L, AInv (mbase ms) L -> AInv (mbase (fst (mstepc cfg ms tid idxs))) L.
Proof.
  intros cfg ms tid idxs L HA. unfold mstepc. cbv zeta.
  assert (Hx : forall s1, xframe (mbase ms) s1 -> AInv s1 L) by (intros s1 F; eapply ainv_xframe; eassumption).
  destruct (alookup tid (cps ms)) as [p|] eqn:Hp; [|exact HA].
  destruct p as [r|k v w ttl| |h obs|n].
  - destruct r; try exact HA;
      try (unfold put_check; cbv zeta; repeat match goal with |- context [if ?b then _ else _] => destruct b end; exact HA);
      try (unfold read_lookup; cbv zeta; destruct (lookup_alive _ _); cbn [fst];
           apply Hx; unfold xframe; sred; repeat split; reflexivity).
    + pose proof (upsert_half1_xframe cfg k v w ttl rm (mbase ms)) as H.
      destruct (upsert_half1 cfg k v w ttl rm (mbase ms)) as [[s' u]|[s' ret]]; cbn [fst]; apply Hx; exact H.
    + cbn [fst]. unfold park.
      assert (Hsm : xframe (mbase ms) (soft_mark k (mbase ms))).
      { unfold soft_mark. destruct (alookup k (store (mbase ms))); [unfold xframe; sred; repeat split; reflexivity|apply xframe_refl]. }
      pose proof (Hx _ Hsm) as HA1.
      apply (ainv_same _ L _ HA1); try reflexivity. sred.
      apply bok_aset; [exact (a_bok _ _ HA1)|]. intros c E. inversion E; subst. discriminate.
    + unfold read_body. destruct (read_one cfg k idxs (mbase ms)) as [[[v0 s'] [|i l]]|] eqn:Hr; try exact HA.
      cbn [fst]. apply read_one_spec in Hr as (F & _). eapply ainv_read_frame; eassumption.
    + unfold read_body. destruct (read_one cfg k idxs (mbase ms)) as [[[v0 s'] [|i l]]|] eqn:Hr; try exact HA.
      cbn [fst]. apply read_one_spec in Hr as (F & _). eapply ainv_read_frame; eassumption.
  - cbn [fst]. unfold park. apply (ainv_same (mbase ms) L _ HA); try reflexivity. sred.
    apply bok_aset; [exact (a_bok _ _ HA)|]. intros c E. inversion E; subst. destruct ttl; discriminate.
  - destruct (alookup tid (blocked (mbase ms))) as [[c| |]|] eqn:Hb; try exact HA.
    pose proof (do_send_ainv cfg tid c (unpark tid (mbase ms)) L (unpark_ainv tid _ L HA) (a_bok _ _ HA tid c Hb)) as H.
    unfold unpark in H.
    destruct (do_send cfg tid c (set_blocked (mbase ms) (aremove tid (blocked (mbase ms))))) as [s' ret]. exact H.
  - destruct idxs as [|i [|j l]]; try exact HA.
    destruct (pool_add cfg i h (mbase ms)) as [s'|] eqn:Hpa; [|exact HA].
    cbn [fst]. eapply ainv_read_frame; [exact HA|]. eapply ApiProofs.pool_add_frame. exact Hpa.
  - apply shutdown_stage_ainv. exact HA.
Qed.

Lemma mput1_ainv : forall cfg ms orc k v id h w ttl a q c, AInv (mbase ms) [] -> worker (mbase ms) = Alive ->
  queue (mbase ms) = (c, a) :: q ->
  let ms' := fst (mput1 cfg ms orc k v id h w ttl a q) in
  (wdel ms' = wdel ms /\ AInv (mbase ms') []) \/
  (exists obs, wdel ms' = Some (WPCharged a k v id ttl obs) /\ AInv (mbase ms') [a]).
Proof.
  intros cfg ms orc k v id h w ttl a q c HA Hw Hq. unfold mput1. cbv zeta.
  destruct (amem k (store (set_queue (mbase ms) q))).
  { left. split; [reflexivity|]. cbn [fst mbase with_mbase win with_base base].
    eapply (ainv_take_resolve (mbase ms) [] _ c a q (Rejected KeyAlreadyExists) HA ltac:(discriminate) Hw Hq);
      sred; try reflexivity; assumption. }
  destruct (admission cfg orc k id h w (set_queue (mbase ms) q)) as [[r s1] vs] eqn:E.
  pose proof (admission_xframe _ _ _ _ _ _ _ _ _ _ E) as (X1 & X2 & X3 & X4 & X5 & _). sred.
  destruct r as [x|site|why].
  - pose proof (admission_not_pending _ _ _ _ _ _ _ _ _ _ E) as Hx.
    assert (Hrej : AInv (set_ack a x (upd_st add_keys_rejected 1 s1)) []).
    { eapply (ainv_take_resolve (mbase ms) [] _ c a q x HA Hx Hw Hq); sred; try congruence. }
    destruct x as [| |rj|]; cbn [fst]; try (left; split; [reflexivity|exact Hrej]).
    right. exists (5 :: 1 :: map sk_id vs). split; [reflexivity|]. cbn [mbase win with_base base].
    eapply (ainv_take (mbase ms) [] _ [a] c a q HA Hw Hq); sred; try congruence. cnt_solve.
  - left. split; [reflexivity|]. cbn [fst mbase with_mbase win with_base base].
    apply (ainv_panic (mbase ms) [] _ [] HA); sred; try congruence.
    + right. exists (c, a). rewrite Hq. f_equal. congruence.
    + intros a'. lia.
  - left. split; [reflexivity|exact HA].
Qed.

Lemma dl_some : forall ms d, wdel ms = Some d ->
  dl ms = [match d with WDStore a _ _ | WDWeight a _ _ | WPCharged a _ _ _ _ _ => a end].
Proof. intros ms d H. unfold dl. rewrite H. destruct d; reflexivity. Qed.

Lemma mworker1_ainv : forall cfg ms orc, MAInv ms -> MAInv (fst (mworker1 cfg ms orc)).
Proof.
  intros cfg ms orc [HA HX]. unfold MAInv in *. unfold mworker1. cbv zeta.
  destruct (wdel ms) eqn:Hwd; [split; [exact HA|cbn [fst]; rewrite Hwd; exact HX]|].
  destruct (wpending (win ms)) eqn:Hwp; [split; [exact HA|left; exact Hwd]|].
  assert (HL0 : inflight ms = []) by (unfold inflight; rewrite Hwd, Hwp; reflexivity).
  rewrite HL0 in HA.
  assert (Hfall : let ms' := fst (let '(w', ret) := wstep cfg (win ms) (WPut1 orc) in
                                  ({| win := w'; cps := cps ms; wdel := None |}, ret)) in
                  AInv (mbase ms') (inflight ms') /\ (wdel ms' = None \/ wpending (win ms') = None)).
  { assert (HA' : AInv (base (win ms)) ([] ++ wl (win ms))) by (unfold wl; rewrite Hwp; exact HA).
    pose proof (wstep_ainv cfg (win ms) (WPut1 orc) [] HA' ltac:(intros _; reflexivity)) as H.
    destruct (wstep cfg (win ms) (WPut1 orc)) as [w' ret]. cbv zeta. cbn [fst]. split; [exact H|left; reflexivity]. }
  cbv zeta in Hfall.
  destruct (worker (mbase ms)) eqn:Hwk; try exact Hfall.
  destruct (queue (mbase ms)) as [|[c a] q] eqn:Hq; [exact Hfall|].
  assert (Hput : forall k v id h w ttl, let ms' := fst (mput1 cfg ms orc k v id h w ttl a q) in
            AInv (mbase ms') (inflight ms') /\ (wdel ms' = None \/ wpending (win ms') = None)).
  { intros k v id h w ttl.
    assert (Hwp' : wpending (win (fst (mput1 cfg ms orc k v id h w ttl a q))) = None).
    { unfold mput1. cbv zeta. destruct (amem k _); [exact Hwp|].
      destruct (admission cfg orc k id h w (set_queue (mbase ms) q)) as [[[[| |rj|]|site|why] s1] vs]; exact Hwp. }
    cbv zeta. split; [|right; exact Hwp'].
    destruct (mput1_ainv cfg ms orc k v id h w ttl a q c HA Hwk Hq) as [(Hd & H)|(obs & Hd & H)]; cbv zeta in *.
    - unfold inflight. rewrite Hd, Hwd, Hwp'. exact H.
    - unfold inflight. rewrite Hd, Hwp'. exact H. }
  destruct c as [k v id h w|k v id h w ttl|k|id w|]; try exact Hfall; try apply Hput.
  destruct (alookup k (store (set_queue (mbase ms) q))) as [e|]; cbn [fst].
  - split; [|right; exact Hwp].
    unfold inflight. cbn [wdel win with_base wpending]. rewrite Hwp. cbn [app mbase win with_base base].
    pose proof (store_delete_xframe k (set_queue (mbase ms) q)) as (X1 & X2 & X3 & X4 & X5 & _). sred.
    eapply (ainv_take (mbase ms) [] _ [a] (CDelete k) a q HA Hwk Hq); try congruence. cnt_solve.
  - split; [|left; exact Hwd].
    unfold inflight. cbn [wdel with_mbase win with_base wpending]. rewrite Hwd, Hwp. cbn [app mbase win with_base base].
    eapply (ainv_take_resolve (mbase ms) [] _ (CDelete k) a q (Rejected KeyDoesNotExist) HA ltac:(discriminate) Hwk Hq);
      sred; try reflexivity; assumption.
Qed.

Lemma mworker2_ainv : forall cfg ms, MAInv ms -> MAInv (fst (mworker2 cfg ms)).
Proof.
  intros cfg ms [HA HX]. unfold MAInv in *. unfold mworker2. cbv zeta.
  destruct (wdel ms) as [[a id exp|a id exp|a k v id ttl obs]|] eqn:Hwd.
  - destruct HX as [HX|HX]; [discriminate|].
    assert (HL : inflight ms = [a]) by (unfold inflight; rewrite Hwd, HX; reflexivity). rewrite HL in HA.
    pose proof (weights_delete_xframe cfg id false (mbase ms)) as Hx.
    destruct (weights_delete cfg id false (mbase ms)) as [s2|site s2|why]; [| |contradiction]; cbn [fst].
    + split; [|right; exact HX]. unfold inflight. cbn [wdel win with_base wpending mbase base]. rewrite HX.
      eapply ainv_xframe; eassumption.
    + split; [|left; reflexivity]. unfold inflight. cbn [wdel win with_base wpending mbase base]. rewrite HX.
      destruct Hx as (X1 & X2 & X3 & X4 & X5 & _).
      apply (ainv_panic (mbase ms) [a] _ [] HA); sred; try congruence.
      * left. exact X1.
      * cnt_solve.
  - destruct HX as [HX|HX]; [discriminate|].
    assert (HL : inflight ms = [a]) by (unfold inflight; rewrite Hwd, HX; reflexivity). rewrite HL in HA.
    cbn [fst]. split; [|left; reflexivity]. unfold inflight. cbn [wdel win with_base wpending mbase base]. rewrite HX.
    destruct (worker (mbase ms)) eqn:Hwk;
      try (eapply (ainv_finish (mbase ms) [a] _ [] a Accepted HA ltac:(discriminate));
           try (rewrite Hwk; discriminate); try (destruct exp; reflexivity); cnt_solve).
    destruct (a_drain _ _ HA Hwk) as [_ Hl]. discriminate.
  - destruct HX as [HX|HX]; [discriminate|].
    assert (HL : inflight ms = [a]) by (unfold inflight; rewrite Hwd, HX; reflexivity). rewrite HL in HA.
    destruct ttl as [t|].
    + destruct (calc_expiry (now (mbase ms)) t) as [e|]; cbn [fst]; (split; [|left; reflexivity]);
        unfold inflight; cbn [wdel win with_base wpending mbase base app p_ack].
      * eapply ainv_xframe; [exact HA|]. unfold xframe; sred; repeat split; reflexivity.
      * rewrite HX. apply (ainv_panic (mbase ms) [a] _ [] HA); sred; try reflexivity.
        -- left; reflexivity.
        -- cnt_solve.
    + cbn [fst]. split; [|left; reflexivity]. unfold inflight. cbn [wdel win with_base wpending mbase base]. rewrite HX.
      destruct (worker (mbase ms)) eqn:Hwk;
        try (eapply (ainv_finish (mbase ms) [a] _ [] a Accepted HA ltac:(discriminate));
             try (rewrite Hwk; discriminate); try reflexivity; cnt_solve).
      destruct (a_drain _ _ HA Hwk) as [_ Hl]. discriminate.
  - assert (HL : inflight ms = [] ++ wl (win ms)) by (unfold inflight; rewrite Hwd; reflexivity). rewrite HL in HA.
    pose proof (wstep_ainv cfg (win ms) WPut2 [] HA) as H.
    destruct (wstep cfg (win ms) WPut2) as [w' ret]. cbn [fst] in *. split; [|left; reflexivity].
    unfold inflight. cbn [wdel win].
    apply H. intros [(orc & E)|(orc & E)]; discriminate.
Qed.

(** the callers' steps never touch the worker's windows *)
Lemma shutdown_stage_windows : forall cfg ms tid n,
  wdel (fst (shutdown_stage cfg ms tid n)) = wdel ms /\ wpending (win (fst (shutdown_stage cfg ms tid n))) = wpending (win ms).
Proof.
  intros cfg ms tid n. unfold shutdown_stage. cbv zeta.
  repeat match goal with
         | |- context [if ?b then _ else _] => destruct b
         | |- context [match worker ?x with _ => _ end] => destruct (worker x)
         | |- context [match consumer ?x with _ => _ end] => destruct (consumer x)
         end; split; reflexivity.
Qed.

Lemma menter_windows : forall cfg ms tid r idxs,
  wdel (fst (menter cfg ms tid r idxs)) = wdel ms /\ wpending (win (fst (menter cfg ms tid r idxs))) = wpending (win ms).
Proof.
  intros cfg ms tid r idxs. unfold menter. destruct (negb (caller_free ms tid)); [split; reflexivity|]. cbv zeta.
  destruct (shut (mbase ms) || negb (micro_request r) || early_panic cfg r).
  - destruct (call cfg tid r idxs (mbase ms)) as [s' ret]. split; reflexivity.
  - destruct r; split; reflexivity.
Qed.

Lemma mstepc_windows : forall cfg ms tid idxs,
  wdel (fst (mstepc cfg ms tid idxs)) = wdel ms /\ wpending (win (fst (mstepc cfg ms tid idxs))) = wpending (win ms).
Proof.
  intros cfg ms tid idxs. unfold mstepc. cbv zeta.
  destruct (alookup tid (cps ms)) as [p|]; [|split; reflexivity].
  destruct p as [r|k v w ttl| |h obs|n].
  - destruct r; try (split; reflexivity);
      try (unfold put_check; cbv zeta; repeat match goal with |- context [if ?b then _ else _] => destruct b end; split; reflexivity);
      try (unfold read_lookup; cbv zeta; destruct (lookup_alive _ _); split; reflexivity).
    + destruct (upsert_half1 cfg k v w ttl rm (mbase ms)) as [[s' u]|[s' ret]]; split; reflexivity.
    + destruct (read_body cfg k (fun v => v) idxs (mbase ms)) as [s' ret]. split; reflexivity.
    + destruct (read_body cfg k mapped idxs (mbase ms)) as [s' ret]. split; reflexivity.
  - split; reflexivity.
  - destruct (alookup tid (blocked (mbase ms))) as [[c| |]|]; try (split; reflexivity).
    destruct (do_send cfg tid c (set_blocked (mbase ms) (aremove tid (blocked (mbase ms))))) as [s' ret]. split; reflexivity.
  - destruct idxs as [|i [|j l]]; try (split; reflexivity).
    destruct (pool_add cfg i h (mbase ms)) as [s'|]; split; reflexivity.
  - apply shutdown_stage_windows.
Qed.

Lemma inflight_windows : forall ms ms', wdel ms' = wdel ms -> wpending (win ms') = wpending (win ms) -> inflight ms' = inflight ms.
Proof. intros ms ms' H1 H2. unfold inflight. rewrite H1, H2. reflexivity. Qed.

Lemma wstep_wpending : forall cfg ws ev, (forall orc, ev <> WPut1 orc) ->
  wpending (fst (wstep cfg ws ev)) = wpending ws \/ wpending (fst (wstep cfg ws ev)) = None.
Proof.
  intros cfg ws ev Hne. destruct ev as [e|tid k v w ttl rm|tid|orc|]; cbn [wstep].
  - match goal with |- context [if ?b then _ else _] => destruct b end; [|left; reflexivity].
    destruct (step cfg (base ws) e) as [s' ret]. left; reflexivity.
  - destruct (_ || _); [left; reflexivity|]. destruct (shut (base ws)); [left; reflexivity|].
    destruct (upsert_half1 cfg k v w ttl rm (base ws)) as [[s' u]|[s' ret]]; left; reflexivity.
  - destruct (alookup tid (ups ws)) as [u|]; [|left; reflexivity].
    destruct (upsert_half2 cfg tid u (base ws)) as [s' ret]. left; reflexivity.
  - exfalso. eapply Hne. reflexivity.
  - destruct (wpending ws) as [p|] eqn:E; [right; reflexivity|left; exact E].
Qed.

Lemma mstep_mainv : forall cfg ms ev, MAInv ms -> MAInv (fst (mstep cfg ms ev)).
Proof.
  intros cfg ms ev HM. destruct ev as [e|tid r idxs|tid idxs|orc|]; cbn [mstep].
  - destruct HM as [HA HX]. destruct (mwin_enabled ms e) eqn:Hen; [|split; assumption].
    assert (HD : (exists orc, e = WBase (EWorker orc)) \/ (exists orc, e = WPut1 orc) -> dl ms = []).
    { intros [(orc & ->)|(orc & ->)]; cbn [mwin_enabled] in Hen; unfold dl; destruct (wdel ms); try discriminate; reflexivity. }
    rewrite inflight_eq in HA.
    pose proof (wstep_ainv cfg (win ms) e (dl ms) HA HD) as H.
    assert (HX' : wdel ms = None \/ wpending (fst (wstep cfg (win ms) e)) = None).
    { assert (Hc : (exists orc, e = WPut1 orc) \/ forall orc, e <> WPut1 orc).
      { destruct e; try (right; intros orc0; discriminate). left; eexists; reflexivity. }
      destruct Hc as [(orc & ->)|Hne].
      - left. cbn [mwin_enabled] in Hen. destruct (wdel ms); [discriminate|reflexivity].
      - destruct HX as [HX|HX]; [left; exact HX|].
        destruct (wstep_wpending cfg (win ms) e Hne) as [E|E]; right; congruence. }
    destruct (wstep cfg (win ms) e) as [w' ret]. cbn [fst] in *. split; [|exact HX'].
    rewrite inflight_eq. exact H.
  - destruct HM as [HA HX]. destruct (menter_windows cfg ms tid r idxs) as [W1 W2]. split.
    + rewrite (inflight_windows _ _ W1 W2). apply menter_ainv. exact HA.
    + rewrite W1, W2. exact HX.
  - destruct HM as [HA HX]. destruct (mstepc_windows cfg ms tid idxs) as [W1 W2]. split.
    + rewrite (inflight_windows _ _ W1 W2). apply mstepc_ainv. exact HA.
    + rewrite W1, W2. exact HX.
  - apply mworker1_ainv. exact HM.
  - apply mworker2_ainv. exact HM.
Qed.

Lemma mainv_init : forall cfg, MAInv (minit cfg).
Proof.
  intros cfg. split; [|left; reflexivity]. cbn. constructor; cbn.
  - lia.
  - intros a x H; discriminate.
  - intros a H. lia.
  - intros a _. lia.
  - intros _ a _. split; [discriminate|lia].
  - intros H; discriminate.
  - intros c a [].
  - intros tid c H; discriminate.
Qed.

Lemma mainv_run : forall cfg evs, MAInv (mrun cfg evs).
Proof.
  intros cfg evs. unfold mrun, mrun_from.
  assert (H : forall ms, MAInv ms -> MAInv (fold_left (fun m ev => fst (mstep cfg m ev)) evs ms)).
  { induction evs as [|ev t IH]; intros ms HM; [exact HM|]. cbn [fold_left]. apply IH. apply mstep_mainv. exact HM. }
  apply H. apply mainv_init.
Qed.

(* STATEMENT (C13 / C12 at every state of every micro schedule, no condition on the events): while the worker has not
   panicked, an acknowledgement is pending exactly when its command is still queued or in flight inside the worker (in
   any of its windows); every id handed out is below the id counter; no id is queued or in flight twice *)
Lemma micro_ack_pending_iff_all : forall cfg evs a,
  let ms := mrun cfg evs in
  worker (mbase ms) <> Dead -> 0 <= a ->
  (alookup a (acks (mbase ms)) = Some Pending <-> In a (map snd (queue (mbase ms))) \/ In a (inflight ms)).
Proof.
  intros cfg evs a ms Hd Ha. destruct (mainv_run cfg evs) as [HA _]. fold ms in HA.
  rewrite (a_iff _ _ HA Hd a Ha). rewrite cnt_app. unfold cnt.
  rewrite (count_occ_In Z.eq_dec (map snd (queue (mbase ms))) a), (count_occ_In Z.eq_dec (inflight ms) a). lia.
Qed.

(* STATEMENT (every acknowledgement is answered): once the worker has executed Shutdown, at every later state of every micro
   schedule, no acknowledgement that was ever handed out is pending - the commands queued behind Shutdown were answered
   'shutting down', the ones before it with their outcome, and a send that arrives afterwards is answered at once *)
Lemma micro_draining_no_pending_all : forall cfg evs a,
  let ms := mrun cfg evs in
  worker (mbase ms) = Draining -> 0 <= a -> alookup a (acks (mbase ms)) <> Some Pending.
Proof.
  intros cfg evs a ms Hw Ha Hl. destruct (mainv_run cfg evs) as [HA _]. fold ms in HA.
  assert (Hd : worker (mbase ms) <> Dead) by (rewrite Hw; discriminate).
  apply (a_iff _ _ HA Hd a Ha) in Hl. destruct (a_drain _ _ HA Hw) as [Hq HL]. rewrite Hq, HL in Hl. cbn in Hl. lia.
Qed.

(* STATEMENT (ids are not reused): at every state of every micro schedule an acknowledgement id is queued or in flight at most
   once, and every id that has a status or is queued or in flight was handed out (is below the counter) *)
Lemma micro_ack_ids_unique_all : forall cfg evs a,
  let ms := mrun cfg evs in a <> -1 ->
  (count_occ Z.eq_dec (map snd (queue (mbase ms)) ++ inflight ms) a <= 1)%nat /\
  (forall x, alookup a (acks (mbase ms)) = Some x -> 0 <= a < next_ack (mbase ms)).
Proof.
  intros cfg evs a ms Hne. destruct (mainv_run cfg evs) as [HA _]. fold ms in HA. split.
  - exact (a_nodup _ _ HA a Hne).
  - intros x Hl. destruct (a_acks _ _ HA a x Hl); [contradiction|assumption].
Qed.

From CacheD.proofs Require MicroProofs.

(** non-vacuity: the worker inside a put (let in, not yet stored): the command is neither queued nor answered *)
Example ack_in_flight_witness :
  let evs := [MEnter 0 (RPutW 1 10 5) []; MStepC 0 []; MStepC 0 []; MStepC 0 []; MWorker1 MicroProofs.orc0] in
  let ms := mrun MicroProofs.mcfg evs in
  queue (mbase ms) = [] /\ inflight ms = [0] /\ alookup 0 (acks (mbase ms)) = Some Pending /\ worker (mbase ms) = Alive.
Proof. vm_compute. repeat split; reflexivity. Qed.
