(** Association-list facts ([alookup], [aremove], [aset]), sums of charges, counting of pending put ids, and the
    lookup view of the expiry index.  Used by InvLemmas.v / InvProofs.v. *)
From CacheD.proofs Require Import Defs.
From Coq Require Import ZifyBool Permutation.

(** * alists *)
Section AL.
  Context {A : Type}.
  Implicit Types l : list (Z * A).

  Lemma alookup_aremove : forall k' k l,
    alookup k' (aremove k l) = if k' =? k then None else alookup k' l.
  Proof.
    intros k' k l. induction l as [|[k0 v0] t IH]; cbn [alookup aremove].
    - destruct (k' =? k); reflexivity.
    - destruct (k =? k0) eqn:E0.
      + rewrite IH. destruct (k' =? k) eqn:E1; [reflexivity|].
        assert (Hf : k' =? k0 = false) by lia. rewrite Hf. reflexivity.
      + cbn [alookup]. destruct (k' =? k0) eqn:E2.
        * assert (Hf : k' =? k = false) by lia. rewrite Hf. reflexivity.
        * exact IH.
  Qed.

  Lemma alookup_aset : forall k' k (v : A) l,
    alookup k' (aset k v l) = if k' =? k then Some v else alookup k' l.
  Proof.
    intros k' k v l. unfold aset. cbn [alookup].
    destruct (k' =? k) eqn:E; [reflexivity|].
    rewrite alookup_aremove, E. reflexivity.
  Qed.

  Lemma alookup_aremove_eq : forall k l, alookup k (aremove k l) = None.
  Proof. intros k l. rewrite alookup_aremove, Z.eqb_refl. reflexivity. Qed.

  Lemma alookup_aremove_neq : forall k' k l, k' <> k -> alookup k' (aremove k l) = alookup k' l.
  Proof.
    intros k' k l Hne. rewrite alookup_aremove.
    destruct (Z.eqb_spec k' k) as [He|_]; [contradiction|reflexivity].
  Qed.

  Lemma alookup_aset_eq : forall k (v : A) l, alookup k (aset k v l) = Some v.
  Proof. intros k v l. rewrite alookup_aset, Z.eqb_refl. reflexivity. Qed.

  Lemma alookup_aset_neq : forall k' k (v : A) l, k' <> k -> alookup k' (aset k v l) = alookup k' l.
  Proof.
    intros k' k v l Hne. rewrite alookup_aset.
    destruct (Z.eqb_spec k' k) as [He|_]; [contradiction|reflexivity].
  Qed.

  Lemma alookup_In : forall k (v : A) l, alookup k l = Some v -> In (k, v) l.
  Proof.
    intros k v l. induction l as [|[k0 v0] t IH]; cbn [alookup]; intros H.
    - discriminate.
    - destruct (Z.eqb_spec k k0) as [He|Hne].
      + inversion H; subst. left. reflexivity.
      + right. apply IH. exact H.
  Qed.

  Lemma alookup_None_notin : forall k l, alookup k l = None <-> ~ In k (map fst l).
  Proof.
    intros k l. induction l as [|[k0 v0] t IH]; cbn [alookup map fst In].
    - split; [intros _ H; exact H|reflexivity].
    - destruct (Z.eqb_spec k k0) as [He|Hne].
      + split; [discriminate|]. intros H. exfalso. apply H. left. symmetry. exact He.
      + rewrite IH. split.
        * intros H [H1|H1]; [apply Hne; symmetry; exact H1|exact (H H1)].
        * intros H H1. apply H. right. exact H1.
  Qed.

  Lemma alookup_Some_in_keys : forall k (v : A) l, alookup k l = Some v -> In k (map fst l).
  Proof.
    intros k v l H. apply alookup_In in H. apply in_map_iff. exists (k, v). split; [reflexivity|exact H].
  Qed.

  Lemma in_keys_alookup : forall k l, In k (map fst l) -> exists v, alookup k l = Some v.
  Proof.
    intros k l Hin. destruct (alookup k l) as [v|] eqn:E.
    - exists v. reflexivity.
    - apply alookup_None_notin in E. contradiction.
  Qed.

  Lemma In_alookup : forall k (v : A) l, NoDup (map fst l) -> In (k, v) l -> alookup k l = Some v.
  Proof.
    intros k v l. induction l as [|[k0 v0] t IH]; cbn [alookup map fst In]; intros Hnd Hin.
    - contradiction.
    - inversion Hnd as [|x xs Hnot Hnd']; subst.
      destruct Hin as [He|Hin].
      + inversion He; subst. rewrite Z.eqb_refl. reflexivity.
      + destruct (Z.eqb_spec k k0) as [He|Hne].
        * subst k0. exfalso. apply Hnot. apply in_map_iff. exists (k, v). split; [reflexivity|exact Hin].
        * apply IH; assumption.
  Qed.

  Lemma in_keys_aremove : forall k' k l, In k' (map fst (aremove k l)) -> In k' (map fst l) /\ k' <> k.
  Proof.
    intros k' k l Hin. apply in_keys_alookup in Hin. destruct Hin as (v & Hv).
    rewrite alookup_aremove in Hv.
    destruct (Z.eqb_spec k' k) as [He|Hne]; [discriminate|].
    split; [eapply alookup_Some_in_keys; exact Hv|exact Hne].
  Qed.

  Lemma In_aremove : forall p k l, In p (aremove k l) -> In p l.
  Proof.
    intros p k l. induction l as [|[k0 v0] t IH]; cbn [aremove]; intros H.
    - exact H.
    - destruct (k =? k0).
      + right. apply IH. exact H.
      + destruct H as [H|H]; [left; exact H|right; apply IH; exact H].
  Qed.

  Lemma NoDup_aremove : forall k l, NoDup (map fst l) -> NoDup (map fst (aremove k l)).
  Proof.
    intros k l. induction l as [|[k0 v0] t IH]; cbn [aremove map fst]; intros Hnd.
    - constructor.
    - inversion Hnd as [|x xs Hnot Hnd']; subst.
      destruct (k =? k0).
      + apply IH. exact Hnd'.
      + cbn [map fst]. constructor.
        * intros Hin. apply in_keys_aremove in Hin. apply Hnot. apply Hin.
        * apply IH. exact Hnd'.
  Qed.

  Lemma NoDup_aset : forall k (v : A) l, NoDup (map fst l) -> NoDup (map fst (aset k v l)).
  Proof.
    intros k v l Hnd. unfold aset. cbn [map fst]. constructor.
    - intros Hin. apply in_keys_aremove in Hin. destruct Hin as [_ Hne]. apply Hne. reflexivity.
    - apply NoDup_aremove. exact Hnd.
  Qed.

  Lemma aremove_notin : forall k l, alookup k l = None -> aremove k l = l.
  Proof.
    intros k l. induction l as [|[k0 v0] t IH]; cbn [alookup aremove]; intros H.
    - reflexivity.
    - destruct (k =? k0); [discriminate|]. rewrite IH by exact H. reflexivity.
  Qed.

  Lemma length_aremove : forall k (v : A) l, NoDup (map fst l) -> alookup k l = Some v ->
    length l = S (length (aremove k l)).
  Proof.
    intros k v l. induction l as [|[k0 v0] t IH]; cbn [alookup aremove map fst]; intros Hnd H.
    - discriminate.
    - inversion Hnd as [|x xs Hnot Hnd']; subst.
      destruct (Z.eqb_spec k k0) as [He|Hne].
      + subst k0. rewrite aremove_notin; [reflexivity|]. apply alookup_None_notin. exact Hnot.
      + cbn [length]. rewrite (IH Hnd' H). reflexivity.
  Qed.

  Lemma NoDup_filter_keys : forall (P : Z * A -> bool) l, NoDup (map fst l) -> NoDup (map fst (filter P l)).
  Proof.
    intros P l. induction l as [|p t IH]; cbn [filter map]; intros Hnd.
    - constructor.
    - inversion Hnd as [|x xs Hnot Hnd']; subst.
      destruct (P p).
      + cbn [map]. constructor.
        * intros Hin. apply Hnot. apply in_map_iff in Hin. destruct Hin as (q & Hq & Hin).
          apply filter_In in Hin. apply in_map_iff. exists q. split; [exact Hq|apply Hin].
        * apply IH. exact Hnd'.
      + apply IH. exact Hnd'.
  Qed.

  Lemma alookup_filter : forall (P : Z * A -> bool) k (v : A) l, NoDup (map fst l) ->
    (alookup k (filter P l) = Some v <-> alookup k l = Some v /\ P (k, v) = true).
  Proof.
    intros P k v l Hnd. split.
    - intros H. apply alookup_In in H. apply filter_In in H. destruct H as [Hin HP].
      split; [apply In_alookup; assumption|exact HP].
    - intros [H HP]. apply In_alookup; [apply NoDup_filter_keys; exact Hnd|].
      apply filter_In. split; [apply alookup_In; exact H|exact HP].
  Qed.
End AL.

(** * sums of charges *)
Lemma weights_sum_cons : forall id wk ws, weights_sum ((id, wk) :: ws) = w_weight wk + weights_sum ws.
Proof. intros. reflexivity. Qed.

Lemma weights_sum_aremove : forall id wk ws, NoDup (map fst ws) -> alookup id ws = Some wk ->
  weights_sum ws = w_weight wk + weights_sum (aremove id ws).
Proof.
  intros id wk ws. induction ws as [|[k0 v0] t IH]; cbn [alookup aremove map fst]; intros Hnd H.
  - discriminate.
  - inversion Hnd as [|x xs Hnot Hnd']; subst.
    destruct (Z.eqb_spec id k0) as [He|Hne].
    + subst k0. inversion H; subst v0. rewrite aremove_notin; [reflexivity|].
      apply alookup_None_notin. exact Hnot.
    + rewrite !weights_sum_cons. rewrite (IH Hnd' H). lia.
Qed.

Lemma weights_sum_aset : forall id wk ws, weights_sum (aset id wk ws) = w_weight wk + weights_sum (aremove id ws).
Proof. intros. reflexivity. Qed.

Lemma weights_sum_nonneg : forall ws, NoDup (map fst ws) ->
  (forall id wk, alookup id ws = Some wk -> 0 < w_weight wk) -> 0 <= weights_sum ws.
Proof.
  intros ws. induction ws as [|[k0 v0] t IH]; intros Hnd Hpos.
  - unfold weights_sum. cbn. lia.
  - inversion Hnd as [|x xs Hnot Hnd']; subst.
    rewrite weights_sum_cons.
    assert (H0 : 0 < w_weight v0).
    { apply (Hpos k0). cbn [alookup]. rewrite Z.eqb_refl. reflexivity. }
    assert (Ht : 0 <= weights_sum t).
    { apply IH; [exact Hnd'|]. intros id wk Hl. apply (Hpos id). cbn [alookup].
      destruct (Z.eqb_spec id k0) as [He|Hne]; [|exact Hl].
      subst k0. exfalso. apply Hnot. eapply alookup_Some_in_keys. exact Hl. }
    lia.
Qed.

(** * counting the put ids of a list of commands *)
Definition idcount (x : Z) (cs : list cmd) : nat := count_occ Z.eq_dec (put_ids cs) x.

Lemma put_ids_app : forall a b, put_ids (a ++ b) = put_ids a ++ put_ids b.
Proof.
  intros a b. induction a as [|c t IH]; cbn [put_ids app].
  - reflexivity.
  - destruct (cmd_put_id c); rewrite IH; reflexivity.
Qed.

Lemma idcount_app : forall x a b, idcount x (a ++ b) = (idcount x a + idcount x b)%nat.
Proof. intros x a b. unfold idcount. rewrite put_ids_app. apply count_occ_app. Qed.

Lemma idcount_nil : forall x, idcount x [] = 0%nat.
Proof. reflexivity. Qed.

Lemma idcount_cons : forall x c t, idcount x (c :: t) = (idcount x [c] + idcount x t)%nat.
Proof. intros x c t. change (c :: t) with ([c] ++ t). apply idcount_app. Qed.

Lemma idcount_one_noput : forall x c, cmd_put_id c = None -> idcount x [c] = 0%nat.
Proof. intros x c H. unfold idcount. cbn [put_ids]. rewrite H. reflexivity. Qed.

Lemma idcount_one_put : forall x c id, cmd_put_id c = Some id ->
  idcount x [c] = if Z.eq_dec id x then 1%nat else 0%nat.
Proof. intros x c id H. unfold idcount. cbn [put_ids]. rewrite H. cbn [count_occ]. reflexivity. Qed.

Lemma idcount_one_le : forall x c, (idcount x [c] <= 1)%nat.
Proof.
  intros x c. destruct (cmd_put_id c) as [id|] eqn:E.
  - rewrite (idcount_one_put x c id E). destruct (Z.eq_dec id x); lia.
  - rewrite (idcount_one_noput x c E). lia.
Qed.

Lemma nodup_idcount : forall cs, NoDup (put_ids cs) <-> forall x, (idcount x cs <= 1)%nat.
Proof. intros cs. unfold idcount. apply NoDup_count_occ. Qed.

Lemma in_put_ids_idcount : forall x cs, In x (put_ids cs) <-> (idcount x cs >= 1)%nat.
Proof. intros x cs. unfold idcount. rewrite (count_occ_In Z.eq_dec). lia. Qed.

Lemma notin_put_ids_idcount : forall x cs, ~ In x (put_ids cs) <-> idcount x cs = 0%nat.
Proof. intros x cs. rewrite in_put_ids_idcount. lia. Qed.

Lemma in_put_ids : forall x cs, In x (put_ids cs) <-> exists c, In c cs /\ cmd_put_id c = Some x.
Proof.
  intros x cs. induction cs as [|c t IH]; cbn [put_ids In].
  - split; [contradiction|]. intros (c & [] & _).
  - destruct (cmd_put_id c) as [id|] eqn:E.
    + cbn [In]. rewrite IH. split.
      * intros [H|(c' & Hin & Hc')].
        -- subst id. exists c. split; [left; reflexivity|exact E].
        -- exists c'. split; [right; exact Hin|exact Hc'].
      * intros (c' & [H|Hin] & Hc').
        -- subst c'. left. congruence.
        -- right. exists c'. split; assumption.
    + rewrite IH. split.
      * intros (c' & Hin & Hc'). exists c'. split; [right; exact Hin|exact Hc'].
      * intros (c' & [H|Hin] & Hc').
        -- subst c'. congruence.
        -- exists c'. split; assumption.
Qed.

(** commands held by parked callers *)
Definition bcmds (b : list (Z * cont)) : list cmd := flat_map (fun p => cont_cmds (snd p)) b.

Lemma pending_cmds_eq : forall s, pending_cmds s = map fst (queue s) ++ bcmds (blocked s).
Proof. reflexivity. Qed.

Lemma bcmds_cons : forall t k b, bcmds ((t, k) :: b) = cont_cmds k ++ bcmds b.
Proof. reflexivity. Qed.

Lemma bcmds_aremove_in : forall c tid b, In c (bcmds (aremove tid b)) -> In c (bcmds b).
Proof.
  intros c tid b. induction b as [|[t k] b' IH]; cbn [aremove]; intros H.
  - exact H.
  - rewrite bcmds_cons. apply in_or_app. destruct (tid =? t).
    + right. apply IH. exact H.
    + rewrite bcmds_cons in H. apply in_app_or in H. destruct H as [H|H]; [left; exact H|right; apply IH; exact H].
Qed.

Lemma bcmds_aremove_count : forall x tid b, (idcount x (bcmds (aremove tid b)) <= idcount x (bcmds b))%nat.
Proof.
  intros x tid b. induction b as [|[t k] b' IH]; cbn [aremove].
  - lia.
  - rewrite bcmds_cons, idcount_app. destruct (tid =? t).
    + lia.
    + rewrite bcmds_cons, idcount_app. lia.
Qed.

(** removing a parked caller frees (at least) the ids of its command *)
Lemma bcmds_aremove_count_found : forall x tid k b, alookup tid b = Some k ->
  (idcount x (cont_cmds k) + idcount x (bcmds (aremove tid b)) <= idcount x (bcmds b))%nat.
Proof.
  intros x tid k b. induction b as [|[t k0] b' IH]; cbn [alookup aremove]; intros H.
  - discriminate.
  - rewrite bcmds_cons, idcount_app. destruct (tid =? t).
    + inversion H; subst k0. pose proof (bcmds_aremove_count x tid b'). lia.
    + rewrite bcmds_cons, idcount_app. specialize (IH H). lia.
Qed.

Lemma bcmds_found_in : forall tid k b c, alookup tid b = Some k -> In c (cont_cmds k) -> In c (bcmds b).
Proof.
  intros tid k b c H Hin. apply alookup_In in H. unfold bcmds. apply in_flat_map.
  exists (tid, k). split; [exact H|exact Hin].
Qed.

Lemma map_fst_app_one : forall (q : list (cmd * Z)) c a, map fst (q ++ [(c, a)]) = map fst q ++ [c].
Proof. intros. rewrite map_app. reflexivity. Qed.

(** * the lookup view of the expiry index *)
Definition tent (tk : list (Z * list (Z * Z))) (sh id t : Z) : Prop :=
  alookup id (shard_entries tk sh) = Some t.

Definition ticker_wf (tk : list (Z * list (Z * Z))) : Prop :=
  NoDup (map fst tk) /\ forall sh l, In (sh, l) tk -> NoDup (map fst l).

Lemma shard_entries_nodup : forall tk sh, ticker_wf tk -> NoDup (map fst (shard_entries tk sh)).
Proof.
  intros tk sh [_ Hin]. unfold shard_entries.
  destruct (alookup sh tk) as [l|] eqn:E.
  - apply (Hin sh). apply alookup_In. exact E.
  - constructor.
Qed.

Lemma shard_entries_aset : forall tk sh l sh',
  shard_entries (aset sh l tk) sh' = if sh' =? sh then l else shard_entries tk sh'.
Proof.
  intros tk sh l sh'. unfold shard_entries. rewrite alookup_aset.
  destruct (sh' =? sh); reflexivity.
Qed.

Lemma ticker_wf_aset : forall tk sh l, ticker_wf tk -> NoDup (map fst l) -> ticker_wf (aset sh l tk).
Proof.
  intros tk sh l [Hnd Hin] Hl. split.
  - apply NoDup_aset. exact Hnd.
  - intros sh' l' H. unfold aset in H. destruct H as [H|H].
    + inversion H; subst. exact Hl.
    + apply (Hin sh'). eapply In_aremove. exact H.
Qed.

Lemma ticker_wf_nil : ticker_wf [].
Proof. split; [constructor|]. intros sh l []. Qed.

Lemma ticker_ids_tent : forall tk id, NoDup (map fst tk) ->
  (In id (flat_map (fun sh => map fst (snd sh)) tk) <-> exists sh t, tent tk sh id t).
Proof.
  intros tk id Hnd. unfold tent. split.
  - intros H. apply in_flat_map in H. destruct H as ([sh l] & Hin & Hid). cbn [snd] in Hid.
    apply in_keys_alookup in Hid. destruct Hid as (t & Ht).
    exists sh, t. unfold shard_entries. rewrite (In_alookup sh l tk Hnd Hin). exact Ht.
  - intros (sh & t & H). unfold shard_entries in H.
    destruct (alookup sh tk) as [l|] eqn:E; [|discriminate].
    apply in_flat_map. exists (sh, l). split; [apply alookup_In; exact E|].
    cbn [snd]. eapply alookup_Some_in_keys. exact H.
Qed.

Lemma ticker_put_wf : forall cfg id e tk, ticker_wf tk -> ticker_wf (ticker_put cfg id e tk).
Proof.
  intros cfg id e tk Hwf. unfold ticker_put. apply ticker_wf_aset; [exact Hwf|].
  apply NoDup_aset. apply shard_entries_nodup. exact Hwf.
Qed.

Lemma ticker_delete_wf : forall cfg id e tk, ticker_wf tk -> ticker_wf (ticker_delete cfg id e tk).
Proof.
  intros cfg id e tk Hwf. unfold ticker_delete. apply ticker_wf_aset; [exact Hwf|].
  apply NoDup_aremove. apply shard_entries_nodup. exact Hwf.
Qed.

Lemma tent_ticker_put : forall cfg id e tk sh id' t,
  tent (ticker_put cfg id e tk) sh id' t <->
  (sh = shard_index cfg e /\ id' = id /\ t = e) \/ (~ (sh = shard_index cfg e /\ id' = id) /\ tent tk sh id' t).
Proof.
  intros cfg id e tk sh id' t. unfold tent, ticker_put. rewrite shard_entries_aset.
  destruct (Z.eqb_spec sh (shard_index cfg e)) as [Hs|Hs].
  - rewrite alookup_aset. destruct (Z.eqb_spec id' id) as [Hi|Hi].
    + split.
      * intros H. inversion H; subst. left. auto.
      * intros [(_ & _ & Ht)|(Hn & _)]; [subst; reflexivity|]. exfalso. apply Hn. auto.
    + subst sh. split.
      * intros H. right. split; [intros [_ Hc]; contradiction|exact H].
      * intros [(_ & Hc & _)|(_ & H)]; [contradiction|exact H].
  - split.
    + intros H. right. split; [intros [Hc _]; contradiction|exact H].
    + intros [(Hc & _)|(_ & H)]; [contradiction|exact H].
Qed.

Lemma tent_ticker_delete : forall cfg id e tk sh id' t,
  tent (ticker_delete cfg id e tk) sh id' t <->
  ~ (sh = shard_index cfg e /\ id' = id) /\ tent tk sh id' t.
Proof.
  intros cfg id e tk sh id' t. unfold tent, ticker_delete. rewrite shard_entries_aset.
  destruct (Z.eqb_spec sh (shard_index cfg e)) as [Hs|Hs].
  - rewrite alookup_aremove. destruct (Z.eqb_spec id' id) as [Hi|Hi].
    + split; [discriminate|]. intros [Hn _]. exfalso. apply Hn. auto.
    + subst sh. split.
      * intros H. split; [intros [_ Hc]; contradiction|exact H].
      * intros [_ H]. exact H.
  - split.
    + intros H. split; [intros [Hc _]; contradiction|exact H].
    + intros [_ H]. exact H.
Qed.

Lemma tent_fun : forall tk sh id t t', tent tk sh id t -> tent tk sh id t' -> t = t'.
Proof. unfold tent. intros. congruence. Qed.

(** * checked addition under the debug profile *)
Lemma in_i64_iff : forall x, in_i64 x = true <-> i64_min <= x <= i64_max.
Proof. intros x. unfold in_i64. lia. Qed.

Lemma add_i64_debug : forall cfg a b u, c_debug cfg = true -> add_i64 cfg a b = Some u ->
  u = a + b /\ i64_min <= u <= i64_max.
Proof.
  intros cfg a b u Hd H. unfold add_i64 in H. rewrite Hd in H.
  destruct (in_i64 (a + b)) eqn:E; [|discriminate].
  inversion H; subst u. split; [reflexivity|]. apply in_i64_iff. exact E.
Qed.

Lemma add_i64_in_range : forall cfg a b, i64_min <= a + b <= i64_max -> add_i64 cfg a b = Some (a + b).
Proof.
  intros cfg a b H. unfold add_i64. apply in_i64_iff in H. rewrite H. reflexivity.
Qed.
