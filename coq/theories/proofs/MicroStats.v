(** C15 under every interleaving of the micro steps of puts, deletes and reads: a hit whose access record has not reached
    a buffer yet (the reader stands between Store::get and Pool::add, schedule point `read.hit`) is in flight;
    hits = buffered + AccessAdded + AccessDropped + in flight, modulo 2^64, at every state while the flag is down. *)
From CacheD Require Import Base Sketch Model Window Micro.
From CacheD.proofs Require Import Defs AListLemmas InvLemmas InvOps InvCalls InvProofs WindowProofs StatsProofs MicroProofs.
From Coq Require Import ZifyBool.

Definition hitZ (p : cpend) : Z := match p with PHit _ _ => 1 | _ => 0 end.
Definition is_hit (q : Z * cpend) : bool := match snd q with PHit _ _ => true | _ => false end.
Definition inflight (l : list (Z * cpend)) : Z := Z.of_nat (length (filter is_hit l)).

Lemma inflight_hits_eq : forall ms, inflight_hits ms = inflight (cps ms).
Proof. reflexivity. Qed.

Lemma inflight_cons : forall t p l, inflight ((t, p) :: l) = hitZ p + inflight l.
Proof.
  intros t p l. unfold inflight. cbn [filter]. unfold is_hit at 1. cbn [snd].
  destruct p; cbn [hitZ length]; lia.
Qed.

Lemma inflight_aremove_absent : forall tid l, alookup tid l = None -> inflight (aremove tid l) = inflight l.
Proof. intros tid l H. rewrite (aremove_notin tid l H). reflexivity. Qed.

Lemma inflight_aremove : forall tid p l, NoDup (map fst l) -> alookup tid l = Some p ->
  inflight (aremove tid l) = inflight l - hitZ p.
Proof.
  intros tid p l. induction l as [|[t q] r IH]; intros Hnd Hl; cbn [alookup aremove] in *; [discriminate|].
  inversion Hnd as [|x xs Hnotin Hnd']; subst.
  destruct (tid =? t) eqn:E.
  - inversion Hl; subst. assert (tid = t) by lia. subst t.
    rewrite inflight_cons. rewrite inflight_aremove_absent; [lia|].
    apply alookup_None_notin. exact Hnotin.
  - rewrite !inflight_cons. rewrite (IH Hnd' Hl). lia.
Qed.

Lemma inflight_aset : forall tid p q l, NoDup (map fst l) -> alookup tid l = Some q ->
  inflight (aset tid p l) = inflight l - hitZ q + hitZ p.
Proof. intros tid p q l Hnd Hl. unfold aset. rewrite inflight_cons, (inflight_aremove tid q l Hnd Hl). lia. Qed.

Lemma inflight_aset_fresh : forall tid p l, alookup tid l = None -> inflight (aset tid p l) = inflight l + hitZ p.
Proof. intros tid p l Hl. unfold aset. rewrite inflight_cons, (inflight_aremove_absent tid l Hl). lia. Qed.

(** the balance that every step keeps (modulo 2^64) *)
Definition mbal (ms : mstate) : Z := acct (mbase ms) + inflight (cps ms) - s_hits (st (mbase ms)).

Record MStat (ms : mstate) : Prop := {
  ms_shape : MShape ms;
  ms_nodup : NoDup (map fst (cps ms));
  ms_sends : blocked_sends (mbase ms);
  ms_bal : eqm (mbal ms) 0
}.

Lemma eqm_trans : forall a b c, eqm a b -> eqm b c -> eqm a c.
Proof. unfold eqm. intros a b c H1 H2. congruence. Qed.

Lemma qframe_bal : forall s s', qframe s s' -> acct s' - s_hits (st s') = acct s - s_hits (st s).
Proof.
  intros s s' (H1 & _ & _ & H4 & _ & H6 & H7). unfold acct, pool_total. rewrite H1, H4, H6, H7. reflexivity.
Qed.

Lemma MStat_frame : forall ms ms', MStat ms -> MShape ms' -> NoDup (map fst (cps ms')) ->
  qframe (mbase ms) (mbase ms') -> inflight (cps ms') = inflight (cps ms) -> MStat ms'.
Proof.
  intros ms ms' [HS Hnd Hbs Hb] HS' Hnd' Hq Hin. constructor; try assumption.
  - destruct Hq as (_ & _ & Hq & _). apply Hq. exact Hbs.
  - unfold mbal in *. rewrite Hin. pose proof (qframe_bal _ _ Hq) as Hqb.
    eapply eqm_trans; [|exact Hb]. apply eqm_of_eq. lia.
Qed.

Lemma MStat_same : forall ms ms', MStat ms -> MShape ms' -> NoDup (map fst (cps ms')) ->
  blocked (mbase ms') = blocked (mbase ms) -> acct (mbase ms') = acct (mbase ms) ->
  s_hits (st (mbase ms')) = s_hits (st (mbase ms)) -> inflight (cps ms') = inflight (cps ms) -> MStat ms'.
Proof.
  intros ms ms' [HS Hnd Hbs Hb] HS' Hnd' Hbl Ha Hh Hin. constructor; try assumption.
  - eapply blocked_sends_eq; [exact Hbl|exact Hbs].
  - unfold mbal in *. rewrite Ha, Hh, Hin. exact Hb.
Qed.

Lemma park_qframe : forall tid c s, qframe s (park tid c s).
Proof.
  intros tid c s. unfold qframe, park. cbn. repeat split.
  apply blocked_sends_aset with (tid := tid) (c := c). reflexivity.
Qed.

Lemma soft_mark_qframe : forall k s, qframe s (soft_mark k s).
Proof. intros k s. unfold soft_mark. destruct (alookup k (store s)); [|apply qframe_refl]. unfold qframe. cbn. repeat split. intros H; exact H. Qed.

Lemma set_next_id_qframe : forall s x, qframe s (set_next_id s x).
Proof. intros s x. unfold qframe. cbn. repeat split. intros H; exact H. Qed.

Lemma unblock_sends : forall tid s, blocked_sends s -> blocked_sends (set_blocked s (aremove tid (blocked s))).
Proof. intros tid s H. eapply blocked_sends_aremove; [|exact H]. reflexivity. Qed.

Lemma unblock_qframe : forall tid s, qframe s (set_blocked s (aremove tid (blocked s))).
Proof. intros tid s. unfold qframe. cbn. repeat split. apply unblock_sends. Qed.

Lemma mstepc_stat : forall cfg ms tid idxs, MStat ms -> shut (mbase (fst (mstepc cfg ms tid idxs))) = false ->
  MStat (fst (mstepc cfg ms tid idxs)).
Proof.
  intros cfg ms tid idxs HM Hsh. pose proof HM as [HS Hnd Hbs Hb].
  pose proof (cform_shape ms tid _ HS (mstepc_form cfg ms tid idxs (sh_cps ms HS))) as HS'.
  revert Hsh HS'. unfold mstepc. destruct (alookup tid (cps ms)) as [p|] eqn:Hp; [|intros; exact HM].
  pose proof (sh_cps ms HS tid p Hp) as Hpl.
  destruct p as [r|k v w ttl| |h obs|n].
  - destruct r; try (intros; exact HM); try contradiction.
    1-4: unfold put_check;
      repeat match goal with |- context [if ?b then _ else _] => destruct b end; intros Hsh HS';
      (eapply MStat_frame; [exact HM|exact HS'| | apply qframe_refl |]);
      cbn [fst cps end_cp set_cp];
      try (apply NoDup_aremove; exact Hnd); try (apply NoDup_aset; exact Hnd);
      try (rewrite (inflight_aremove tid _ _ Hnd Hp); cbn [hitZ]; lia);
      try (rewrite (inflight_aset tid _ _ _ Hnd Hp); cbn [hitZ]; lia).
    + intros Hsh HS'. eapply MStat_frame; [exact HM|exact HS'| | |]; cbn [fst cps set_cp mbase win with_base base].
      * apply NoDup_aset; exact Hnd.
      * eapply qframe_trans; [apply soft_mark_qframe|apply park_qframe].
      * rewrite (inflight_aset tid _ _ _ Hnd Hp). cbn [hitZ]. lia.
    + (* get: lookup *)
      unfold read_lookup. destruct (lookup_alive k (mbase ms)) as [e|]; intros Hsh HS'.
      * constructor; [exact HS'|cbn [fst cps set_cp]; apply NoDup_aset; exact Hnd|exact Hbs|].
        unfold mbal in *. cbn [fst cps set_cp mbase win with_base base] in *.
        rewrite (inflight_aset tid _ _ _ Hnd Hp). cbn [hitZ].
        assert (Hh : s_hits (st (upd_st add_hits 1 (mbase ms))) = wrap_u64 (s_hits (st (mbase ms)) + 1)) by reflexivity.
        assert (Ha : acct (upd_st add_hits 1 (mbase ms)) = acct (mbase ms)) by reflexivity.
        rewrite Hh, Ha. unfold eqm in *. unfold wrap_u64.
        rewrite <- Hb. rewrite <- (Zminus_mod_idemp_r _ ((s_hits (st (mbase ms)) + 1) mod two64)).
        rewrite Z.mod_mod by (unfold two64; lia). rewrite Zminus_mod_idemp_r. f_equal. lia.
      * eapply MStat_same; [exact HM|exact HS'| | | | |]; cbn [fst cps end_cp mbase win with_base base]; try reflexivity.
        -- apply NoDup_aremove; exact Hnd.
        -- rewrite (inflight_aremove tid _ _ Hnd Hp). cbn [hitZ]. lia.
    + (* get_ref: whole body *)
      unfold read_body. destruct (read_one cfg k idxs (mbase ms)) as [[[v s'] [|i l]]|] eqn:Hr; intros Hsh HS';
        try (eapply MStat_frame; [exact HM|exact HS'| | apply qframe_refl |]; cbn [fst cps end_cp];
             [apply NoDup_aremove; exact Hnd|rewrite (inflight_aremove tid _ _ Hnd Hp); cbn [hitZ]; lia]).
      destruct (read_one_acct cfg k idxs _ _ _ _ Hr) as (R1 & R2 & R3 & _).
      constructor; [exact HS'|cbn [fst cps end_cp]; apply NoDup_aremove; exact Hnd|
                    cbn [fst mbase end_cp win with_base base]; eapply blocked_sends_eq; [exact R2|exact Hbs]|].
      unfold mbal in *. cbn [fst cps end_cp mbase win with_base base] in *.
      rewrite (inflight_aremove tid _ _ Hnd Hp). cbn [hitZ].
      unfold eqm in *. rewrite <- Hb.
      replace (acct s' + (inflight (cps ms) - 0) - s_hits (st s')) with ((acct s' - s_hits (st s')) + inflight (cps ms)) by lia.
      replace (acct (mbase ms) + inflight (cps ms) - s_hits (st (mbase ms))) with ((acct (mbase ms) - s_hits (st (mbase ms))) + inflight (cps ms)) by lia.
      rewrite <- Zplus_mod_idemp_l. rewrite R3. rewrite Zplus_mod_idemp_l. reflexivity.
    + unfold read_lookup. destruct (lookup_alive k (mbase ms)) as [e|]; intros Hsh HS'.
      * constructor; [exact HS'|cbn [fst cps set_cp]; apply NoDup_aset; exact Hnd|exact Hbs|].
        unfold mbal in *. cbn [fst cps set_cp mbase win with_base base] in *.
        rewrite (inflight_aset tid _ _ _ Hnd Hp). cbn [hitZ].
        assert (Hh : s_hits (st (upd_st add_hits 1 (mbase ms))) = wrap_u64 (s_hits (st (mbase ms)) + 1)) by reflexivity.
        assert (Ha : acct (upd_st add_hits 1 (mbase ms)) = acct (mbase ms)) by reflexivity.
        rewrite Hh, Ha. unfold eqm in *. unfold wrap_u64.
        rewrite <- Hb. rewrite <- (Zminus_mod_idemp_r _ ((s_hits (st (mbase ms)) + 1) mod two64)).
        rewrite Z.mod_mod by (unfold two64; lia). rewrite Zminus_mod_idemp_r. f_equal. lia.
      * eapply MStat_same; [exact HM|exact HS'| | | | |]; cbn [fst cps end_cp mbase win with_base base]; try reflexivity.
        -- apply NoDup_aremove; exact Hnd.
        -- rewrite (inflight_aremove tid _ _ Hnd Hp). cbn [hitZ]. lia.
    + unfold read_body. destruct (read_one cfg k idxs (mbase ms)) as [[[v s'] [|i l]]|] eqn:Hr; intros Hsh HS';
        try (eapply MStat_frame; [exact HM|exact HS'| | apply qframe_refl |]; cbn [fst cps end_cp];
             [apply NoDup_aremove; exact Hnd|rewrite (inflight_aremove tid _ _ Hnd Hp); cbn [hitZ]; lia]).
      destruct (read_one_acct cfg k idxs _ _ _ _ Hr) as (R1 & R2 & R3 & _).
      constructor; [exact HS'|cbn [fst cps end_cp]; apply NoDup_aremove; exact Hnd|
                    cbn [fst mbase end_cp win with_base base]; eapply blocked_sends_eq; [exact R2|exact Hbs]|].
      unfold mbal in *. cbn [fst cps end_cp mbase win with_base base] in *.
      rewrite (inflight_aremove tid _ _ Hnd Hp). cbn [hitZ].
      unfold eqm in *. rewrite <- Hb.
      replace (acct s' + (inflight (cps ms) - 0) - s_hits (st s')) with ((acct s' - s_hits (st s')) + inflight (cps ms)) by lia.
      replace (acct (mbase ms) + inflight (cps ms) - s_hits (st (mbase ms))) with ((acct (mbase ms) - s_hits (st (mbase ms))) + inflight (cps ms)) by lia.
      rewrite <- Zplus_mod_idemp_l. rewrite R3. rewrite Zplus_mod_idemp_l. reflexivity.
  - cbv zeta. intros Hsh HS'. eapply MStat_frame; [exact HM|exact HS'| | |]; cbn [fst cps set_cp mbase win with_base base].
    + apply NoDup_aset; exact Hnd.
    + eapply qframe_trans; [apply set_next_id_qframe|apply park_qframe].
    + rewrite (inflight_aset tid _ _ _ Hnd Hp). cbn [hitZ]. lia.
  - destruct (alookup tid (blocked (mbase ms))) as [[c| |]|] eqn:Hlk; try (intros; exact HM).
    destruct (do_send cfg tid c (set_blocked (mbase ms) (aremove tid (blocked (mbase ms))))) as [s' ret] eqn:E.
    intros Hsh HS'. eapply MStat_frame; [exact HM|exact HS'| | |]; cbn [fst cps end_cp mbase win with_base base].
    + apply NoDup_aremove; exact Hnd.
    + eapply qframe_trans; [apply unblock_qframe|eapply do_send_q; exact E].
    + rewrite (inflight_aremove tid _ _ Hnd Hp). cbn [hitZ]. lia.
  - destruct idxs as [|i [|j l]]; try (intros; exact HM).
    destruct (pool_add cfg i h (mbase ms)) as [s'|] eqn:Hpa; [|intros; exact HM].
    intros Hsh HS'. destruct (pool_add_acct cfg i h _ _ Hpa) as (P1 & P2 & P3 & _ & P5).
    constructor; [exact HS'|cbn [fst cps end_cp]; apply NoDup_aremove; exact Hnd|
                  cbn [fst mbase end_cp win with_base base]; eapply blocked_sends_eq; [exact P2|exact Hbs]|].
    cbn [fst cps end_cp mbase win with_base base] in *. unfold mbal in *. cbn [fst cps end_cp mbase win with_base base].
    + rewrite (inflight_aremove tid _ _ Hnd Hp). cbn [hitZ]. rewrite P3.
      unfold eqm in *. rewrite <- Hb.
      replace (acct s' + (inflight (cps ms) - 1) - s_hits (st (mbase ms))) with (acct s' + (inflight (cps ms) - 1 - s_hits (st (mbase ms)))) by lia.
      rewrite <- Zplus_mod_idemp_l. rewrite P5. rewrite Zplus_mod_idemp_l. f_equal. lia.
  - contradiction.
Qed.

Lemma sum_stat : forall ms s' n ret, MStat ms -> shut s' = false ->
  (sumN (mbase ms) s' n ret \/ (sumB (mbase ms) s' /\ n = 0)) -> MStat (with_mbase ms s').
Proof.
  intros ms s' n ret [HS Hnd Hbs Hb] Hsh [(N1 & N2 & N3 & _)|((B1 & _) & _)].
  - constructor.
    + destruct HS as [Hu Hp Hw Hc]. constructor; assumption.
    + exact Hnd.
    + apply N2. exact Hbs.
    + unfold mbal in *. cbn [mbase with_mbase win with_base base cps]. unfold mbase in *.
      eapply eqm_trans; [|exact Hb]. eapply eqm_shift; [exact N3|]. lia.
  - exfalso. destruct B1 as [B1|B1]; [congruence|contradiction].
Qed.

Lemma plain_forms : forall ev, plain_micro ev ->
  (forall e0, ev = MWin e0 -> exists b, e0 = WBase b) /\ (forall orc, ev <> MWorker1 orc) /\ ev <> MWorker2.
Proof.
  intros ev H. destruct ev as [e| | | |]; try contradiction; repeat split; try discriminate;
    intros e0 He; try discriminate.
  inversion He; subst. destruct e0; try contradiction. eexists; reflexivity.
Qed.

Lemma mstat_step : forall cfg ms ev, MStat ms -> plain_micro ev ->
  shut (mbase (fst (mstep cfg ms ev))) = false -> MStat (fst (mstep cfg ms ev)).
Proof.
  intros cfg ms ev HM Hev Hsh. pose proof HM as [HS Hnd Hbs Hb].
  destruct ev as [e|tid r idxs|tid idxs|orc|]; try contradiction.
  - destruct e as [b| | | |]; try contradiction.
    rewrite (mwin_base_eq cfg ms b (sh_ups ms HS) (sh_wp ms HS)) in *.
    destruct (mwin_enabled ms (WBase b)); [|exact HM]. cbn [fst] in *.
    destruct (step cfg (mbase ms) b) as [s' ret] eqn:E. cbn [fst snd] in *.
    eapply sum_stat; [exact HM|exact Hsh|]. exact (step_summary cfg _ _ _ _ E).
  - destruct Hev as (_ & Hnu & Hns). cbn [mstep] in *. revert Hsh. unfold menter.
    destruct (negb (caller_free ms tid)) eqn:Hfree; [intros; exact HM|].
    destruct (shut (mbase ms) || negb (micro_request r) || early_panic cfg r).
    + destruct (call cfg tid r idxs (mbase ms)) as [s' ret] eqn:E. cbn [fst]. intros Hsh.
      eapply sum_stat; [exact HM|exact Hsh|]. exact (call_summary cfg _ _ _ _ _ _ E).
    + assert (Hfr : alookup tid (cps ms) = None).
      { apply negb_false_iff in Hfree. destruct (caller_free_spec ms tid Hfree) as (Hc & _). apply amem_false_alookup. exact Hc. }
      destruct r; try (exfalso; eapply Hnu; reflexivity); try (exfalso; apply Hns; reflexivity);
        (cbn [fst]; intros Hsh; eapply MStat_same; [exact HM| | | | | |]; cbn [cps set_cp mbase win with_base base]; try reflexivity;
         [apply (cform_shape ms tid); [exact HS|constructor; exact I]|apply NoDup_aset; exact Hnd|
          rewrite (inflight_aset_fresh tid _ _ Hfr); cbn [hitZ]; lia]).
  - cbn [mstep] in *. apply mstepc_stat; assumption.
Qed.

Lemma mstat_init : forall cfg, MStat (minit cfg).
Proof.
  intros cfg. constructor.
  - constructor; try reflexivity. intros tid p H. discriminate.
  - constructor.
  - intros tid k H. discriminate.
  - unfold mbal, acct, pool_total, inflight. cbn. rewrite zsum_repeat_nil. reflexivity.
Qed.

Lemma mrun_snoc : forall cfg ms evs ev, mrun_from cfg ms (evs ++ [ev]) = fst (mstep cfg (mrun_from cfg ms evs) ev).
Proof. intros. unfold mrun_from. rewrite fold_left_app. reflexivity. Qed.

Lemma mstat_run : forall cfg evs, Forall plain_micro evs ->
  shut (mbase (mrun cfg evs)) = false -> MStat (mrun cfg evs).
Proof.
  intros cfg evs. induction evs as [|ev evs IH] using rev_ind; intros Hall Hsh.
  - apply mstat_init.
  - unfold mrun in *. rewrite mrun_snoc in *.
    apply Forall_app in Hall as (Hall & Hev). inversion Hev as [|x xs Hp _]; subst.
    assert (Hsh0 : shut (mbase (mrun_from cfg (minit cfg) evs)) = false).
    { destruct (shut (mbase (mrun_from cfg (minit cfg) evs))) eqn:E; [|reflexivity].
      destruct (plain_forms ev Hp) as (F1 & F2 & F3).
      rewrite (micro_shut_stable cfg _ ev F1 F2 F3 E) in Hsh. discriminate. }
    apply mstat_step; [apply IH; assumption|exact Hp|exact Hsh].
Qed.

(* STATEMENT (C15 for every interleaving of the micro steps of puts, deletes and reads with each other and with whole
   events of the atomic model): while the flag is down, every hit is either still in flight between Store::get and
   Pool::add, buffered, delivered or counted as dropped - never lost, never counted twice (counters are u64: modulo 2^64) *)
Lemma micro_hits_accounted_run : forall cfg evs, Forall plain_micro evs ->
  let ms := mrun cfg evs in
  shut (mbase ms) = false ->
  (pool_total (mbase ms) + s_access_added (st (mbase ms)) + s_access_dropped (st (mbase ms)) + inflight_hits ms) mod two64
  = s_hits (st (mbase ms)) mod two64.
Proof.
  intros cfg evs Hall ms Hsh. subst ms.
  pose proof (ms_bal _ (mstat_run cfg evs Hall Hsh)) as Hb.
  unfold mbal, acct in Hb. rewrite inflight_hits_eq.
  change (eqm (pool_total (mbase (mrun cfg evs)) + s_access_added (st (mbase (mrun cfg evs))) +
               s_access_dropped (st (mbase (mrun cfg evs))) + inflight (cps (mrun cfg evs))) (s_hits (st (mbase (mrun cfg evs))))).
  eapply eqm_shift; [exact Hb|]. lia.
Qed.

(** a read stopped at `read.hit`: one hit counted, nothing buffered yet *)
Definition read_in_flight : list mevent :=
  [MEnter 0 (RPutW 1 10 5) []; MStepC 0 []; MStepC 0 []; MStepC 0 []; MWin (WBase (EWorker orc0));
   MEnter 1 (RGet 1) []; MStepC 1 []].

(* STATEMENT: the in-flight term is needed and the premises are satisfiable *)
Lemma read_in_flight_witness :
  let ms := mrun mcfg read_in_flight in
  Forall plain_micro read_in_flight /\ shut (mbase ms) = false /\
  s_hits (st (mbase ms)) = 1 /\ pool (mbase ms) = [[]] /\ s_access_added (st (mbase ms)) = 0 /\
  s_access_dropped (st (mbase ms)) = 0 /\ inflight_hits ms = 1.
Proof.
  cbv zeta. split.
  - unfold read_in_flight. repeat constructor; cbn; try lia; try discriminate; intros; discriminate.
  - vm_compute. repeat split; reflexivity.
Qed.
