(** Proofs about the micro-step model (Micro.v).
    Part A: the micro steps of one call, executed back to back, are the atomic call of Model.v (same state, same
            observation), for every request except put_or_update, whose two halves are Window.v's; the three steps of the
            worker's Delete are the atomic worker step.
    Part B: what survives arbitrary overtaking between the micro steps of puts, deletes and reads: the core invariant
            [Inv] (hence exact accounting, the bounds on the total), the hiding of soft-deleted entries, the
            acknowledgement / shutdown flag monotonicity, the hit accounting with in-flight records. *)
From CacheD Require Import Base Sketch Model Window Micro.
From CacheD.proofs Require Import Defs AListLemmas InvLemmas InvOps InvCalls InvWorker InvProofs WindowProofs.
From Coq Require Import ZifyBool.

(** * association lists *)
Lemma aremove_idem : forall (A : Type) k (l : list (Z * A)), aremove k (aremove k l) = aremove k l.
Proof.
  intros A k l. apply aremove_notin. apply alookup_aremove_eq.
Qed.

Lemma aset_aset : forall (A : Type) k (u v : A) (l : list (Z * A)), aset k v (aset k u l) = aset k v l.
Proof.
  intros A k u v l. unfold aset. cbn [aremove]. rewrite Z.eqb_refl, aremove_idem. reflexivity.
Qed.

Lemma amem_aset_eq : forall (A : Type) k (v : A) (l : list (Z * A)), amem k (aset k v l) = true.
Proof. intros A k v l. unfold amem. rewrite alookup_aset_eq. reflexivity. Qed.

Lemma aremove_fresh : forall (A : Type) k (l : list (Z * A)), amem k l = false -> aremove k l = l.
Proof. intros A k l H. apply aremove_notin. apply amem_false_alookup. exact H. Qed.

(** * Part A: back-to-back micro steps are the atomic step *)

Lemma caller_free_spec : forall ms tid, caller_free ms tid = true ->
  amem tid (cps ms) = false /\ amem tid (ups (win ms)) = false /\ amem tid (blocked (mbase ms)) = false.
Proof.
  intros ms tid H. unfold caller_free in H.
  destruct (amem tid (cps ms)); [discriminate|].
  destruct (amem tid (ups (win ms))); [discriminate|].
  destruct (amem tid (blocked (mbase ms))); [discriminate|]. auto.
Qed.

Lemma unpark_park : forall tid c s, amem tid (blocked s) = false ->
  set_blocked (park tid c s) (aremove tid (blocked (park tid c s))) = s.
Proof.
  intros tid c s H. unfold park. cbn [blocked set_blocked].
  rewrite (aremove_aset_fresh _ tid (KSend c) (blocked s) H). destruct s. reflexivity.
Qed.

Lemma park_lookup : forall tid c s, alookup tid (blocked (park tid c s)) = Some (KSend c).
Proof. intros. unfold park. cbn [blocked set_blocked]. apply alookup_aset_eq. Qed.

(** the end of a split call: the caller's entry disappears again *)
Lemma end_cp_fresh : forall ms s tid p, amem tid (cps ms) = false ->
  end_cp (set_cp ms s tid p) s tid = with_mbase ms s.
Proof.
  intros ms s tid p H. unfold end_cp, set_cp, with_mbase. cbn [win cps wdel with_base base ups wpending].
  rewrite (aremove_aset_fresh _ tid p (cps ms) H). reflexivity.
Qed.

Lemma set_cp_twice : forall ms s s' tid p q, set_cp (set_cp ms s tid p) s' tid q = set_cp ms s' tid q.
Proof.
  intros. unfold set_cp. cbn [win cps wdel with_base base ups wpending]. rewrite aset_aset. reflexivity.
Qed.

Lemma end_cp_set_cp : forall ms s s' tid p, amem tid (cps ms) = false ->
  end_cp (set_cp ms s tid p) s' tid = with_mbase ms s'.
Proof.
  intros ms s s' tid p H. unfold end_cp, set_cp, with_mbase. cbn [win cps wdel with_base base ups wpending].
  rewrite (aremove_aset_fresh _ tid p (cps ms) H). reflexivity.
Qed.

Lemma mbase_set_cp : forall ms s tid p, mbase (set_cp ms s tid p) = s.
Proof. reflexivity. Qed.
Lemma cps_set_cp : forall ms s tid p, alookup tid (cps (set_cp ms s tid p)) = Some p.
Proof. intros. unfold set_cp. cbn [cps]. apply alookup_aset_eq. Qed.

(** ** puts *)
Lemma put_steps_atomic : forall cfg ms tid r k v w ttl idxs,
  amem tid (cps ms) = false -> amem tid (blocked (mbase ms)) = false ->
  (forall ms', mbase ms' = mbase ms -> alookup tid (cps ms') = Some (PEntered r) ->
     mstepc cfg ms' tid idxs = put_check ms' tid k v w ttl) ->
  mcall_steps 7 cfg tid idxs (set_cp ms (mbase ms) tid (PEntered r)) [9] =
  (with_mbase ms (fst (call_put cfg tid k v w ttl (mbase ms))), snd (call_put cfg tid k v w ttl (mbase ms))).
Proof.
  intros cfg ms tid r k v w ttl idxs Hc Hb Hstep.
  set (s := mbase ms) in *.
  cbn [mcall_steps stopped].
  rewrite (Hstep (set_cp ms s tid (PEntered r)) eq_refl (cps_set_cp ms s tid (PEntered r))).
  unfold put_check, call_put. rewrite mbase_set_cp.
  destruct (w <=? 0) eqn:Hw.
  { cbn [mcall_steps stopped fst snd]. rewrite end_cp_fresh by exact Hc. reflexivity. }
  destruct (amem k (store s)) eqn:Hp.
  { cbn [mcall_steps stopped fst snd status_code]. rewrite end_cp_fresh by exact Hc. reflexivity. }
  rewrite set_cp_twice. cbn [mcall_steps stopped].
  unfold mstepc at 1. rewrite cps_set_cp, mbase_set_cp. cbv zeta.
  rewrite set_cp_twice. cbn [mcall_steps stopped].
  unfold mstepc at 1. rewrite cps_set_cp, mbase_set_cp. cbv zeta.
  rewrite park_lookup.
  rewrite unpark_park by exact Hb.
  destruct ttl as [t|].
  - destruct (do_send cfg tid (CPutTTL k v (next_id s) (key_hash (c_hash cfg) k) w t) (set_next_id s (next_id s + 1))) as [s' ret] eqn:E.
    cbn [mcall_steps fst snd].
    rewrite end_cp_set_cp by exact Hc.
    assert (Hns : stopped ret = false).
    { unfold do_send in E. destruct (worker (set_next_id s (next_id s + 1)));
        [destruct (Z.of_nat (length (queue (set_next_id s (next_id s + 1)))) <? c_queue cfg)| | |];
        inversion E; reflexivity. }
    rewrite Hns. reflexivity.
  - destruct (do_send cfg tid (CPut k v (next_id s) (key_hash (c_hash cfg) k) w) (set_next_id s (next_id s + 1))) as [s' ret] eqn:E.
    cbn [mcall_steps fst snd].
    rewrite end_cp_set_cp by exact Hc.
    assert (Hns : stopped ret = false).
    { unfold do_send in E. destruct (worker (set_next_id s (next_id s + 1)));
        [destruct (Z.of_nat (length (queue (set_next_id s (next_id s + 1)))) <? c_queue cfg)| | |];
        inversion E; reflexivity. }
    rewrite Hns. reflexivity.
Qed.

Lemma do_send_not_stopped : forall cfg tid c s, stopped (snd (do_send cfg tid c s)) = false.
Proof.
  intros cfg tid c s. unfold do_send.
  destruct (worker s); [destruct (Z.of_nat (length (queue s)) <? c_queue cfg)| | |]; reflexivity.
Qed.

(** ** delete *)
Lemma delete_steps_atomic : forall cfg ms tid k idxs,
  amem tid (cps ms) = false -> amem tid (blocked (mbase ms)) = false ->
  mcall_steps 7 cfg tid idxs (set_cp ms (mbase ms) tid (PEntered (RDelete k))) [9] =
  (with_mbase ms (fst (do_send cfg tid (CDelete k) (soft_mark k (mbase ms)))),
   snd (do_send cfg tid (CDelete k) (soft_mark k (mbase ms)))).
Proof.
  intros cfg ms tid k idxs Hc Hb. set (s := mbase ms) in *.
  cbn [mcall_steps stopped].
  unfold mstepc at 1. rewrite cps_set_cp, mbase_set_cp. cbv zeta.
  rewrite set_cp_twice. cbn [mcall_steps stopped].
  unfold mstepc at 1. rewrite cps_set_cp, mbase_set_cp. cbv zeta.
  rewrite park_lookup.
  assert (Hb' : amem tid (blocked (soft_mark k s)) = false).
  { unfold soft_mark. destruct (alookup k (store s)); exact Hb. }
  rewrite unpark_park by exact Hb'.
  pose proof (do_send_not_stopped cfg tid (CDelete k) (soft_mark k s)) as Hns.
  destruct (do_send cfg tid (CDelete k) (soft_mark k s)) as [s' ret]. cbn [snd] in Hns.
  cbn [mcall_steps fst snd]. rewrite Hns. rewrite end_cp_set_cp by exact Hc. reflexivity.
Qed.

(** ** single-key reads *)
Lemma read_lookup_atomic : forall cfg ms tid k f idxs p,
  amem tid (cps ms) = false ->
  (match read_one cfg k idxs (mbase ms) with Some (_, _, []) => True | _ => False end) ->
  mcall_steps 6 cfg tid idxs (fst (read_lookup cfg (set_cp ms (mbase ms) tid p) tid k f))
              (snd (read_lookup cfg (set_cp ms (mbase ms) tid p) tid k f)) =
  (with_mbase ms (fst (read_body cfg k f idxs (mbase ms))), snd (read_body cfg k f idxs (mbase ms))).
Proof.
  intros cfg ms tid k f idxs p Hc Hadm. set (s := mbase ms) in *.
  unfold read_lookup, read_body. rewrite mbase_set_cp.
  unfold read_one in *.
  destruct (lookup_alive k s) as [e|] eqn:Hl.
  - rewrite set_cp_twice. cbn [fst snd mcall_steps stopped].
    unfold mstepc at 1. rewrite cps_set_cp, mbase_set_cp. cbv zeta.
    destruct idxs as [|i idxs']; [contradiction|].
    destruct (pool_add cfg i (key_hash (c_hash cfg) k) (upd_st add_hits 1 s)) as [s'|] eqn:Hp; [|contradiction].
    destruct idxs' as [|j idxs'']; [|contradiction].
    rewrite end_cp_set_cp by exact Hc. cbn [fst snd].
    destruct (e_val e =? -1); reflexivity.
  - cbn [fst snd]. destruct idxs as [|i idxs']; [|contradiction].
    rewrite end_cp_set_cp by exact Hc. cbn [mcall_steps stopped]. rewrite Z.eqb_refl. reflexivity.
Qed.

(** ** shutdown *)
Lemma mcall_steps_S : forall f cfg tid idxs ms,
  mcall_steps (S f) cfg tid idxs ms [9] = let '(ms', ret) := mstepc cfg ms tid idxs in mcall_steps f cfg tid idxs ms' ret.
Proof. reflexivity. Qed.
Lemma mcall_steps_stop : forall f cfg tid idxs ms last, stopped last = false -> mcall_steps f cfg tid idxs ms last = (ms, last).
Proof. intros f cfg tid idxs ms last H. destruct f; cbn [mcall_steps]; [reflexivity|]. rewrite H. reflexivity. Qed.

Lemma mstepc_shut : forall cfg ms tid idxs n, alookup tid (cps ms) = Some (PShut n) ->
  mstepc cfg ms tid idxs = shutdown_stage cfg ms tid n.
Proof. intros cfg ms tid idxs n H. unfold mstepc. rewrite H. reflexivity. Qed.

Lemma stage2 : forall cfg ms tid, shutdown_stage cfg ms tid 2 = (set_cp ms (set_sweeper_run (mbase ms) false) tid (PShut 3), [9]).
Proof. reflexivity. Qed.
Lemma stage3 : forall cfg ms tid, shutdown_stage cfg ms tid 3 = (set_cp ms (set_store (mbase ms) []) tid (PShut 4), [9]).
Proof. reflexivity. Qed.
Lemma stage4 : forall cfg ms tid, shutdown_stage cfg ms tid 4 =
  (set_cp ms (set_st (set_lfu (set_used (set_weights (mbase ms) []) 0) (lfu_clear (lfu (mbase ms)))) stats_zero) tid (PShut 5), [9]).
Proof. reflexivity. Qed.
Lemma stage5 : forall cfg ms tid, shutdown_stage cfg ms tid 5 = (end_cp ms (set_ticker (mbase ms) []) tid, [5]).
Proof. reflexivity. Qed.
Lemma stage1 : forall cfg ms tid, shutdown_stage cfg ms tid 1 =
  match consumer (mbase ms) with
  | Alive =>
      if Z.of_nat (length (chan (mbase ms))) <? chan_capacity
      then (set_cp ms (set_consumer_run (set_chan (mbase ms) (chan (mbase ms) ++ [ChanShutdown])) false) tid (PShut 2), [9])
      else (end_cp ms (set_blocked (mbase ms) (aset tid KShutdownChan (blocked (mbase ms)))) tid, [3; 1])
  | _ => (set_cp ms (set_consumer_run (mbase ms) false) tid (PShut 2), [9])
  end.
Proof. reflexivity. Qed.
Lemma stage0 : forall cfg ms tid, shutdown_stage cfg ms tid 0 =
  match worker (mbase ms) with
  | Alive =>
      if Z.of_nat (length (queue (mbase ms))) <? c_queue cfg
      then (set_cp ms (set_queue (mbase ms) (queue (mbase ms) ++ [(CShutdown, -1)])) tid (PShut 1), [9])
      else (end_cp ms (set_blocked (mbase ms) (aset tid KShutdownCmd (blocked (mbase ms)))) tid, [3; 0])
  | _ => (set_cp ms (mbase ms) tid (PShut 1), [9])
  end.
Proof. reflexivity. Qed.

Ltac shut_stage lem :=
  rewrite mcall_steps_S; rewrite (mstepc_shut _ _ _ _ _ (cps_set_cp _ _ _ _)); rewrite lem; rewrite ?mbase_set_cp.

Lemma shutdown_tail_atomic : forall cfg ms tid idxs s0 s2 p,
  amem tid (cps ms) = false ->
  mcall_steps 5 cfg tid idxs (set_cp (set_cp ms s0 tid p) (set_consumer_run s2 false) tid (PShut 2)) [9] =
  (with_mbase ms (shutdown_finish s2), [5]).
Proof.
  intros cfg ms tid idxs s0 s2 p Hc.
  rewrite set_cp_twice.
  shut_stage stage2. cbv beta iota zeta. rewrite set_cp_twice.
  shut_stage stage3. cbv beta iota zeta. rewrite set_cp_twice.
  shut_stage stage4. cbv beta iota zeta. rewrite set_cp_twice.
  shut_stage stage5. cbv beta iota zeta. rewrite end_cp_set_cp by exact Hc.
  rewrite mcall_steps_stop by reflexivity. destruct s2. reflexivity.
Qed.

Lemma shutdown_chan_steps_atomic : forall cfg ms tid idxs s0 s1 p,
  amem tid (cps ms) = false ->
  mcall_steps 6 cfg tid idxs (set_cp (set_cp ms s0 tid p) s1 tid (PShut 1)) [9] =
  (with_mbase ms (fst (shutdown_chan tid s1)), snd (shutdown_chan tid s1)).
Proof.
  intros cfg ms tid idxs s0 s1 p Hc.
  rewrite set_cp_twice.
  shut_stage stage1. unfold shutdown_chan.
  destruct (consumer s1) eqn:Hco.
  - destruct (Z.of_nat (length (chan s1)) <? chan_capacity) eqn:Hroom; cbv beta iota zeta.
    + rewrite (shutdown_tail_atomic cfg ms tid idxs s1 (set_chan s1 (chan s1 ++ [ChanShutdown])) (PShut 1) Hc).
      reflexivity.
    + rewrite end_cp_set_cp by exact Hc. rewrite mcall_steps_stop by reflexivity. reflexivity.
  - cbv beta iota zeta. rewrite (shutdown_tail_atomic cfg ms tid idxs s1 s1 (PShut 1) Hc). reflexivity.
  - cbv beta iota zeta. rewrite (shutdown_tail_atomic cfg ms tid idxs s1 s1 (PShut 1) Hc). reflexivity.
  - cbv beta iota zeta. rewrite (shutdown_tail_atomic cfg ms tid idxs s1 s1 (PShut 1) Hc). reflexivity.
Qed.

Lemma shutdown_steps_atomic : forall cfg ms tid idxs s1,
  amem tid (cps ms) = false ->
  mcall_steps 7 cfg tid idxs (set_cp ms s1 tid (PShut 0)) [9] =
  (with_mbase ms (fst (shutdown_cmd cfg tid s1)), snd (shutdown_cmd cfg tid s1)).
Proof.
  intros cfg ms tid idxs s1 Hc.
  shut_stage stage0. unfold shutdown_cmd.
  destruct (worker s1) eqn:Hwk.
  - destruct (Z.of_nat (length (queue s1)) <? c_queue cfg) eqn:Hroom; cbv beta iota zeta.
    + apply (shutdown_chan_steps_atomic cfg ms tid idxs s1 (set_queue s1 (queue s1 ++ [(CShutdown, -1)])) (PShut 0) Hc).
    + rewrite end_cp_set_cp by exact Hc. rewrite mcall_steps_stop by reflexivity. reflexivity.
  - cbv beta iota zeta. apply (shutdown_chan_steps_atomic cfg ms tid idxs s1 s1 (PShut 0) Hc).
  - cbv beta iota zeta. apply (shutdown_chan_steps_atomic cfg ms tid idxs s1 s1 (PShut 0) Hc).
  - cbv beta iota zeta. apply (shutdown_chan_steps_atomic cfg ms tid idxs s1 s1 (PShut 0) Hc).
Qed.

(** ** the whole call *)
Definition pool_admissible (cfg : config) (r : request) (idxs : list Z) (s : state) : Prop :=
  match r with
  | RGet k | RMapGet k => match read_one cfg k idxs s with Some (_, _, []) => True | _ => False end
  | _ => True
  end.

Lemma call_shut_not_stopped : forall cfg tid r idxs s, shut s = true -> stopped (snd (call cfg tid r idxs s)) = false.
Proof.
  intros cfg tid r idxs s Hs. unfold call. destruct (amem tid (blocked s)); [reflexivity|].
  destruct r; rewrite ?Hs; try reflexivity.
  destruct (weight_calc (c_wcalc cfg) k v false <=? 0); reflexivity.
Qed.

Lemma call_plain_not_stopped : forall cfg tid r idxs s, micro_request r = false -> stopped (snd (call cfg tid r idxs s)) = false.
Proof.
  intros cfg tid r idxs s Hm. unfold call. destruct (amem tid (blocked s)); [reflexivity|].
  destruct r; try discriminate Hm; try reflexivity;
    (destruct (shut s); [reflexivity|]; destruct (read_many cfg ks idxs s) as [[[vs s'] [|i l]]|]; reflexivity).
Qed.

Lemma read_body_not_stopped : forall cfg k f idxs s, stopped (snd (read_body cfg k f idxs s)) = false.
Proof.
  intros cfg k f idxs s. unfold read_body. destruct (read_one cfg k idxs s) as [[[v s'] [|i l]]|]; try reflexivity.
  cbn [snd]. destruct (v =? -1); reflexivity.
Qed.

(* STATEMENT: the micro steps of one call, executed back to back by a caller that is not inside another call, are the
   atomic call of Model.v: same state, same observation, and the caller is out of every window again *)
Lemma mcall_atomic : forall cfg tid r idxs ms,
  caller_free ms tid = true ->
  (forall k v w ttl rm, r <> RUpsert k v w ttl rm) ->
  pool_admissible cfg r idxs (mbase ms) ->
  mcall cfg tid r idxs ms =
  (with_mbase ms (fst (call cfg tid r idxs (mbase ms))), snd (call cfg tid r idxs (mbase ms))).
Proof.
  intros cfg tid r idxs ms Hfree Hnu Hadm.
  destruct (caller_free_spec ms tid Hfree) as (Hc & _ & Hb).
  unfold mcall, menter. rewrite Hfree. cbn [negb].
  destruct (shut (mbase ms)) eqn:Hsh.
  { cbn [orb]. pose proof (call_shut_not_stopped cfg tid r idxs (mbase ms) Hsh) as Hns.
    destruct (call cfg tid r idxs (mbase ms)) as [s' ret]. cbn [fst snd] in *. apply mcall_steps_stop. exact Hns. }
  destruct (micro_request r) eqn:Hm.
  2:{ cbn [orb negb]. pose proof (call_plain_not_stopped cfg tid r idxs (mbase ms) Hm) as Hns.
      destruct (call cfg tid r idxs (mbase ms)) as [s' ret]. cbn [fst snd] in *. apply mcall_steps_stop. exact Hns. }
  cbn [orb negb].
  destruct r; try discriminate Hm.
  - (* put *)
    unfold early_panic. destruct (weight_calc (c_wcalc cfg) k v false <=? 0) eqn:Hw.
    { unfold call. rewrite Hb, Hw. cbn [fst snd]. apply mcall_steps_stop. reflexivity. }
    rewrite (put_steps_atomic cfg ms tid (RPut k v) k v (weight_calc (c_wcalc cfg) k v false) None idxs Hc Hb).
    + unfold call. rewrite Hb, Hw, Hsh. reflexivity.
    + intros ms' _ Hl. unfold mstepc. rewrite Hl. reflexivity.
  - cbn [early_panic].
    rewrite (put_steps_atomic cfg ms tid (RPutW k v w) k v w None idxs Hc Hb).
    + unfold call. rewrite Hb, Hsh. reflexivity.
    + intros ms' _ Hl. unfold mstepc. rewrite Hl. reflexivity.
  - cbn [early_panic].
    rewrite (put_steps_atomic cfg ms tid (RPutTTL k v ttl) k v (weight_calc (c_wcalc cfg) k v true) (Some ttl) idxs Hc Hb).
    + unfold call. rewrite Hb, Hsh. reflexivity.
    + intros ms' _ Hl. unfold mstepc. rewrite Hl. reflexivity.
  - cbn [early_panic].
    rewrite (put_steps_atomic cfg ms tid (RPutWTTL k v w ttl) k v w (Some ttl) idxs Hc Hb).
    + unfold call. rewrite Hb, Hsh. reflexivity.
    + intros ms' _ Hl. unfold mstepc. rewrite Hl. reflexivity.
  - exfalso. eapply Hnu. reflexivity.
  - (* delete *)
    cbn [early_panic]. rewrite (delete_steps_atomic cfg ms tid k idxs Hc Hb).
    unfold call. rewrite Hb, Hsh. reflexivity.
  - (* get *)
    cbn [early_panic]. rewrite mcall_steps_S. unfold mstepc at 1. rewrite cps_set_cp. cbv beta iota zeta.
    pose proof (read_lookup_atomic cfg ms tid k (fun v => v) idxs (PEntered (RGet k)) Hc Hadm) as H.
    destruct (read_lookup cfg (set_cp ms (mbase ms) tid (PEntered (RGet k))) tid k (fun v => v)) as [ms1 ret1].
    cbn [fst snd] in H. rewrite H. unfold call. rewrite Hb, Hsh. reflexivity.
  - (* get_ref *)
    cbn [early_panic]. rewrite mcall_steps_S. unfold mstepc at 1. rewrite cps_set_cp, mbase_set_cp. cbv beta iota zeta.
    pose proof (read_body_not_stopped cfg k (fun v => v) idxs (mbase ms)) as Hns.
    destruct (read_body cfg k (fun v => v) idxs (mbase ms)) as [s' ret] eqn:E. cbn [snd] in Hns.
    rewrite end_cp_set_cp by exact Hc. rewrite mcall_steps_stop by exact Hns.
    unfold call. rewrite Hb, Hsh. unfold read_body in E. rewrite E. reflexivity.
  - (* map_get *)
    cbn [early_panic]. rewrite mcall_steps_S. unfold mstepc at 1. rewrite cps_set_cp. cbv beta iota zeta.
    pose proof (read_lookup_atomic cfg ms tid k mapped idxs (PEntered (RMapGet k)) Hc Hadm) as H.
    destruct (read_lookup cfg (set_cp ms (mbase ms) tid (PEntered (RMapGet k))) tid k mapped) as [ms1 ret1].
    cbn [fst snd] in H. rewrite H. unfold call. rewrite Hb, Hsh. reflexivity.
  - (* map_get_ref *)
    cbn [early_panic]. rewrite mcall_steps_S. unfold mstepc at 1. rewrite cps_set_cp, mbase_set_cp. cbv beta iota zeta.
    pose proof (read_body_not_stopped cfg k mapped idxs (mbase ms)) as Hns.
    destruct (read_body cfg k mapped idxs (mbase ms)) as [s' ret] eqn:E. cbn [snd] in Hns.
    rewrite end_cp_set_cp by exact Hc. rewrite mcall_steps_stop by exact Hns.
    unfold call. rewrite Hb, Hsh. unfold read_body in E. rewrite E. reflexivity.
  - (* shutdown *)
    cbn [early_panic]. rewrite (shutdown_steps_atomic cfg ms tid idxs (set_shut (mbase ms) true) Hc).
    unfold call. rewrite Hb, Hsh. reflexivity.
Qed.

(** ** put_or_update: entering and the first step are Window.v's first half *)
(* STATEMENT *)
Lemma mupsert_enter_is_half1 : forall cfg tid k v w ttl rm idxs ms,
  caller_free ms tid = true -> shut (mbase ms) = false ->
  let r1 := menter cfg ms tid (RUpsert k v w ttl rm) idxs in
  let r2 := mstepc cfg (fst r1) tid idxs in
  let h := wstep cfg (win ms) (WUpsert1 tid k v w ttl rm) in
  snd r1 = [9] /\ win (fst r2) = fst h /\ snd r2 = snd h /\ cps (fst r2) = cps ms /\ wdel (fst r2) = wdel ms.
Proof.
  intros cfg tid k v w ttl rm idxs ms Hfree Hsh.
  destruct (caller_free_spec ms tid Hfree) as (Hc & Hu & Hb).
  cbv zeta. unfold menter. rewrite Hfree, Hsh. cbn [negb orb micro_request early_panic fst snd].
  split; [reflexivity|].
  unfold mstepc. rewrite cps_set_cp, mbase_set_cp. cbv beta iota zeta.
  rewrite wstep_upsert1_eq. unfold mbase in *. rewrite Hu, Hb, Hsh. cbn [orb].
  destruct (upsert_half1 cfg k v w ttl rm (base (win ms))) as [[s' u]|[s' ret]].
  - cbn [fst snd win cps wdel set_cp]. rewrite (aremove_aset_fresh _ tid _ (cps ms) Hc). auto.
  - cbn [fst snd]. unfold end_cp, set_cp. cbn [win cps wdel with_base base ups wpending].
    rewrite (aremove_aset_fresh _ tid _ (cps ms) Hc). auto.
Qed.

(** ** the worker's Delete *)
Lemma mworker2_store : forall cfg ms a id exp, wdel ms = Some (WDStore a id exp) ->
  mworker2 cfg ms =
  match weights_delete cfg id false (mbase ms) with
  | Ok s2 => ({| win := with_base (win ms) s2; cps := cps ms; wdel := Some (WDWeight a id exp) |}, [9])
  | Panic site s2 => ({| win := with_base (win ms) (set_worker s2 Dead); cps := cps ms; wdel := None |}, [4; site])
  | Inadmissible why => (ms, [7; why])
  end.
Proof. intros cfg ms a id exp H. unfold mworker2. rewrite H. reflexivity. Qed.

Lemma mworker2_weight : forall cfg ms a id exp, wdel ms = Some (WDWeight a id exp) ->
  mworker2 cfg ms =
  ({| win := with_base (win ms)
               (set_ack a Accepted (match exp with
                                    | Some x => set_ticker (mbase ms) (ticker_delete cfg id x (ticker (mbase ms)))
                                    | None => mbase ms end));
      cps := cps ms; wdel := None |}, [5; 1]).
Proof. intros cfg ms a id exp H. unfold mworker2. rewrite H. reflexivity. Qed.

Lemma weights_delete_admissible : forall cfg id hook s why, weights_delete cfg id hook s <> Inadmissible why.
Proof.
  intros cfg id hook s why. unfold weights_delete.
  destruct (alookup id (weights s)); [|discriminate]. destruct (add_i64 cfg _ _); discriminate.
Qed.

(* STATEMENT: the three steps of the worker's Delete, back to back, are the atomic worker step *)
Lemma mdelete_atomic : forall cfg orc ms k a q,
  wdel ms = None -> wpending (win ms) = None -> worker (mbase ms) = Alive -> queue (mbase ms) = (CDelete k, a) :: q ->
  let r1 := mworker1 cfg ms orc in
  let r2 := if stopped (snd r1) then mworker2 cfg (fst r1) else r1 in
  let r3 := if stopped (snd r2) then mworker2 cfg (fst r2) else r2 in
  let atomic := worker_step cfg orc (mbase ms) in
  mbase (fst r3) = fst atomic /\ snd r3 = snd atomic /\ wdel (fst r3) = None /\ cps (fst r3) = cps ms /\
  ups (win (fst r3)) = ups (win ms) /\ wpending (win (fst r3)) = None.
Proof.
  intros cfg orc ms k a q Hwd Hwp Hwk Hq. cbv zeta.
  unfold mworker1, worker_step. rewrite Hwd, Hwp, Hwk, Hq.
  remember (set_queue (mbase ms) q) as s0 eqn:Hs0.
  destruct (alookup k (store s0)) as [e|] eqn:Hk.
  - cbn [fst snd stopped].
    remember (store_delete k s0) as sd eqn:Hsd.
    rewrite (mworker2_store cfg {| win := with_base (win ms) sd; cps := cps ms; wdel := Some (WDStore a (e_id e) (e_exp e)) |}
               a (e_id e) (e_exp e) eq_refl).
    cbn [win cps wdel].
    change (mbase {| win := with_base (win ms) sd; cps := cps ms; wdel := Some (WDStore a (e_id e) (e_exp e)) |}) with sd.
    destruct (weights_delete cfg (e_id e) false sd) as [s2|site s2|why] eqn:Hwdl.
    + cbn [fst snd stopped].
      rewrite (mworker2_weight cfg {| win := with_base (with_base (win ms) sd) s2; cps := cps ms; wdel := Some (WDWeight a (e_id e) (e_exp e)) |}
                 a (e_id e) (e_exp e) eq_refl).
      cbn [fst snd mbase win base with_base wdel cps ups wpending].
      destruct (e_exp e); repeat split; try reflexivity; exact Hwp.
    + cbn [fst snd stopped mbase win base with_base wdel cps ups wpending]. repeat split; try reflexivity; exact Hwp.
    + exfalso. exact (weights_delete_admissible cfg (e_id e) false sd why Hwdl).
  - cbn [fst snd stopped mbase with_mbase win base with_base wdel cps ups wpending].
    repeat split; try reflexivity; assumption.
Qed.
