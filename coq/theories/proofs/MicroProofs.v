(** Proofs about the micro-step model (Micro.v).
    Part A: the micro steps of one call, executed back to back, are the atomic call of Model.v (same state, same
            observation), for every request except put_or_update, whose two halves are Window.v's; the three steps of the
            worker's Delete are the atomic worker step.
    Part B: what survives arbitrary overtaking between the micro steps of puts, deletes and reads: the core invariant
            [Inv] (hence exact accounting, the bounds on the total), the hiding of soft-deleted entries, the
            acknowledgement / shutdown flag monotonicity, the hit accounting with in-flight records. *)
From CacheD Require Import Base Sketch Model Window Micro.
From CacheD.proofs Require Import Defs AListLemmas InvLemmas InvOps InvCalls InvWorker InvProofs WindowProofs.
From Coq Require Import ZifyBool.

(** * association lists *)
Lemma aremove_idem : forall (A : Type) k (l : list (Z * A)), aremove k (aremove k l) = aremove k l.
Proof.
  intros A k l. apply aremove_notin. apply alookup_aremove_eq.
Qed.

Lemma aset_aset : forall (A : Type) k (u v : A) (l : list (Z * A)), aset k v (aset k u l) = aset k v l.
Proof.
  intros A k u v l. unfold aset. cbn [aremove]. rewrite Z.eqb_refl, aremove_idem. reflexivity.
Qed.

Lemma amem_aset_eq : forall (A : Type) k (v : A) (l : list (Z * A)), amem k (aset k v l) = true.
Proof. intros A k v l. unfold amem. rewrite alookup_aset_eq. reflexivity. Qed.

Lemma aremove_fresh : forall (A : Type) k (l : list (Z * A)), amem k l = false -> aremove k l = l.
Proof. intros A k l H. apply aremove_notin. apply amem_false_alookup. exact H. Qed.

(** * Part A: back-to-back micro steps are the atomic step *)

Lemma caller_free_spec : forall ms tid, caller_free ms tid = true ->
  amem tid (cps ms) = false /\ amem tid (ups (win ms)) = false /\ amem tid (blocked (mbase ms)) = false.
Proof.
  intros ms tid H. unfold caller_free in H.
  destruct (amem tid (cps ms)); [discriminate|].
  destruct (amem tid (ups (win ms))); [discriminate|].
  destruct (amem tid (blocked (mbase ms))); [discriminate|]. auto.
Qed.

Lemma unpark_park : forall tid c s, amem tid (blocked s) = false ->
  set_blocked (park tid c s) (aremove tid (blocked (park tid c s))) = s.
Proof.
  intros tid c s H. unfold park. cbn [blocked set_blocked].
  rewrite (aremove_aset_fresh _ tid (KSend c) (blocked s) H). destruct s. reflexivity.
Qed.

Lemma park_lookup : forall tid c s, alookup tid (blocked (park tid c s)) = Some (KSend c).
Proof. intros. unfold park. cbn [blocked set_blocked]. apply alookup_aset_eq. Qed.

(** the end of a split call: the caller's entry disappears again *)
Lemma end_cp_fresh : forall ms s tid p, amem tid (cps ms) = false ->
  end_cp (set_cp ms s tid p) s tid = with_mbase ms s.
Proof.
  intros ms s tid p H. unfold end_cp, set_cp, with_mbase. cbn [win cps wdel with_base base ups wpending].
  rewrite (aremove_aset_fresh _ tid p (cps ms) H). reflexivity.
Qed.

Lemma set_cp_twice : forall ms s s' tid p q, set_cp (set_cp ms s tid p) s' tid q = set_cp ms s' tid q.
Proof.
  intros. unfold set_cp. cbn [win cps wdel with_base base ups wpending]. rewrite aset_aset. reflexivity.
Qed.

Lemma end_cp_set_cp : forall ms s s' tid p, amem tid (cps ms) = false ->
  end_cp (set_cp ms s tid p) s' tid = with_mbase ms s'.
Proof.
  intros ms s s' tid p H. unfold end_cp, set_cp, with_mbase. cbn [win cps wdel with_base base ups wpending].
  rewrite (aremove_aset_fresh _ tid p (cps ms) H). reflexivity.
Qed.

Lemma mbase_set_cp : forall ms s tid p, mbase (set_cp ms s tid p) = s.
Proof. reflexivity. Qed.
Lemma cps_set_cp : forall ms s tid p, alookup tid (cps (set_cp ms s tid p)) = Some p.
Proof. intros. unfold set_cp. cbn [cps]. apply alookup_aset_eq. Qed.

(** ** puts *)
Lemma put_steps_atomic : forall cfg ms tid r k v w ttl idxs,
  amem tid (cps ms) = false -> amem tid (blocked (mbase ms)) = false ->
  (forall ms', mbase ms' = mbase ms -> alookup tid (cps ms') = Some (PEntered r) ->
     mstepc cfg ms' tid idxs = put_check ms' tid k v w ttl) ->
  mcall_steps 7 cfg tid idxs (set_cp ms (mbase ms) tid (PEntered r)) [9] =
  (with_mbase ms (fst (call_put cfg tid k v w ttl (mbase ms))), snd (call_put cfg tid k v w ttl (mbase ms))).
Proof.
  intros cfg ms tid r k v w ttl idxs Hc Hb Hstep.
  set (s := mbase ms) in *.
  cbn [mcall_steps stopped].
  rewrite (Hstep (set_cp ms s tid (PEntered r)) eq_refl (cps_set_cp ms s tid (PEntered r))).
  unfold put_check, call_put. rewrite mbase_set_cp.
  destruct (w <=? 0) eqn:Hw.
  { cbn [mcall_steps stopped fst snd]. rewrite end_cp_fresh by exact Hc. reflexivity. }
  destruct (amem k (store s)) eqn:Hp.
  { cbn [mcall_steps stopped fst snd status_code]. rewrite end_cp_fresh by exact Hc. reflexivity. }
  rewrite set_cp_twice. cbn [mcall_steps stopped].
  unfold mstepc at 1. rewrite cps_set_cp, mbase_set_cp. cbv zeta.
  rewrite set_cp_twice. cbn [mcall_steps stopped].
  unfold mstepc at 1. rewrite cps_set_cp, mbase_set_cp. cbv zeta.
  rewrite park_lookup.
  rewrite unpark_park by exact Hb.
  destruct ttl as [t|].
  - destruct (do_send cfg tid (CPutTTL k v (next_id s) (key_hash (c_hash cfg) k) w t) (set_next_id s (next_id s + 1))) as [s' ret] eqn:E.
    cbn [mcall_steps fst snd].
    rewrite end_cp_set_cp by exact Hc.
    assert (Hns : stopped ret = false).
    { unfold do_send in E. destruct (worker (set_next_id s (next_id s + 1)));
        [destruct (Z.of_nat (length (queue (set_next_id s (next_id s + 1)))) <? c_queue cfg)| | |];
        inversion E; reflexivity. }
    rewrite Hns. reflexivity.
  - destruct (do_send cfg tid (CPut k v (next_id s) (key_hash (c_hash cfg) k) w) (set_next_id s (next_id s + 1))) as [s' ret] eqn:E.
    cbn [mcall_steps fst snd].
    rewrite end_cp_set_cp by exact Hc.
    assert (Hns : stopped ret = false).
    { unfold do_send in E. destruct (worker (set_next_id s (next_id s + 1)));
        [destruct (Z.of_nat (length (queue (set_next_id s (next_id s + 1)))) <? c_queue cfg)| | |];
        inversion E; reflexivity. }
    rewrite Hns. reflexivity.
Qed.

Lemma do_send_not_stopped : forall cfg tid c s, stopped (snd (do_send cfg tid c s)) = false.
Proof.
  intros cfg tid c s. unfold do_send.
  destruct (worker s); [destruct (Z.of_nat (length (queue s)) <? c_queue cfg)| | |]; reflexivity.
Qed.

(** ** delete *)
Lemma delete_steps_atomic : forall cfg ms tid k idxs,
  amem tid (cps ms) = false -> amem tid (blocked (mbase ms)) = false ->
  mcall_steps 7 cfg tid idxs (set_cp ms (mbase ms) tid (PEntered (RDelete k))) [9] =
  (with_mbase ms (fst (do_send cfg tid (CDelete k) (soft_mark k (mbase ms)))),
   snd (do_send cfg tid (CDelete k) (soft_mark k (mbase ms)))).
Proof.
  intros cfg ms tid k idxs Hc Hb. set (s := mbase ms) in *.
  cbn [mcall_steps stopped].
  unfold mstepc at 1. rewrite cps_set_cp, mbase_set_cp. cbv zeta.
  rewrite set_cp_twice. cbn [mcall_steps stopped].
  unfold mstepc at 1. rewrite cps_set_cp, mbase_set_cp. cbv zeta.
  rewrite park_lookup.
  assert (Hb' : amem tid (blocked (soft_mark k s)) = false).
  { unfold soft_mark. destruct (alookup k (store s)); exact Hb. }
  rewrite unpark_park by exact Hb'.
  pose proof (do_send_not_stopped cfg tid (CDelete k) (soft_mark k s)) as Hns.
  destruct (do_send cfg tid (CDelete k) (soft_mark k s)) as [s' ret]. cbn [snd] in Hns.
  cbn [mcall_steps fst snd]. rewrite Hns. rewrite end_cp_set_cp by exact Hc. reflexivity.
Qed.

(** ** single-key reads *)
Lemma read_lookup_atomic : forall cfg ms tid k f idxs p,
  amem tid (cps ms) = false ->
  (match read_one cfg k idxs (mbase ms) with Some (_, _, []) => True | _ => False end) ->
  mcall_steps 6 cfg tid idxs (fst (read_lookup cfg (set_cp ms (mbase ms) tid p) tid k f))
              (snd (read_lookup cfg (set_cp ms (mbase ms) tid p) tid k f)) =
  (with_mbase ms (fst (read_body cfg k f idxs (mbase ms))), snd (read_body cfg k f idxs (mbase ms))).
Proof.
  intros cfg ms tid k f idxs p Hc Hadm. set (s := mbase ms) in *.
  unfold read_lookup, read_body. rewrite mbase_set_cp.
  unfold read_one in *.
  destruct (lookup_alive k s) as [e|] eqn:Hl.
  - rewrite set_cp_twice. cbn [fst snd mcall_steps stopped].
    unfold mstepc at 1. rewrite cps_set_cp, mbase_set_cp. cbv zeta.
    destruct idxs as [|i idxs']; [contradiction|].
    destruct (pool_add cfg i (key_hash (c_hash cfg) k) (upd_st add_hits 1 s)) as [s'|] eqn:Hp; [|contradiction].
    destruct idxs' as [|j idxs'']; [|contradiction].
    rewrite end_cp_set_cp by exact Hc. cbn [fst snd].
    destruct (e_val e =? -1); reflexivity.
  - cbn [fst snd]. destruct idxs as [|i idxs']; [|contradiction].
    rewrite end_cp_set_cp by exact Hc. cbn [mcall_steps stopped]. rewrite Z.eqb_refl. reflexivity.
Qed.

(** ** shutdown *)
Lemma mcall_steps_S : forall f cfg tid idxs ms,
  mcall_steps (S f) cfg tid idxs ms [9] = let '(ms', ret) := mstepc cfg ms tid idxs in mcall_steps f cfg tid idxs ms' ret.
Proof. reflexivity. Qed.
Lemma mcall_steps_stop : forall f cfg tid idxs ms last, stopped last = false -> mcall_steps f cfg tid idxs ms last = (ms, last).
Proof. intros f cfg tid idxs ms last H. destruct f; cbn [mcall_steps]; [reflexivity|]. rewrite H. reflexivity. Qed.

Lemma mstepc_shut : forall cfg ms tid idxs n, alookup tid (cps ms) = Some (PShut n) ->
  mstepc cfg ms tid idxs = shutdown_stage cfg ms tid n.
Proof. intros cfg ms tid idxs n H. unfold mstepc. rewrite H. reflexivity. Qed.

Lemma stage2 : forall cfg ms tid, shutdown_stage cfg ms tid 2 = (set_cp ms (set_sweeper_run (mbase ms) false) tid (PShut 3), [9]).
Proof. reflexivity. Qed.
Lemma stage3 : forall cfg ms tid, shutdown_stage cfg ms tid 3 = (set_cp ms (set_store (mbase ms) []) tid (PShut 4), [9]).
Proof. reflexivity. Qed.
Lemma stage4 : forall cfg ms tid, shutdown_stage cfg ms tid 4 =
  (set_cp ms (set_st (set_lfu (set_used (set_weights (mbase ms) []) 0) (lfu_clear (lfu (mbase ms)))) stats_zero) tid (PShut 5), [9]).
Proof. reflexivity. Qed.
Lemma stage5 : forall cfg ms tid, shutdown_stage cfg ms tid 5 = (end_cp ms (set_ticker (mbase ms) []) tid, [5]).
Proof. reflexivity. Qed.
Lemma stage1 : forall cfg ms tid, shutdown_stage cfg ms tid 1 =
  match consumer (mbase ms) with
  | Alive =>
      if Z.of_nat (length (chan (mbase ms))) <? chan_capacity
      then (set_cp ms (set_consumer_run (set_chan (mbase ms) (chan (mbase ms) ++ [ChanShutdown])) false) tid (PShut 2), [9])
      else (end_cp ms (set_blocked (mbase ms) (aset tid KShutdownChan (blocked (mbase ms)))) tid, [3; 1])
  | _ => (set_cp ms (set_consumer_run (mbase ms) false) tid (PShut 2), [9])
  end.
Proof. reflexivity. Qed.
Lemma stage0 : forall cfg ms tid, shutdown_stage cfg ms tid 0 =
  match worker (mbase ms) with
  | Alive =>
      if Z.of_nat (length (queue (mbase ms))) <? c_queue cfg
      then (set_cp ms (set_queue (mbase ms) (queue (mbase ms) ++ [(CShutdown, -1)])) tid (PShut 1), [9])
      else (end_cp ms (set_blocked (mbase ms) (aset tid KShutdownCmd (blocked (mbase ms)))) tid, [3; 0])
  | _ => (set_cp ms (mbase ms) tid (PShut 1), [9])
  end.
Proof. reflexivity. Qed.

Ltac shut_stage lem :=
  rewrite mcall_steps_S; rewrite (mstepc_shut _ _ _ _ _ (cps_set_cp _ _ _ _)); rewrite lem; rewrite ?mbase_set_cp.

Lemma shutdown_tail_atomic : forall cfg ms tid idxs s0 s2 p,
  amem tid (cps ms) = false ->
  mcall_steps 5 cfg tid idxs (set_cp (set_cp ms s0 tid p) (set_consumer_run s2 false) tid (PShut 2)) [9] =
  (with_mbase ms (shutdown_finish s2), [5]).
Proof.
  intros cfg ms tid idxs s0 s2 p Hc.
  rewrite set_cp_twice.
  shut_stage stage2. cbv beta iota zeta. rewrite set_cp_twice.
  shut_stage stage3. cbv beta iota zeta. rewrite set_cp_twice.
  shut_stage stage4. cbv beta iota zeta. rewrite set_cp_twice.
  shut_stage stage5. cbv beta iota zeta. rewrite end_cp_set_cp by exact Hc.
  rewrite mcall_steps_stop by reflexivity. destruct s2. reflexivity.
Qed.

Lemma shutdown_chan_steps_atomic : forall cfg ms tid idxs s0 s1 p,
  amem tid (cps ms) = false ->
  mcall_steps 6 cfg tid idxs (set_cp (set_cp ms s0 tid p) s1 tid (PShut 1)) [9] =
  (with_mbase ms (fst (shutdown_chan tid s1)), snd (shutdown_chan tid s1)).
Proof.
  intros cfg ms tid idxs s0 s1 p Hc.
  rewrite set_cp_twice.
  shut_stage stage1. unfold shutdown_chan.
  destruct (consumer s1) eqn:Hco.
  - destruct (Z.of_nat (length (chan s1)) <? chan_capacity) eqn:Hroom; cbv beta iota zeta.
    + rewrite (shutdown_tail_atomic cfg ms tid idxs s1 (set_chan s1 (chan s1 ++ [ChanShutdown])) (PShut 1) Hc).
      reflexivity.
    + rewrite end_cp_set_cp by exact Hc. rewrite mcall_steps_stop by reflexivity. reflexivity.
  - cbv beta iota zeta. rewrite (shutdown_tail_atomic cfg ms tid idxs s1 s1 (PShut 1) Hc). reflexivity.
  - cbv beta iota zeta. rewrite (shutdown_tail_atomic cfg ms tid idxs s1 s1 (PShut 1) Hc). reflexivity.
  - cbv beta iota zeta. rewrite (shutdown_tail_atomic cfg ms tid idxs s1 s1 (PShut 1) Hc). reflexivity.
Qed.

Lemma shutdown_steps_atomic : forall cfg ms tid idxs s1,
  amem tid (cps ms) = false ->
  mcall_steps 7 cfg tid idxs (set_cp ms s1 tid (PShut 0)) [9] =
  (with_mbase ms (fst (shutdown_cmd cfg tid s1)), snd (shutdown_cmd cfg tid s1)).
Proof.
  intros cfg ms tid idxs s1 Hc.
  shut_stage stage0. unfold shutdown_cmd.
  destruct (worker s1) eqn:Hwk.
  - destruct (Z.of_nat (length (queue s1)) <? c_queue cfg) eqn:Hroom; cbv beta iota zeta.
    + apply (shutdown_chan_steps_atomic cfg ms tid idxs s1 (set_queue s1 (queue s1 ++ [(CShutdown, -1)])) (PShut 0) Hc).
    + rewrite end_cp_set_cp by exact Hc. rewrite mcall_steps_stop by reflexivity. reflexivity.
  - cbv beta iota zeta. apply (shutdown_chan_steps_atomic cfg ms tid idxs s1 s1 (PShut 0) Hc).
  - cbv beta iota zeta. apply (shutdown_chan_steps_atomic cfg ms tid idxs s1 s1 (PShut 0) Hc).
  - cbv beta iota zeta. apply (shutdown_chan_steps_atomic cfg ms tid idxs s1 s1 (PShut 0) Hc).
Qed.

(** ** the whole call *)
Definition pool_admissible (cfg : config) (r : request) (idxs : list Z) (s : state) : Prop :=
  match r with
  | RGet k | RMapGet k => match read_one cfg k idxs s with Some (_, _, []) => True | _ => False end
  | _ => True
  end.

Lemma call_shut_not_stopped : forall cfg tid r idxs s, shut s = true -> stopped (snd (call cfg tid r idxs s)) = false.
Proof.
  intros cfg tid r idxs s Hs. unfold call. destruct (amem tid (blocked s)); [reflexivity|].
  destruct r; rewrite ?Hs; try reflexivity.
  destruct (weight_calc (c_wcalc cfg) k v false <=? 0); reflexivity.
Qed.

Lemma call_plain_not_stopped : forall cfg tid r idxs s, micro_request r = false -> stopped (snd (call cfg tid r idxs s)) = false.
Proof.
  intros cfg tid r idxs s Hm. unfold call. destruct (amem tid (blocked s)); [reflexivity|].
  destruct r; try discriminate Hm; try reflexivity;
    (destruct (shut s); [reflexivity|]; destruct (read_many cfg ks idxs s) as [[[vs s'] [|i l]]|]; reflexivity).
Qed.

Lemma read_body_not_stopped : forall cfg k f idxs s, stopped (snd (read_body cfg k f idxs s)) = false.
Proof.
  intros cfg k f idxs s. unfold read_body. destruct (read_one cfg k idxs s) as [[[v s'] [|i l]]|]; try reflexivity.
  cbn [snd]. destruct (v =? -1); reflexivity.
Qed.

(* STATEMENT: the micro steps of one call, executed back to back by a caller that is not inside another call, are the
   atomic call of Model.v: same state, same observation, and the caller is out of every window again *)
Lemma mcall_atomic : forall cfg tid r idxs ms,
  caller_free ms tid = true ->
  (forall k v w ttl rm, r <> RUpsert k v w ttl rm) ->
  pool_admissible cfg r idxs (mbase ms) ->
  mcall cfg tid r idxs ms =
  (with_mbase ms (fst (call cfg tid r idxs (mbase ms))), snd (call cfg tid r idxs (mbase ms))).
Proof.
  intros cfg tid r idxs ms Hfree Hnu Hadm.
  destruct (caller_free_spec ms tid Hfree) as (Hc & _ & Hb).
  unfold mcall, menter. rewrite Hfree. cbn [negb].
  destruct (shut (mbase ms)) eqn:Hsh.
  { cbn [orb]. pose proof (call_shut_not_stopped cfg tid r idxs (mbase ms) Hsh) as Hns.
    destruct (call cfg tid r idxs (mbase ms)) as [s' ret]. cbn [fst snd] in *. apply mcall_steps_stop. exact Hns. }
  destruct (micro_request r) eqn:Hm.
  2:{ cbn [orb negb]. pose proof (call_plain_not_stopped cfg tid r idxs (mbase ms) Hm) as Hns.
      destruct (call cfg tid r idxs (mbase ms)) as [s' ret]. cbn [fst snd] in *. apply mcall_steps_stop. exact Hns. }
  cbn [orb negb].
  destruct r; try discriminate Hm.
  - (* put *)
    unfold early_panic. destruct (weight_calc (c_wcalc cfg) k v false <=? 0) eqn:Hw.
    { unfold call. rewrite Hb, Hw. cbn [fst snd]. apply mcall_steps_stop. reflexivity. }
    rewrite (put_steps_atomic cfg ms tid (RPut k v) k v (weight_calc (c_wcalc cfg) k v false) None idxs Hc Hb).
    + unfold call. rewrite Hb, Hw, Hsh. reflexivity.
    + intros ms' _ Hl. unfold mstepc. rewrite Hl. reflexivity.
  - cbn [early_panic].
    rewrite (put_steps_atomic cfg ms tid (RPutW k v w) k v w None idxs Hc Hb).
    + unfold call. rewrite Hb, Hsh. reflexivity.
    + intros ms' _ Hl. unfold mstepc. rewrite Hl. reflexivity.
  - cbn [early_panic].
    rewrite (put_steps_atomic cfg ms tid (RPutTTL k v ttl) k v (weight_calc (c_wcalc cfg) k v true) (Some ttl) idxs Hc Hb).
    + unfold call. rewrite Hb, Hsh. reflexivity.
    + intros ms' _ Hl. unfold mstepc. rewrite Hl. reflexivity.
  - cbn [early_panic].
    rewrite (put_steps_atomic cfg ms tid (RPutWTTL k v w ttl) k v w (Some ttl) idxs Hc Hb).
    + unfold call. rewrite Hb, Hsh. reflexivity.
    + intros ms' _ Hl. unfold mstepc. rewrite Hl. reflexivity.
  - exfalso. eapply Hnu. reflexivity.
  - (* delete *)
    cbn [early_panic]. rewrite (delete_steps_atomic cfg ms tid k idxs Hc Hb).
    unfold call. rewrite Hb, Hsh. reflexivity.
  - (* get *)
    cbn [early_panic]. rewrite mcall_steps_S. unfold mstepc at 1. rewrite cps_set_cp. cbv beta iota zeta.
    pose proof (read_lookup_atomic cfg ms tid k (fun v => v) idxs (PEntered (RGet k)) Hc Hadm) as H.
    destruct (read_lookup cfg (set_cp ms (mbase ms) tid (PEntered (RGet k))) tid k (fun v => v)) as [ms1 ret1].
    cbn [fst snd] in H. rewrite H. unfold call. rewrite Hb, Hsh. reflexivity.
  - (* get_ref *)
    cbn [early_panic]. rewrite mcall_steps_S. unfold mstepc at 1. rewrite cps_set_cp, mbase_set_cp. cbv beta iota zeta.
    pose proof (read_body_not_stopped cfg k (fun v => v) idxs (mbase ms)) as Hns.
    destruct (read_body cfg k (fun v => v) idxs (mbase ms)) as [s' ret] eqn:E. cbn [snd] in Hns.
    rewrite end_cp_set_cp by exact Hc. rewrite mcall_steps_stop by exact Hns.
    unfold call. rewrite Hb, Hsh. unfold read_body in E. rewrite E. reflexivity.
  - (* map_get *)
    cbn [early_panic]. rewrite mcall_steps_S. unfold mstepc at 1. rewrite cps_set_cp. cbv beta iota zeta.
    pose proof (read_lookup_atomic cfg ms tid k mapped idxs (PEntered (RMapGet k)) Hc Hadm) as H.
    destruct (read_lookup cfg (set_cp ms (mbase ms) tid (PEntered (RMapGet k))) tid k mapped) as [ms1 ret1].
    cbn [fst snd] in H. rewrite H. unfold call. rewrite Hb, Hsh. reflexivity.
  - (* map_get_ref *)
    cbn [early_panic]. rewrite mcall_steps_S. unfold mstepc at 1. rewrite cps_set_cp, mbase_set_cp. cbv beta iota zeta.
    pose proof (read_body_not_stopped cfg k mapped idxs (mbase ms)) as Hns.
    destruct (read_body cfg k mapped idxs (mbase ms)) as [s' ret] eqn:E. cbn [snd] in Hns.
    rewrite end_cp_set_cp by exact Hc. rewrite mcall_steps_stop by exact Hns.
    unfold call. rewrite Hb, Hsh. unfold read_body in E. rewrite E. reflexivity.
  - (* shutdown *)
    cbn [early_panic]. rewrite (shutdown_steps_atomic cfg ms tid idxs (set_shut (mbase ms) true) Hc).
    unfold call. rewrite Hb, Hsh. reflexivity.
Qed.

(** ** put_or_update: entering and the first step are Window.v's first half *)
(* STATEMENT *)
Lemma mupsert_enter_is_half1 : forall cfg tid k v w ttl rm idxs ms,
  caller_free ms tid = true -> shut (mbase ms) = false ->
  let r1 := menter cfg ms tid (RUpsert k v w ttl rm) idxs in
  let r2 := mstepc cfg (fst r1) tid idxs in
  let h := wstep cfg (win ms) (WUpsert1 tid k v w ttl rm) in
  snd r1 = [9] /\ win (fst r2) = fst h /\ snd r2 = snd h /\ cps (fst r2) = cps ms /\ wdel (fst r2) = wdel ms.
Proof.
  intros cfg tid k v w ttl rm idxs ms Hfree Hsh.
  destruct (caller_free_spec ms tid Hfree) as (Hc & Hu & Hb).
  cbv zeta. unfold menter. rewrite Hfree, Hsh. cbn [negb orb micro_request early_panic fst snd].
  split; [reflexivity|].
  unfold mstepc. rewrite cps_set_cp, mbase_set_cp. cbv beta iota zeta.
  rewrite wstep_upsert1_eq. unfold mbase in *. rewrite Hu, Hb, Hsh. cbn [orb].
  destruct (upsert_half1 cfg k v w ttl rm (base (win ms))) as [[s' u]|[s' ret]].
  - cbn [fst snd win cps wdel set_cp]. rewrite (aremove_aset_fresh _ tid _ (cps ms) Hc). auto.
  - cbn [fst snd]. unfold end_cp, set_cp. cbn [win cps wdel with_base base ups wpending].
    rewrite (aremove_aset_fresh _ tid _ (cps ms) Hc). auto.
Qed.

(** ** the worker's Delete *)
Lemma mworker2_store : forall cfg ms a id exp, wdel ms = Some (WDStore a id exp) ->
  mworker2 cfg ms =
  match weights_delete cfg id false (mbase ms) with
  | Ok s2 => ({| win := with_base (win ms) s2; cps := cps ms; wdel := Some (WDWeight a id exp) |}, [9])
  | Panic site s2 => ({| win := with_base (win ms) (set_worker s2 Dead); cps := cps ms; wdel := None |}, [4; site])
  | Inadmissible why => (ms, [7; why])
  end.
Proof. intros cfg ms a id exp H. unfold mworker2. rewrite H. reflexivity. Qed.

Lemma mworker2_weight : forall cfg ms a id exp, wdel ms = Some (WDWeight a id exp) ->
  mworker2 cfg ms =
  ({| win := with_base (win ms)
               (set_ack a Accepted (match exp with
                                    | Some x => set_ticker (mbase ms) (ticker_delete cfg id x (ticker (mbase ms)))
                                    | None => mbase ms end));
      cps := cps ms; wdel := None |}, [5; 1]).
Proof. intros cfg ms a id exp H. unfold mworker2. rewrite H. reflexivity. Qed.

Lemma weights_delete_admissible : forall cfg id hook s why, weights_delete cfg id hook s <> Inadmissible why.
Proof.
  intros cfg id hook s why. unfold weights_delete.
  destruct (alookup id (weights s)); [|discriminate]. destruct (add_i64 cfg _ _); discriminate.
Qed.

(* STATEMENT: the three steps of the worker's Delete, back to back, are the atomic worker step *)
Lemma mdelete_atomic : forall cfg orc ms k a q,
  wdel ms = None -> wpending (win ms) = None -> worker (mbase ms) = Alive -> queue (mbase ms) = (CDelete k, a) :: q ->
  let r1 := mworker1 cfg ms orc in
  let r2 := if stopped (snd r1) then mworker2 cfg (fst r1) else r1 in
  let r3 := if stopped (snd r2) then mworker2 cfg (fst r2) else r2 in
  let atomic := worker_step cfg orc (mbase ms) in
  mbase (fst r3) = fst atomic /\ snd r3 = snd atomic /\ wdel (fst r3) = None /\ cps (fst r3) = cps ms /\
  ups (win (fst r3)) = ups (win ms) /\ wpending (win (fst r3)) = None.
Proof.
  intros cfg orc ms k a q Hwd Hwp Hwk Hq. cbv zeta.
  unfold mworker1, worker_step. rewrite Hwd, Hwp, Hwk, Hq.
  remember (set_queue (mbase ms) q) as s0 eqn:Hs0.
  destruct (alookup k (store s0)) as [e|] eqn:Hk.
  - cbn [fst snd stopped].
    remember (store_delete k s0) as sd eqn:Hsd.
    rewrite (mworker2_store cfg {| win := with_base (win ms) sd; cps := cps ms; wdel := Some (WDStore a (e_id e) (e_exp e)) |}
               a (e_id e) (e_exp e) eq_refl).
    cbn [win cps wdel].
    change (mbase {| win := with_base (win ms) sd; cps := cps ms; wdel := Some (WDStore a (e_id e) (e_exp e)) |}) with sd.
    destruct (weights_delete cfg (e_id e) false sd) as [s2|site s2|why] eqn:Hwdl.
    + cbn [fst snd stopped].
      rewrite (mworker2_weight cfg {| win := with_base (with_base (win ms) sd) s2; cps := cps ms; wdel := Some (WDWeight a (e_id e) (e_exp e)) |}
                 a (e_id e) (e_exp e) eq_refl).
      cbn [fst snd mbase win base with_base wdel cps ups wpending].
      destruct (e_exp e); repeat split; try reflexivity; exact Hwp.
    + cbn [fst snd stopped mbase win base with_base wdel cps ups wpending]. repeat split; try reflexivity; exact Hwp.
    + exfalso. exact (weights_delete_admissible cfg (e_id e) false sd why Hwdl).
  - cbn [fst snd stopped mbase with_mbase win base with_base wdel cps ups wpending].
    repeat split; try reflexivity; assumption.
Qed.

(** * Part B: what survives arbitrary overtaking *)

(** callers may be anywhere inside a split put, delete or read; there is no put_or_update window, no worker window and
    no shutdown in stages (those break [Inv] for real: known findings D11 / D12, and a half-cleared cache) *)
Definition cp_plain (p : cpend) : Prop :=
  match p with
  | PEntered (RUpsert _ _ _ _ _) | PEntered RShutdown | PShut _ => False
  | PPutChecked _ _ w _ => 0 < w
  | _ => True
  end.

Record MInv (cfg : config) (ms : mstate) : Prop := {
  mi_inv : Inv cfg (mbase ms);
  mi_ups : ups (win ms) = [];
  mi_wp : wpending (win ms) = None;
  mi_wd : wdel ms = None;
  mi_cps : forall tid p, alookup tid (cps ms) = Some p -> cp_plain p
}.

Definition plain_micro (ev : mevent) : Prop :=
  match ev with
  | MWin (WBase e) => valid_event e
  | MEnter _ r _ => valid_request r /\ (forall k v w ttl rm, r <> RUpsert k v w ttl rm) /\ r <> RShutdown
  | MStepC _ _ => True
  | _ => False
  end.

Lemma cps_aset_plain : forall (l : list (Z * cpend)) tid p,
  (forall t q, alookup t l = Some q -> cp_plain q) -> cp_plain p ->
  forall t q, alookup t (aset tid p l) = Some q -> cp_plain q.
Proof.
  intros l tid p Hl Hp t q H. rewrite alookup_aset in H. destruct (t =? tid).
  - inversion H; subst; exact Hp.
  - eapply Hl; exact H.
Qed.

Lemma cps_aremove_plain : forall (l : list (Z * cpend)) tid,
  (forall t q, alookup t l = Some q -> cp_plain q) ->
  forall t q, alookup t (aremove tid l) = Some q -> cp_plain q.
Proof.
  intros l tid Hl t q H. rewrite alookup_aremove in H. destruct (t =? tid); [discriminate|]. eapply Hl; exact H.
Qed.

Lemma MInv_set_cp : forall cfg ms s tid p, MInv cfg ms -> Inv cfg s -> cp_plain p -> MInv cfg (set_cp ms s tid p).
Proof.
  intros cfg ms s tid p [HI Hu Hwp Hwd Hc] HIs Hp. constructor; try assumption.
  cbn [cps set_cp]. apply cps_aset_plain; assumption.
Qed.

Lemma MInv_end_cp : forall cfg ms s tid, MInv cfg ms -> Inv cfg s -> MInv cfg (end_cp ms s tid).
Proof.
  intros cfg ms s tid [HI Hu Hwp Hwd Hc] HIs. constructor; try assumption.
  cbn [cps end_cp]. apply cps_aremove_plain; assumption.
Qed.

Lemma MInv_with_mbase : forall cfg ms s, MInv cfg ms -> Inv cfg s -> MInv cfg (with_mbase ms s).
Proof. intros cfg ms s [HI Hu Hwp Hwd Hc] HIs. constructor; assumption. Qed.

Lemma upd_st_frame : forall f n s, frameR s (upd_st f n s).
Proof. intros f n s. unfold frameR, upd_st. repeat split; reflexivity. Qed.

Lemma park_inv : forall cfg tid c s, Inv cfg s -> cmd_weight_ok c -> cmd_fresh s c -> Inv cfg (park tid c s).
Proof.
  intros cfg tid c s HI Hw Hf. apply (Inv_park cfg s _ tid (KSend c) HI); try reflexivity.
  intros c' Hc'. inversion Hc'; subst. split; assumption.
Qed.

Lemma soft_mark_inv : forall cfg k s, Inv cfg s -> Inv cfg (soft_mark k s).
Proof.
  intros cfg k s HI. unfold soft_mark. destruct (alookup k (store s)) as [e|] eqn:E; [|exact HI].
  apply soft_delete_inv; assumption.
Qed.

Lemma psend_inv : forall cfg tid c s, Inv cfg s -> alookup tid (blocked s) = Some (KSend c) ->
  Inv cfg (fst (do_send cfg tid c (set_blocked s (aremove tid (blocked s))))).
Proof.
  intros cfg tid c s HI Hlk.
  assert (HI0 : Inv cfg (set_blocked s (aremove tid (blocked s)))).
  { apply (Inv_unpark cfg s _ tid HI); reflexivity. }
  destruct (unparked_cmd_fresh cfg s (set_blocked s (aremove tid (blocked s))) tid c HI
              eq_refl eq_refl eq_refl eq_refl eq_refl Hlk) as [Hwok Hfr].
  apply do_send_inv; assumption.
Qed.

Lemma mstepc_minv : forall cfg ms tid idxs, MInv cfg ms -> MInv cfg (fst (mstepc cfg ms tid idxs)).
Proof.
  intros cfg ms tid idxs HM. pose proof (mi_inv cfg ms HM) as HI.
  unfold mstepc. destruct (alookup tid (cps ms)) as [p|] eqn:Hp; [|exact HM].
  pose proof (mi_cps cfg ms HM tid p Hp) as Hpl.
  destruct p as [r|k v w ttl| |h obs|n].
  - destruct r; try exact HM; try contradiction.
    + unfold put_check. destruct (weight_calc (c_wcalc cfg) k v false <=? 0) eqn:Hw; [apply MInv_end_cp; assumption|].
      destruct (amem k (store (mbase ms))); [apply MInv_end_cp; assumption|].
      apply MInv_set_cp; try assumption. cbn [cp_plain]. lia.
    + unfold put_check. destruct (w <=? 0) eqn:Hw; [apply MInv_end_cp; assumption|].
      destruct (amem k (store (mbase ms))); [apply MInv_end_cp; assumption|].
      apply MInv_set_cp; try assumption. cbn [cp_plain]. lia.
    + unfold put_check. destruct (weight_calc (c_wcalc cfg) k v true <=? 0) eqn:Hw; [apply MInv_end_cp; assumption|].
      destruct (amem k (store (mbase ms))); [apply MInv_end_cp; assumption|].
      apply MInv_set_cp; try assumption. cbn [cp_plain]. lia.
    + unfold put_check. destruct (w <=? 0) eqn:Hw; [apply MInv_end_cp; assumption|].
      destruct (amem k (store (mbase ms))); [apply MInv_end_cp; assumption|].
      apply MInv_set_cp; try assumption. cbn [cp_plain]. lia.
    + cbn [fst]. apply MInv_set_cp; [exact HM| |exact I].
      apply park_inv; [apply soft_mark_inv; exact HI|exact I|apply cmd_fresh_noput; reflexivity].
    + unfold read_lookup. destruct (lookup_alive k (mbase ms)); cbn [fst].
      * apply MInv_set_cp; [exact HM| |exact I]. eapply frameR_inv; [apply upd_st_frame|exact HI].
      * apply MInv_end_cp; [exact HM|]. eapply frameR_inv; [apply upd_st_frame|exact HI].
    + unfold read_body. destruct (read_one cfg k idxs (mbase ms)) as [[[v s'] [|i l]]|] eqn:Hr; cbn [fst];
        apply MInv_end_cp; try assumption.
      eapply frameR_inv; [eapply read_one_frame; exact Hr|exact HI].
    + unfold read_lookup. destruct (lookup_alive k (mbase ms)); cbn [fst].
      * apply MInv_set_cp; [exact HM| |exact I]. eapply frameR_inv; [apply upd_st_frame|exact HI].
      * apply MInv_end_cp; [exact HM|]. eapply frameR_inv; [apply upd_st_frame|exact HI].
    + unfold read_body. destruct (read_one cfg k idxs (mbase ms)) as [[[v s'] [|i l]]|] eqn:Hr; cbn [fst];
        apply MInv_end_cp; try assumption.
      eapply frameR_inv; [eapply read_one_frame; exact Hr|exact HI].
  - cbn [cp_plain] in Hpl. cbv zeta. cbn [fst]. apply MInv_set_cp; [exact HM| |exact I].
    destruct ttl as [t|]; apply park_inv; try (apply Inv_bump; exact HI); try (cbn [cmd_weight_ok]; exact Hpl);
      apply (next_id_fresh cfg (mbase ms)); try exact HI; reflexivity.
  - destruct (alookup tid (blocked (mbase ms))) as [[c| |]|] eqn:Hlk; try exact HM.
    pose proof (psend_inv cfg tid c (mbase ms) HI Hlk) as HI'.
    destruct (do_send cfg tid c (set_blocked (mbase ms) (aremove tid (blocked (mbase ms))))) as [s' ret].
    cbn [fst] in *. apply MInv_end_cp; assumption.
  - destruct idxs as [|i [|j l]]; try exact HM.
    destruct (pool_add cfg i h (mbase ms)) as [s'|] eqn:Hpa; [|exact HM].
    cbn [fst]. apply MInv_end_cp; [exact HM|]. eapply frameR_inv; [eapply pool_add_frame; exact Hpa|exact HI].
  - contradiction.
Qed.

Lemma menter_minv : forall cfg ms tid r idxs,
  MInv cfg ms -> (forall k v w ttl rm, r <> RUpsert k v w ttl rm) -> r <> RShutdown ->
  MInv cfg (fst (menter cfg ms tid r idxs)).
Proof.
  intros cfg ms tid r idxs HM Hnu Hns. pose proof (mi_inv cfg ms HM) as HI.
  unfold menter. destruct (negb (caller_free ms tid)); [exact HM|].
  destruct (shut (mbase ms) || negb (micro_request r) || early_panic cfg r).
  - pose proof (call_inv cfg tid r idxs (mbase ms) HI) as HI'.
    destruct (call cfg tid r idxs (mbase ms)) as [s' ret]. cbn [fst] in *. apply MInv_with_mbase; assumption.
  - destruct r; try (cbn [fst]; apply MInv_set_cp; [exact HM|exact HI|exact I]).
    + exfalso. eapply Hnu. reflexivity.
    + exfalso. apply Hns. reflexivity.
Qed.

Lemma mwin_base_eq : forall cfg ms e, ups (win ms) = [] -> wpending (win ms) = None ->
  mstep cfg ms (MWin (WBase e)) =
  if mwin_enabled ms (WBase e)
  then (with_mbase ms (fst (step cfg (mbase ms) e)), snd (step cfg (mbase ms) e))
  else (ms, [6]).
Proof.
  intros cfg ms e Hu Hp. unfold mstep. destruct (mwin_enabled ms (WBase e)); [|reflexivity].
  rewrite (wstep_base_enabled cfg (win ms) e Hu Hp). reflexivity.
Qed.

(* STATEMENT: the core invariant survives every interleaving of the micro steps of puts, deletes and reads with each
   other and with whole events of the atomic model (worker commands, sweeps, consumer batches, atomic calls) *)
Lemma minv_step : forall cfg ms ev, wf_config cfg -> MInv cfg ms -> plain_micro ev ->
  worker (mbase (fst (mstep cfg ms ev))) <> Dead -> MInv cfg (fst (mstep cfg ms ev)).
Proof.
  intros cfg ms ev Hcfg HM Hev Hnd. destruct ev as [e|tid r idxs|tid idxs|orc|]; try contradiction.
  - destruct e as [b| | | |]; try contradiction.
    rewrite (mwin_base_eq cfg ms b (mi_ups cfg ms HM) (mi_wp cfg ms HM)) in *.
    destruct (mwin_enabled ms (WBase b)); [|exact HM]. cbn [fst] in *.
    apply MInv_with_mbase; [exact HM|].
    apply (inv_step cfg (mbase ms) b Hcfg (mi_inv cfg ms HM) Hev). exact Hnd.
  - destruct Hev as (_ & Hnu & Hns). apply menter_minv; assumption.
  - apply mstepc_minv. exact HM.
Qed.

Lemma minv_init : forall cfg, wf_config cfg -> MInv cfg (minit cfg).
Proof.
  intros cfg Hcfg. constructor; try reflexivity.
  - apply inv_init. exact Hcfg.
  - intros tid p H. discriminate.
Qed.

(** a dead worker stays dead *)
Lemma mstepc_worker : forall cfg ms tid idxs, (forall t p, alookup t (cps ms) = Some p -> cp_plain p) ->
  worker (mbase (fst (mstepc cfg ms tid idxs))) = worker (mbase ms).
Proof.
  intros cfg ms tid idxs HM.
  unfold mstepc. destruct (alookup tid (cps ms)) as [p|] eqn:Hp; [|reflexivity].
  pose proof (HM tid p Hp) as Hpl.
  destruct p as [r|k v w ttl| |h obs|n].
  - destruct r; try reflexivity; try contradiction;
      try (unfold put_check; repeat match goal with |- context [if ?b then _ else _] => destruct b end; reflexivity).
    + unfold soft_mark. destruct (alookup k (store (mbase ms))); reflexivity.
    + unfold read_lookup. destruct (lookup_alive k (mbase ms)); reflexivity.
    + unfold read_body. destruct (read_one cfg k idxs (mbase ms)) as [[[v s'] [|i l]]|] eqn:Hr; try reflexivity.
      cbn [fst mbase end_cp win with_base base]. apply (frameR_roles _ _ (read_one_frame cfg k idxs _ _ _ _ Hr)).
    + unfold read_lookup. destruct (lookup_alive k (mbase ms)); reflexivity.
    + unfold read_body. destruct (read_one cfg k idxs (mbase ms)) as [[[v s'] [|i l]]|] eqn:Hr; try reflexivity.
      cbn [fst mbase end_cp win with_base base]. apply (frameR_roles _ _ (read_one_frame cfg k idxs _ _ _ _ Hr)).
  - reflexivity.
  - destruct (alookup tid (blocked (mbase ms))) as [[c| |]|]; try reflexivity.
    pose proof (do_send_roles cfg tid c (set_blocked (mbase ms) (aremove tid (blocked (mbase ms))))) as (R & _).
    destruct (do_send cfg tid c (set_blocked (mbase ms) (aremove tid (blocked (mbase ms))))) as [s' ret].
    cbn [fst] in *. exact R.
  - destruct idxs as [|i [|j l]]; try reflexivity.
    destruct (pool_add cfg i h (mbase ms)) as [s'|] eqn:Hpa; [|reflexivity].
    cbn [fst mbase end_cp win with_base base]. apply (frameR_roles _ _ (pool_add_frame cfg i h _ _ Hpa)).
  - contradiction.
Qed.

Lemma menter_worker : forall cfg ms tid r idxs, r <> RShutdown ->
  worker (mbase (fst (menter cfg ms tid r idxs))) = worker (mbase ms).
Proof.
  intros cfg ms tid r idxs Hns. unfold menter. destruct (negb (caller_free ms tid)); [reflexivity|].
  destruct (shut (mbase ms) || negb (micro_request r) || early_panic cfg r).
  - pose proof (call_roles cfg tid r idxs (mbase ms)) as (R & _).
    destruct (call cfg tid r idxs (mbase ms)) as [s' ret]. cbn [fst] in *. exact R.
  - destruct r; reflexivity.
Qed.

(** the part of [MInv] that does not depend on the worker being alive *)
Record MShape (ms : mstate) : Prop := {
  sh_ups : ups (win ms) = [];
  sh_wp : wpending (win ms) = None;
  sh_wd : wdel ms = None;
  sh_cps : forall tid p, alookup tid (cps ms) = Some p -> cp_plain p
}.

Lemma MInv_shape : forall cfg ms, MInv cfg ms -> MShape ms.
Proof. intros cfg ms [HI Hu Hp Hw Hc]. constructor; assumption. Qed.
Lemma MInv_intro : forall cfg ms, MShape ms -> Inv cfg (mbase ms) -> MInv cfg ms.
Proof. intros cfg ms [Hu Hp Hw Hc] HI. constructor; assumption. Qed.

Inductive cform (ms : mstate) (tid : Z) : mstate -> Prop :=
| F_same : cform ms tid ms
| F_set : forall s p, cp_plain p -> cform ms tid (set_cp ms s tid p)
| F_end : forall s, cform ms tid (end_cp ms s tid).

Lemma cform_shape : forall ms tid ms', MShape ms -> cform ms tid ms' -> MShape ms'.
Proof.
  intros ms tid ms' [Hu Hp Hw Hc] F. destruct F as [|s p Hpl|s].
  - constructor; assumption.
  - constructor; try assumption. cbn [cps set_cp]. apply cps_aset_plain; assumption.
  - constructor; try assumption. cbn [cps end_cp]. apply cps_aremove_plain; assumption.
Qed.

Lemma mstepc_form : forall cfg ms tid idxs, (forall t p, alookup t (cps ms) = Some p -> cp_plain p) ->
  cform ms tid (fst (mstepc cfg ms tid idxs)).
Proof.
  intros cfg ms tid idxs HM.
  unfold mstepc. destruct (alookup tid (cps ms)) as [p|] eqn:Hp; [|constructor].
  pose proof (HM tid p Hp) as Hpl.
  destruct p as [r|k v w ttl| |h obs|n].
  - destruct r; try constructor; try contradiction.
    + unfold put_check. destruct (weight_calc (c_wcalc cfg) k v false <=? 0) eqn:Hw; [constructor|].
      destruct (amem k (store (mbase ms))); constructor. cbn [cp_plain]. lia.
    + unfold put_check. destruct (w <=? 0) eqn:Hw; [constructor|].
      destruct (amem k (store (mbase ms))); constructor. cbn [cp_plain]. lia.
    + unfold put_check. destruct (weight_calc (c_wcalc cfg) k v true <=? 0) eqn:Hw; [constructor|].
      destruct (amem k (store (mbase ms))); constructor. cbn [cp_plain]. lia.
    + unfold put_check. destruct (w <=? 0) eqn:Hw; [constructor|].
      destruct (amem k (store (mbase ms))); constructor. cbn [cp_plain]. lia.
    + exact I.
    + unfold read_lookup. destruct (lookup_alive k (mbase ms)); constructor. exact I.
    + destruct (read_body cfg k (fun v => v) idxs (mbase ms)). constructor.
    + unfold read_lookup. destruct (lookup_alive k (mbase ms)); constructor. exact I.
    + destruct (read_body cfg k mapped idxs (mbase ms)). constructor.
  - constructor. exact I.
  - destruct (alookup tid (blocked (mbase ms))) as [[c| |]|]; try constructor.
    destruct (do_send cfg tid c (set_blocked (mbase ms) (aremove tid (blocked (mbase ms))))). constructor.
  - destruct idxs as [|i [|j l]]; try constructor.
    destruct (pool_add cfg i h (mbase ms)); constructor.
  - contradiction.
Qed.

Lemma mshape_step : forall cfg ms ev, MShape ms -> plain_micro ev -> MShape (fst (mstep cfg ms ev)).
Proof.
  intros cfg ms ev HS Hev. destruct ev as [e|tid r idxs|tid idxs|orc|]; try contradiction.
  - destruct e as [b| | | |]; try contradiction.
    rewrite (mwin_base_eq cfg ms b (sh_ups ms HS) (sh_wp ms HS)).
    destruct (mwin_enabled ms (WBase b)); [|exact HS]. destruct HS as [Hu Hp Hw Hc]. constructor; assumption.
  - destruct Hev as (_ & Hnu & Hns). cbn [mstep]. unfold menter.
    destruct (negb (caller_free ms tid)); [exact HS|].
    destruct (shut (mbase ms) || negb (micro_request r) || early_panic cfg r).
    + destruct (call cfg tid r idxs (mbase ms)) as [s' ret]. destruct HS as [Hu Hp Hw Hc]. constructor; assumption.
    + destruct r; try (cbn [fst]; apply (cform_shape ms tid); [exact HS|constructor; exact I]).
      * exfalso. eapply Hnu. reflexivity.
      * exfalso. apply Hns. reflexivity.
  - cbn [mstep]. apply (cform_shape ms tid); [exact HS|]. apply mstepc_form. exact (sh_cps ms HS).
Qed.

Lemma mdead_absorbing : forall cfg ms ev, MShape ms -> plain_micro ev ->
  worker (mbase ms) = Dead -> worker (mbase (fst (mstep cfg ms ev))) = Dead.
Proof.
  intros cfg ms ev HM Hev Hd. destruct ev as [e|tid r idxs|tid idxs|orc|]; try contradiction.
  - destruct e as [b| | | |]; try contradiction.
    rewrite (mwin_base_eq cfg ms b (sh_ups ms HM) (sh_wp ms HM)).
    destruct (mwin_enabled ms (WBase b)); [|exact Hd]. cbn [fst mbase with_mbase win with_base base].
    apply (dead_absorbing cfg (mbase ms) b Hd).
  - destruct Hev as (_ & _ & Hns). cbn [mstep]. rewrite menter_worker by exact Hns. exact Hd.
  - cbn [mstep]. rewrite mstepc_worker by exact (sh_cps ms HM). exact Hd.
Qed.

Lemma mrun_dead : forall cfg evs ms, MShape ms -> Forall plain_micro evs ->
  worker (mbase ms) = Dead -> worker (mbase (mrun_from cfg ms evs)) = Dead.
Proof.
  intros cfg evs. induction evs as [|ev t IH]; intros ms HS Hall Hd; [exact Hd|].
  inversion Hall as [|x xs Hev Ht]; subst. unfold mrun_from in *. cbn [fold_left].
  apply IH; [apply mshape_step; assumption|exact Ht|apply mdead_absorbing; assumption].
Qed.

Lemma minv_run_from : forall cfg evs ms, wf_config cfg -> MInv cfg ms -> Forall plain_micro evs ->
  worker (mbase (mrun_from cfg ms evs)) <> Dead -> MInv cfg (mrun_from cfg ms evs).
Proof.
  intros cfg evs. induction evs as [|ev t IH]; intros ms Hcfg HM Hall Hnd; [exact HM|].
  inversion Hall as [|x xs Hev Ht]; subst. unfold mrun_from in *. cbn [fold_left] in *.
  apply IH; try assumption.
  apply minv_step; try assumption.
  intros Hd. apply Hnd. apply (mrun_dead cfg t); [|exact Ht|exact Hd].
  apply mshape_step; [apply (MInv_shape cfg); exact HM|exact Hev].
Qed.

(* STATEMENT: every state reached by any interleaving of micro steps of puts, deletes and reads with whole events of
   the atomic model satisfies the core invariant, as long as the worker has not panicked *)
Lemma minv_run : forall cfg evs, wf_config cfg -> Forall plain_micro evs ->
  worker (mbase (mrun cfg evs)) <> Dead -> MInv cfg (mrun cfg evs).
Proof.
  intros cfg evs Hcfg Hall Hnd. apply minv_run_from; try assumption. apply minv_init. exact Hcfg.
Qed.

(* STATEMENT (C05 for every such interleaving): the total is exactly the sum of the charges of the keys the store holds,
   every stored key is charged under its id and nothing else is *)
Lemma micro_accounting_exact : forall cfg evs, wf_config cfg -> Forall plain_micro evs ->
  let s := mbase (mrun cfg evs) in
  worker s <> Dead ->
  used s = weights_sum (weights s) /\
  (forall k e, alookup k (store s) = Some e -> exists wk, alookup (e_id e) (weights s) = Some wk /\ w_key wk = k) /\
  (forall id wk, alookup id (weights s) = Some wk -> exists e, alookup (w_key wk) (store s) = Some e /\ e_id e = id) /\
  0 <= used s.
Proof.
  intros cfg evs Hcfg Hall s Hnd. subst s.
  pose proof (mi_inv cfg _ (minv_run cfg evs Hcfg Hall Hnd)) as HI.
  split; [exact (inv_used_sum cfg _ HI)|]. split; [exact (inv_store_charged cfg _ HI)|].
  split; [exact (inv_charged_stored cfg _ HI)|]. exact (used_nonneg cfg _ HI).
Qed.


(** * Part C: properties of single micro steps under every interleaving *)
From CacheD.proofs Require Import ApiProofs HistoryProofs.

Lemma wstep_base_eq : forall cfg ws e,
  wstep cfg ws (WBase e) =
  if (match e with
      | ECall tid _ _ | ERun tid => negb (amem tid (ups ws))
      | EWorker _ => match wpending ws with Some _ => false | None => true end
      | _ => true
      end)
  then let '(s', ret) := step cfg (base ws) e in (with_base ws s', ret) else (ws, [6]).
Proof. reflexivity. Qed.

(** the store after a micro step of a caller: unchanged, or one key soft-marked, or (put_or_update) one entry updated in
    place keeping its soft-delete flag *)
Lemma soft_mark_hid : forall k0 k s e, alookup k (store s) = Some e -> e_soft e = true -> hid k (soft_mark k0 s).
Proof.
  intros k0 k s e Hl Hs. unfold soft_mark. destruct (alookup k0 (store s)) as [e0|] eqn:E0.
  - unfold hid. cbn [store set_store]. right. destruct (Z.eq_dec k k0) as [He|Hne].
    + subst k0. rewrite alookup_aset_eq. eexists; split; [reflexivity|reflexivity].
    + rewrite alookup_aset_neq by exact Hne. exists e. split; assumption.
  - right. exists e. split; assumption.
Qed.

Lemma do_send_store : forall cfg tid c s, store (fst (do_send cfg tid c s)) = store s.
Proof.
  intros cfg tid c s. unfold do_send.
  destruct (worker s); [destruct (Z.of_nat (length (queue s)) <? c_queue cfg)| | |]; reflexivity.
Qed.

Lemma upsert_half1_hid : forall cfg k0 v w ttl rm s k e,
  alookup k (store s) = Some e -> e_soft e = true ->
  match upsert_half1 cfg k0 v w ttl rm s with inl (s', _) => hid k s' | inr (s', _) => hid k s' end.
Proof.
  intros cfg k0 v w ttl rm s k e Hl Hs. unfold upsert_half1.
  assert (Hsame : hid k s) by (right; exists e; split; assumption).
  destruct (alookup k0 (store s)) as [e0|] eqn:E0; [|exact Hsame].
  assert (Hupd : forall x val, hid k (set_store s (aset k0 {| e_val := val; e_id := e_id e0; e_exp := x; e_soft := e_soft e0 |} (store s)))).
  { intros x val. unfold hid. cbn [store set_store]. right. destruct (Z.eq_dec k k0) as [He|Hne].
    - subst k0. rewrite alookup_aset_eq. eexists; split; [reflexivity|]. cbn [e_soft].
      rewrite Hl in E0. inversion E0; subst. exact Hs.
    - rewrite alookup_aset_neq by exact Hne. exists e. split; assumption. }
  destruct rm; [apply Hupd|]. destruct ttl as [t|]; [|apply Hupd].
  destruct (calc_expiry (now s) t); [apply Hupd|exact Hsame].
Qed.

(* STATEMENT (C04 under every interleaving of caller micro steps): once the entry of k is soft-deleted (delete(k) passed
   its `delete.marked` point), no micro step of any caller (puts, deletes, reads, put_or_update's first half, shutdown
   stages) and no whole event of the atomic model makes it readable again: it stays hidden until it is physically removed *)
Lemma micro_soft_deleted_stays_hidden : forall cfg ms ev k e,
  (forall e0, ev = MWin e0 -> exists b, e0 = WBase b) -> (forall orc, ev <> MWorker1 orc) -> ev <> MWorker2 ->
  alookup k (store (mbase ms)) = Some e -> e_soft e = true ->
  hid k (mbase (fst (mstep cfg ms ev))).
Proof.
  intros cfg ms ev k e Hwin Hw1 Hw2 Hl Hs.
  assert (Hsame : hid k (mbase ms)) by (right; exists e; split; assumption).
  destruct ev as [e0|tid r idxs|tid idxs|orc|].
  - destruct (Hwin e0 eq_refl) as [b ->]. cbn [mstep].
    destruct (mwin_enabled ms (WBase b)); [|exact Hsame].
    rewrite wstep_base_eq.
    destruct (match b with
              | ECall tid _ _ | ERun tid => negb (amem tid (ups (win ms)))
              | EWorker _ => match wpending (win ms) with Some _ => false | None => true end
              | _ => true end); [|exact Hsame].
    pose proof (soft_deleted_stays_hidden cfg (base (win ms)) b k e Hl Hs) as H. cbv zeta in H.
    unfold step_state in H. destruct (step cfg (base (win ms)) b) as [s' ret]. exact H.
  - cbn [mstep]. unfold menter. destruct (negb (caller_free ms tid)); [exact Hsame|].
    destruct (shut (mbase ms) || negb (micro_request r) || early_panic cfg r).
    + destruct (call cfg tid r idxs (mbase ms)) as [s' ret] eqn:E. cbn [fst mbase with_mbase win with_base base].
      eapply call_hid; eassumption.
    + destruct r; exact Hsame.
  - cbn [mstep]. unfold mstepc. destruct (alookup tid (cps ms)) as [p|]; [|exact Hsame].
    destruct p as [r|k0 v w ttl| |h obs|n].
    + destruct r; try exact Hsame;
        try (unfold put_check; repeat match goal with |- context [if ?b then _ else _] => destruct b end; exact Hsame).
      * pose proof (upsert_half1_hid cfg k0 v w ttl rm (mbase ms) k e Hl Hs) as H.
        destruct (upsert_half1 cfg k0 v w ttl rm (mbase ms)) as [[s' u]|[s' ret]]; exact H.
      * unfold hid. cbn [fst mbase set_cp win with_base base park store set_blocked].
        exact (soft_mark_hid k0 k (mbase ms) e Hl Hs).
      * unfold read_lookup. destruct (lookup_alive k0 (mbase ms)); exact Hsame.
      * unfold read_body. destruct (read_one cfg k0 idxs (mbase ms)) as [[[v s'] [|i l]]|] eqn:Hr; try exact Hsame.
        unfold hid. cbn [fst mbase end_cp win with_base base].
        destruct (read_one_frame cfg k0 idxs _ _ _ _ Hr) as (Hst & _). rewrite Hst. exact Hsame.
      * unfold read_lookup. destruct (lookup_alive k0 (mbase ms)); exact Hsame.
      * unfold read_body. destruct (read_one cfg k0 idxs (mbase ms)) as [[[v s'] [|i l]]|] eqn:Hr; try exact Hsame.
        unfold hid. cbn [fst mbase end_cp win with_base base].
        destruct (read_one_frame cfg k0 idxs _ _ _ _ Hr) as (Hst & _). rewrite Hst. exact Hsame.
    + exact Hsame.
    + destruct (alookup tid (blocked (mbase ms))) as [[c| |]|]; try exact Hsame.
      pose proof (do_send_store cfg tid c (set_blocked (mbase ms) (aremove tid (blocked (mbase ms))))) as Hst.
      destruct (do_send cfg tid c (set_blocked (mbase ms) (aremove tid (blocked (mbase ms))))) as [s' ret].
      unfold hid. cbn [fst mbase end_cp win with_base base] in *. rewrite Hst. exact Hsame.
    + destruct idxs as [|i [|j l]]; try exact Hsame.
      destruct (pool_add cfg i h (mbase ms)) as [s'|] eqn:Hpa; [|exact Hsame].
      unfold hid. cbn [fst mbase end_cp win with_base base].
      destruct (pool_add_frame cfg i h _ _ Hpa) as (Hst & _). rewrite Hst. exact Hsame.
    + unfold shutdown_stage.
      repeat match goal with |- context [if ?b then _ else _] => destruct b end;
        try exact Hsame;
        try (destruct (worker (mbase ms)); repeat match goal with |- context [if ?b then _ else _] => destruct b end; exact Hsame);
        try (destruct (consumer (mbase ms)); repeat match goal with |- context [if ?b then _ else _] => destruct b end; exact Hsame).
      left. reflexivity.
  - exfalso. eapply Hw1. reflexivity.
  - exfalso. apply Hw2. reflexivity.
Qed.

Lemma frameR_shut : forall s s', frameR s s' -> shut s' = shut s.
Proof. intros s s' F. unfold frameR in F. intuition. Qed.

Lemma do_send_shut : forall cfg tid c s, shut (fst (do_send cfg tid c s)) = shut s.
Proof.
  intros cfg tid c s. unfold do_send.
  destruct (worker s); [destruct (Z.of_nat (length (queue s)) <? c_queue cfg)| | |]; reflexivity.
Qed.

(* STATEMENT (C13, shutdown in stages): the flag never goes down again, whatever micro step of whatever caller (puts,
   deletes, reads, put_or_update's first half, every stage of shutdown) or whole event of the atomic model follows *)
Lemma micro_shut_stable : forall cfg ms ev,
  (forall e0, ev = MWin e0 -> exists b, e0 = WBase b) -> (forall orc, ev <> MWorker1 orc) -> ev <> MWorker2 ->
  shut (mbase ms) = true -> shut (mbase (fst (mstep cfg ms ev))) = true.
Proof.
  intros cfg ms ev Hwin Hw1 Hw2 Hs.
  destruct ev as [e0|tid r idxs|tid idxs|orc|].
  - destruct (Hwin e0 eq_refl) as [b ->]. cbn [mstep].
    destruct (mwin_enabled ms (WBase b)); [|exact Hs].
    rewrite wstep_base_eq.
    destruct (match b with
              | ECall tid _ _ | ERun tid => negb (amem tid (ups (win ms)))
              | EWorker _ => match wpending (win ms) with Some _ => false | None => true end
              | _ => true end); [|exact Hs].
    pose proof (shut_stable cfg (base (win ms)) b Hs) as H. unfold step_state in H.
    destruct (step cfg (base (win ms)) b) as [s' ret]. exact H.
  - cbn [mstep]. unfold menter. destruct (negb (caller_free ms tid)); [exact Hs|].
    rewrite Hs. cbn [orb].
    pose proof (shut_stable cfg (mbase ms) (ECall tid r idxs) Hs) as H. unfold step_state in H. cbn [step] in H.
    destruct (call cfg tid r idxs (mbase ms)) as [s' ret]. exact H.
  - cbn [mstep]. unfold mstepc. destruct (alookup tid (cps ms)) as [p|]; [|exact Hs].
    destruct p as [r|k0 v w ttl| |h obs|n].
    + destruct r; try exact Hs;
        try (unfold put_check; repeat match goal with |- context [if ?b then _ else _] => destruct b end; exact Hs).
      * unfold upsert_half1. destruct (alookup k (store (mbase ms))); [|exact Hs].
        destruct rm; [exact Hs|]. destruct ttl as [t|]; [|exact Hs]. destruct (calc_expiry (now (mbase ms)) t); exact Hs.
      * unfold soft_mark. destruct (alookup k (store (mbase ms))); exact Hs.
      * unfold read_lookup. destruct (lookup_alive k (mbase ms)); exact Hs.
      * unfold read_body. destruct (read_one cfg k idxs (mbase ms)) as [[[v s'] [|i l]]|] eqn:Hr; try exact Hs.
        cbn [fst mbase end_cp win with_base base].
        rewrite (frameR_shut _ _ (InvCalls.read_one_frame cfg k idxs _ _ _ _ Hr)). exact Hs.
      * unfold read_lookup. destruct (lookup_alive k (mbase ms)); exact Hs.
      * unfold read_body. destruct (read_one cfg k idxs (mbase ms)) as [[[v s'] [|i l]]|] eqn:Hr; try exact Hs.
        cbn [fst mbase end_cp win with_base base].
        rewrite (frameR_shut _ _ (InvCalls.read_one_frame cfg k idxs _ _ _ _ Hr)). exact Hs.
    + exact Hs.
    + destruct (alookup tid (blocked (mbase ms))) as [[c| |]|]; try exact Hs.
      pose proof (do_send_shut cfg tid c (set_blocked (mbase ms) (aremove tid (blocked (mbase ms))))) as Hsh.
      destruct (do_send cfg tid c (set_blocked (mbase ms) (aremove tid (blocked (mbase ms))))) as [s' ret].
      cbn [fst mbase end_cp win with_base base] in *. rewrite Hsh. exact Hs.
    + destruct idxs as [|i [|j l]]; try exact Hs.
      destruct (pool_add cfg i h (mbase ms)) as [s'|] eqn:Hpa; [|exact Hs].
      cbn [fst mbase end_cp win with_base base].
      rewrite (frameR_shut _ _ (InvCalls.pool_add_frame cfg i h _ _ Hpa)). exact Hs.
    + unfold shutdown_stage.
      repeat match goal with |- context [if ?b then _ else _] => destruct b end;
        try exact Hs;
        try (destruct (worker (mbase ms)); repeat match goal with |- context [if ?b then _ else _] => destruct b end; exact Hs);
        try (destruct (consumer (mbase ms)); repeat match goal with |- context [if ?b then _ else _] => destruct b end; exact Hs).
  - exfalso. eapply Hw1. reflexivity.
  - exfalso. apply Hw2. reflexivity.
Qed.

(* STATEMENT (C13, shutdown in stages): from the moment the flag is up - before the Shutdown command is even queued and
   at every later stage - a call that begins is answered on the spot exactly as the atomic model answers it (writes: the
   shutting-down error, reads: absent / empty) and changes nothing but what that atomic call changes *)
Lemma micro_after_flag_refused : forall cfg ms tid r idxs,
  caller_free ms tid = true -> shut (mbase ms) = true ->
  mstep cfg ms (MEnter tid r idxs) =
  (with_mbase ms (fst (step cfg (mbase ms) (ECall tid r idxs))), snd (step cfg (mbase ms) (ECall tid r idxs))) /\
  (is_write_request r -> valid_request r -> step cfg (mbase ms) (ECall tid r idxs) = (mbase ms, [2])) /\
  (is_read_request r -> step cfg (mbase ms) (ECall tid r idxs) = (mbase ms, [5])) /\
  (r = RShutdown -> step cfg (mbase ms) (ECall tid r idxs) = (mbase ms, [5])).
Proof.
  intros cfg ms tid r idxs Hfree Hs.
  destruct (caller_free_spec ms tid Hfree) as (_ & _ & Hb).
  split.
  - cbn [mstep step]. unfold menter. rewrite Hfree, Hs. cbn [negb orb].
    destruct (call cfg tid r idxs (mbase ms)) as [s' ret]. reflexivity.
  - exact (after_shutdown_refused cfg tid r idxs (mbase ms) Hs Hb).
Qed.

(** * Witnesses: the premises are satisfiable and the windows are real *)
Definition mcfg : config :=
  {| c_max := 100; c_counters := 16; c_shards := 2; c_queue := 8; c_pool := 1; c_buffer := 2; c_hash := 0; c_wcalc := 1;
     c_seeds := [1; 2; 3; 4]; c_t0 := 1000000000000; c_debug := true |}.
Definition orc0 : worker_oracle := {| o_orders := []; o_pops := []; o_bloom := [] |}.

(** two callers race on one key: both pass the presence check, both draw an id, both send *)
Definition racing_puts : list mevent :=
  [MEnter 0 (RPutW 1 10 5) []; MEnter 1 (RPutW 1 20 7) [];
   MStepC 0 []; MStepC 1 [];          (* put.checked, twice: the key is absent both times *)
   MStepC 0 []; MStepC 1 [];          (* send.enter: ids 1 and 2 *)
   MStepC 1 []; MStepC 0 [];          (* caller 1 sends first *)
   MWin (WBase (EWorker orc0)); MWin (WBase (EWorker orc0))].

(* STATEMENT (C05 / C07, the race the worker's re-check closes): both puts are queued, the one that is executed first is
   accepted, the other is answered 'key already exists'; one entry, one charge, nothing left over *)
Lemma racing_puts_one_wins :
  let s := mbase (mrun mcfg racing_puts) in
  Forall plain_micro racing_puts /\
  acks s = [(1, Rejected KeyAlreadyExists); (0, Accepted)] /\
  map (fun p => (fst p, e_val (snd p), e_id (snd p))) (store s) = [(1, 20, 2)] /\
  map (fun p => (fst p, w_weight (snd p))) (weights s) = [(2, 7)] /\ used s = 7 /\ queue s = [] /\ cps (mrun mcfg racing_puts) = [].
Proof.
  cbv zeta. split.
  - unfold racing_puts. repeat constructor; cbn; try lia; try discriminate; intros; discriminate.
  - vm_compute. repeat split; reflexivity.
Qed.

(** * Part D: a micro schedule in which no call is overtaken is a schedule of the window model *)
Inductive cevent :=
| CCall (tid : Z) (r : request) (idxs : list Z)      (* a whole call, its micro steps back to back *)
| CWin (e : wevent).                                  (* anything the window model can do *)

Definition cstep_m (cfg : config) (ms : mstate) (ce : cevent) : mstate :=
  match ce with
  | CCall tid r idxs => fst (mcall cfg tid r idxs ms)
  | CWin e => fst (mstep cfg ms (MWin e))
  end.
Definition cstep_w (cfg : config) (ws : wstate) (ce : cevent) : wstate :=
  match ce with
  | CCall tid r idxs => fst (wstep cfg ws (WBase (ECall tid r idxs)))
  | CWin e => fst (wstep cfg ws e)
  end.

(** the side conditions of [mcall_atomic], along the run *)
Fixpoint adm_run (cfg : config) (ms : mstate) (ces : list cevent) : Prop :=
  match ces with
  | [] => True
  | ce :: t =>
      match ce with
      | CCall tid r idxs => (forall k v w ttl rm, r <> RUpsert k v w ttl rm) /\ pool_admissible cfg r idxs (mbase ms)
      | CWin _ => True
      end /\ adm_run cfg (cstep_m cfg ms ce) t
  end.

Lemma with_base_eta : forall ws, with_base ws (base ws) = ws.
Proof. intros [b u p]. reflexivity. Qed.

Lemma call_blocked_noop : forall cfg tid r idxs s, amem tid (blocked s) = true -> call cfg tid r idxs s = (s, [6]).
Proof. intros cfg tid r idxs s H. unfold call. rewrite H. reflexivity. Qed.

Lemma cstep_agree : forall cfg ms ce, cps ms = [] -> wdel ms = None ->
  match ce with
  | CCall tid r idxs => (forall k v w ttl rm, r <> RUpsert k v w ttl rm) /\ pool_admissible cfg r idxs (mbase ms)
  | CWin _ => True
  end ->
  win (cstep_m cfg ms ce) = cstep_w cfg (win ms) ce /\ cps (cstep_m cfg ms ce) = [] /\ wdel (cstep_m cfg ms ce) = None.
Proof.
  intros cfg ms ce Hc Hw Hadm. destruct ce as [tid r idxs|e]; cbn [cstep_m cstep_w].
  - destruct Hadm as (Hnu & Hpa).
    destruct (caller_free ms tid) eqn:Hfree.
    + rewrite (mcall_atomic cfg tid r idxs ms Hfree Hnu Hpa). cbn [fst].
      destruct (caller_free_spec ms tid Hfree) as (_ & Hu & _).
      rewrite wstep_base_eq. rewrite Hu. cbn [negb].
      unfold mbase. destruct (step cfg (base (win ms)) (ECall tid r idxs)) as [s' ret] eqn:E.
      cbn [step] in E. rewrite E. cbn [fst with_mbase win cps wdel]. auto.
    + (* the caller is inside a window or parked: the call is not enabled, in either model *)
      unfold mcall, menter. rewrite Hfree. cbn [negb]. rewrite mcall_steps_stop by reflexivity. cbn [fst].
      unfold caller_free in Hfree. rewrite Hc in Hfree. cbn [amem alookup negb andb] in Hfree.
      rewrite wstep_base_eq.
      destruct (amem tid (ups (win ms))) eqn:Hu; cbn [negb andb] in *.
      * auto.
      * destruct (amem tid (blocked (mbase ms))) eqn:Hb; [|discriminate].
        cbn [step]. unfold mbase in Hb. rewrite (call_blocked_noop cfg tid r idxs _ Hb).
        rewrite with_base_eta. auto.
  - cbn [mstep]. assert (He : mwin_enabled ms e = true).
    { unfold mwin_enabled. rewrite Hc, Hw. destruct e as [[]| | | |]; reflexivity. }
    rewrite He. destruct (wstep cfg (win ms) e) as [w' ret]. cbn [fst win cps wdel]. auto.
Qed.

(* STATEMENT: a micro schedule whose calls are not overtaken (each call's micro steps run back to back; in between, any
   events of the window model) reaches exactly the states of the window model with those calls as atomic events; together
   with [atomic_schedule_refines] (Window.v without overtaking = Model.v) every theorem about Model.v transfers *)
Lemma micro_schedule_refines : forall cfg ces ms,
  cps ms = [] -> wdel ms = None -> adm_run cfg ms ces ->
  win (fold_left (cstep_m cfg) ces ms) = fold_left (cstep_w cfg) ces (win ms) /\
  cps (fold_left (cstep_m cfg) ces ms) = [] /\ wdel (fold_left (cstep_m cfg) ces ms) = None.
Proof.
  intros cfg ces. induction ces as [|ce t IH]; intros ms Hc Hw Hadm; cbn [fold_left].
  - auto.
  - destruct Hadm as (Hce & Ht).
    destruct (cstep_agree cfg ms ce Hc Hw Hce) as (E1 & E2 & E3).
    destruct (IH (cstep_m cfg ms ce) E2 E3 Ht) as (F1 & F2 & F3).
    rewrite F1, E1. auto.
Qed.

(** ** the worker's put: admission | store insert (| index registration) *)
Lemma mworker2_charged : forall cfg ms a k v id ttl obs, wdel ms = Some (WPCharged a k v id ttl obs) ->
  mworker2 cfg ms =
  match ttl with
  | None => ({| win := with_base (win ms) (set_ack a Accepted (store_insert k v id None (mbase ms))); cps := cps ms; wdel := None |}, obs)
  | Some t =>
      match calc_expiry (now (mbase ms)) t with
      | None => ({| win := with_base (win ms) (set_worker (mbase ms) Dead); cps := cps ms; wdel := None |}, [4; site_expiry_overflow])
      | Some e =>
          ({| win := {| base := store_insert k v id (Some e) (mbase ms); ups := ups (win ms);
                        wpending := Some {| p_ack := a; p_id := id; p_exp := e; p_obs := obs |} |};
              cps := cps ms; wdel := None |}, [9])
      end
  end.
Proof. intros cfg ms a k v id ttl obs H. unfold mworker2. rewrite H. reflexivity. Qed.

Lemma mworker2_window : forall cfg ms, wdel ms = None ->
  mworker2 cfg ms = let '(w', ret) := wstep cfg (win ms) WPut2 in ({| win := w'; cps := cps ms; wdel := None |}, ret).
Proof. intros cfg ms H. unfold mworker2. rewrite H. destruct (wstep cfg (win ms) WPut2). reflexivity. Qed.

(* STATEMENT: the steps of the worker's put (admission | store insert, and with a time-to-live | index registration), back
   to back, are the atomic worker step *)
Lemma mput_atomic : forall cfg orc ms k v id h w ttl a q,
  wdel ms = None -> wpending (win ms) = None -> worker (mbase ms) = Alive ->
  queue (mbase ms) = (match ttl with None => CPut k v id h w | Some t => CPutTTL k v id h w t end, a) :: q ->
  let r1 := mworker1 cfg ms orc in
  let r2 := if stopped (snd r1) then mworker2 cfg (fst r1) else r1 in
  let r3 := if stopped (snd r2) then mworker2 cfg (fst r2) else r2 in
  let atomic := worker_step cfg orc (mbase ms) in
  mbase (fst r3) = fst atomic /\ snd r3 = snd atomic /\ wdel (fst r3) = None /\ cps (fst r3) = cps ms /\
  ups (win (fst r3)) = ups (win ms) /\ wpending (win (fst r3)) = None.
Proof.
  intros cfg orc ms k v id h w ttl a q Hwd Hwp Hwk Hq. cbv zeta.
  assert (H1 : mworker1 cfg ms orc = mput1 cfg ms orc k v id h w ttl a q).
  { unfold mworker1. rewrite Hwd, Hwp, Hwk, Hq. destruct ttl; reflexivity. }
  rewrite H1. unfold mput1, worker_step. rewrite Hwk, Hq.
  remember (set_queue (mbase ms) q) as s0 eqn:Hs0.
  assert (Hatomic : forall X Y : state * list Z,
            (match ttl with None => X | Some _ => Y end) = (match ttl with None => X | Some _ => Y end)) by reflexivity.
  destruct ttl as [t|].
  - (* with a time-to-live *)
    destruct (amem k (store s0)) eqn:Hk.
    { cbn [fst snd stopped mbase with_mbase win base with_base wdel cps ups wpending]. repeat split; try reflexivity; assumption. }
    destruct (admission cfg orc k id h w s0) as [[r s1] vs] eqn:Ha.
    destruct r as [x|site|why].
    + destruct x as [|rs|rs|].
      * cbn [fst snd stopped mbase with_mbase win base with_base wdel cps ups wpending]. repeat split; try reflexivity; assumption.
      * (* accepted *)
        cbn [fst snd stopped].
        rewrite (mworker2_charged cfg {| win := with_base (win ms) s1; cps := cps ms; wdel := Some (WPCharged a k v id (Some t) (5 :: 1 :: map sk_id vs)) |}
                   a k v id (Some t) (5 :: 1 :: map sk_id vs) eq_refl).
        change (mbase {| win := with_base (win ms) s1; cps := cps ms; wdel := Some (WPCharged a k v id (Some t) (5 :: 1 :: map sk_id vs)) |}) with s1.
        destruct (calc_expiry (now s1) t) as [e|] eqn:He.
        -- cbn [fst snd stopped win cps wdel with_base ups wpending].
           rewrite mworker2_window by reflexivity. cbn [win]. rewrite wstep_put2_eq. cbn [wpending base ups].
           unfold worker_half2. cbn [p_ack p_id p_exp p_obs fst snd mbase win base ups wpending cps wdel].
           repeat split; reflexivity.
        -- cbn [fst snd stopped mbase win base with_base wdel cps ups wpending]. repeat split; try reflexivity; assumption.
      * cbn [fst snd stopped mbase with_mbase win base with_base wdel cps ups wpending]. repeat split; try reflexivity; assumption.
      * cbn [fst snd stopped mbase with_mbase win base with_base wdel cps ups wpending]. repeat split; try reflexivity; assumption.
    + cbn [fst snd stopped mbase with_mbase win base with_base wdel cps ups wpending]. repeat split; try reflexivity; assumption.
    + cbn [fst snd stopped]. repeat split; try reflexivity; assumption.
  - (* without *)
    destruct (amem k (store s0)) eqn:Hk.
    { cbn [fst snd stopped mbase with_mbase win base with_base wdel cps ups wpending]. repeat split; try reflexivity; assumption. }
    destruct (admission cfg orc k id h w s0) as [[r s1] vs] eqn:Ha.
    destruct r as [x|site|why].
    + destruct x as [|rs|rs|].
      * cbn [fst snd stopped mbase with_mbase win base with_base wdel cps ups wpending]. repeat split; try reflexivity; assumption.
      * cbn [fst snd stopped].
        rewrite (mworker2_charged cfg {| win := with_base (win ms) s1; cps := cps ms; wdel := Some (WPCharged a k v id None (5 :: 1 :: map sk_id vs)) |}
                   a k v id None (5 :: 1 :: map sk_id vs) eq_refl).
        cbn [fst snd stopped mbase win base with_base wdel cps ups wpending]. repeat split; try reflexivity; assumption.
      * cbn [fst snd stopped mbase with_mbase win base with_base wdel cps ups wpending]. repeat split; try reflexivity; assumption.
      * cbn [fst snd stopped mbase with_mbase win base with_base wdel cps ups wpending]. repeat split; try reflexivity; assumption.
    + cbn [fst snd stopped mbase with_mbase win base with_base wdel cps ups wpending]. repeat split; try reflexivity; assumption.
    + cbn [fst snd stopped]. repeat split; try reflexivity; assumption.
Qed.
