(** What each primitive of the model does to the fields the invariant talks about, and the preservation of the
    invariant by the primitives, the worker's commands, the API calls, the sweeper and the consumer. *)
From CacheD.proofs Require Import Defs AListLemmas InvLemmas.
From Coq Require Import ZifyBool Permutation.

Ltac dmatch :=
  match goal with |- context [match ?x with _ => _ end] => destruct x eqn:? end.

(** * Frames *)
(** fields untouched by the ledger primitives (they change store, weights, used, st only) *)
Definition frameA (s s' : state) : Prop :=
  ticker s' = ticker s /\ queue s' = queue s /\ blocked s' = blocked s /\ next_id s' = next_id s /\
  lfu s' = lfu s /\ worker s' = worker s /\ sweeper s' = sweeper s /\ consumer s' = consumer s /\
  now s' = now s /\ sweeper_run s' = sweeper_run s.

Lemma frameA_refl : forall s, frameA s s.
Proof. intros s. unfold frameA. repeat split; reflexivity. Qed.

Lemma frameA_trans : forall a b c, frameA a b -> frameA b c -> frameA a c.
Proof.
  unfold frameA. intros a b c (H1 & H2 & H3 & H4 & H5 & H6 & H7 & H8 & H9 & H10)
    (G1 & G2 & G3 & G4 & G5 & G6 & G7 & G8 & G9 & G10).
  repeat split; congruence.
Qed.

(** keys absent from the store stay absent, ids that are not charged stay uncharged *)
Definition mono (s s' : state) : Prop :=
  (forall k, alookup k (store s) = None -> alookup k (store s') = None) /\
  (forall id, alookup id (weights s) = None -> alookup id (weights s') = None).

Lemma mono_refl : forall s, mono s s.
Proof. intros s. split; auto. Qed.

Lemma mono_trans : forall a b c, mono a b -> mono b c -> mono a c.
Proof. intros a b c [H1 H2] [G1 G2]. split; auto. Qed.

(** fields untouched by reads: everything but pool, chan, st *)
Definition frameR (s s' : state) : Prop :=
  store s' = store s /\ weights s' = weights s /\ used s' = used s /\ ticker s' = ticker s /\
  lfu s' = lfu s /\ next_id s' = next_id s /\ queue s' = queue s /\ blocked s' = blocked s /\
  worker s' = worker s /\ sweeper s' = sweeper s /\ consumer s' = consumer s /\ now s' = now s /\
  shut s' = shut s.

Lemma frameR_refl : forall s, frameR s s.
Proof. intros s. unfold frameR. repeat split; reflexivity. Qed.

Lemma frameR_trans : forall a b c, frameR a b -> frameR b c -> frameR a c.
Proof.
  unfold frameR. intros a b c (H1 & H2 & H3 & H4 & H5 & H6 & H7 & H8 & H9 & H10 & H11 & H12 & H13)
    (G1 & G2 & G3 & G4 & G5 & G6 & G7 & G8 & G9 & G10 & G11 & G12 & G13).
  repeat split; congruence.
Qed.

Lemma frameR_inv : forall cfg s s', frameR s s' -> Inv cfg s -> Inv cfg s'.
Proof.
  intros cfg s s' (H1 & H2 & H3 & H4 & H5 & H6 & H7 & H8 & _) HI.
  apply (Inv_ext cfg s s' HI); assumption.
Qed.

(** the three roles *)
Definition roles (s s' : state) : Prop :=
  worker s' = worker s /\ sweeper s' = sweeper s /\ consumer s' = consumer s.

Lemma roles_refl : forall s, roles s s.
Proof. intros s. unfold roles. repeat split; reflexivity. Qed.

Lemma roles_trans : forall a b c, roles a b -> roles b c -> roles a c.
Proof. unfold roles. intros a b c (H1 & H2 & H3) (G1 & G2 & G3). repeat split; congruence. Qed.

Lemma frameR_roles : forall s s', frameR s s' -> roles s s'.
Proof. unfold frameR, roles. intros s s' H. repeat split; apply H. Qed.

Lemma frameA_roles : forall s s', frameA s s' -> roles s s'.
Proof. unfold frameA, roles. intros s s' H. repeat split; apply H. Qed.

(** * Ledger primitives, without the invariant *)
Definition oframe (s : state) (o : outcome state) : Prop :=
  match o with Ok s' => frameA s s' | Panic _ s' => frameA s s' | Inadmissible _ => True end.

Lemma store_delete_frame : forall k s, frameA s (store_delete k s).
Proof.
  intros k s. unfold store_delete. destruct (alookup k (store s)); [|apply frameA_refl].
  unfold frameA. repeat split; reflexivity.
Qed.

Lemma weights_delete_frame : forall cfg id hook s, oframe s (weights_delete cfg id hook s).
Proof.
  intros cfg id hook s. unfold weights_delete.
  destruct (alookup id (weights s)) as [wk|]; [|apply frameA_refl].
  cbv zeta. destruct (add_i64 cfg (used (set_weights s (aremove id (weights s)))) (- w_weight wk)) as [u|].
  - destruct hook.
    + unfold oframe. eapply frameA_trans; [|eapply frameA_trans; [apply store_delete_frame|]].
      * instantiate (1 := set_used (set_weights s (aremove id (weights s))) u).
        unfold frameA. repeat split; reflexivity.
      * unfold frameA. repeat split; reflexivity.
    + unfold oframe, frameA. repeat split; reflexivity.
  - unfold oframe, frameA. repeat split; reflexivity.
Qed.

Lemma weights_add_frame : forall cfg k id h w s, oframe s (weights_add cfg k id h w s).
Proof.
  intros cfg k id h w s. unfold weights_add. cbv zeta.
  destruct (add_i64 cfg (used (set_weights s (aset id (Build_wkey k h w) (weights s)))) w) as [u|];
    unfold oframe, frameA; repeat split; reflexivity.
Qed.

Lemma weights_update_frame : forall cfg id w s, oframe s (weights_update cfg id w s).
Proof.
  intros cfg id w s. unfold weights_update.
  destruct (alookup id (weights s)) as [wk|]; [|apply frameA_refl].
  destruct (add_i64 cfg (used s) (w - w_weight wk)) as [u|];
    unfold oframe, frameA; repeat split; reflexivity.
Qed.

Lemma create_space_loop_frame : forall fuel cfg est inc_freq w orders pops sm space s victims r s' vs,
  create_space_loop fuel cfg est inc_freq w orders pops sm space s victims = (r, s', vs) -> frameA s s'.
Proof.
  induction fuel as [|fuel IH]; intros cfg est inc_freq w orders pops sm space s victims r s' vs H;
    cbn [create_space_loop] in H.
  - inversion H; subst. apply frameA_refl.
  - destruct (w <=? space); [inversion H; subst; apply frameA_refl|].
    destruct pops as [|p pops']; [inversion H; subst; apply frameA_refl|].
    destruct (p =? -1).
    { destruct sm; [|inversion H; subst; apply frameA_refl].
      destruct (w <=? c_max cfg - used s); inversion H; subst; apply frameA_refl. }
    destruct (sample_find p sm) as [x|]; [|inversion H; subst; apply frameA_refl].
    destruct (negb (is_max x sm)); [inversion H; subst; apply frameA_refl|].
    destruct (inc_freq <? sk_freq x); [inversion H; subst; apply frameA_refl|].
    pose proof (weights_delete_frame cfg p true s) as Hf.
    destruct (weights_delete cfg p true s) as [s1|site s1|why]; unfold oframe in Hf.
    + destruct orders as [|order orders']; [inversion H; subst; exact Hf|].
      destruct (sample_fill est (weights s1) order (sample_remove p sm)) as [sm'|];
        [|inversion H; subst; exact Hf].
      eapply frameA_trans; [exact Hf|]. eapply IH. exact H.
    + inversion H; subst. exact Hf.
    + inversion H; subst. apply frameA_refl.
Qed.

Lemma admission_frame : forall cfg orc k id h w s r s' vs,
  admission cfg orc k id h w s = (r, s', vs) -> frameA s s'.
Proof.
  intros cfg orc k id h w s r s' vs H. unfold admission in H.
  destruct (c_max cfg <? w); [inversion H; subst; apply frameA_refl|].
  destruct (w <=? c_max cfg - used s).
  { pose proof (weights_add_frame cfg k id h w s) as Hf.
    destruct (weights_add cfg k id h w s); unfold oframe in Hf; inversion H; subst;
      [exact Hf|exact Hf|apply frameA_refl]. }
  destruct (negb (bloom_admissible (lfu_door (lfu s)) (o_bloom orc))); [inversion H; subst; apply frameA_refl|].
  destruct (est_panics (lfu s)); [inversion H; subst; apply frameA_refl|].
  destruct (o_orders orc) as [|order0 orders]; [inversion H; subst; apply frameA_refl|].
  destruct (negb (Nat.leb (length order0) sample_size)); [inversion H; subst; apply frameA_refl|].
  destruct (sample_fill (estimate_with (lfu s) (o_bloom orc)) (weights s) order0 []) as [sm0|];
    [|inversion H; subst; apply frameA_refl].
  destruct (create_space_loop (length (weights s) + 7) cfg (estimate_with (lfu s) (o_bloom orc))
              (estimate_with (lfu s) (o_bloom orc) h) w orders (o_pops orc) sm0 (c_max cfg - used s) s [])
    as [[r1 s1] vs1] eqn:Hl.
  pose proof (create_space_loop_frame _ _ _ _ _ _ _ _ _ _ _ _ _ _ Hl) as Hf1.
  destruct r1.
  - pose proof (weights_add_frame cfg k id h w s1) as Hf.
    destruct (weights_add cfg k id h w s1); unfold oframe in Hf; inversion H; subst;
      [eapply frameA_trans; eassumption|eapply frameA_trans; eassumption|exact Hf1].
  - inversion H; subst. exact Hf1.
  - inversion H; subst. exact Hf1.
  - inversion H; subst. exact Hf1.
Qed.

Lemma sweep_entries_frame : forall cfg now_ es s, oframe s (sweep_entries cfg now_ es s).
Proof.
  intros cfg now_ es. induction es as [|[id e] t IH]; intros s; cbn [sweep_entries].
  - apply frameA_refl.
  - destruct (e <? now_); [|apply IH].
    pose proof (weights_delete_frame cfg id true s) as Hf.
    destruct (weights_delete cfg id true s) as [s1|site s1|why]; unfold oframe in Hf.
    + specialize (IH s1). destruct (sweep_entries cfg now_ t s1); unfold oframe in *;
        [eapply frameA_trans; eassumption|eapply frameA_trans; eassumption|exact I].
    + exact Hf.
    + exact I.
Qed.

(** * Ledger primitives under the invariant *)
Lemma weights_delete_hook_spec : forall cfg s id, Inv cfg s ->
  exists s', weights_delete cfg id true s = Ok s' /\ Inv cfg s' /\ mono s s' /\ alookup id (weights s') = None.
Proof.
  intros cfg s id HI. unfold weights_delete.
  destruct (alookup id (weights s)) as [wk|] eqn:Hwk.
  - cbv zeta.
    destruct (Inv_charge_le_used cfg s id wk HI Hwk) as [Hpos Hle].
    pose proof (inv_used_range cfg s HI) as Hr.
    change (used (set_weights s (aremove id (weights s)))) with (used s).
    rewrite add_i64_in_range by (unfold i64_min; lia).
    destruct (inv_charged_stored cfg s HI id wk Hwk) as (e & Hke & Hide).
    unfold store_delete.
    change (store (set_used (set_weights s (aremove id (weights s))) (used s + - w_weight wk))) with (store s).
    rewrite Hke.
    eexists. split; [reflexivity|]. split; [|split].
    + apply (Inv_evict cfg s _ id wk HI Hwk); reflexivity.
    + split.
      * intros k Hk. cbn. rewrite alookup_aremove. destruct (k =? w_key wk); [reflexivity|exact Hk].
      * intros id' Hid'. cbn. rewrite alookup_aremove. destruct (id' =? id); [reflexivity|exact Hid'].
    + cbn. apply alookup_aremove_eq.
  - exists s. split; [reflexivity|]. split; [exact HI|]. split; [apply mono_refl|exact Hwk].
Qed.

Lemma weights_delete_hook_inv : forall cfg s id s', wf_config cfg -> Inv cfg s ->
  weights_delete cfg id true s = Ok s' -> Inv cfg s'.
Proof.
  intros cfg s id s' _ HI H. destruct (weights_delete_hook_spec cfg s id HI) as (s1 & H1 & HI1 & _).
  rewrite H in H1. inversion H1; subst. exact HI1.
Qed.

Lemma weights_delete_hook_no_panic : forall cfg s id, wf_config cfg -> Inv cfg s ->
  exists s', weights_delete cfg id true s = Ok s'.
Proof.
  intros cfg s id _ HI. destruct (weights_delete_hook_spec cfg s id HI) as (s1 & H1 & _).
  exists s1. exact H1.
Qed.

Lemma weights_add_spec : forall cfg k id h w s s', c_debug cfg = true -> weights_add cfg k id h w s = Ok s' ->
  weights s' = aset id (Build_wkey k h w) (weights s) /\ used s' = used s + w /\ used s + w <= i64_max /\
  store s' = store s.
Proof.
  intros cfg k id h w s s' Hd H. unfold weights_add in H. cbv zeta in H.
  change (used (set_weights s (aset id (Build_wkey k h w) (weights s)))) with (used s) in H.
  destruct (add_i64 cfg (used s) w) as [u|] eqn:Hu; [|discriminate].
  destruct (add_i64_debug cfg _ _ _ Hd Hu) as [Hu1 Hu2]. inversion H; subst s'. cbn.
  repeat split; try reflexivity; lia.
Qed.

Lemma create_space_loop_inv : forall cfg fuel est inc_freq w orders pops sm space s victims r s' vs,
  Inv cfg s ->
  create_space_loop fuel cfg est inc_freq w orders pops sm space s victims = (r, s', vs) ->
  Inv cfg s' /\ mono s s'.
Proof.
  intros cfg. induction fuel as [|fuel IH]; intros est inc_freq w orders pops sm space s victims r s' vs HI H;
    cbn [create_space_loop] in H.
  - inversion H; subst. split; [exact HI|apply mono_refl].
  - destruct (w <=? space); [inversion H; subst; split; [exact HI|apply mono_refl]|].
    destruct pops as [|p pops']; [inversion H; subst; split; [exact HI|apply mono_refl]|].
    destruct (p =? -1).
    { destruct sm; [|inversion H; subst; split; [exact HI|apply mono_refl]].
      destruct (w <=? c_max cfg - used s); inversion H; subst; (split; [exact HI|apply mono_refl]). }
    destruct (sample_find p sm) as [x|]; [|inversion H; subst; split; [exact HI|apply mono_refl]].
    destruct (negb (is_max x sm)); [inversion H; subst; split; [exact HI|apply mono_refl]|].
    destruct (inc_freq <? sk_freq x); [inversion H; subst; split; [exact HI|apply mono_refl]|].
    destruct (weights_delete_hook_spec cfg s p HI) as (s1 & Hd & HI1 & Hm1 & _).
    rewrite Hd in H.
    destruct orders as [|order orders']; [inversion H; subst; split; assumption|].
    destruct (sample_fill est (weights s1) order (sample_remove p sm)) as [sm'|];
      [|inversion H; subst; split; assumption].
    destruct (IH _ _ _ _ _ _ _ _ _ _ _ _ HI1 H) as [HI' Hm'].
    split; [exact HI'|]. eapply mono_trans; eassumption.
Qed.

(** what [admission] returns: either the id was charged on top of a state that satisfies the invariant, or the state
    itself satisfies it *)
Lemma admission_inv : forall cfg orc k id h w s r s1 vs, Inv cfg s ->
  admission cfg orc k id h w s = (r, s1, vs) ->
  match r with
  | AdStatus Accepted => exists sm, Inv cfg sm /\ mono s sm /\ frameA s sm /\ weights_add cfg k id h w sm = Ok s1
  | AdStatus _ => Inv cfg s1 /\ mono s s1
  | AdPanic _ => True
  | AdInadmissible _ => True
  end.
Proof.
  intros cfg orc k id h w s r s1 vs HI H. unfold admission in H.
  destruct (c_max cfg <? w); [inversion H; subst; split; [exact HI|apply mono_refl]|].
  destruct (w <=? c_max cfg - used s).
  { destruct (weights_add cfg k id h w s) as [s2|site s2|why] eqn:Hadd; inversion H; subst; [|exact I|exact I].
    exists s. split; [exact HI|]. split; [apply mono_refl|]. split; [apply frameA_refl|exact Hadd]. }
  destruct (negb (bloom_admissible (lfu_door (lfu s)) (o_bloom orc))); [inversion H; subst; exact I|].
  destruct (est_panics (lfu s)); [inversion H; subst; exact I|].
  destruct (o_orders orc) as [|order0 orders]; [inversion H; subst; exact I|].
  destruct (negb (Nat.leb (length order0) sample_size)); [inversion H; subst; exact I|].
  destruct (sample_fill (estimate_with (lfu s) (o_bloom orc)) (weights s) order0 []) as [sm0|];
    [|inversion H; subst; exact I].
  destruct (create_space_loop (length (weights s) + 7) cfg (estimate_with (lfu s) (o_bloom orc))
              (estimate_with (lfu s) (o_bloom orc) h) w orders (o_pops orc) sm0 (c_max cfg - used s) s [])
    as [[r1 s2] vs1] eqn:Hl.
  destruct (create_space_loop_inv _ _ _ _ _ _ _ _ _ _ _ _ _ _ HI Hl) as [HI2 Hm2].
  pose proof (create_space_loop_frame _ _ _ _ _ _ _ _ _ _ _ _ _ _ Hl) as Hf2.
  destruct r1.
  - destruct (weights_add cfg k id h w s2) as [s3|site s3|why] eqn:Hadd; inversion H; subst; [|exact I|exact I].
    exists s2. split; [exact HI2|]. split; [exact Hm2|]. split; [exact Hf2|exact Hadd].
  - inversion H; subst. split; assumption.
  - inversion H; subst. exact I.
  - inversion H; subst. exact I.
Qed.
