(** Preservation of the core invariant by the abstract effects of the model's operations.  Each lemma describes the
    new state [s'] by equations on its fields, so that it applies whatever happens to the fields the invariant does
    not mention (acknowledgements, statistics, pool, channel, clock, roles). *)
From CacheD.proofs Require Import Defs AListLemmas.
From Coq Require Import ZifyBool Permutation.

Lemma ticker_ids_spec : forall s id, NoDup (map fst (ticker s)) ->
  (In id (ticker_ids s) <-> exists sh t, tent (ticker s) sh id t).
Proof. intros s id Hnd. unfold ticker_ids. apply ticker_ids_tent. exact Hnd. Qed.

Lemma Inv_ticker_wf : forall cfg s, Inv cfg s -> ticker_wf (ticker s).
Proof. intros cfg s HI. exact (inv_ticker_nodup cfg s HI). Qed.

Lemma Inv_ticker_ids : forall cfg s id, Inv cfg s ->
  (In id (ticker_ids s) <-> exists sh t, tent (ticker s) sh id t).
Proof. intros cfg s id HI. apply ticker_ids_spec. exact (proj1 (inv_ticker_nodup cfg s HI)). Qed.

Lemma pending_same : forall s s', queue s' = queue s -> blocked s' = blocked s -> pending_cmds s' = pending_cmds s.
Proof. intros s s' Hq Hb. unfold pending_cmds. rewrite Hq, Hb. reflexivity. Qed.

(** what the invariant says about one pending command *)
Definition pending_ok (s : state) (c : cmd) : Prop :=
  cmd_weight_ok c /\
  forall id, cmd_put_id c = Some id -> id < next_id s /\ alookup id (weights s) = None /\ ~ In id (ticker_ids s).

Lemma Inv_pending_ok : forall cfg s c, Inv cfg s -> In c (pending_cmds s) -> pending_ok s c.
Proof.
  intros cfg s c HI Hin. split.
  - exact (inv_pending_weights cfg s HI c Hin).
  - intros id Hid. apply (proj2 (inv_ids_pending cfg s HI)). apply in_put_ids. exists c. split; assumption.
Qed.

(** * Changes of the pending commands and of [next_id] only *)
Lemma Inv_transfer : forall cfg s s', Inv cfg s ->
  store s' = store s -> weights s' = weights s -> used s' = used s -> ticker s' = ticker s -> lfu s' = lfu s ->
  next_id s <= next_id s' ->
  (forall x, (idcount x (pending_cmds s') <= 1)%nat) ->
  (forall c, In c (pending_cmds s') -> cmd_weight_ok c /\
     forall id, cmd_put_id c = Some id -> id < next_id s' /\ alookup id (weights s) = None /\ ~ In id (ticker_ids s)) ->
  Inv cfg s'.
Proof.
  intros cfg s s' HI Hst Hw Hu Htk Hl Hn Hcnt Hpend.
  constructor; unfold ticker_ids; rewrite ?Hst, ?Hw, ?Hu, ?Htk, ?Hl.
  - exact (inv_store_nodup cfg s HI).
  - exact (inv_weights_nodup cfg s HI).
  - exact (inv_ticker_nodup cfg s HI).
  - exact (inv_store_charged cfg s HI).
  - exact (inv_charged_stored cfg s HI).
  - exact (inv_used_sum cfg s HI).
  - exact (inv_weights_pos cfg s HI).
  - exact (inv_ticker_sound cfg s HI).
  - exact (inv_ticker_complete cfg s HI).
  - intros id wk H. pose proof (inv_ids_weights cfg s HI id wk H). lia.
  - intros id H. pose proof (inv_ids_ticker cfg s HI id H). lia.
  - split.
    + apply nodup_idcount. exact Hcnt.
    + intros id Hin. apply in_put_ids in Hin. destruct Hin as (c & Hc & Hid).
      destruct (Hpend c Hc) as [_ H]. exact (H id Hid).
  - intros c Hc. apply Hpend. exact Hc.
  - exact (inv_lfu cfg s HI).
  - exact (inv_used_range cfg s HI).
Qed.

Lemma Inv_shrink : forall cfg s s', Inv cfg s ->
  store s' = store s -> weights s' = weights s -> used s' = used s -> ticker s' = ticker s -> lfu s' = lfu s ->
  next_id s' = next_id s ->
  (forall x, (idcount x (pending_cmds s') <= idcount x (pending_cmds s))%nat) ->
  (forall c, In c (pending_cmds s') -> In c (pending_cmds s)) ->
  Inv cfg s'.
Proof.
  intros cfg s s' HI Hst Hw Hu Htk Hl Hn Hcnt Hin.
  apply (Inv_transfer cfg s s' HI Hst Hw Hu Htk Hl); [lia| |].
  - intros x. specialize (Hcnt x).
    pose proof (proj1 (nodup_idcount (pending_cmds s)) (proj1 (inv_ids_pending cfg s HI)) x). lia.
  - intros c Hc. rewrite Hn. apply (Inv_pending_ok cfg s c HI). apply Hin. exact Hc.
Qed.

Lemma Inv_ext : forall cfg s s', Inv cfg s ->
  store s' = store s -> weights s' = weights s -> used s' = used s -> ticker s' = ticker s -> lfu s' = lfu s ->
  next_id s' = next_id s -> queue s' = queue s -> blocked s' = blocked s ->
  Inv cfg s'.
Proof.
  intros cfg s s' HI Hst Hw Hu Htk Hl Hn Hq Hb.
  apply (Inv_shrink cfg s s' HI Hst Hw Hu Htk Hl Hn); rewrite (pending_same s s' Hq Hb); auto.
Qed.

(** * Charges *)
Lemma Inv_charge_le_used : forall cfg s id wk, Inv cfg s -> alookup id (weights s) = Some wk ->
  0 < w_weight wk <= used s.
Proof.
  intros cfg s id wk HI Hwk.
  pose proof (inv_weights_pos cfg s HI id wk Hwk) as Hpos.
  rewrite (inv_used_sum cfg s HI).
  rewrite (weights_sum_aremove id wk (weights s) (inv_weights_nodup cfg s HI) Hwk).
  assert (H0 : 0 <= weights_sum (aremove id (weights s))).
  { apply weights_sum_nonneg.
    - apply NoDup_aremove. exact (inv_weights_nodup cfg s HI).
    - intros id' wk' H. rewrite alookup_aremove in H. destruct (id' =? id); [discriminate|].
      exact (inv_weights_pos cfg s HI id' wk' H). }
  lia.
Qed.

(** * Eviction: a charge goes together with the stored entry of its key *)
Lemma Inv_evict : forall cfg s s' id wk, Inv cfg s -> alookup id (weights s) = Some wk ->
  store s' = aremove (w_key wk) (store s) -> weights s' = aremove id (weights s) ->
  used s' = used s - w_weight wk -> ticker s' = ticker s -> queue s' = queue s -> blocked s' = blocked s ->
  next_id s' = next_id s -> lfu s' = lfu s -> Inv cfg s'.
Proof.
  intros cfg s s' id wk HI Hwk Hst Hw Hu Htk Hq Hb Hn Hl.
  destruct (inv_charged_stored cfg s HI id wk Hwk) as (e & Hke & Hide).
  pose proof (pending_same s s' Hq Hb) as Hpc.
  assert (Fst : forall k' e', alookup k' (store s') = Some e' -> k' <> w_key wk /\ alookup k' (store s) = Some e').
  { intros k' e' H. rewrite Hst, alookup_aremove in H.
    destruct (Z.eqb_spec k' (w_key wk)) as [He|Hne]; [discriminate|]. split; assumption. }
  assert (Fw : forall id' wk', alookup id' (weights s') = Some wk' -> id' <> id /\ alookup id' (weights s) = Some wk').
  { intros id' wk' H. rewrite Hw, alookup_aremove in H.
    destruct (Z.eqb_spec id' id) as [He|Hne]; [discriminate|]. split; assumption. }
  assert (Fkey : forall id' wk', id' <> id -> alookup id' (weights s) = Some wk' -> w_key wk' <> w_key wk).
  { intros id' wk' Hne H Heq.
    destruct (inv_charged_stored cfg s HI id' wk' H) as (e' & He' & Hid').
    rewrite Heq, Hke in He'. inversion He'; subst e'. congruence. }
  constructor.
  - rewrite Hst. apply NoDup_aremove. exact (inv_store_nodup cfg s HI).
  - rewrite Hw. apply NoDup_aremove. exact (inv_weights_nodup cfg s HI).
  - rewrite Htk. exact (inv_ticker_nodup cfg s HI).
  - intros k' e' H. destruct (Fst k' e' H) as [Hne H0].
    destruct (inv_store_charged cfg s HI k' e' H0) as (wk' & Hwk' & Hk').
    exists wk'. split; [|exact Hk'].
    rewrite Hw, alookup_aremove_neq; [exact Hwk'|].
    intros Heq. rewrite Heq, Hwk in Hwk'. inversion Hwk'; subst wk'. congruence.
  - intros id' wk' H. destruct (Fw id' wk' H) as [Hne H0].
    destruct (inv_charged_stored cfg s HI id' wk' H0) as (e' & He' & Hid').
    exists e'. split; [|exact Hid'].
    rewrite Hst, alookup_aremove_neq; [exact He'|]. exact (Fkey id' wk' Hne H0).
  - rewrite Hu, Hw, (inv_used_sum cfg s HI).
    rewrite (weights_sum_aremove id wk (weights s) (inv_weights_nodup cfg s HI) Hwk). lia.
  - intros id' wk' H. destruct (Fw id' wk' H) as [_ H0]. exact (inv_weights_pos cfg s HI id' wk' H0).
  - intros sh id' t H. rewrite Htk in H.
    destruct (inv_ticker_sound cfg s HI sh id' t H) as [Hsh Hch]. split; [exact Hsh|].
    intros wk' Hwk'. destruct (Fw id' wk' Hwk') as [Hne H0].
    destruct (Hch wk' H0) as (e' & He' & Hid' & Hex).
    exists e'. split; [|split; assumption].
    rewrite Hst, alookup_aremove_neq; [exact He'|]. exact (Fkey id' wk' Hne H0).
  - intros k' e' t H Hex. destruct (Fst k' e' H) as [_ H0]. rewrite Htk.
    exact (inv_ticker_complete cfg s HI k' e' t H0 Hex).
  - intros id' wk' H. destruct (Fw id' wk' H) as [_ H0]. rewrite Hn.
    exact (inv_ids_weights cfg s HI id' wk' H0).
  - unfold ticker_ids. rewrite Htk, Hn. exact (inv_ids_ticker cfg s HI).
  - rewrite Hpc. destruct (inv_ids_pending cfg s HI) as [Hnd Hall]. split; [exact Hnd|].
    intros x Hx. destruct (Hall x Hx) as (H1 & H2 & H3).
    split; [rewrite Hn; exact H1|]. split.
    + rewrite Hw, alookup_aremove. destruct (x =? id); [reflexivity|exact H2].
    + unfold ticker_ids. rewrite Htk. exact H3.
  - rewrite Hpc. exact (inv_pending_weights cfg s HI).
  - rewrite Hl. exact (inv_lfu cfg s HI).
  - rewrite Hu. pose proof (inv_used_range cfg s HI). pose proof (inv_weights_pos cfg s HI id wk Hwk). lia.
Qed.

(** * Removing index entries of ids that are not charged *)
Lemma Inv_prune : forall cfg s s', Inv cfg s ->
  store s' = store s -> weights s' = weights s -> used s' = used s -> queue s' = queue s -> blocked s' = blocked s ->
  next_id s' = next_id s -> lfu s' = lfu s ->
  ticker_wf (ticker s') ->
  (forall sh id t, tent (ticker s') sh id t -> tent (ticker s) sh id t) ->
  (forall sh id t, tent (ticker s) sh id t -> alookup id (weights s) <> None -> tent (ticker s') sh id t) ->
  Inv cfg s'.
Proof.
  intros cfg s s' HI Hst Hw Hu Hq Hb Hn Hl Hwf Hsub Hkeep.
  pose proof (pending_same s s' Hq Hb) as Hpc.
  assert (Fids : forall id, In id (ticker_ids s') -> In id (ticker_ids s)).
  { intros id H. apply (ticker_ids_spec s' id (proj1 Hwf)) in H. destruct H as (sh & t & H).
    apply (Inv_ticker_ids cfg s id HI). exists sh, t. apply Hsub. exact H. }
  constructor; rewrite ?Hst, ?Hw, ?Hu, ?Hl, ?Hpc, ?Hn.
  - exact (inv_store_nodup cfg s HI).
  - exact (inv_weights_nodup cfg s HI).
  - exact Hwf.
  - exact (inv_store_charged cfg s HI).
  - exact (inv_charged_stored cfg s HI).
  - exact (inv_used_sum cfg s HI).
  - exact (inv_weights_pos cfg s HI).
  - intros sh id t H. apply Hsub in H. exact (inv_ticker_sound cfg s HI sh id t H).
  - intros k e t H Hex.
    pose proof (inv_ticker_complete cfg s HI k e t H Hex) as Ht.
    destruct (inv_store_charged cfg s HI k e H) as (wk & Hwk & _).
    apply Hkeep; [exact Ht|]. rewrite Hwk. discriminate.
  - exact (inv_ids_weights cfg s HI).
  - intros id H. apply (inv_ids_ticker cfg s HI). apply Fids. exact H.
  - destruct (inv_ids_pending cfg s HI) as [Hnd Hall]. split; [exact Hnd|].
    intros x Hx. destruct (Hall x Hx) as (H1 & H2 & H3).
    split; [exact H1|]. split; [exact H2|]. intros Hc. apply H3. apply Fids. exact Hc.
  - exact (inv_pending_weights cfg s HI).
  - exact (inv_lfu cfg s HI).
  - exact (inv_used_range cfg s HI).
Qed.

(** * Insertion of a fresh key under a fresh id (worker, Put / PutWithTTL) *)
Lemma Inv_insert : forall cfg s s' k id h w ent, Inv cfg s ->
  alookup k (store s) = None -> alookup id (weights s) = None -> ~ In id (ticker_ids s) -> id < next_id s ->
  ~ In id (put_ids (pending_cmds s)) -> 0 < w -> used s + w <= i64_max ->
  e_id ent = id ->
  store s' = aset k ent (store s) ->
  weights s' = aset id (Build_wkey k h w) (weights s) ->
  used s' = used s + w ->
  ticker_wf (ticker s') ->
  (forall sh id' t, tent (ticker s') sh id' t <->
      (tent (ticker s) sh id' t \/ (id' = id /\ e_exp ent = Some t /\ sh = shard_index cfg t))) ->
  queue s' = queue s -> blocked s' = blocked s -> next_id s' = next_id s -> lfu s' = lfu s -> Inv cfg s'.
Proof.
  intros cfg s s' k id h w ent HI Hk Hid Hnt Hlt Hnp Hw0 Hrange Heid Hst Hw Hu Hwf Htk Hq Hb Hn Hl.
  pose proof (pending_same s s' Hq Hb) as Hpc.
  assert (Fnc : forall sh t, ~ tent (ticker s) sh id t).
  { intros sh t H. apply Hnt. apply (Inv_ticker_ids cfg s id HI). exists sh, t. exact H. }
  assert (Fkey : forall id' wk', alookup id' (weights s) = Some wk' -> w_key wk' <> k).
  { intros id' wk' H Heq. destruct (inv_charged_stored cfg s HI id' wk' H) as (e' & He' & _).
    rewrite Heq, Hk in He'. discriminate. }
  assert (Fid : forall k' e', alookup k' (store s) = Some e' -> e_id e' <> id).
  { intros k' e' H Heq. destruct (inv_store_charged cfg s HI k' e' H) as (wk' & Hwk' & _).
    rewrite Heq, Hid in Hwk'. discriminate. }
  constructor.
  - rewrite Hst. apply NoDup_aset. exact (inv_store_nodup cfg s HI).
  - rewrite Hw. apply NoDup_aset. exact (inv_weights_nodup cfg s HI).
  - exact Hwf.
  - intros k' e' H. rewrite Hst, alookup_aset in H.
    destruct (Z.eqb_spec k' k) as [He|Hne].
    + inversion H; subst e' k'. exists (Build_wkey k h w). split; [|reflexivity].
      rewrite Hw, Heid, alookup_aset_eq. reflexivity.
    + destruct (inv_store_charged cfg s HI k' e' H) as (wk' & Hwk' & Hk').
      exists wk'. split; [|exact Hk']. rewrite Hw, alookup_aset_neq; [exact Hwk'|].
      exact (Fid k' e' H).
  - intros id' wk' H. rewrite Hw, alookup_aset in H.
    destruct (Z.eqb_spec id' id) as [He|Hne].
    + inversion H; subst wk' id'. cbn [w_key]. exists ent. split; [|exact Heid].
      rewrite Hst, alookup_aset_eq. reflexivity.
    + destruct (inv_charged_stored cfg s HI id' wk' H) as (e' & He' & Hid').
      exists e'. split; [|exact Hid']. rewrite Hst, alookup_aset_neq; [exact He'|].
      exact (Fkey id' wk' H).
  - rewrite Hu, Hw, weights_sum_aset. cbn [w_weight]. rewrite (aremove_notin id (weights s) Hid).
    rewrite (inv_used_sum cfg s HI). lia.
  - intros id' wk' H. rewrite Hw, alookup_aset in H.
    destruct (Z.eqb_spec id' id) as [He|Hne].
    + inversion H; subst wk'. cbn [w_weight]. exact Hw0.
    + exact (inv_weights_pos cfg s HI id' wk' H).
  - intros sh id' t H. apply Htk in H. destruct H as [H|(Hi & Hex & Hsh)].
    + destruct (inv_ticker_sound cfg s HI sh id' t H) as [Hsh Hch]. split; [exact Hsh|].
      intros wk' Hwk'. rewrite Hw, alookup_aset in Hwk'.
      destruct (Z.eqb_spec id' id) as [He|Hne].
      * subst id'. exfalso. exact (Fnc sh t H).
      * destruct (Hch wk' Hwk') as (e' & He' & Hid' & Hex).
        exists e'. split; [|split; assumption].
        rewrite Hst, alookup_aset_neq; [exact He'|]. exact (Fkey id' wk' Hwk').
    + subst id'. split; [exact Hsh|].
      intros wk' Hwk'. rewrite Hw, alookup_aset_eq in Hwk'. inversion Hwk'; subst wk'. cbn [w_key].
      exists ent. split; [rewrite Hst, alookup_aset_eq; reflexivity|]. split; assumption.
  - intros k' e' t H Hex. apply Htk. rewrite Hst, alookup_aset in H.
    destruct (Z.eqb_spec k' k) as [He|Hne].
    + inversion H; subst e'. right. split; [exact Heid|]. split; [exact Hex|reflexivity].
    + left. exact (inv_ticker_complete cfg s HI k' e' t H Hex).
  - intros id' wk' H. rewrite Hn. rewrite Hw, alookup_aset in H.
    destruct (Z.eqb_spec id' id) as [He|Hne].
    + subst id'. exact Hlt.
    + exact (inv_ids_weights cfg s HI id' wk' H).
  - intros x Hx. rewrite Hn. apply (ticker_ids_spec s' x (proj1 Hwf)) in Hx. destruct Hx as (sh & t & H).
    apply Htk in H. destruct H as [H|(Hi & _)].
    + apply (inv_ids_ticker cfg s HI). apply (Inv_ticker_ids cfg s x HI). exists sh, t. exact H.
    + subst x. exact Hlt.
  - rewrite Hpc. destruct (inv_ids_pending cfg s HI) as [Hnd Hall]. split; [exact Hnd|].
    intros x Hx. destruct (Hall x Hx) as (H1 & H2 & H3).
    split; [rewrite Hn; exact H1|]. split.
    + rewrite Hw, alookup_aset_neq; [exact H2|]. intros He. subst x. exact (Hnp Hx).
    + intros Hc. apply (ticker_ids_spec s' x (proj1 Hwf)) in Hc. destruct Hc as (sh & t & H).
      apply Htk in H. destruct H as [H|(Hi & _)].
      * apply H3. apply (Inv_ticker_ids cfg s x HI). exists sh, t. exact H.
      * subst x. exact (Hnp Hx).
  - rewrite Hpc. exact (inv_pending_weights cfg s HI).
  - rewrite Hl. exact (inv_lfu cfg s HI).
  - rewrite Hu. exact Hrange.
Qed.

(** * Change of a charged weight *)
Lemma Inv_update_weight : forall cfg s s' id wk w, Inv cfg s -> alookup id (weights s) = Some wk -> 0 < w ->
  used s + (w - w_weight wk) <= i64_max ->
  weights s' = aset id (Build_wkey (w_key wk) (w_hash wk) w) (weights s) ->
  used s' = used s + (w - w_weight wk) ->
  store s' = store s -> ticker s' = ticker s -> queue s' = queue s -> blocked s' = blocked s ->
  next_id s' = next_id s -> lfu s' = lfu s -> Inv cfg s'.
Proof.
  intros cfg s s' id wk w HI Hwk Hw0 Hrange Hw Hu Hst Htk Hq Hb Hn Hl.
  pose proof (pending_same s s' Hq Hb) as Hpc.
  assert (Fw : forall id' wk', alookup id' (weights s') = Some wk' ->
             exists wk0, alookup id' (weights s) = Some wk0 /\ w_key wk' = w_key wk0).
  { intros id' wk' H. rewrite Hw, alookup_aset in H.
    destruct (Z.eqb_spec id' id) as [He|Hne].
    - inversion H; subst wk' id'. exists wk. split; [exact Hwk|reflexivity].
    - exists wk'. split; [exact H|reflexivity]. }
  assert (Fw' : forall id' wk0, alookup id' (weights s) = Some wk0 ->
             exists wk', alookup id' (weights s') = Some wk' /\ w_key wk' = w_key wk0).
  { intros id' wk0 H. rewrite Hw, alookup_aset.
    destruct (Z.eqb_spec id' id) as [He|Hne].
    - subst id'. rewrite Hwk in H. inversion H; subst wk0. eexists. split; [reflexivity|reflexivity].
    - exists wk0. split; [exact H|reflexivity]. }
  constructor; rewrite ?Hst, ?Htk, ?Hl, ?Hpc, ?Hn.
  - exact (inv_store_nodup cfg s HI).
  - rewrite Hw. apply NoDup_aset. exact (inv_weights_nodup cfg s HI).
  - exact (inv_ticker_nodup cfg s HI).
  - intros k e H. destruct (inv_store_charged cfg s HI k e H) as (wk0 & Hwk0 & Hk0).
    destruct (Fw' (e_id e) wk0 Hwk0) as (wk' & Hwk' & Hk'). exists wk'. split; [exact Hwk'|congruence].
  - intros id' wk' H. destruct (Fw id' wk' H) as (wk0 & Hwk0 & Hk0). rewrite Hk0.
    exact (inv_charged_stored cfg s HI id' wk0 Hwk0).
  - rewrite Hu, Hw, weights_sum_aset. cbn [w_weight]. rewrite (inv_used_sum cfg s HI).
    rewrite (weights_sum_aremove id wk (weights s) (inv_weights_nodup cfg s HI) Hwk). lia.
  - intros id' wk' H. rewrite Hw, alookup_aset in H.
    destruct (Z.eqb_spec id' id) as [He|Hne].
    + inversion H; subst wk'. cbn [w_weight]. exact Hw0.
    + exact (inv_weights_pos cfg s HI id' wk' H).
  - intros sh id' t H. destruct (inv_ticker_sound cfg s HI sh id' t H) as [Hsh Hch]. split; [exact Hsh|].
    intros wk' Hwk'. destruct (Fw id' wk' Hwk') as (wk0 & Hwk0 & Hk0). rewrite Hk0. exact (Hch wk0 Hwk0).
  - exact (inv_ticker_complete cfg s HI).
  - intros id' wk' H. destruct (Fw id' wk' H) as (wk0 & Hwk0 & _). exact (inv_ids_weights cfg s HI id' wk0 Hwk0).
  - unfold ticker_ids. rewrite Htk. exact (inv_ids_ticker cfg s HI).
  - destruct (inv_ids_pending cfg s HI) as [Hnd Hall]. split; [exact Hnd|].
    intros x Hx. destruct (Hall x Hx) as (H1 & H2 & H3).
    split; [exact H1|]. split.
    + rewrite Hw, alookup_aset. destruct (Z.eqb_spec x id) as [He|Hne]; [|exact H2].
      subst x. rewrite Hwk in H2. discriminate.
    + unfold ticker_ids. rewrite Htk. exact H3.
  - exact (inv_pending_weights cfg s HI).
  - exact (inv_lfu cfg s HI).
  - rewrite Hu. exact Hrange.
Qed.

(** * Update of a stored entry in place (same id), with the index adjusted to its new expiry *)
Lemma Inv_stored_tent : forall cfg s k e sh t, Inv cfg s -> alookup k (store s) = Some e ->
  (tent (ticker s) sh (e_id e) t <-> e_exp e = Some t /\ sh = shard_index cfg t).
Proof.
  intros cfg s k e sh t HI Hke. split.
  - intros H. destruct (inv_ticker_sound cfg s HI sh (e_id e) t H) as [Hsh Hch].
    destruct (inv_store_charged cfg s HI k e Hke) as (wk & Hwk & Hk).
    destruct (Hch wk Hwk) as (e' & He' & _ & Hex). rewrite Hk, Hke in He'. inversion He'; subst e'.
    split; assumption.
  - intros [Hex Hsh]. subst sh. exact (inv_ticker_complete cfg s HI k e t Hke Hex).
Qed.

Lemma Inv_store_update : forall cfg s s' k e e', Inv cfg s -> alookup k (store s) = Some e ->
  e_id e' = e_id e ->
  store s' = aset k e' (store s) ->
  ticker_wf (ticker s') ->
  (forall sh id t, id <> e_id e -> (tent (ticker s') sh id t <-> tent (ticker s) sh id t)) ->
  (forall sh t, tent (ticker s') sh (e_id e) t <-> e_exp e' = Some t /\ sh = shard_index cfg t) ->
  weights s' = weights s -> used s' = used s -> queue s' = queue s -> blocked s' = blocked s ->
  next_id s' = next_id s -> lfu s' = lfu s -> Inv cfg s'.
Proof.
  intros cfg s s' k e e' HI Hke Heid Hst Hwf Hoth Hown Hw Hu Hq Hb Hn Hl.
  pose proof (pending_same s s' Hq Hb) as Hpc.
  destruct (inv_store_charged cfg s HI k e Hke) as (wk & Hwk & Hwkk).
  assert (Fkey : forall id' wk', alookup id' (weights s) = Some wk' -> w_key wk' = k -> id' = e_id e).
  { intros id' wk' H Heq. destruct (inv_charged_stored cfg s HI id' wk' H) as (e0 & He0 & Hid0).
    rewrite Heq, Hke in He0. inversion He0; subst e0. symmetry. exact Hid0. }
  assert (Fid : forall k' e0, k' <> k -> alookup k' (store s) = Some e0 -> e_id e0 <> e_id e).
  { intros k' e0 Hne H Heq. destruct (inv_store_charged cfg s HI k' e0 H) as (wk' & Hwk' & Hk').
    rewrite Heq, Hwk in Hwk'. inversion Hwk'; subst wk'. congruence. }
  assert (Fids : forall x, In x (ticker_ids s') -> x = e_id e \/ In x (ticker_ids s)).
  { intros x Hx. destruct (Z.eq_dec x (e_id e)) as [He|Hne]; [left; exact He|right].
    apply (ticker_ids_spec s' x (proj1 Hwf)) in Hx. destruct Hx as (sh & t & H).
    apply (Inv_ticker_ids cfg s x HI). exists sh, t. apply (Hoth sh x t Hne). exact H. }
  constructor; rewrite ?Hw, ?Hu, ?Hl, ?Hpc, ?Hn.
  - rewrite Hst. apply NoDup_aset. exact (inv_store_nodup cfg s HI).
  - exact (inv_weights_nodup cfg s HI).
  - exact Hwf.
  - intros k' e0 H. rewrite Hst, alookup_aset in H.
    destruct (Z.eqb_spec k' k) as [He|Hne].
    + inversion H; subst e0 k'. exists wk. split; [rewrite Heid; exact Hwk|exact Hwkk].
    + exact (inv_store_charged cfg s HI k' e0 H).
  - intros id' wk' H. destruct (inv_charged_stored cfg s HI id' wk' H) as (e0 & He0 & Hid0).
    rewrite Hst, alookup_aset. destruct (Z.eqb_spec (w_key wk') k) as [He|Hne].
    + exists e'. split; [reflexivity|]. rewrite Heid. symmetry. exact (Fkey id' wk' H He).
    + exists e0. split; assumption.
  - exact (inv_used_sum cfg s HI).
  - exact (inv_weights_pos cfg s HI).
  - intros sh id' t H. destruct (Z.eq_dec id' (e_id e)) as [He|Hne].
    + subst id'. apply Hown in H. destruct H as [Hex Hsh]. split; [exact Hsh|].
      intros wk' Hwk'. rewrite Hwk in Hwk'. inversion Hwk'; subst wk'. rewrite Hwkk.
      exists e'. split; [rewrite Hst, alookup_aset_eq; reflexivity|]. split; assumption.
    + apply (Hoth sh id' t Hne) in H.
      destruct (inv_ticker_sound cfg s HI sh id' t H) as [Hsh Hch]. split; [exact Hsh|].
      intros wk' Hwk'. destruct (Hch wk' Hwk') as (e0 & He0 & Hid0 & Hex).
      exists e0. split; [|split; assumption].
      rewrite Hst, alookup_aset_neq; [exact He0|]. intros Heq. apply Hne. exact (Fkey id' wk' Hwk' Heq).
  - intros k' e0 t H Hex. rewrite Hst, alookup_aset in H.
    destruct (Z.eqb_spec k' k) as [He|Hne].
    + inversion H; subst e0. rewrite Heid. apply Hown. split; [exact Hex|reflexivity].
    + apply (Hoth _ _ _ (Fid k' e0 Hne H)). exact (inv_ticker_complete cfg s HI k' e0 t H Hex).
  - exact (inv_ids_weights cfg s HI).
  - intros x Hx. destruct (Fids x Hx) as [He|Hin].
    + subst x. exact (inv_ids_weights cfg s HI (e_id e) wk Hwk).
    + exact (inv_ids_ticker cfg s HI x Hin).
  - destruct (inv_ids_pending cfg s HI) as [Hnd Hall]. split; [exact Hnd|].
    intros x Hx. destruct (Hall x Hx) as (H1 & H2 & H3).
    split; [exact H1|]. split; [exact H2|].
    intros Hc. destruct (Fids x Hc) as [He|Hin]; [|exact (H3 Hin)].
    subst x. rewrite Hwk in H2. discriminate.
  - exact (inv_pending_weights cfg s HI).
  - exact (inv_lfu cfg s HI).
  - exact (inv_used_range cfg s HI).
Qed.

(** * Shutdown: everything cleared, the commands stay *)
Lemma fc_clear_wf : forall fc, wf_fc fc -> wf_fc (fc_clear fc).
Proof.
  intros fc [Ht He Hnr Hns Hrows]. constructor; unfold fc_clear; cbn [fc_rows fc_seeds fc_total].
  - exact Ht.
  - exact He.
  - rewrite map_length. exact Hnr.
  - exact Hns.
  - apply Forall_forall. intros r Hr. apply in_map_iff in Hr. destruct Hr as (r0 & Hr0 & Hin). subst r.
    rewrite Forall_forall in Hrows. destruct (Hrows r0 Hin) as [_ Hlen]. split.
    + unfold wf_row, row_clear. apply Forall_forall. intros b Hb. apply in_map_iff in Hb.
      destruct Hb as (b0 & Hb0 & _). subst b. lia.
    + unfold row_clear. rewrite map_length. exact Hlen.
Qed.

Lemma lfu_clear_wf : forall l, wf_lfu l -> wf_lfu (lfu_clear l) /\ lfu_reset_at (lfu_clear l) = lfu_reset_at l.
Proof.
  intros l [Hfc Hincs]. unfold wf_lfu, lfu_clear. cbn [lfu_fc lfu_incs lfu_reset_at].
  split; [|reflexivity]. split; [apply fc_clear_wf; exact Hfc|lia].
Qed.

Lemma Inv_cleared : forall cfg s s', Inv cfg s ->
  store s' = [] -> weights s' = [] -> used s' = 0 -> ticker s' = [] -> lfu s' = lfu_clear (lfu s) ->
  queue s' = queue s -> blocked s' = blocked s -> next_id s' = next_id s -> Inv cfg s'.
Proof.
  intros cfg s s' HI Hst Hw Hu Htk Hl Hq Hb Hn.
  pose proof (pending_same s s' Hq Hb) as Hpc.
  constructor; unfold ticker_ids; rewrite ?Hst, ?Hw, ?Hu, ?Htk, ?Hpc, ?Hn.
  - constructor.
  - constructor.
  - exact ticker_wf_nil.
  - intros k e H. discriminate.
  - intros id wk H. discriminate.
  - reflexivity.
  - intros id wk H. discriminate.
  - intros sh id t H. discriminate.
  - intros k e t H. discriminate.
  - intros id wk H. discriminate.
  - intros id [].
  - destruct (inv_ids_pending cfg s HI) as [Hnd Hall]. split; [exact Hnd|].
    intros x Hx. destruct (Hall x Hx) as (H1 & _ & _).
    split; [exact H1|]. split; [reflexivity|]. intros [].
  - exact (inv_pending_weights cfg s HI).
  - rewrite Hl. destruct (inv_lfu cfg s HI) as [Hwf Hr].
    destruct (lfu_clear_wf (lfu s) Hwf) as [Hwf' Hr']. split; [exact Hwf'|]. rewrite Hr'. exact Hr.
  - unfold i64_max. lia.
Qed.

(** * The sketch *)
Lemma Inv_set_lfu : forall cfg s s' , Inv cfg s ->
  store s' = store s -> weights s' = weights s -> used s' = used s -> ticker s' = ticker s ->
  next_id s' = next_id s -> queue s' = queue s -> blocked s' = blocked s ->
  wf_lfu (lfu s') -> lfu_reset_at (lfu s') = lfu_reset_at (lfu s) -> Inv cfg s'.
Proof.
  intros cfg s s' HI Hst Hw Hu Htk Hn Hq Hb Hwf Hr.
  pose proof (pending_same s s' Hq Hb) as Hpc.
  constructor; unfold ticker_ids; rewrite ?Hst, ?Hw, ?Hu, ?Htk, ?Hpc, ?Hn.
  - exact (inv_store_nodup cfg s HI).
  - exact (inv_weights_nodup cfg s HI).
  - exact (inv_ticker_nodup cfg s HI).
  - exact (inv_store_charged cfg s HI).
  - exact (inv_charged_stored cfg s HI).
  - exact (inv_used_sum cfg s HI).
  - exact (inv_weights_pos cfg s HI).
  - exact (inv_ticker_sound cfg s HI).
  - exact (inv_ticker_complete cfg s HI).
  - exact (inv_ids_weights cfg s HI).
  - exact (inv_ids_ticker cfg s HI).
  - exact (inv_ids_pending cfg s HI).
  - exact (inv_pending_weights cfg s HI).
  - split; [exact Hwf|]. rewrite Hr. exact (proj2 (inv_lfu cfg s HI)).
  - exact (inv_used_range cfg s HI).
Qed.
