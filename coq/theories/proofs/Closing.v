(** Discharges the section hypotheses of AdmissionProofs / SweepProofs / StatsProofs with the lemmas of InvProofs.
    [close_with L] specialises the leading premises of [L] that are exactly one of those facts and closes the goal with
    the resulting term. *)
From CacheD.proofs Require Export Defs InvOps InvProofs.

Ltac close_with L :=
  lazymatch type of L with
  | (forall cfg s id s', wf_config cfg -> Inv cfg s -> weights_delete cfg id true s = Ok s' -> Inv cfg s') -> _ =>
      close_with (L weights_delete_hook_inv)
  | (forall cfg s id, wf_config cfg -> Inv cfg s -> exists s', weights_delete cfg id true s = Ok s') -> _ =>
      close_with (L weights_delete_hook_no_panic)
  | (forall cfg s ev, wf_config cfg -> Inv cfg s -> valid_event ev ->
       worker (step_state cfg s ev) <> Dead -> Inv cfg (step_state cfg s ev)) -> _ =>
      close_with (L inv_step)
  | (forall cfg, wf_config cfg -> Inv cfg (init cfg)) -> _ =>
      close_with (L inv_init)
  | (forall cfg s ev, worker s = Dead -> worker (step_state cfg s ev) = Dead) -> _ =>
      close_with (L dead_absorbing)
  | (forall cfg evs, wf_config cfg -> Forall valid_event evs ->
       worker (run_from cfg (init cfg) evs) <> Dead -> Inv cfg (run_from cfg (init cfg) evs)) -> _ =>
      close_with (L inv_run)
  | _ => exact L
  end.
