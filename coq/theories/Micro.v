(** Micro-step model: the API calls and the worker's Delete command split at every place where the real code can be
    overtaken by another thread (schedule points `call.entered`, `put.checked`, `send.enter`, `delete.marked`,
    `read.hit`, `shutdown.*` in cached.rs / command_executor.rs, `worker.delete.after_store`,
    `worker.delete.after_weight` in command_executor.rs), on top of the window model (Window.v), which already splits
    put_or_update and the worker's put with time-to-live.

      put*            is_shutting_down check | weight assert + Store::is_present | id_generator.next + key_description | send
      delete          is_shutting_down check | Store::mark_deleted | send
      get / map_get   is_shutting_down check | Store::get (hit / miss counted) | Pool::add (access recorded)
      get_ref / map_get_ref   is_shutting_down check | the rest (the shard guard is held across it)
      put_or_update   is_shutting_down check | Store::update | the rest (Window.v)
      shutdown        flag (compare_exchange) | send Shutdown | AdmissionPolicy::shutdown | TTLTicker::shutdown |
                      Store::clear | AdmissionPolicy::clear | TTLTicker::clear
      worker Delete   dequeue + Store::delete | CacheWeight::delete | TTLTicker::delete + acknowledgement

    Between two micro steps of one thread any step of any other thread may happen.  Every micro step is built from the
    functions of Model.v; proofs/MicroProofs.v shows that the micro steps of one call (command) executed back to back ARE
    the atomic step of Model.v, and which invariants survive arbitrary overtaking.

    A caller that holds a built command in front of `send` keeps it in [blocked] (as a parked sender does) and is marked
    [PSend]; the difference to a parked sender is that its next step is taken whether or not the queue has room.
    No proofs here. *)
From CacheD Require Export Base Sketch Model Window.

Inductive cpend :=
| PEntered (r : request)                      (* passed the is_shutting_down check, nothing else done *)
| PPutChecked (k v w : Z) (ttl : option Z)    (* weight asserted, key not present when looked at *)
| PSend                                       (* command built (id drawn / key marked), in front of send *)
| PHit (h : Z) (obs : list Z)                 (* hit counted, access of hash h not yet recorded; obs is what the call returns *)
| PShut (stage : Z).                          (* inside shutdown(), after the flag; see [shutdown_stage] *)

(** the worker inside a Delete command: acknowledgement, key id and expiry of the removed entry *)
Inductive wdpend :=
| WDStore (a id : Z) (exp : option Z)         (* store entry removed, weight still charged *)
| WDWeight (a id : Z) (exp : option Z)        (* weight released, expiry index entry still there *)
| WPCharged (a k v id : Z) (ttl : option Z) (obs : list Z).
                                              (* inside a put: let in and charged, the entry not yet inserted *)

Record mstate := { win : wstate; cps : list (Z * cpend); wdel : option wdpend }.

Inductive mevent :=
| MWin (e : wevent)
| MEnter (tid : Z) (r : request) (idxs : list Z)     (* a call begins; idxs is used when it is not split *)
| MStepC (tid : Z) (idxs : list Z)                   (* the caller's next micro step *)
| MWorker1 (orc : worker_oracle)                     (* the worker takes a command and runs to its first schedule point *)
| MWorker2.                                          (* the worker runs to its next schedule point / the end *)

Definition mbase (ms : mstate) : state := base (win ms).
Definition with_mbase (ms : mstate) (s : state) : mstate :=
  {| win := with_base (win ms) s; cps := cps ms; wdel := wdel ms |}.
Definition set_cp (ms : mstate) (s : state) (tid : Z) (p : cpend) : mstate :=
  {| win := with_base (win ms) s; cps := aset tid p (cps ms); wdel := wdel ms |}.
Definition end_cp (ms : mstate) (s : state) (tid : Z) : mstate :=
  {| win := with_base (win ms) s; cps := aremove tid (cps ms); wdel := wdel ms |}.

(** calls that are split *)
Definition micro_request (r : request) : bool :=
  match r with
  | RPut _ _ | RPutW _ _ _ | RPutTTL _ _ _ | RPutWTTL _ _ _ _ | RUpsert _ _ _ _ _ | RDelete _
  | RGet _ | RGetRef _ | RMapGet _ | RMapGetRef _ | RShutdown => true
  | _ => false
  end.

(** the weight assert that [put] makes before it looks at the flag (cached.rs:131-135) *)
Definition early_panic (cfg : config) (r : request) : bool :=
  match r with RPut k v => weight_calc (c_wcalc cfg) k v false <=? 0 | _ => false end.

Definition soft_mark (k : Z) (s : state) : state :=
  match alookup k (store s) with
  | Some e => set_store s (aset k {| e_val := e_val e; e_id := e_id e; e_exp := e_exp e; e_soft := true |} (store s))
  | None => s
  end.

Definition park (tid : Z) (c : cmd) (s : state) : state := set_blocked s (aset tid (KSend c) (blocked s)).

(** weight assert and presence check of the put variants *)
Definition put_check (ms : mstate) (tid k v w : Z) (ttl : option Z) : mstate * list Z :=
  let s := mbase ms in
  if w <=? 0 then (end_cp ms s tid, [4; site_weight_assert]) else
  if amem k (store s) then (end_cp ms s tid, [1; status_code (Rejected KeyAlreadyExists)]) else
  (set_cp ms s tid (PPutChecked k v w ttl), [9]).

(** single-key reads: lookup with its counter *)
Definition read_lookup (cfg : config) (ms : mstate) (tid k : Z) (f : Z -> Z) : mstate * list Z :=
  let s := mbase ms in
  match lookup_alive k s with
  | None => (end_cp ms (upd_st add_misses 1 s) tid, [5])
  | Some e => (set_cp ms (upd_st add_hits 1 s) tid
                      (PHit (key_hash (c_hash cfg) k) (if e_val e =? -1 then [5] else [5; f (e_val e)])), [9])
  end.

(** the body of get_ref / map_get_ref behind the flag check *)
Definition read_body (cfg : config) (k : Z) (f : Z -> Z) (idxs : list Z) (s : state) : state * list Z :=
  match read_one cfg k idxs s with
  | Some (v, s', []) => (s', if v =? -1 then [5] else [5; f v])
  | _ => (s, [7])
  end.

(** shutdown() behind the flag, one stage per step *)
Definition shutdown_stage (cfg : config) (ms : mstate) (tid n : Z) : mstate * list Z :=
  let s := mbase ms in
  if n =? 0 then
    match worker s with
    | Alive =>
        if Z.of_nat (length (queue s)) <? c_queue cfg
        then (set_cp ms (set_queue s (queue s ++ [(CShutdown, -1)])) tid (PShut 1), [9])
        else (end_cp ms (set_blocked s (aset tid KShutdownCmd (blocked s))) tid, [3; 0])
    | _ => (set_cp ms s tid (PShut 1), [9])
    end
  else if n =? 1 then
    match consumer s with
    | Alive =>
        if Z.of_nat (length (chan s)) <? chan_capacity
        then (set_cp ms (set_consumer_run (set_chan s (chan s ++ [ChanShutdown])) false) tid (PShut 2), [9])
        else (end_cp ms (set_blocked s (aset tid KShutdownChan (blocked s))) tid, [3; 1])
    | _ => (set_cp ms (set_consumer_run s false) tid (PShut 2), [9])
    end
  else if n =? 2 then (set_cp ms (set_sweeper_run s false) tid (PShut 3), [9])
  else if n =? 3 then (set_cp ms (set_store s []) tid (PShut 4), [9])
  else if n =? 4 then
    (set_cp ms (set_st (set_lfu (set_used (set_weights s []) 0) (lfu_clear (lfu s))) stats_zero) tid (PShut 5), [9])
  else (end_cp ms (set_ticker s []) tid, [5]).

Definition caller_free (ms : mstate) (tid : Z) : bool :=
  negb (amem tid (cps ms)) && negb (amem tid (ups (win ms))) && negb (amem tid (blocked (mbase ms))).

Definition menter (cfg : config) (ms : mstate) (tid : Z) (r : request) (idxs : list Z) : mstate * list Z :=
  if negb (caller_free ms tid) then (ms, [6]) else
  let s := mbase ms in
  if shut s || negb (micro_request r) || early_panic cfg r then
    let '(s', ret) := call cfg tid r idxs s in (with_mbase ms s', ret)
  else
    match r with
    | RShutdown => (set_cp ms (set_shut s true) tid (PShut 0), [9])
    | _ => (set_cp ms s tid (PEntered r), [9])
    end.

Definition mstepc (cfg : config) (ms : mstate) (tid : Z) (idxs : list Z) : mstate * list Z :=
  let s := mbase ms in
  match alookup tid (cps ms) with
  | None => (ms, [6])
  | Some (PEntered r) =>
      match r with
      | RPut k v => put_check ms tid k v (weight_calc (c_wcalc cfg) k v false) None
      | RPutW k v w => put_check ms tid k v w None
      | RPutTTL k v ttl => put_check ms tid k v (weight_calc (c_wcalc cfg) k v true) (Some ttl)
      | RPutWTTL k v w ttl => put_check ms tid k v w (Some ttl)
      | RDelete k => (set_cp ms (park tid (CDelete k) (soft_mark k s)) tid PSend, [9])
      | RUpsert k v w ttl rm =>
          match upsert_half1 cfg k v w ttl rm s with
          | inl (s', u) =>
              ({| win := {| base := s'; ups := aset tid u (ups (win ms)); wpending := wpending (win ms) |};
                  cps := aremove tid (cps ms); wdel := wdel ms |}, [9])
          | inr (s', ret) => (end_cp ms s' tid, ret)
          end
      | RGet k => read_lookup cfg ms tid k (fun v => v)
      | RMapGet k => read_lookup cfg ms tid k mapped
      | RGetRef k => let '(s', ret) := read_body cfg k (fun v => v) idxs s in (end_cp ms s' tid, ret)
      | RMapGetRef k => let '(s', ret) := read_body cfg k mapped idxs s in (end_cp ms s' tid, ret)
      | _ => (ms, [6])
      end
  | Some (PPutChecked k v w ttl) =>
      let id := next_id s in
      let h := key_hash (c_hash cfg) k in
      let c := match ttl with None => CPut k v id h w | Some t => CPutTTL k v id h w t end in
      (set_cp ms (park tid c (set_next_id s (id + 1))) tid PSend, [9])
  | Some PSend =>
      match alookup tid (blocked s) with
      | Some (KSend c) =>
          let '(s', ret) := do_send cfg tid c (set_blocked s (aremove tid (blocked s))) in (end_cp ms s' tid, ret)
      | _ => (ms, [6])
      end
  | Some (PHit h obs) =>
      match idxs with
      | [i] => match pool_add cfg i h s with
               | Some s' => (end_cp ms s' tid, obs)
               | None => (ms, [7])
               end
      | _ => (ms, [7])
      end
  | Some (PShut n) => shutdown_stage cfg ms tid n
  end.

(** the worker's put up to the schedule point `worker.put.after_admission`: presence re-check and admission *)
Definition mput1 (cfg : config) (ms : mstate) (orc : worker_oracle) (k v id h w : Z) (ttl : option Z) (a : Z)
                 (q : list (cmd * Z)) : mstate * list Z :=
  let s0 := set_queue (mbase ms) q in
  if amem k (store s0) then (with_mbase ms (set_ack a (Rejected KeyAlreadyExists) s0), [5; 5]) else
  match admission cfg orc k id h w s0 with
  | (AdStatus Accepted, s1, vs) =>
      ({| win := with_base (win ms) s1; cps := cps ms; wdel := Some (WPCharged a k v id ttl (5 :: 1 :: map sk_id vs)) |}, [9])
  | (AdStatus x, s1, vs) => (with_mbase ms (set_ack a x (upd_st add_keys_rejected 1 s1)), 5 :: status_code x :: map sk_id vs)
  | (AdPanic site, s1, _) => (with_mbase ms (set_worker s1 Dead), [4; site])
  | (AdInadmissible why, _, _) => (ms, [7; why])
  end.

(** the worker: puts are split at `worker.put.after_admission` (and, with a time-to-live, again at Window.v's point
    behind the store insert), a Delete command is split in three, everything else is Window.v's worker *)
Definition mworker1 (cfg : config) (ms : mstate) (orc : worker_oracle) : mstate * list Z :=
  let s := mbase ms in
  match wdel ms, wpending (win ms) with
  | None, None =>
      match worker s, queue s with
      | Alive, (CPut k v id h w, a) :: q => mput1 cfg ms orc k v id h w None a q
      | Alive, (CPutTTL k v id h w ttl, a) :: q => mput1 cfg ms orc k v id h w (Some ttl) a q
      | Alive, (CDelete k, a) :: q =>
          let s0 := set_queue s q in
          match alookup k (store s0) with
          | None => (with_mbase ms (set_ack a (Rejected KeyDoesNotExist) s0), [5; 4])
          | Some e => ({| win := with_base (win ms) (store_delete k s0); cps := cps ms;
                          wdel := Some (WDStore a (e_id e) (e_exp e)) |}, [9])
          end
      | _, _ => let '(w', ret) := wstep cfg (win ms) (WPut1 orc) in ({| win := w'; cps := cps ms; wdel := wdel ms |}, ret)
      end
  | _, _ => (ms, [6])
  end.

Definition mworker2 (cfg : config) (ms : mstate) : mstate * list Z :=
  let s := mbase ms in
  match wdel ms with
  | Some (WDStore a id exp) =>
      match weights_delete cfg id false s with
      | Ok s2 => ({| win := with_base (win ms) s2; cps := cps ms; wdel := Some (WDWeight a id exp) |}, [9])
      | Panic site s2 => ({| win := with_base (win ms) (set_worker s2 Dead); cps := cps ms; wdel := None |}, [4; site])
      | Inadmissible why => (ms, [7; why])
      end
  | Some (WDWeight a id exp) =>
      let s3 := match exp with Some x => set_ticker s (ticker_delete cfg id x (ticker s)) | None => s end in
      ({| win := with_base (win ms) (set_ack a Accepted s3); cps := cps ms; wdel := None |}, [5; 1])
  | Some (WPCharged a k v id ttl obs) =>
      match ttl with
      | None => ({| win := with_base (win ms) (set_ack a Accepted (store_insert k v id None s)); cps := cps ms; wdel := None |}, obs)
      | Some t =>
          match calc_expiry (now s) t with
          | None => ({| win := with_base (win ms) (set_worker s Dead); cps := cps ms; wdel := None |}, [4; site_expiry_overflow])
          | Some e =>
              ({| win := {| base := store_insert k v id (Some e) s; ups := ups (win ms);
                            wpending := Some {| p_ack := a; p_id := id; p_exp := e; p_obs := obs |} |};
                  cps := cps ms; wdel := None |}, [9])
          end
      end
  | None => let '(w', ret) := wstep cfg (win ms) WPut2 in ({| win := w'; cps := cps ms; wdel := wdel ms |}, ret)
  end.

Definition mwin_enabled (ms : mstate) (e : wevent) : bool :=
  match e with
  | WBase (ECall tid _ _) | WBase (ERun tid) | WUpsert1 tid _ _ _ _ _ => negb (amem tid (cps ms))
  | WBase (EWorker _) | WPut1 _ => match wdel ms with None => true | Some _ => false end
  | _ => true
  end.

Definition mstep (cfg : config) (ms : mstate) (ev : mevent) : mstate * list Z :=
  match ev with
  | MWin e =>
      if mwin_enabled ms e
      then let '(w', ret) := wstep cfg (win ms) e in ({| win := w'; cps := cps ms; wdel := wdel ms |}, ret)
      else (ms, [6])
  | MEnter tid r idxs => menter cfg ms tid r idxs
  | MStepC tid idxs => mstepc cfg ms tid idxs
  | MWorker1 orc => mworker1 cfg ms orc
  | MWorker2 => mworker2 cfg ms
  end.

Definition minit (cfg : config) : mstate := {| win := winit cfg; cps := []; wdel := None |}.
Definition mrun_from (cfg : config) (ms : mstate) (evs : list mevent) : mstate :=
  fold_left (fun m ev => fst (mstep cfg m ev)) evs ms.
Definition mrun (cfg : config) (evs : list mevent) : mstate := mrun_from cfg (minit cfg) evs.

Fixpoint mtrace (cfg : config) (ms : mstate) (evs : list mevent) : list (list (list Z)) :=
  match evs with
  | [] => []
  | ev :: t => let '(ms', ret) := mstep cfg ms ev in dump (mbase ms') ret :: mtrace cfg ms' t
  end.

(** one whole call, its micro steps back to back: enter, then step as long as the caller stops at a schedule point *)
Definition stopped (ret : list Z) : bool := match ret with [9] => true | _ => false end.
Fixpoint mcall_steps (fuel : nat) (cfg : config) (tid : Z) (idxs : list Z) (ms : mstate) (last : list Z) : mstate * list Z :=
  match fuel with
  | O => (ms, last)
  | S f =>
      if stopped last
      then let '(ms', ret) := mstepc cfg ms tid idxs in mcall_steps f cfg tid idxs ms' ret
      else (ms, last)
  end.
Definition mcall (cfg : config) (tid : Z) (r : request) (idxs : list Z) (ms : mstate) : mstate * list Z :=
  let '(ms1, ret) := menter cfg ms tid r idxs in mcall_steps 7 cfg tid idxs ms1 ret.

(** accesses counted as hits whose record has not reached a buffer yet *)
Definition inflight_hits (ms : mstate) : Z :=
  Z.of_nat (length (filter (fun p : Z * cpend => match snd p with PHit _ _ => true | _ => false end) (cps ms))).
