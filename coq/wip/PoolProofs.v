(** C15 for any number of reading threads, one step at a time: every hit is in flight, buffered, delivered to the
    consumer's queue or counted as dropped - never lost, never counted twice; reads never wait for the consumer. *)
From CacheD Require Import Base PoolProto.
From Coq Require Import ZifyBool.

(* STATEMENT: conservation at every instant of every interleaving, for every buffer capacity, channel capacity, number of
   readers and choice of buffers *)
Lemma hits_conserved : forall cap cc sched,
  let s := prun cap cc sched in
  q_hits s = in_flight s + buffered s + q_added s + q_dropped s.
Proof.
Admitted.

(* STATEMENT: what was counted as added is queued for the consumer or already applied by it (while it is alive) *)
Lemma added_conserved : forall cap cc sched,
  let s := prun cap cc sched in
  q_consumer s = true -> q_added s = in_chan s + q_delivered s.
Proof.
Admitted.

(* STATEMENT: a buffer never holds more than its capacity, the channel never more than its capacity *)
Lemma pool_bounded : forall cap cc sched i, 1 <= cap -> 0 <= cc ->
  let s := prun cap cc sched in
  Z.of_nat (length (buf s i)) <= cap /\ Z.of_nat (length (q_chan s)) <= cc.
Proof.
Admitted.

(* STATEMENT: a read never waits for the sketch or its consumer: the only step that can be disabled is taking the buffer
   lock, and then the lock is held by another reader whose own next step is enabled whatever the state of the channel
   and of the consumer *)
Lemma reader_never_waits_for_consumer : forall cap cc sched r,
  let s := prun cap cc sched in
  penabled s r = false ->
  exists h i r', rpc_of s r = RHit h i /\ alookup i (q_locks s) = Some r' /\ r' <> r /\ penabled s r' = true /\
                 (exists h', rpc_of s r' = RLocked h' i \/ rpc_of s r' = RDrained h' i \/ rpc_of s r' = RPushed i).
Proof.
Admitted.

(* non-vacuity: two readers on one buffer of capacity 1, a channel of capacity 1, the consumer stalled: the second
   hand-over is dropped whole and counted *)
Example pool_example :
  let s := prun 1 1 [PHit 1 7 0; PHit 2 8 0; PLock 1; PLock 2; PDrain 1; PPush 1; PUnlock 1; PLock 2; PDrain 2; PPush 2; PUnlock 2;
                     PHit 1 9 0; PLock 1; PDrain 1; PPush 1; PUnlock 1] in
  q_hits s = 3 /\ buffered s = 1 /\ q_added s = 1 /\ q_dropped s = 1 /\ in_flight s = 0.
Proof. vm_compute. repeat split. Qed.
