(** What each API call and each worker command does to one key: C04 (delete), C07 (put), C08 (put_or_update),
    C09 (expiry).  Mostly unfoldings of Model.v, stated so that the properties can be read off. *)
From CacheD.proofs Require Import Defs.
From Coq Require Import ZifyBool.

(** * Reads and expiry (C09, C02) *)

(* STATEMENT: a key is served iff it is stored, not soft-deleted, and the clock is not past its expiry *)
Lemma lookup_alive_spec : forall k s e,
  lookup_alive k s = Some e <->
  alookup k (store s) = Some e /\ e_soft e = false /\ (forall t, e_exp e = Some t -> now s <= t).
Proof.
Admitted.

(* STATEMENT: never served after expiry *)
Lemma lookup_alive_expired : forall k s e t,
  alookup k (store s) = Some e -> e_exp e = Some t -> t < now s -> lookup_alive k s = None.
Proof.
Admitted.

(* STATEMENT: keys without a time-to-live never expire *)
Lemma lookup_alive_no_ttl : forall k s e,
  alookup k (store s) = Some e -> e_exp e = None -> e_soft e = false -> lookup_alive k s = Some e.
Proof.
Admitted.

(** fields a read never touches *)
Definition read_frame (s s' : state) : Prop :=
  store s' = store s /\ weights s' = weights s /\ used s' = used s /\ ticker s' = ticker s /\ queue s' = queue s /\
  acks s' = acks s /\ lfu s' = lfu s /\ now s' = now s /\ next_id s' = next_id s /\ next_ack s' = next_ack s /\
  shut s' = shut s /\ worker s' = worker s /\ sweeper s' = sweeper s /\ consumer s' = consumer s /\ blocked s' = blocked s.

(* STATEMENT: one lookup: the value of the live entry or absent; exactly one of hit / miss; on a hit exactly one
   access record goes to the pool *)
Lemma read_one_spec : forall cfg k idxs s v s' idxs',
  read_one cfg k idxs s = Some (v, s', idxs') ->
  read_frame s s' /\
  ((lookup_alive k s = None /\ v = -1 /\ s' = upd_st add_misses 1 s /\ idxs' = idxs) \/
   (exists e i, lookup_alive k s = Some e /\ v = e_val e /\ idxs = i :: idxs' /\
                pool_add cfg i (key_hash (c_hash cfg) k) (upd_st add_hits 1 s) = Some s')).
Proof.
Admitted.

(** the value a read of [k] yields in state [s] *)
Definition served (k : Z) (s : state) : Z := match lookup_alive k s with Some e => e_val e | None => -1 end.

(* STATEMENT: multi_get and both iterators are the map of get over one and the same store *)
Lemma read_many_spec : forall cfg ks idxs s vs s' idxs',
  read_many cfg ks idxs s = Some (vs, s', idxs') ->
  read_frame s s' /\ vs = map (fun k => served k s) ks.
Proof.
Admitted.

(* STATEMENT: all read variants agree: each returns [served k s] (the map variants through the map function),
   and absent / empty once the cache is shutting down *)
Lemma read_variants_agree : forall cfg tid k idxs s,
  amem tid (blocked s) = false ->
  forall s1 r1, call cfg tid (RGet k) idxs s = (s1, r1) -> r1 <> [7] ->
  call cfg tid (RGetRef k) idxs s = (s1, r1) /\
  (shut s = true -> r1 = [5] /\ s1 = s) /\
  (shut s = false -> r1 = (if served k s =? -1 then [5] else [5; served k s]) /\
     call cfg tid (RMapGet k) idxs s = (s1, if served k s =? -1 then [5] else [5; mapped (served k s)]) /\
     call cfg tid (RMapGetRef k) idxs s = (s1, if served k s =? -1 then [5] else [5; mapped (served k s)]) /\
     call cfg tid (RMultiGet [k]) idxs s = (s1, [5; served k s]) /\
     call cfg tid (RMultiIter [k]) idxs s = (s1, [5; served k s]) /\
     call cfg tid (RMultiMapIter [k]) idxs s = (s1, [5; mapped (served k s)])).
Proof.
Admitted.

(* STATEMENT: reads use "now > expiry", the sweeper removes "expiry < now": a key that is served is not sweepable *)
Lemma boundary_agrees_with_sweeper : forall now_ e t,
  e_exp e = Some t -> e_soft e = false -> is_alive now_ e = negb (t <? now_).
Proof.
Admitted.

(** * put (C07) *)

Definition is_put_request (r : request) (k : Z) : Prop :=
  (exists v, r = RPut k v) \/ (exists v w, r = RPutW k v w) \/ (exists v ttl, r = RPutTTL k v ttl) \/
  (exists v w ttl, r = RPutWTTL k v w ttl).

(* STATEMENT: a put (any variant) of a key that is physically present — in particular of a readable key — is
   answered on the spot with Rejected(KeyAlreadyExists) and changes nothing *)
Lemma put_present_rejected_unchanged : forall cfg tid r k idxs s e,
  wf_config cfg -> is_put_request r k -> valid_request r ->
  alookup k (store s) = Some e -> shut s = false -> amem tid (blocked s) = false ->
  call cfg tid r idxs s = (s, [1; status_code (Rejected KeyAlreadyExists)]).
Proof.
Admitted.

(* STATEMENT: a put of a physically absent key is never answered with KeyAlreadyExists on the spot *)
Lemma put_absent_not_rejected_on_the_spot : forall cfg tid r k idxs s s' ret,
  is_put_request r k -> alookup k (store s) = None ->
  call cfg tid r idxs s = (s', ret) -> ret <> [1; status_code (Rejected KeyAlreadyExists)].
Proof.
Admitted.

Definition cmd_put_key (c : cmd) : option Z :=
  match c with CPut k _ _ _ _ => Some k | CPutTTL k _ _ _ _ _ => Some k | _ => None end.

(* STATEMENT: the worker refuses a put for KeyAlreadyExists exactly when the key is physically present at that
   moment (and then changes nothing); for an absent key the answer is never KeyAlreadyExists: admission decides *)
Lemma worker_put_status : forall cfg orc s c k a q,
  worker s = Alive -> queue s = (c, a) :: q -> cmd_put_key c = Some k ->
  alookup a (acks s) = Some Pending ->
  let s' := step_state cfg s (EWorker orc) in
  (alookup k (store s) <> None ->
     alookup a (acks s') = Some (Rejected KeyAlreadyExists) /\ store s' = store s /\ weights s' = weights s /\
     used s' = used s /\ ticker s' = ticker s /\ st s' = st s) /\
  (alookup k (store s) = None -> alookup a (acks s') <> Some (Rejected KeyAlreadyExists)).
Proof.
Admitted.

(* STATEMENT: the expiry of a put is the time it is applied plus the time-to-live; a plain put never expires *)
Lemma worker_put_entry : forall cfg orc s c a q,
  worker s = Alive -> queue s = (c, a) :: q ->
  alookup a (acks s) = Some Pending ->
  let s' := step_state cfg s (EWorker orc) in
  alookup a (acks s') = Some Accepted ->
  match c with
  | CPut k v id h w =>
      alookup k (store s') = Some {| e_val := v; e_id := id; e_exp := None; e_soft := false |}
  | CPutTTL k v id h w ttl =>
      alookup k (store s') = Some {| e_val := v; e_id := id; e_exp := Some (now s + ttl); e_soft := false |} /\
      alookup id (shard_entries (ticker s') (shard_index cfg (now s + ttl))) = Some (now s + ttl)
  | _ => True
  end.
Proof.
Admitted.

(** * put_or_update (C08) *)

Definition upsert_weight (cfg : config) (k : Z) (v w ttl : option Z) : option Z :=
  match w with
  | Some x => Some x
  | None => match v with
            | Some val => Some (weight_calc (c_wcalc cfg) k val (match ttl with Some _ => true | None => false end))
            | None => None
            end
  end.

(* STATEMENT: on a physically present key the entry is changed exactly as requested, immediately, and no other
   key is touched *)
Lemma upsert_present_fields : forall cfg tid k v w ttl rm s e s' ret,
  alookup k (store s) = Some e ->
  (forall t, ttl = Some t -> rm = false -> calc_expiry (now s) t = Some (now s + t)) ->
  call_upsert cfg tid k v w ttl rm s = (s', ret) ->
  (exists e', alookup k (store s') = Some e' /\
     e_val e' = (match v with Some x => x | None => e_val e end) /\
     e_id e' = e_id e /\ e_soft e' = e_soft e /\
     e_exp e' = (if rm then None else match ttl with Some t => Some (now s + t) | None => e_exp e end)) /\
  (forall k', k' <> k -> alookup k' (store s') = alookup k' (store s)) /\
  weights s' = weights s /\ used s' = used s.
Proof.
Admitted.

(* STATEMENT: what the call reports and queues for a present key: the weight to charge is the explicit one, else the
   recomputed one, else the old charge +-24 when a time-to-live is added / removed, else nothing *)
Lemma upsert_present_weight : forall cfg tid k v w ttl rm s e s' ret,
  wf_config cfg -> alookup k (store s) = Some e ->
  (forall t, ttl = Some t -> rm = false -> calc_expiry (now s) t = Some (now s + t)) ->
  worker s = Alive -> Z.of_nat (length (queue s)) < c_queue cfg ->
  call_upsert cfg tid k v w ttl rm s = (s', ret) ->
  let old := match alookup (e_id e) (weights s) with Some wk => w_weight wk | None => 0 end in
  let new_exp := if rm then None else match ttl with Some t => Some (now s + t) | None => e_exp e end in
  let target :=
    match upsert_weight cfg k v w ttl with
    | Some x => Some x
    | None => match type_of_expiry_update (e_exp e) new_exp with
              | XAdded _ => Some (old + ttl_entry_size)
              | XDeleted _ => Some (old - ttl_entry_size)
              | _ => None
              end
    end in
  match target with
  | None => ret = [1; status_code Accepted] /\ queue s' = queue s
  | Some x =>
      (0 < x -> in_i64 x = true -> ret = [0; next_ack s] /\ queue s' = queue s ++ [(CUpdateWeight (e_id e) x, next_ack s)]) /\
      (x <= 0 -> in_i64 x = true -> ret = [4; site_upsert_weight] /\ queue s' = queue s)
  end.
Proof.
Admitted.

(* STATEMENT: on a physically absent key put_or_update is exactly the corresponding put *)
Lemma upsert_absent_is_put : forall cfg tid k val w ttl rm s,
  alookup k (store s) = None ->
  call_upsert cfg tid k (Some val) w ttl rm s =
  call_put cfg tid k val (match upsert_weight cfg k (Some val) w ttl with Some x => x | None => 0 end) ttl s.
Proof.
Admitted.

(* STATEMENT: once UpdateWeight is executed the charge is the requested weight *)
Lemma update_weight_charged : forall cfg orc s id w a q wk,
  wf_config cfg -> worker s = Alive -> queue s = (CUpdateWeight id w, a) :: q ->
  alookup id (weights s) = Some wk -> in_i64 (used s + (w - w_weight wk)) = true ->
  let s' := step_state cfg s (EWorker orc) in
  alookup id (weights s') = Some (Build_wkey (w_key wk) (w_hash wk) w) /\
  used s' = used s + w - w_weight wk /\ store s' = store s /\
  alookup a (acks s') = Some Accepted.
Proof.
Admitted.

(** * delete (C04) *)

(* STATEMENT: delete() hides the key before it returns *)
Lemma delete_hides_immediately : forall cfg tid k idxs s s' ret,
  shut s = false -> amem tid (blocked s) = false ->
  call cfg tid (RDelete k) idxs s = (s', ret) ->
  lookup_alive k s' = None /\
  (forall e, alookup k (store s) = Some e -> exists e', alookup k (store s') = Some e' /\ e_soft e' = true /\ e_id e' = e_id e) /\
  (forall k', k' <> k -> alookup k' (store s') = alookup k' (store s)).
Proof.
Admitted.

(* STATEMENT: a soft-deleted entry stays hidden until it is physically removed: no event re-exposes it *)
Lemma soft_deleted_stays_hidden : forall cfg s ev k e,
  alookup k (store s) = Some e -> e_soft e = true ->
  let s' := step_state cfg s ev in
  alookup k (store s') = None \/ exists e', alookup k (store s') = Some e' /\ e_soft e' = true.
Proof.
Admitted.

Definition charge_of_id (s : state) (id : Z) : Z :=
  match alookup id (weights s) with Some wk => w_weight wk | None => 0 end.

(* STATEMENT: the Delete command releases the key completely *)
Lemma delete_cmd_releases : forall cfg orc s k a q e,
  wf_config cfg -> Inv cfg s -> worker s = Alive -> queue s = (CDelete k, a) :: q ->
  alookup k (store s) = Some e ->
  let s' := step_state cfg s (EWorker orc) in
  worker s' <> Dead ->
  alookup k (store s') = None /\ alookup (e_id e) (weights s') = None /\
  used s' = used s - charge_of_id s (e_id e) /\
  (forall t, e_exp e = Some t -> alookup (e_id e) (shard_entries (ticker s') (shard_index cfg t)) = None) /\
  alookup a (acks s') = Some Accepted /\
  (forall k', k' <> k -> alookup k' (store s') = alookup k' (store s)).
Proof.
Admitted.

(* STATEMENT: deleting a key that is not in the cache is rejected and changes nothing but the queue and the ack *)
Lemma delete_cmd_absent : forall cfg orc s k a q,
  worker s = Alive -> queue s = (CDelete k, a) :: q -> alookup k (store s) = None ->
  let s' := step_state cfg s (EWorker orc) in
  alookup a (acks s') = Some (Rejected KeyDoesNotExist) /\
  store s' = store s /\ weights s' = weights s /\ used s' = used s /\ ticker s' = ticker s /\ st s' = st s.
Proof.
Admitted.
