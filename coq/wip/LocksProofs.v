(** C18: ordered locking plus dedicated queue consumers give progress: no cycle of lock or queue waits. *)
From CacheD Require Import Base Locks.
From Coq Require Import Lia Sorted.
Local Open Scope nat_scope.

Definition is_blocking_comm (a : lact) : bool := match a with LSend _ | LRecv _ => true | _ => false end.

(** well-formed system states *)
Record lwf (rank : nat -> nat) (s : lsys) : Prop := {
  (* a lock is held by at most one thread, at most once *)
  lwf_disjoint : forall i j ti tj l, i <> j -> nth_error (l_threads s) i = Some ti -> nth_error (l_threads s) j = Some tj ->
      holds ti l = true -> holds tj l = false;
  (* the rest of each thread's current program is disciplined from its held set and ends with nothing held *)
  lwf_prog : forall i t, nth_error (l_threads s) i = Some t -> prog_ok rank (t_held t) (t_prog t) = Some [];
  (* a background loop: all its bodies start by receiving from one and the same queue and are disciplined; in the middle
     of an iteration it neither sends (blocking) nor receives *)
  lwf_loops : forall i t, nth_error (l_threads s) i = Some t -> t_loop t <> [] ->
      (exists q, Forall (fun b => loop_ok rank q b = true) (t_loop t)) /\
      forallb (fun a => negb (is_blocking_comm a)) (t_prog t) = true;
  (* every queue a thread may block on has a consumer loop *)
  lwf_consumers : forall i t q, nth_error (l_threads s) i = Some t -> In (LSend q) (t_prog t) ->
      exists j tj, nth_error (l_threads s) j = Some tj /\ t_loop tj <> [] /\ Forall (fun b => loop_ok rank q b = true) (t_loop tj);
  lwf_caps : forall q, 1 <= qcap s q
}.

(* STATEMENT: well-formedness is preserved by every step of every thread *)
Lemma lwf_step : forall rank s ic, lwf rank s -> lwf rank (lstep s ic).
Proof.
Admitted.

(* STATEMENT *)
Lemma lwf_run : forall rank s sched, lwf rank s -> lwf rank (lrun s sched).
Proof.
Admitted.

(* STATEMENT: ordered locking + queue consumers => no deadlock.  In a well-formed state, if any thread is in the middle of
   something (has a next action other than waiting for work), then some thread can take a step. *)
Lemma ordered_locking_progress : forall rank s, lwf rank s ->
  (exists i t, nth_error (l_threads s) i = Some t /\ lpending t = true) ->
  exists i ch, lenabled s i ch = true.
Proof.
Admitted.

(* STATEMENT: an enabled step changes the state (so "enabled" really is progress) and a disabled one does not *)
Lemma lstep_disabled_noop : forall s i ch, lenabled s i ch = false -> lstep s (i, ch) = s.
Proof.
Admitted.

(** the lock programs of CacheD satisfy the discipline (decided by computation over the finite table) *)
(* STATEMENT *)
Lemma cached_lock_programs_ordered :
  forallb (prog_balanced cached_rank) caller_programs = true /\
  forallb (loop_ok cached_rank CmdQueue) worker_loops = true /\
  prog_balanced cached_rank s_sweep = true /\
  loop_ok cached_rank BufQueue c_batch = true /\
  forallb (fun e => Nat.ltb (cached_rank (fst e)) (cached_rank (snd e))) cached_edges = true.
Proof. vm_compute. repeat split. Qed.

(* STATEMENT: the initial system of CacheD is well-formed for any number of callers running any of the caller programs
   and any command-queue capacity >= 1 *)
Lemma cached_sys_wf : forall callers cap, 1 <= cap ->
  Forall (fun p => In p caller_programs) callers -> lwf cached_rank (cached_sys callers cap).
Proof.
Admitted.

(* STATEMENT: hence under every interleaving of any number of callers with the worker, the sweeper and the consumer,
   whenever some thread is in the middle of a call or an iteration, some thread can step *)
Lemma cached_no_deadlock : forall callers cap sched, 1 <= cap ->
  Forall (fun p => In p caller_programs) callers ->
  let s := lrun (cached_sys callers cap) sched in
  (exists i t, nth_error (l_threads s) i = Some t /\ lpending t = true) ->
  exists i ch, lenabled s i ch = true.
Proof.
Admitted.

(* STATEMENT: the excluded program - a caller that keeps a get_ref guard alive while calling back into the cache - does
   not satisfy the discipline, and it can deadlock even alone: after taking the store shard lock it waits for it for ever *)
Lemma reentrant_get_ref_excluded :
  prog_balanced cached_rank a_get_ref_reentrant = false /\
  let s := lrun (cached_sys [a_get_ref_reentrant] 1) [(0, 0)] in
  (exists t, nth_error (l_threads s) 0 = Some t /\ lpending t = true) /\
  forall ch, lenabled s 0 ch = false.
Proof.
Admitted.
