(** The sweeper (C10) and retention without memory pressure (C03). *)
From CacheD.proofs Require Import Defs.
From Coq Require Import ZifyBool.

Section Sweep.
(** proved in InvProofs.v; discharged in proofs/Closing.v *)
Hypothesis evict_inv : forall cfg s id s', wf_config cfg -> Inv cfg s -> weights_delete cfg id true s = Ok s' -> Inv cfg s'.
Hypothesis evict_no_panic : forall cfg s id, wf_config cfg -> Inv cfg s -> exists s', weights_delete cfg id true s = Ok s'.
Hypothesis step_inv : forall cfg s ev, wf_config cfg -> Inv cfg s -> valid_event ev ->
  worker (step_state cfg s ev) <> Dead -> Inv cfg (step_state cfg s ev).
Hypothesis dead_stays : forall cfg s ev, worker s = Dead -> worker (step_state cfg s ev) = Dead.

(** the entry is due in the shard the sweeper visits at the current instant *)
Definition expired_here (cfg : config) (s : state) (e : entry) : bool :=
  match e_exp e with
  | Some t => (t <? now s) && (shard_index cfg t =? shard_index cfg (now s))
  | None => false
  end.

(** fields a sweep never touches *)
Definition sweep_frame (s s' : state) : Prop :=
  queue s' = queue s /\ acks s' = acks s /\ lfu s' = lfu s /\ pool s' = pool s /\ chan s' = chan s /\ now s' = now s /\
  next_id s' = next_id s /\ next_ack s' = next_ack s /\ shut s' = shut s /\ worker s' = worker s /\ consumer s' = consumer s /\
  blocked s' = blocked s.

(* STATEMENT: one sweep removes exactly the stored keys that are due in the visited shard, releases exactly their
   charges, keeps exactly the not-yet-due index entries of that shard, and touches nothing else *)
Lemma sweep_exact : forall cfg s, wf_config cfg -> Inv cfg s -> sweeper s = Alive ->
  let s' := step_state cfg s ESweep in
  (forall k, alookup k (store s') =
     match alookup k (store s) with
     | Some e => if expired_here cfg s e then None else Some e
     | None => None
     end) /\
  (forall id, alookup id (weights s') =
     match alookup id (weights s) with
     | Some wk => match alookup (w_key wk) (store s) with
                  | Some e => if expired_here cfg s e then None else Some wk
                  | None => Some wk
                  end
     | None => None
     end) /\
  (forall sh, sh <> shard_index cfg (now s) -> shard_entries (ticker s') sh = shard_entries (ticker s) sh) /\
  (forall id t, alookup id (shard_entries (ticker s') (shard_index cfg (now s))) = Some t <->
                alookup id (shard_entries (ticker s) (shard_index cfg (now s))) = Some t /\ now s <= t) /\
  sweep_frame s s' /\ Inv cfg s' /\ sweeper s' <> Dead.
Proof.
Admitted.

(* STATEMENT: a sweep never removes a key without time-to-live, a key whose expiry lies in the future, or a key that
   is due in another shard; the entry survives unchanged *)
Lemma sweep_spares : forall cfg s k e, wf_config cfg -> Inv cfg s -> sweeper s = Alive ->
  alookup k (store s) = Some e ->
  (e_exp e = None \/ (exists t, e_exp e = Some t /\ now s <= t) \/
   (exists t, e_exp e = Some t /\ shard_index cfg t <> shard_index cfg (now s))) ->
  alookup k (store (step_state cfg s ESweep)) = Some e.
Proof.
Admitted.

(* STATEMENT: a sweep at an instant past the expiry that visits the expiry's shard removes the key and its charge *)
Lemma sweep_removes_due : forall cfg s k e t wk, wf_config cfg -> Inv cfg s -> sweeper s = Alive ->
  alookup k (store s) = Some e -> e_exp e = Some t -> t < now s ->
  shard_index cfg t = shard_index cfg (now s) ->
  alookup (e_id e) (weights s) = Some wk ->
  let s' := step_state cfg s ESweep in
  alookup k (store s') = None /\ alookup (e_id e) (weights s') = None /\ used s' <= used s - w_weight wk.
Proof.
Admitted.

(* STATEMENT: an index entry whose id is no longer charged (the key was deleted or evicted earlier, possibly put
   again under a new id) is inert *)
Lemma stale_entry_inert : forall cfg s id, alookup id (weights s) = None -> weights_delete cfg id true s = Ok s.
Proof.
Admitted.

(** D10: if the clock only ever advances by whole multiples of [shards] seconds between sweeps, the sweeper visits
    one shard for ever; a key that is due in another shard is never removed, however many sweeps occur *)
Fixpoint starving_rounds (cfg : config) (n : nat) : list event :=
  match n with
  | O => []
  | S n' => EAdvance (c_shards cfg * ns_per_sec) :: ESweep :: starving_rounds cfg n'
  end.

(* STATEMENT *)
Lemma C10_starved_shard : forall n cfg s k e t, wf_config cfg -> Inv cfg s -> worker s <> Dead ->
  alookup k (store s) = Some e -> e_exp e = Some t ->
  shard_index cfg t <> shard_index cfg (now s) ->
  alookup k (store (run_from cfg s (starving_rounds cfg n))) = Some e.
Proof.
Admitted.

(** * C03 *)

Definition served_value (k : Z) (s : state) : Z := match lookup_alive k s with Some e => e_val e | None => -1 end.

(** events that are about [k] itself, or about everything (shutdown) *)
Definition touches (k : Z) (s : state) (ev : event) : Prop :=
  match ev with
  | ECall _ (RUpsert k' _ _ _ _) _ => k' = k
  | ECall _ (RDelete k') _ => k' = k
  | ECall _ RShutdown _ => True
  | ERun tid => match alookup tid (blocked s) with
                | Some KShutdownCmd => True | Some KShutdownChan => True | _ => False end
  | EWorker _ => match queue s with (CDelete k', _) :: _ => k' = k | _ => False end
  | _ => False
  end.

(** memory pressure: the put the worker is about to execute does not fit in the free space *)
Definition pressure (cfg : config) (s : state) (ev : event) : Prop :=
  match ev with
  | EWorker _ =>
      match queue s with
      | (CPut _ _ _ _ w, _) :: _ => c_max cfg - used s < w
      | (CPutTTL _ _ _ _ w _, _) :: _ => c_max cfg - used s < w
      | _ => False
      end
  | _ => False
  end.

(* STATEMENT: one event that is not about k, under no memory pressure, leaves k's entry exactly as it was, unless it is
   a sweep at which the entry is due *)
Lemma step_preserves_entry : forall cfg s ev k e, wf_config cfg -> Inv cfg s -> valid_event ev ->
  alookup k (store s) = Some e ->
  ~ touches k s ev -> ~ pressure cfg s ev ->
  (ev = ESweep -> expired_here cfg s e = false) ->
  alookup k (store (step_state cfg s ev)) = Some e.
Proof.
Admitted.

(* STATEMENT: the clock never runs backwards under valid events *)
Lemma now_monotone : forall cfg s ev, valid_event ev -> now s <= now (step_state cfg s ev).
Proof.
Admitted.

(* STATEMENT: without memory pressure an accepted key stays readable with its value, whatever else happens, until
   it is touched itself or its time-to-live elapses *)
Lemma no_spurious_loss : forall evs cfg s k e, wf_config cfg -> Inv cfg s -> worker s <> Dead ->
  alookup k (store s) = Some e -> e_soft e = false ->
  Forall valid_event evs ->
  Forall (fun p => ~ touches k (fst p) (snd p) /\ ~ pressure cfg (fst p) (snd p)) (visits cfg s evs) ->
  let s' := run_from cfg s evs in
  worker s' <> Dead ->
  (forall t, e_exp e = Some t -> now s' <= t) ->
  alookup k (store s') = Some e /\ served_value k s' = e_val e.
Proof.
Admitted.

End Sweep.
