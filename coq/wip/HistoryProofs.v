(** Properties of whole histories of the phase-contiguous model: value provenance (C02), the command queue (C11),
    acknowledgement bookkeeping and shutdown (C13). *)
From CacheD.proofs Require Import Defs.
From Coq Require Import ZifyBool.

(** * C02: a stored value was written to that very key by a put or upsert issued earlier in the history *)
Definition writes_value (k v : Z) (ev : event) : Prop :=
  match ev with
  | ECall _ (RPut k' v') _ => k' = k /\ v' = v
  | ECall _ (RPutW k' v' _) _ => k' = k /\ v' = v
  | ECall _ (RPutTTL k' v' _) _ => k' = k /\ v' = v
  | ECall _ (RPutWTTL k' v' _ _) _ => k' = k /\ v' = v
  | ECall _ (RUpsert k' (Some v') _ _ _) _ => k' = k /\ v' = v
  | _ => False
  end.

(* STATEMENT: for every history, every hash function (the hash never enters the lookup), every oracle *)
Lemma store_value_provenance : forall cfg evs k e,
  alookup k (store (run_from cfg (init cfg) evs)) = Some e -> Exists (writes_value k (e_val e)) evs.
Proof.
Admitted.

(* STATEMENT: hence a read never returns a value nobody wrote to that key *)
Lemma read_value_was_written : forall cfg evs k e,
  lookup_alive k (run_from cfg (init cfg) evs) = Some e -> Exists (writes_value k (e_val e)) evs.
Proof.
Admitted.

(** * C11: the command queue *)

(** the commands (with their ack ids) appended to the queue by one event, and the command executed by it *)
Definition enqueued_by (cfg : config) (s : state) (ev : event) : list (cmd * Z) :=
  match ev with
  | EWorker _ => []
  | _ => skipn (length (queue s)) (queue (step_state cfg s ev))
  end.
Definition executed_by (cfg : config) (s : state) (ev : event) : list (cmd * Z) :=
  match ev with
  | EWorker _ =>
      match worker s, queue s with
      | Alive, x :: _ => if Nat.ltb (length (queue (step_state cfg s ev))) (length (queue s)) then [x] else []
      | _, _ => []
      end
  | _ => []
  end.
Fixpoint sent_log (cfg : config) (s : state) (evs : list event) : list (cmd * Z) :=
  match evs with [] => [] | ev :: t => enqueued_by cfg s ev ++ sent_log cfg (step_state cfg s ev) t end.
Fixpoint exec_log (cfg : config) (s : state) (evs : list event) : list (cmd * Z) :=
  match evs with [] => [] | ev :: t => executed_by cfg s ev ++ exec_log cfg (step_state cfg s ev) t end.

(* STATEMENT: events other than worker steps only ever append to the queue *)
Lemma queue_only_appended : forall cfg s ev, (forall orc, ev <> EWorker orc) ->
  exists added, queue (step_state cfg s ev) = queue s ++ added.
Proof.
Admitted.

(* STATEMENT: a worker step removes exactly the head (one command at a time), or - executing Shutdown - answers and
   drops everything behind it, or does nothing *)
Lemma worker_takes_head : forall cfg s orc,
  let s' := step_state cfg s (EWorker orc) in
  queue s' = queue s \/
  (exists x q, queue s = x :: q /\ queue s' = q /\ worker s = Alive) \/
  (exists a q, queue s = (CShutdown, a) :: q /\ queue s' = [] /\ worker s' = Draining).
Proof.
Admitted.

(* STATEMENT: FIFO, exactly once: while the worker has not executed Shutdown, what it has executed followed by what is
   still queued is exactly what was enqueued, in order: nothing dropped, duplicated or reordered, for every capacity *)
Lemma executed_is_prefix_of_sent : forall cfg evs,
  worker (run_from cfg (init cfg) evs) = Alive ->
  exec_log cfg (init cfg) evs ++ queue (run_from cfg (init cfg) evs) = sent_log cfg (init cfg) evs.
Proof.
Admitted.

(* STATEMENT: the queue never exceeds its capacity: a send on a full queue parks the caller instead *)
Lemma queue_bounded : forall cfg evs, 0 < c_queue cfg ->
  Z.of_nat (length (queue (run_from cfg (init cfg) evs))) <= c_queue cfg.
Proof.
Admitted.

(** * acknowledgement bookkeeping (C11, C12 at this granularity, C13) *)

(** ack ids are handed out in increasing order; an acknowledgement is Pending exactly while its command is queued *)
Record AckInv (s : state) : Prop := {
  ai_acks_lt : forall a x, alookup a (acks s) = Some x -> 0 <= a < next_ack s;
  ai_queue_lt : forall c a, In (c, a) (queue s) -> a = -1 \/ 0 <= a < next_ack s;
  ai_queue_nodup : NoDup (filter (fun a => negb (a =? -1)) (map snd (queue s)));
  ai_pending_iff : worker s <> Dead -> forall a, 0 <= a ->
      (alookup a (acks s) = Some Pending <-> In a (map snd (queue s)));
  ai_draining_empty : worker s = Draining -> queue s = []
}.

(* STATEMENT *)
Lemma ack_inv_run : forall cfg evs, AckInv (run_from cfg (init cfg) evs).
Proof.
Admitted.

(* STATEMENT: a resolved acknowledgement never changes again (resolves exactly once) *)
Lemma ack_resolved_stable : forall cfg evs ev a x,
  let s := run_from cfg (init cfg) evs in
  alookup a (acks s) = Some x -> x <> Pending ->
  alookup a (acks (step_state cfg s ev)) = Some x.
Proof.
Admitted.

(* STATEMENT: acknowledgements of queued commands complete in queue order: when the worker resolves an ack, every
   ack queued before it is already resolved *)
Lemma acks_complete_in_order : forall cfg evs orc a,
  let s := run_from cfg (init cfg) evs in
  let s' := step_state cfg s (EWorker orc) in
  worker s = Alive -> worker s' <> Dead ->
  alookup a (acks s) = Some Pending -> alookup a (acks s') <> Some Pending ->
  (exists c q, queue s = (c, a) :: q) \/ (exists a0 q, queue s = (CShutdown, a0) :: q /\ In a (map snd q)).
Proof.
Admitted.

(* STATEMENT: once the worker has executed Shutdown no acknowledgement is left pending, and none ever will be *)
Lemma draining_no_pending : forall cfg evs a,
  worker (run_from cfg (init cfg) evs) = Draining ->
  alookup a (acks (run_from cfg (init cfg) evs)) <> Some Pending.
Proof.
Admitted.

(** * C13 *)
Definition is_write_request (r : request) : Prop :=
  match r with
  | RPut _ _ | RPutW _ _ _ | RPutTTL _ _ _ | RPutWTTL _ _ _ _ | RUpsert _ _ _ _ _ | RDelete _ => True
  | _ => False
  end.
Definition is_read_request (r : request) : Prop :=
  match r with
  | RGet _ | RGetRef _ | RMapGet _ | RMapGetRef _ | RMultiGet _ | RMultiIter _ | RMultiMapIter _ => True
  | _ => False
  end.

(* STATEMENT: the shutdown flag is never reset *)
Lemma shut_stable : forall cfg s ev, shut s = true -> shut (step_state cfg s ev) = true.
Proof.
Admitted.

(* STATEMENT: once the flag is set every write call returns an error and every read returns absent / empty, and
   neither changes anything (weight calculation of the harness's functions is positive, so put() reaches the check) *)
Lemma after_shutdown_refused : forall cfg tid r idxs s, shut s = true -> amem tid (blocked s) = false ->
  (is_write_request r -> valid_request r -> step cfg s (ECall tid r idxs) = (s, [2])) /\
  (is_read_request r -> step cfg s (ECall tid r idxs) = (s, [5])) /\
  (r = RShutdown -> step cfg s (ECall tid r idxs) = (s, [5])).
Proof.
Admitted.

(* STATEMENT: shutdown() cannot wait for ever on the command queue: a shutdown() parked in front of the queue is
   resumable as soon as the queue has room or the worker is gone; and while the queue is full and the worker alive,
   the worker has something to execute, and any worker step that consumes a command makes room *)
Lemma shutdown_unblocks : forall cfg s tid,
  0 < c_queue cfg -> alookup tid (blocked s) = Some KShutdownCmd ->
  ((Z.of_nat (length (queue s)) < c_queue cfg \/ worker s <> Alive) -> snd (step cfg s (ERun tid)) <> [6]) /\
  (worker s = Alive -> c_queue cfg <= Z.of_nat (length (queue s)) ->
     queue s <> [] /\
     forall orc, let s' := step_state cfg s (EWorker orc) in
       queue s' <> queue s -> snd (step cfg s' (ERun tid)) <> [6]).
Proof.
Admitted.

(* STATEMENT: likewise for the send of the consumer's shutdown event on the buffer channel *)
Lemma shutdown_unblocks_chan : forall cfg s tid,
  alookup tid (blocked s) = Some KShutdownChan ->
  ((Z.of_nat (length (chan s)) < chan_capacity \/ consumer s <> Alive) -> snd (step cfg s (ERun tid)) <> [6]) /\
  (consumer s = Alive -> chan_capacity <= Z.of_nat (length (chan s)) ->
     chan s <> [] /\
     forall bl, let s' := step_state cfg s (EDrain bl) in
       chan s' <> chan s -> snd (step cfg s' (ERun tid)) <> [6]).
Proof.
Admitted.

(* STATEMENT: a completed shutdown() leaves the flag set, the stop flags cleared and the store, ledger and expiry
   index empty *)
Lemma shutdown_completed_effect : forall cfg tid idxs s s' ret,
  amem tid (blocked s) = false -> shut s = false ->
  step cfg s (ECall tid RShutdown idxs) = (s', ret) -> ret = [5] ->
  shut s' = true /\ store s' = [] /\ weights s' = [] /\ used s' = 0 /\ ticker s' = [] /\
  consumer_run s' = false /\ sweeper_run s' = false.
Proof.
Admitted.

(* STATEMENT: a second shutdown() returns at once *)
Lemma second_shutdown_returns : forall cfg tid idxs s, shut s = true -> amem tid (blocked s) = false ->
  step cfg s (ECall tid RShutdown idxs) = (s, [5]).
Proof.
Admitted.
