(** The core invariant is inductive: it holds initially and is preserved by every event of the model, as long as
    the command worker has not panicked.  Consumers: C03, C04, C05, C10, C16, C01 (lower bound). *)
From CacheD.proofs Require Import Defs.
From Coq Require Import ZifyBool Permutation.

(* STATEMENT *)
Lemma inv_init : forall cfg, wf_config cfg -> Inv cfg (init cfg).
Proof.
Admitted.

(** a dead worker stays dead *)
(* STATEMENT *)
Lemma dead_absorbing : forall cfg s ev, worker s = Dead -> worker (step_state cfg s ev) = Dead.
Proof.
Admitted.

(* STATEMENT *)
Lemma inv_step : forall cfg s ev, wf_config cfg -> Inv cfg s -> valid_event ev ->
  worker (step_state cfg s ev) <> Dead -> Inv cfg (step_state cfg s ev).
Proof.
Admitted.

(* STATEMENT: every state reachable by a run of valid events in which the worker did not panic satisfies Inv *)
Lemma inv_run : forall cfg evs, wf_config cfg -> Forall valid_event evs ->
  worker (run_from cfg (init cfg) evs) <> Dead -> Inv cfg (run_from cfg (init cfg) evs).
Proof.
Admitted.

(** the sweeper and the consumer never panic from a state satisfying Inv *)
(* STATEMENT *)
Lemma inv_background_alive : forall cfg s ev, wf_config cfg -> Inv cfg s -> valid_event ev ->
  (sweeper s <> Dead -> sweeper (step_state cfg s ev) <> Dead) /\
  (consumer s <> Dead -> consumer (step_state cfg s ev) <> Dead).
Proof.
Admitted.

(** C05: the total equals the sum of the charges of exactly the stored keys *)
Definition charge_of (s : state) (e : entry) : Z :=
  match alookup (e_id e) (weights s) with Some wk => w_weight wk | None => 0 end.

(* STATEMENT *)
Lemma accounting_exact : forall cfg s, Inv cfg s ->
  used s = zsum (map (fun p => charge_of s (snd p)) (store s)) /\
  length (weights s) = length (store s) /\
  (forall id wk, alookup id (weights s) = Some wk -> exists e, alookup (w_key wk) (store s) = Some e /\ e_id e = id) /\
  (forall k e, alookup k (store s) = Some e -> exists wk, alookup (e_id e) (weights s) = Some wk /\ w_key wk = k).
Proof.
Admitted.

(* STATEMENT *)
Lemma used_nonneg : forall cfg s, Inv cfg s -> 0 <= used s.
Proof.
Admitted.
