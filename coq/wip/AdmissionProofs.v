(** Admission (C06) and the weight bound (C01) on the phase-contiguous model. *)
From CacheD.proofs Require Import Defs.
From Coq Require Import ZifyBool.

(** The two facts about a single eviction that the loop needs are proved in InvProofs.v
    ([weights_delete_hook_inv], [weights_delete_hook_no_panic]); here they are section hypotheses, discharged in
    proofs/Closing.v, so that this file does not depend on InvProofs.v. *)
Section Admission.
Hypothesis evict_inv : forall cfg s id s', wf_config cfg -> Inv cfg s -> weights_delete cfg id true s = Ok s' -> Inv cfg s'.
Hypothesis evict_no_panic : forall cfg s id, wf_config cfg -> Inv cfg s -> exists s', weights_delete cfg id true s = Ok s'.
(** and one step preserves the invariant ([inv_step]) *)
Hypothesis step_inv : forall cfg s ev, wf_config cfg -> Inv cfg s -> valid_event ev ->
  worker (step_state cfg s ev) <> Dead -> Inv cfg (step_state cfg s ev).
Hypothesis init_inv : forall cfg, wf_config cfg -> Inv cfg (init cfg).
Hypothesis dead_stays : forall cfg s ev, worker s = Dead -> worker (step_state cfg s ev) = Dead.

(** * C06 *)

(* STATEMENT: a put heavier than the whole cache is rejected for that reason and changes nothing *)
Lemma admit_too_heavy : forall cfg orc k id h w s,
  c_max cfg < w -> admit cfg orc k id h w s = (AdStatus (Rejected TooHeavy), s, []).
Proof.
Admitted.

(** the state after charging an incoming key *)
Definition charged (k id h w : Z) (s : state) : state :=
  upd_st add_weight_added (i64_as_u64 w)
    (set_used (set_weights s (aset id (Build_wkey k h w) (weights s))) (used s + w)).

(* STATEMENT: a put that fits in the free space is accepted, evicts nothing, and only charges the incoming id *)
Lemma admit_fits : forall cfg orc k id h w s,
  wf_config cfg -> 0 <= used s -> 0 < w -> w <= c_max cfg - used s ->
  admit cfg orc k id h w s = (AdStatus Accepted, charged k id h w s, []).
Proof.
Admitted.

(** [x] is what the sampler must pop from [sm]: lowest estimated frequency, the heavier one on ties *)
Definition victim_ok (sm : list sampled) (x : sampled) : Prop :=
  In x sm /\ forall y, In y sm -> sk_freq x <= sk_freq y /\ (sk_freq x = sk_freq y -> sk_weight y <= sk_weight x).

(* STATEMENT: what an admissible pop is *)
Lemma is_max_spec : forall x sm, In x sm -> (is_max x sm = true <-> victim_ok sm x).
Proof.
Admitted.

(** fields that admission never touches *)
Definition same_outside_ledger (s s' : state) : Prop :=
  ticker s' = ticker s /\ queue s' = queue s /\ acks s' = acks s /\ lfu s' = lfu s /\ pool s' = pool s /\
  chan s' = chan s /\ now s' = now s /\ next_id s' = next_id s /\ next_ack s' = next_ack s /\ shut s' = shut s /\
  consumer_run s' = consumer_run s /\ sweeper_run s' = sweeper_run s /\ worker s' = worker s /\
  sweeper s' = sweeper s /\ consumer s' = consumer s /\ blocked s' = blocked s.

(** the sample is consistent with the ledger: distinct ids, each charged with the recorded weight *)
Definition sample_ok (s : state) (sm : list sampled) : Prop :=
  NoDup (map sk_id sm) /\
  forall x, In x sm -> exists wk, alookup (sk_id x) (weights s) = Some wk /\ w_weight wk = sk_weight x.

(* STATEMENT: filling the sample keeps it consistent, without duplicates, never beyond five elements *)
Lemma sample_fill_spec : forall est s order sm sm',
  sample_ok s sm -> (length sm <= sample_size)%nat ->
  sample_fill est (weights s) order sm = Some sm' ->
  sample_ok s sm' /\ (length sm' <= sample_size)%nat /\
  (exists added, sm' = sm ++ added /\ forall x, In x added -> In (sk_id x) order /\ sk_freq x = est (match alookup (sk_id x) (weights s) with Some wk => w_hash wk | None => 0 end)) /\
  ((length sm' < sample_size)%nat -> forall id, In id (akeys (weights s)) -> In id (map sk_id sm')).
Proof.
Admitted.

(* STATEMENT: the eviction loop.  Victims are taken one at a time, each the lowest-frequency element of the sample at
   its turn, only while the victim's estimate does not exceed the incoming key's; the loop accepts exactly when enough
   space results; everything outside store / ledger / statistics is untouched. *)
Lemma create_space_spec : forall fuel cfg est inc w orders pops sm s vs res s' vs',
  wf_config cfg -> Inv cfg s -> sample_ok s sm ->
  create_space_loop fuel cfg est inc w orders pops sm (c_max cfg - used s) s vs = (res, s', vs') ->
  (forall why, res <> SpInadmissible why) -> (forall site, res <> SpPanic site) ->
  exists new sms,
    vs' = vs ++ new /\
    Forall2 victim_ok sms new /\
    (forall sm0 rest, sms = sm0 :: rest -> sm0 = sm) /\
    Forall (fun v => sk_freq v <= inc) new /\
    (res = SpAccepted -> w <= c_max cfg - used s') /\
    (res = SpRejected -> c_max cfg - used s' < w) /\
    used s' = used s - zsum (map sk_weight new) /\
    weights s' = fold_left (fun ws v => aremove (sk_id v) ws) new (weights s) /\
    (forall k, alookup k (store s') = if existsb (fun v => match alookup (sk_id v) (weights s) with Some wk => w_key wk =? k | None => false end) new
                                      then None else alookup k (store s)) /\
    same_outside_ledger s s' /\ Inv cfg s'.
Proof.
Admitted.

(* STATEMENT: the fuel given by [admit] is never exhausted *)
Lemma create_space_fuel_sufficient : forall cfg est inc w orders pops sm s vs,
  wf_config cfg -> Inv cfg s -> sample_ok s sm ->
  forall res s' vs', create_space_loop (length (weights s) + 7) cfg est inc w orders pops sm (c_max cfg - used s) s vs = (res, s', vs') ->
  res <> SpInadmissible 9.
Proof.
Admitted.

(* STATEMENT: the whole admission decision.  Accepted exactly when the space after the evictions suffices;
   victims never hotter than the incoming key; partial evictions of a rejected put stay evicted. *)
Lemma admit_spec : forall cfg orc k id h w s res s' vs,
  wf_config cfg -> Inv cfg s -> 0 < w -> alookup id (weights s) = None ->
  admit cfg orc k id h w s = (AdStatus res, s', vs) ->
  (res = Accepted \/ res = Rejected NoSpace \/ res = Rejected TooHeavy) /\
  (res = Rejected TooHeavy <-> c_max cfg < w) /\
  (w <= c_max cfg - used s -> res = Accepted /\ vs = []) /\
  Forall (fun v => sk_freq v <= estimate_with (lfu s) (o_bloom orc) h) vs /\
  (res = Accepted -> used s' <= c_max cfg /\ alookup id (weights s') = Some (Build_wkey k h w) /\
                     used s' = used s - zsum (map sk_weight vs) + w) /\
  (res = Rejected NoSpace -> c_max cfg - used s' < w /\ used s' = used s - zsum (map sk_weight vs) /\ alookup id (weights s') = None) /\
  same_outside_ledger s s'.
Proof.
Admitted.

(** * C01 *)

(** the one known way over the limit: an UpdateWeight whose increase exceeds the free space (no bound check) *)
Definition over_limit_update (cfg : config) (s : state) (ev : event) : Prop :=
  match ev with
  | EWorker _ =>
      match worker s, queue s with
      | Alive, (CUpdateWeight id w, _) :: _ =>
          match alookup id (weights s) with
          | Some wk => c_max cfg - used s < w - w_weight wk
          | None => False
          end
      | _, _ => False
      end
  | _ => False
  end.

(* STATEMENT: one step keeps the total within [0, max] unless it is an over-limit UpdateWeight *)
Lemma used_bounded_step : forall cfg s ev, wf_config cfg -> Inv cfg s -> valid_event ev ->
  0 <= used s <= c_max cfg -> ~ over_limit_update cfg s ev ->
  worker (step_state cfg s ev) <> Dead ->
  0 <= used (step_state cfg s ev) <= c_max cfg.
Proof.
Admitted.

(* STATEMENT: every accepted put leaves the total at or below the limit, whatever happened before *)
Lemma accepted_put_within_limit : forall cfg s orc c a q,
  wf_config cfg -> Inv cfg s -> worker s = Alive -> queue s = (c, a) :: q ->
  (exists k v id h w, c = CPut k v id h w) \/ (exists k v id h w ttl, c = CPutTTL k v id h w ttl) ->
  alookup a (acks (step_state cfg s (EWorker orc))) = Some Accepted ->
  ~ In a (map snd q) ->
  used (step_state cfg s (EWorker orc)) <= c_max cfg.
Proof.
Admitted.

(* STATEMENT: at every instant of every run without an over-limit UpdateWeight *)
Lemma used_bounded_run : forall cfg evs, wf_config cfg -> Forall valid_event evs ->
  Forall (fun p => ~ over_limit_update cfg (fst p) (snd p)) (visits cfg (init cfg) evs) ->
  worker (run_from cfg (init cfg) evs) <> Dead ->
  0 <= used (run_from cfg (init cfg) evs) <= c_max cfg.
Proof.
Admitted.

(** the known finding (D2): put a w=60, put b w=40, put_or_update a weight=100 in a cache of 100 gives 140 *)
Definition d2_cfg : config :=
  {| c_max := 100; c_counters := 16; c_shards := 2; c_queue := 8; c_pool := 1; c_buffer := 2; c_hash := 0; c_wcalc := 1;
     c_seeds := [1; 2; 3; 4]; c_t0 := 1000000000000; c_debug := true |}.
Definition d2_orc : worker_oracle := {| o_orders := []; o_pops := []; o_bloom := [] |}.
Definition d2_events : list event :=
  [ECall 0 (RPutW 1 1001 60) []; ECall 0 (RPutW 2 1002 40) []; EWorker d2_orc; EWorker d2_orc;
   ECall 0 (RUpsert 1 None (Some 100) None false) []; EWorker d2_orc].

(* STATEMENT *)
Lemma C01_refuted_by_update :
  wf_config d2_cfg /\ Forall valid_event d2_events /\
  used (run_from d2_cfg (init d2_cfg) d2_events) = 140 /\ c_max d2_cfg = 100 /\
  worker (run_from d2_cfg (init d2_cfg) d2_events) = Alive.
Proof.
Admitted.

End Admission.
