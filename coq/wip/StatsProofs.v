(** Access accounting (C15) and statistics (C16) on the phase-contiguous model. *)
From CacheD.proofs Require Import Defs.
From Coq Require Import ZifyBool.

Section Stats.
(** proved in InvProofs.v; discharged in proofs/Closing.v *)
Hypothesis run_inv : forall cfg evs, wf_config cfg -> Forall valid_event evs ->
  worker (run_from cfg (init cfg) evs) <> Dead -> Inv cfg (run_from cfg (init cfg) evs).
Hypothesis step_inv : forall cfg s ev, wf_config cfg -> Inv cfg s -> valid_event ev ->
  worker (step_state cfg s ev) <> Dead -> Inv cfg (step_state cfg s ev).
Hypothesis init_inv : forall cfg, wf_config cfg -> Inv cfg (init cfg).
Hypothesis dead_stays : forall cfg s ev, worker s = Dead -> worker (step_state cfg s ev) = Dead.

(** * C15 *)
Definition pool_total (s : state) : Z := zsum (map (fun b => Z.of_nat (length b)) (pool s)).
Definition chan_total (s : state) : Z :=
  zsum (map (fun it => match it with Batch hs => Z.of_nat (length hs) | ChanShutdown => 0 end) (chan s)).

(** every hit is still buffered, or was handed over (AccessAdded), or was dropped (AccessDropped) *)
Definition hits_accounted (s : state) : Prop :=
  (pool_total s + s_access_added (st s) + s_access_dropped (st s)) mod two64 = s_hits (st s) mod two64.

(* STATEMENT: handing a full buffer over is all-or-nothing: the whole batch is queued for the consumer and counted as
   added, or the whole batch is counted as dropped; nothing else changes *)
Lemma accept_batch_spec : forall hs s,
  let n := Z.of_nat (length hs) in
  let s' := accept_batch hs s in
  (chan s' = chan s ++ [Batch hs] /\ st s' = add_access_added (st s) n /\ consumer s = Alive /\
     Z.of_nat (length (chan s)) < chan_capacity) \/
  (chan s' = chan s /\ st s' = add_access_dropped (st s) n /\
     (consumer s <> Alive \/ chan_capacity <= Z.of_nat (length (chan s)))).
Proof.
Admitted.

(* STATEMENT: one step keeps every hit accounted exactly once (as long as shutdown has not begun, which clears the
   statistics), for every pool size, buffer size and index oracle *)
Lemma hits_accounted_step : forall cfg s ev, wf_config cfg ->
  length (pool s) = Z.to_nat (c_pool cfg) ->
  hits_accounted s -> shut (step_state cfg s ev) = false -> hits_accounted (step_state cfg s ev).
Proof.
Admitted.

(* STATEMENT *)
Lemma hits_accounted_run : forall cfg evs, wf_config cfg ->
  shut (run_from cfg (init cfg) evs) = false -> hits_accounted (run_from cfg (init cfg) evs).
Proof.
Admitted.

(* STATEMENT: a read never waits: whatever the state of the buffer channel and of the consumer (full, stalled, gone),
   a read call by a caller that is not parked completes: it is never parked and never disabled *)
Lemma read_never_blocks : forall cfg tid r idxs s,
  amem tid (blocked s) = false ->
  match r with
  | RGet _ | RGetRef _ | RMapGet _ | RMapGetRef _ | RMultiGet _ | RMultiIter _ | RMultiMapIter _ =>
      let '(s', ret) := step cfg s (ECall tid r idxs) in
      (exists vs, ret = 5 :: vs) \/ ret = [7]     (* a result, or an inadmissible index oracle (never the real code) *)
  | _ => True
  end /\
  (forall k, blocked (step_state cfg s (ECall tid (RGet k) idxs)) = blocked s).
Proof.
Admitted.

(* STATEMENT: the consumer applies a batch as a whole, under its one write lock: the sketch afterwards is the sketch
   after every access of the batch; the batch leaves the channel; statistics are untouched *)
Lemma drain_applies_whole_batch : forall cfg bl s hs rest s' ret,
  consumer s = Alive -> chan s = Batch hs :: rest ->
  step cfg s (EDrain bl) = (s', ret) -> ret = [5] ->
  length bl = length hs /\
  lfu_run (lfu s) (combine hs bl) = LOk (lfu s') /\
  (chan s' = rest \/ (chan s' = [] /\ consumer s' = Exited)) /\
  st s' = st s /\ store s' = store s /\ weights s' = weights s /\ used s' = used s /\ pool s' = pool s.
Proof.
Admitted.

(** * C16 *)

(* STATEMENT: keys added minus keys deleted is the number of keys held *)
Lemma keys_balance_run : forall cfg evs, wf_config cfg -> Forall valid_event evs ->
  let s := run_from cfg (init cfg) evs in
  worker s <> Dead ->
  (s_keys_added (st s) - s_keys_deleted (st s)) mod two64 = Z.of_nat (length (store s)) mod two64.
Proof.
Admitted.

(* STATEMENT: weight added minus weight removed is the total weight used (two's-complement add for decreases) *)
Lemma weight_balance_run : forall cfg evs, wf_config cfg -> Forall valid_event evs ->
  let s := run_from cfg (init cfg) evs in
  worker s <> Dead ->
  (s_weight_added (st s) - s_weight_removed (st s)) mod two64 = used s mod two64.
Proof.
Admitted.

Definition cmd_put_key_of (c : cmd) : option Z :=
  match c with CPut k _ _ _ _ => Some k | CPutTTL k _ _ _ _ _ => Some k | _ => None end.

(** number of key lookups an event performs *)
Definition lookups_of (s : state) (ev : event) : Z :=
  match ev with
  | ECall tid r _ =>
      if amem tid (blocked s) || shut s then 0 else
      match r with
      | RGet _ | RGetRef _ | RMapGet _ | RMapGetRef _ => 1
      | RMultiGet ks | RMultiIter ks | RMultiMapIter ks => Z.of_nat (length ks)
      | _ => 0
      end
  | _ => 0
  end.

(* STATEMENT: hits plus misses grows by exactly the number of lookups of each event (unless the event is a shutdown
   that clears the statistics, or its oracle is inadmissible) *)
Lemma lookups_counted_step : forall cfg s ev,
  let s' := step_state cfg s ev in
  snd (step cfg s ev) <> [7] ->
  st s' = stats_zero \/
  (s_hits (st s') + s_misses (st s')) mod two64 = (s_hits (st s) + s_misses (st s) + lookups_of s ev) mod two64.
Proof.
Admitted.

(* STATEMENT: rejected keys counts exactly the puts refused by admission *)
Lemma rejected_counted_step : forall cfg s orc c a q,
  worker s = Alive -> queue s = (c, a) :: q -> alookup a (acks s) = Some Pending ->
  let s' := step_state cfg s (EWorker orc) in
  worker s' <> Dead ->
  let refused_by_admission :=
    (exists k, cmd_put_key_of c = Some k) /\
    (alookup a (acks s') = Some (Rejected NoSpace) \/ alookup a (acks s') = Some (Rejected TooHeavy)) in
  (refused_by_admission -> s_keys_rejected (st s') = wrap_u64 (s_keys_rejected (st s) + 1)) /\
  (~ refused_by_admission -> s_keys_rejected (st s') = s_keys_rejected (st s)).
Proof.
Admitted.

(* STATEMENT: the hit ratio is hits / (hits + misses), and zero only when there were no hits *)
Lemma hit_ratio_spec : forall x, 0 <= s_hits x -> 0 <= s_misses x ->
  (s_hits x = 0 -> hit_ratio x = (0, 1)) /\
  (0 < s_hits x -> hit_ratio x = (s_hits x, s_hits x + s_misses x) /\ 0 < snd (hit_ratio x)) /\
  (fst (hit_ratio x) = 0 <-> s_hits x = 0).
Proof.
Admitted.

End Stats.
