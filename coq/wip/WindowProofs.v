(** Proofs about the window model (Window.v): a first half directly followed by its second half is the atomic step of
    Model.v; a schedule without overtaking reaches exactly the states of the atomic model (so every theorem about Model.v
    transfers); with overtaking the expiry sweep can remove a key whose time to live has not passed (two witnesses, the
    known findings of C10 / C08). *)
From CacheD Require Import Base Sketch Model Window.
From CacheD.proofs Require Import Closing SweepProofs.

Lemma sweep_spares_closed :
  forall cfg s k e, wf_config cfg -> Inv cfg s -> sweeper s = Alive ->
  alookup k (store s) = Some e ->
  (e_exp e = None \/ (exists t, e_exp e = Some t /\ now s <= t) \/
   (exists t, e_exp e = Some t /\ shard_index cfg t <> shard_index cfg (now s))) ->
  alookup k (store (step_state cfg s ESweep)) = Some e.
Proof. close_with sweep_spares. Qed.

(* STATEMENT: put_or_update = second half after first half, when nothing overtakes it: same state, same observation *)
Lemma upsert_halves_compose : forall cfg tid k v w ttl rm idxs ws,
  amem tid (ups ws) = false ->
  let r1 := wstep cfg ws (WUpsert1 tid k v w ttl rm) in
  let r2 := wstep cfg (fst r1) (WUpsert2 tid) in
  let atomic := step cfg (base ws) (ECall tid (RUpsert k v w ttl rm) idxs) in
  base (fst r2) = fst atomic /\ ups (fst r2) = ups ws /\ wpending (fst r2) = wpending ws /\
  snd atomic = (if list_eq_dec Z.eq_dec (snd r1) [9] then snd r2 else snd r1).
Proof.
Admitted.

(* STATEMENT: a worker step = second half after first half, when nothing overtakes it *)
Lemma worker_halves_compose : forall cfg orc ws,
  wpending ws = None ->
  let r1 := wstep cfg ws (WPut1 orc) in
  let r2 := wstep cfg (fst r1) WPut2 in
  let atomic := step cfg (base ws) (EWorker orc) in
  base (fst r2) = fst atomic /\ ups (fst r2) = ups ws /\ wpending (fst r2) = None /\
  snd atomic = (if list_eq_dec Z.eq_dec (snd r1) [9] then snd r2 else snd r1).
Proof.
Admitted.

(* STATEMENT: without overtaking the window model reaches exactly the states of the atomic model *)
Lemma atomic_schedule_refines : forall cfg evs evs',
  collapse evs = Some evs' ->
  base (wrun cfg evs) = run_from cfg (init cfg) evs' /\ ups (wrun cfg evs) = [] /\ wpending (wrun cfg evs) = None.
Proof.
Admitted.

(* STATEMENT: hence, without overtaking, the invariant of the atomic model holds and a sweep spares every key whose time
   to live has not passed *)
Lemma atomic_schedule_sweep_spares : forall cfg evs evs' k e,
  wf_config cfg -> collapse evs = Some evs' -> Forall valid_event evs' ->
  worker (base (wrun cfg evs)) <> Dead -> sweeper (base (wrun cfg evs)) = Alive ->
  alookup k (store (base (wrun cfg evs))) = Some e ->
  (e_exp e = None \/ exists t, e_exp e = Some t /\ now (base (wrun cfg evs)) <= t) ->
  removed_live cfg (wrun cfg evs) (WBase ESweep) k = false.
Proof.
Admitted.

(** the two witnesses (both reproduced on the real cache: corpus schedules window_d11 / window_d12) *)
Definition wcfg : config :=
  {| c_max := 100; c_counters := 16; c_shards := 2; c_queue := 8; c_pool := 1; c_buffer := 2; c_hash := 0; c_wcalc := 1;
     c_seeds := [1; 2; 3; 4]; c_t0 := 1000000000000; c_debug := true |}.
Definition no_orc : worker_oracle := {| o_orders := []; o_pops := []; o_bloom := [(1, false)] |}.

(** D11: a sweep between the two halves of a put_or_update that extends the time to live *)
Definition d11 : list wevent :=
  [WBase (ECall 0 (RPutWTTL 1 1001 30 2000000000) []); WBase (EWorker no_orc); WBase (EAdvance 1500000000);
   WUpsert1 1 1 None None (Some 60000000000) false; WBase (EAdvance 2500000000)].
(** D12: a put_or_update between the worker's store insert and its index registration leaves a second index entry *)
Definition d12 : list wevent :=
  [WBase (ECall 0 (RPutWTTL 1 1001 30 2000000000) []); WPut1 no_orc;
   WBase (ECall 1 (RUpsert 1 None None (Some 61000000000) false) []); WPut2; WBase (EAdvance 3000000000); WBase ESweep;
   WBase (EAdvance 1000000000)].

(* STATEMENT: known finding (C10, C08) - with overtaking, a sweep removes a key whose time to live has not passed *)
Lemma sweep_inside_upsert_window_refuted :
  removed_live wcfg (wrun wcfg d11) (WBase ESweep) 1 = true.
Proof. vm_compute. reflexivity. Qed.

(* STATEMENT: known finding (C10) - a stale second index entry makes a later sweep remove the live key *)
Lemma stale_duplicate_index_entry_refuted :
  removed_live wcfg (wrun wcfg d12) (WBase ESweep) 1 = true.
Proof. vm_compute. reflexivity. Qed.
