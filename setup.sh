#!/bin/sh
# Builds the framework from files on disk only (offline): the Coq development (full .vo build) and the Rust harness
# against /repo's current working tree with the hooks on.
set -e
cd "$(dirname "$0")"
mkdir -p .build/tmp evidence replays
(cd coq && coq_makefile -f _CoqProject -o Makefile >/dev/null && timeout 3000 make -j16 >/dev/null)
(cd harness && RUSTFLAGS="--cfg cached_verif --check-cfg cfg(cached_verif)" CARGO_TARGET_DIR="$(pwd)/../.build/target" CARGO_NET_OFFLINE=true cargo build --offline --quiet)
echo "setup ok"
