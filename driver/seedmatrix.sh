#!/bin/sh
# Tries every seeded change under /verif/seeded (or the ones named) against every check, each on its own scratch worktree
# of /repo (so /repo itself is never touched) and prints one matrix row per seed. Scratch directories are removed.
# usage: driver/seedmatrix.sh [seed names...]      env: PROPS="C01 C02 ..."   JOBS=4
cd "$(dirname "$0")/.."
VERIF_ORIG=$(pwd)
seeds="$@"; [ -z "$seeds" ] && seeds=$(ls seeded)
# work from a snapshot of /verif (driver, model, proofs, compiled files, corpus) so that it can be edited meanwhile
snap=/tmp/seedsnap_$$; rm -rf $snap; mkdir -p $snap
rsync -a --exclude .git --exclude .build --exclude seeded --exclude evidence --exclude replays ./ $snap/
mkdir -p $snap/seeded; for s in $seeds; do cp -r seeded/$s $snap/seeded/; done
cd $snap
props=${PROPS:-"C01 C02 C03 C04 C05 C06 C07 C08 C09 C10 C11 C12 C13 C14 C15 C16 C17 C18"}
jobs=${JOBS:-4}
mkdir -p $VERIF_ORIG/.build/matrix
one() {
  name=$1
  wt=/tmp/seedwt_$name; hd=/tmp/seedh_$name; bd=/tmp/seedb_$name
  rm -rf $wt $hd $bd; git -C /repo worktree prune
  git -C /repo worktree add -q --detach $wt HEAD || return
  git -C $wt apply $snap/seeded/$name/patch.diff || { echo "$name: patch does not apply"; return; }
  mkdir -p $hd $bd/ev $bd/rp; cp -r harness/src harness/Cargo.toml harness/Cargo.lock harness/.cargo $hd/
  sed -i "s#path = \"/repo\"#path = \"$wt\"#" $hd/Cargo.toml
  row=""
  for p in $props; do
    out=$(CACHED_REPO=$wt VERIF_BUILD_DIR=$bd VERIF_HARNESS_DIR=$hd VERIF_EVIDENCE_DIR=$bd/ev VERIF_REPLAYS_DIR=$bd/rp ./check $p 2>&1); rc=$?
    if [ $rc -eq 0 ]; then row="$row $p:-"; else
      if echo "$out" | grep VIOLATION | grep -qv no-failing-input-found; then row="$row $p:INPUT"; else row="$row $p:nofi"; fi
      echo "$out" | grep VIOLATION | head -3 > $VERIF_ORIG/.build/matrix/$name.$p.txt
      for f in $(echo "$out" | grep -o 'replay=[^ ]*' | cut -d= -f2 | head -2); do cp $f $VERIF_ORIG/.build/matrix/$name.$p.$(basename $f) 2>/dev/null; done
    fi
  done
  echo "ROW $name$row"
  git -C /repo worktree remove --force $wt; rm -rf $hd $bd
}
n=0
for s in $seeds; do
  one $s &
  n=$((n+1)); if [ $((n % jobs)) -eq 0 ]; then wait; fi
done
wait
cd /; rm -rf $snap
