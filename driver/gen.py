"""Schedule generators. Every random choice derives from one PRNG state (VERIF_SEED), so runs replay exactly."""
import random

SEC = 1000000000


class Gen:
    def __init__(self, seed):
        self.rng = random.Random(seed)
        self.token = 1000

    def tok(self):
        self.token += 1
        return self.token

    def cfg(self, profile):
        r = self.rng
        max_w = r.choice([10, 20, 30, 60, 100])
        c = dict(max=max_w, counters=r.choice([2, 3, 4, 8, 16, 17, 64]), cap=16, shards=r.choice([2, 4]),
                 queue=r.choice([1, 2, 3, 8]), pool=r.choice([1, 1, 2, 3]), buffer=r.choice([1, 2, 3, 4]),
                 hash=r.choice([0, 0, 1, 2, 3]), wcalc=1, t0=1000 * SEC + r.choice([0, 1, 999999999, 500000000]),
                 seeds=[r.getrandbits(64) for _ in range(4)], clients=3, debug=True)
        if profile == "default_weights":
            c["wcalc"] = 0
            c["max"] = r.choice([64, 100, 128, 200])
        if profile == "roomy":
            c["max"] = 1000
            c["queue"] = 8
        if profile == "queue1":
            c["queue"] = 1
        if profile == "reads":
            c["max"] = 200
        if profile == "evict":
            c["max"] = r.choice([10, 12, 20])
            c["counters"] = r.choice([8, 16, 64])
            c["buffer"] = r.choice([1, 2])
            c["pool"] = 1
        if profile == "evict2":
            c["max"] = r.choice([6, 8, 10])
            c["counters"] = r.choice([64, 64, 16])
            c["buffer"] = 1
            c["pool"] = 1
            c["hash"] = r.choice([0, 3, 3])
            c["queue"] = 8
        if profile == "boundary":
            c["max"] = r.choice([1, 2, 100, (1 << 62), (1 << 63) - 1])
            c["counters"] = r.choice([1, 1, 2, 3])
            c["queue"] = r.choice([1, 2])
            c["pool"] = 1
            c["buffer"] = 1
            # a clock at or just after the epoch is a valid clock too
            c["t0"] = r.choice([0, 1, 999999999, SEC, 2 * SEC - 1, c["t0"], c["t0"]])
        return c

    def weight(self, max_w):
        r = self.rng
        if max_w > (1 << 40):
            return r.choice([1, 2, 24, 25, 1 << 61, 1 << 62, (1 << 62) + 1, (1 << 63) - 1, max_w, max_w - 1])
        return r.choice([1, 1, 2, 2, 3, 5, 7, max(1, max_w // 2), max(1, max_w // 3), max_w, max_w + 1, 25, 24])

    def ttl(self, profile=None):
        if profile == "boundary" and self.rng.random() < 0.3:
            return self.rng.choice([0, 1, (1 << 63) * SEC, ((1 << 64) - 1) * SEC + 999999999, (1 << 62) * SEC])
        return self.rng.choice([0, 1, SEC, SEC, 2 * SEC, 3 * SEC, 5 * SEC, 7 * SEC + 5, 100 * SEC])

    def write_call(self, tid, keys, max_w, profile):
        r = self.rng
        k = r.choice(keys)
        kind = r.random()
        if profile == "roomy":
            wt = r.choice([1, 2, 3, 5, 30, 40])
        else:
            wt = self.weight(max_w)
        if kind < 0.25:
            return "call %d put_w %d %d %d" % (tid, k, self.tok(), wt)
        if kind < 0.35:
            return "call %d put %d %d" % (tid, k, self.tok())
        if kind < 0.5:
            return "call %d put_w_ttl %d %d %d %d" % (tid, k, self.tok(), wt, self.ttl(profile))
        if kind < 0.58:
            return "call %d put_ttl %d %d %d" % (tid, k, self.tok(), self.ttl(profile))
        if kind < 0.85:
            return self.upsert(tid, k, max_w, profile)
        return "call %d delete %d" % (tid, k)

    def upsert(self, tid, k, max_w, profile):
        r = self.rng
        while True:
            v = str(self.tok()) if r.random() < 0.6 else "-"
            if profile == "roomy":
                w = str(r.choice([1, 2, 3, 5, 30, 40, 50])) if r.random() < 0.35 else "-"
            else:
                w = str(self.weight(max_w)) if r.random() < 0.35 else "-"
            mode = r.random()
            ttl, rm = "-", "0"
            if mode < 0.35:
                ttl = str(self.ttl(profile))
            elif mode < 0.5:
                rm = "1"
            if v != "-" or w != "-" or ttl != "-" or rm == "1":
                return "call %d upsert %d %s %s %s %s" % (tid, k, v, w, ttl, rm)

    def read_call(self, tid, keys):
        r = self.rng
        k = r.choice(keys + [99])
        kind = r.random()
        if kind < 0.5:
            return "call %d get %d" % (tid, k)
        if kind < 0.6:
            return "call %d get_ref %d" % (tid, k)
        if kind < 0.67:
            return "call %d map_get %d" % (tid, k)
        if kind < 0.74:
            return "call %d map_get_ref %d" % (tid, k)
        ks = sorted(set(r.choice(keys + [99]) for _ in range(r.randint(1, 4))))
        kstr = ",".join(str(x) for x in ks)
        if kind < 0.83:
            return "call %d multi_get %s" % (tid, kstr)
        if kind < 0.92:
            return "call %d multi_iter %s" % (tid, kstr)
        return "call %d multi_map_iter %s" % (tid, kstr)

    def schedule_evict2(self, name):
        """many light resident keys with a read-built frequency profile, then heavy puts that need several victims"""
        r = self.rng
        cfg = self.cfg("evict2")
        nres = r.randint(6, cfg["max"])
        evs = []
        keys = list(range(1, nres + 1))
        for k in keys:
            evs.append("call 0 put_w %d %d 1" % (k, self.tok()))
            evs.append("worker")
        # frequency profile: some keys hot, some cold; every read is handed over and applied at once (buffer 1)
        hot = r.sample(keys, r.randint(2, max(2, nres // 2)))
        for _ in range(r.randint(10, 40)):
            k = r.choice(hot) if r.random() < 0.8 else r.choice(keys)
            evs.append("call %d get %d" % (r.randint(0, 2), k))
            if r.random() < 0.7:
                evs.append("drain")
        for _ in range(6):
            evs.append("drain")
        # an incoming key of middling frequency: put, read a few times, delete, put again heavy
        inc = nres + 1
        if r.random() < 0.7:
            evs += ["call 0 put_w %d %d 1" % (inc, self.tok()), "worker"]
            for _ in range(r.randint(0, 6)):
                evs += ["call 1 get %d" % inc, "drain"]
            evs += ["call 0 delete %d" % inc, "worker", "worker"]
        for _ in range(r.randint(1, 3)):
            w = r.choice([2, 3, cfg["max"] // 2, cfg["max"] - 1, cfg["max"]])
            evs += ["call 0 put_w %d %d %d" % (inc, self.tok(), w), "worker", "call 0 stats"]
            inc += 1
        evs += ["call 0 multi_get %s" % ",".join(str(k) for k in keys), "call 0 weight_used"]
        return dict(name=name, cfg=cfg, events=evs, profile="evict2")

    def schedule_ttlchain(self, name):
        """chains of TTL changes on one or two keys (add, shorten, extend, remove, re-add), every command awaited, then the
        clock walks second by second past every expiry ever set with a sweep at each step and reads in between"""
        r = self.rng
        cfg = self.cfg("roomy")
        cfg["shards"] = r.choice([2, 4, 4])
        evs = []
        keys = [1, 2][: r.randint(1, 2)]
        horizon = 0
        for k in keys:
            t = r.choice([2, 3, 5, 9, 12, 40])
            horizon = max(horizon, t)
            if r.random() < 0.8:
                evs += ["call 0 put_w_ttl %d %d 30 %d" % (k, self.tok(), t * SEC), "worker"]
            else:
                evs += ["call 0 put_w %d %d 30" % (k, self.tok()), "worker"]
        for _ in range(r.randint(1, 5)):
            k = r.choice(keys)
            kind = r.random()
            if kind < 0.55:
                t = r.choice([1, 2, 3, 4, 6, 7, 10, 25, 41, 60])
                horizon = max(horizon, t)
                evs.append("call 0 upsert %d %s - %d 0" % (k, str(self.tok()) if r.random() < 0.3 else "-", t * SEC))
            elif kind < 0.8:
                evs.append("call 0 upsert %d - - - 1" % k)
            elif kind < 0.9:
                evs.append("call 0 upsert %d %d - - 0" % (k, self.tok()))
            else:
                evs += ["call 0 delete %d" % k, "worker", "call 0 put_w_ttl %d %d 30 %d" % (k, self.tok(), r.choice([2, 5, 9]) * SEC)]
            evs.append("worker")
            if r.random() < 0.3:
                evs += ["advance %d" % r.choice([SEC, SEC // 2, 2 * SEC]), "sweep"]
        for step in range(min(70, horizon + 2 * cfg["shards"] + 3)):
            evs += ["advance %d" % SEC, "sweep"]
            if r.random() < 0.4:
                evs.append("call 1 get %d" % r.choice(keys))
        evs += ["call 0 get %d" % k for k in keys] + ["call 0 stats", "call 0 weight_used"]
        return dict(name=name, cfg=cfg, events=evs, profile="ttlchain")

    def schedule_upsertpipe(self, name):
        """pipelines of put_or_update calls on one or two keys while the worker lags: explicit weights from a small set (so
        that a later request often equals an earlier charge), values, TTL changes; then everything is applied"""
        r = self.rng
        cfg = self.cfg("roomy")
        cfg["queue"] = 8
        evs = []
        keys = [1, 2][: r.randint(1, 2)]
        for k in keys:
            evs += ["call 0 put_w %d %d %d" % (k, self.tok(), r.choice([5, 10, 50])), "worker"]
        for _ in range(r.randint(3, 9)):
            k = r.choice(keys)
            kind = r.random()
            if kind < 0.6:
                evs.append("call %d upsert %d - %d - 0" % (r.randint(0, 2), k, r.choice([5, 10, 50])))
            elif kind < 0.8:
                evs.append("call %d upsert %d %d - - 0" % (r.randint(0, 2), k, self.tok()))
            else:
                evs.append("call %d upsert %d %d %d - 0" % (r.randint(0, 2), k, self.tok(), r.choice([5, 10, 50])))
            if r.random() < 0.3:
                evs.append("worker")
            if r.random() < 0.2:
                evs.append("call 0 get %d" % k)
        evs += ["worker"] * 10 + ["call 0 get %d" % k for k in keys] + ["call 0 stats", "call 0 weight_used"]
        return dict(name=name, cfg=cfg, events=evs, profile="upsertpipe")

    def schedule_expired(self, name):
        """keys put with a short time-to-live, the clock moved past their expiry WITHOUT a sweep, then a burst of operations on
        those expired-but-still-stored keys while the worker lags (delete, every shape of put_or_update, put, all reads),
        reads after every step; then the worker catches up, sweeps run, everything is read again"""
        r = self.rng
        cfg = self.cfg("roomy")
        cfg["queue"] = 8
        cfg["shards"] = r.choice([2, 4])
        evs = []
        keys = [1, 2, 3][: r.randint(1, 3)]
        for k in keys:
            evs += ["call 0 put_w_ttl %d %d %d %d" % (k, self.tok(), r.choice([5, 10, 30]), r.choice([1, 2, 3]) * SEC), "worker"]
        evs.append("advance %d" % (r.choice([4, 5, 10]) * SEC))
        reads = ["get", "get_ref", "map_get", "map_get_ref"]
        for _ in range(r.randint(2, 7)):
            k = r.choice(keys)
            tid = r.randint(0, 2)
            kind = r.random()
            if kind < 0.3:
                evs.append("call %d delete %d" % (tid, k))
            elif kind < 0.5:
                evs.append("call %d upsert %d - - %d 0" % (tid, k, r.choice([2, 5, 60]) * SEC))
            elif kind < 0.6:
                evs.append("call %d upsert %d - - - 1" % (tid, k))
            elif kind < 0.75:
                evs.append("call %d upsert %d %d - - 0" % (tid, k, self.tok()))
            elif kind < 0.85:
                evs.append("call %d upsert %d %d %d %d 0" % (tid, k, self.tok(), r.choice([5, 10]), r.choice([2, 60]) * SEC))
            else:
                evs.append("call %d put_w %d %d 5" % (tid, k, self.tok()))
            evs.append("call %d %s %d" % (r.randint(0, 2), r.choice(reads), k))
            if r.random() < 0.25:
                evs.append("worker")
        evs += ["worker"] * 8
        evs += ["call 0 get %d" % k for k in keys]
        for _ in range(2 * cfg["shards"] + 1):
            evs += ["advance %d" % SEC, "sweep"]
        evs += ["call 0 get %d" % k for k in keys] + ["call 0 stats", "call 0 weight_used"]
        return dict(name=name, cfg=cfg, events=evs, profile="expired")

    def schedule(self, name, profile="general", length=None):
        if profile == "expired":
            return self.schedule_expired(name)
        if profile == "upsertpipe":
            return self.schedule_upsertpipe(name)
        if profile == "evict2":
            return self.schedule_evict2(name)
        if profile == "ttlchain":
            return self.schedule_ttlchain(name)
        r = self.rng
        cfg = self.cfg(profile)
        nkeys = r.randint(2, 6)
        keys = list(range(1, nkeys + 1))
        n = length or r.randint(15, 60)
        evs = []
        # operation mix per profile
        mix = dict(write=0.33, read=0.2, worker=0.2, sweep=0.05, drain=0.04, advance=0.06, poll=0.03, obs=0.03, run=0.05, shutdown=0.01, iter=0.0)
        if profile in ("general", "reads", "ttl", "queue1"):
            mix.update(iter=0.07)
        open_iters = {}
        if profile == "reads":
            mix.update(read=0.5, write=0.15, drain=0.1)
        if profile == "ttl":
            mix.update(sweep=0.12, advance=0.12, write=0.3)
        if profile == "queue1":
            mix.update(run=0.12, worker=0.2)
        if profile == "shutdown":
            mix.update(shutdown=0.06, run=0.1)
        if profile == "awaited":
            mix.update(worker=0.0)
        if profile == "evict":
            mix.update(read=0.35, write=0.3, worker=0.2, drain=0.1, sweep=0.0, advance=0.0, shutdown=0.0)
        if profile == "boundary":
            mix.update(write=0.45, worker=0.25, read=0.1, drain=0.05)
        names = list(mix)
        weights = [mix[x] for x in names]
        nacks = 0
        for _ in range(n):
            kind = r.choices(names, weights)[0]
            tid = r.randint(0, cfg["clients"] - 1)
            if kind == "write":
                evs.append(self.write_call(tid, keys, cfg["max"], profile))
                nacks += 1
                if profile == "awaited":
                    evs.append("worker")
            elif kind == "read":
                evs.append(self.read_call(tid, keys))
            elif kind == "iter":
                # a lazy iterator kept open across other events; repeated keys on purpose
                if open_iters.get(tid, 0) > 0:
                    evs.append("call %d iter_next" % tid)
                    open_iters[tid] -= 1
                else:
                    if r.random() < 0.3 and cfg["clients"] > 1:
                        # directed: a key repeated in the iterator, read once, then overwritten or deleted (and the command
                        # executed) before its second occurrence is read
                        k = r.choice(keys)
                        mid = [r.choice(keys + [99])] if r.random() < 0.4 else []
                        other = r.choice([t for t in range(cfg["clients"]) if t != tid])
                        evs.append("call %d %s %s" % (tid, r.choice(["iter_open", "iter_open_map"]), ",".join(str(x) for x in [k] + mid + [k])))
                        evs.extend(["call %d iter_next" % tid] * (1 + len(mid)))
                        evs.append(r.choice(["call %d upsert %d %d - - 0" % (other, k, self.tok()), "call %d delete %d" % (other, k)]))
                        nacks += 1
                        evs.extend(["worker"] * r.randint(1, 3))
                        evs.append("call %d iter_next" % tid)
                        evs.append("call %d iter_next" % tid)
                        continue
                    ks = [r.choice(keys + [99]) for _ in range(r.randint(2, 4))]
                    if r.random() < 0.6:
                        ks[r.randrange(len(ks))] = ks[0]
                    evs.append("call %d %s %s" % (tid, r.choice(["iter_open", "iter_open", "iter_open_map"]), ",".join(str(x) for x in ks)))
                    open_iters[tid] = len(ks) + r.randint(0, 1)
            elif kind == "worker":
                evs.append("worker")
            elif kind == "sweep":
                evs.append("sweep")
            elif kind == "drain":
                evs.append("drain")
            elif kind == "advance":
                evs.append("advance %d" % r.choice([0, 1, SEC // 2, SEC, SEC, 3 * SEC, 10 * SEC]))
            elif kind == "poll":
                evs.append("poll %d" % r.randint(0, max(0, nacks)))
            elif kind == "obs":
                evs.append("call %d %s" % (tid, r.choice(["weight_used", "stats"])))
            elif kind == "run":
                evs.append("run %d" % tid)
            elif kind == "shutdown":
                evs.append("call %d shutdown" % tid)
        # quiesce: let the worker and the consumer catch up, then observe
        for _ in range(r.randint(0, 10)):
            evs.append("worker")
        evs.append("call 0 stats")
        evs.append("call 0 weight_used")
        return dict(name=name, cfg=cfg, events=evs, profile=profile)


def windowed(rng, sched):
    """Turns a phase-contiguous schedule into one with overtaking: some put_or_update calls stop at the schedule point
    between their two halves and are resumed a few events later; some worker steps stop between the store insert and the
    index registration of a put with time-to-live and are resumed a few events later. No shutdown inside a schedule."""
    evs = [e for e in sched["events"] if not e.endswith(" shutdown")]
    out = []
    resume = []          # (events left, event to emit)
    worker_open = False
    stepping = set()
    for e in evs:
        p = e.split()
        emit = e
        if p[0] == "call" and p[2] == "upsert" and p[1] not in stepping and rng.random() < 0.5:
            emit = "callp " + " ".join(p[1:])
            stepping.add(p[1])
            resume.append([rng.choice([0, 1, 1, 2, 3, 5]), "run " + p[1], p[1]])
        elif p[0] == "worker" and not worker_open and rng.random() < 0.4:
            emit = "workerp"
            worker_open = True
            resume.append([rng.choice([0, 1, 1, 2, 3]), "runw", None])
        out.append(emit)
        for item in list(resume):
            if item[0] <= 0:
                out.append(item[1])
                resume.remove(item)
                if item[2] is None:
                    worker_open = False
                else:
                    stepping.discard(item[2])
            else:
                item[0] -= 1
    for item in resume:
        out.append(item[1])
    return dict(sched, events=out, name="w_" + sched["name"], profile="window")


MICRO_OPS = ("put", "put_w", "put_ttl", "put_w_ttl", "upsert", "delete", "get", "map_get", "get_ref", "map_get_ref", "shutdown")


def microed(rng, sched, density=0.6, keep_shutdown=False):
    """Turns a phase-contiguous schedule into a micro schedule: many calls are started in point-stepping mode (`callp`) and
    their remaining micro steps (`run tid`) are spread over the following events, so that other callers, the worker, the
    sweeper and the consumer overtake them; worker commands are started with `workerp` and continued with `runw`.
    A caller is not given another call while it is inside one (the harness would skip it)."""
    evs = [e for e in sched["events"] if keep_shutdown or not e.endswith(" shutdown")]
    out = []
    open_calls = {}          # tid -> steps that may still be needed (upper bound)
    worker_open = 0
    def pump():
        # every open call / command takes its next step with some probability
        for tid in list(open_calls):
            if rng.random() < 0.45:
                out.append("run " + tid)
                open_calls[tid] -= 1
                if open_calls[tid] <= 0:
                    del open_calls[tid]
        nonlocal worker_open
        if worker_open and rng.random() < 0.5:
            out.append("runw")
            worker_open -= 1
    for e in evs:
        p = e.split()
        if p[0] in ("call", "run") and p[1] in open_calls:
            # finish the open call of this caller first
            for _ in range(open_calls.pop(p[1])):
                out.append("run " + p[1])
        if p[0] == "call" and p[2] in MICRO_OPS and rng.random() < density:
            out.append("callp " + " ".join(p[1:]))
            open_calls[p[1]] = 7 if p[2] == "shutdown" else 4
        elif p[0] == "worker" and rng.random() < density:
            if worker_open:
                out.extend(["runw"] * worker_open)
            out.append("workerp")
            worker_open = 3
        else:
            if p[0] == "worker" and worker_open:
                out.extend(["runw"] * worker_open)
                worker_open = 0
            out.append(e)
        pump()
    for tid, n in open_calls.items():
        out.extend(["run " + tid] * n)
    out.extend(["runw"] * worker_open)
    out.append("call 0 stats")
    out.append("call 0 weight_used")
    cfg = dict(sched["cfg"], points="micro")
    return dict(sched, cfg=cfg, events=out, name="m_" + sched["name"], profile="micro")


def generate_micro(seed, count, profiles=("general", "ttl", "reads", "queue1", "awaited", "shutdown"), density=0.6):
    g = Gen(seed)
    out = []
    for i in range(count):
        profile = profiles[i % len(profiles)]
        out.append(microed(g.rng, g.schedule("s%d_%s_%d" % (seed, profile, i), profile), density, keep_shutdown=(profile == "shutdown")))
    return out


def generate_window(seed, count, profiles=("ttl", "general", "ttlchain", "upsertpipe")):
    g = Gen(seed)
    out = []
    for i in range(count):
        profile = profiles[i % len(profiles)]
        out.append(windowed(g.rng, g.schedule("s%d_%s_%d" % (seed, profile, i), profile)))
    return out


def generate(seed, count, profiles):
    g = Gen(seed)
    out = []
    for i in range(count):
        profile = profiles[i % len(profiles)]
        out.append(g.schedule("s%d_%s_%d" % (seed, profile, i), profile))
    return out
