"""C12 correspondence: interleavings of done() with polls, enumerated at the granularity of the individual accesses to the
flag, the status and the waker slot, run on the real acknowledgement (schedule points) and on the model (Ack.v)."""
import itertools
import os
import random
from concurrent.futures import ThreadPoolExecutor

from common import *


def sequential_cases(max_polls, finals=(1,)):
    """All placements of the completer's three steps among 1..max_polls polls issued one after another."""
    cases = []
    for npolls in range(1, max_polls + 1):
        for wakers in itertools.product([7, 8], repeat=npolls):
            base = []
            for i in range(npolls):
                base += [i + 1] * 4
            n = len(base)
            for pos in itertools.combinations_with_replacement(range(n + 1), 3):
                sched = []
                k = 0
                for idx in range(n + 1):
                    while k < 3 and pos[k] == idx:
                        sched.append(0)
                        k += 1
                    if idx < n:
                        sched.append(base[idx])
                # a completer step that finds W held is skipped on both sides; append retries so that it finishes
                sched += [0, 0, 0]
                for final in finals:
                    cases.append(dict(final=final, pollers=[(i + 1, wakers[i]) for i in range(npolls)], sched=sched))
    return cases


def concurrent_cases(rng, n, npollers=2):
    """Random interleavings in which pollers overlap (steps that would block on the waker mutex are skipped)."""
    cases = []
    for _ in range(n):
        k = rng.randint(2, max(2, npollers))
        pollers = [(i + 1, rng.choice([7, 8])) for i in range(k)]
        pool = [0] * 3
        for i in range(k):
            pool += [i + 1] * 4
        rng.shuffle(pool)
        extra = [rng.randint(0, k) for _ in range(rng.randint(0, 8))]
        sched = pool + extra + list(range(k + 1)) * 5
        cases.append(dict(final=rng.choice([1, 2, 4, 5, 6]), pollers=pollers, sched=sched))
    return cases


def contended_cases(rng, n):
    """The completer's last step (taking the waker mutex) released while a poller holds that mutex (token 99): it has to
    wait and goes on when the poller lets go. Exhaustive for one poller, random for two or three."""
    cases = []
    for w in (7, 8):
        for pos in itertools.combinations_with_replacement(range(5), 3):
            sched, k = [], 0
            for idx in range(5):
                while k < 3 and pos[k] == idx:
                    sched.append(0 if k < 2 else 99)
                    k += 1
                if idx < 4:
                    sched.append(1)
            for final in (1, 5):
                cases.append(dict(final=final, pollers=[(1, w)], sched=sched + [0, 1, 0, 1, 0, 1, 0, 1, 0], contended=True))
    for _ in range(n):
        k = rng.randint(2, 3)
        pollers = [(i + 1, rng.choice([7, 8])) for i in range(k)]
        pool = [0, 0, 99] + [99] * rng.randint(0, 2)
        for i in range(k):
            pool += [i + 1] * 4
        # the completer's own order is kept (two plain steps, then the contended one)
        rng.shuffle(pool)
        seen = 0
        for i, t in enumerate(pool):
            if t in (0, 99):
                seen += 1
                pool[i] = 0 if seen <= 2 else 99
        cases.append(dict(final=rng.choice([1, 2, 4, 5, 6]), pollers=pollers, sched=pool + list(range(k + 1)) * 5, contended=True))
    return cases


def all_two_poller_interleavings():
    """Every interleaving of the completer (3 steps) with two overlapping pollers (4 steps each): 11550 schedules."""
    cases = []
    def rec(rem, acc):
        if sum(rem) == 0:
            cases.append(dict(final=1, pollers=[(1, 7), (2, 8)], sched=acc + [0, 1, 2] * 5))
            return
        for t in range(3):
            if rem[t] > 0:
                rem[t] -= 1
                rec(rem, acc + [t])
                rem[t] += 1
    rec([3, 4, 4], [])
    return cases


FINAL_COQ = {1: "Accepted", 2: "(Rejected NoSpace)", 3: "(Rejected TooHeavy)", 4: "(Rejected KeyDoesNotExist)", 5: "(Rejected KeyAlreadyExists)", 6: "ShuttingDown"}


def run_impl(binary, cases, tag="ack"):
    chunks = [cases[i::NPROC] for i in range(NPROC)]

    def one(idx_chunk):
        idx, chunk = idx_chunk
        if not chunk:
            return []
        path = os.path.join(TMP, "%s_%d.txt" % (tag, idx))
        with open(path, "w") as f:
            for n, c in enumerate(chunk):
                f.write("case c%d_%d final=%d pollers=%s sched=%s\n" % (idx, n, c["final"], ",".join("%d:%d" % p for p in c["pollers"]),
                                                                       ",".join(str(t) for t in c["sched"])))
        recs = run_harness(binary, ["ack", path])
        return list(zip(chunk, recs))

    out = []
    with ThreadPoolExecutor(max_workers=NPROC) as ex:
        for pairs in ex.map(one, enumerate(chunks)):
            out += pairs
    return out


def run_model(cases, tag="ackm", flag_first=False):
    chunks = [cases[i::NPROC] for i in range(NPROC)]

    def one(idx_chunk):
        idx, chunk = idx_chunk
        if not chunk:
            return []
        vals = []
        # shard further to keep each file small
        for part in range(0, len(chunk), 400):
            sub = chunk[part:part + 400]
            vfile = os.path.join(TMP, "%s_%d_%d.v" % (tag, idx, part))
            with open(vfile, "w") as f:
                f.write("From CacheD Require Import Base Model Ack.\nOpen Scope Z_scope.\n")
                f.write("Eval vm_compute in [\n")
                f.write(";\n".join("adump (arun %s %s [%s] %s)" % ("true" if flag_first else "false", FINAL_COQ[c["final"]],
                                                                    "; ".join("(%d, %d)" % p for p in c["pollers"]), zlist(c.get("msched", c["sched"]))) for c in sub))
                f.write("].\n")
            v = parse_coq_values(coqc_eval(vfile))
            vals += v[0]
        return list(zip(chunk, vals))

    out = []
    with ThreadPoolExecutor(max_workers=NPROC) as ex:
        for pairs in ex.map(one, enumerate(chunks)):
            out += pairs
    return out


def compare(binary, cases, tag="ack"):
    """Returns (divergences, failures of the C12 monitor on the implementation, stats)."""
    impl = run_impl(binary, cases, tag)
    for c, rec in impl:
        if c.get("contended"):
            # the model runs the steps as they happened: a completer waiting on the mutex takes its step when the mutex is released
            c["msched"] = [t for t, e in rec["executed"] if t != 99]
    model = run_model(cases, tag + "m")
    mdict = {id(c): v for c, v in model}
    divs, fails = [], []
    stats = dict(ready=0, pending=0, woken=0, skipped_steps=0, outcomes=set())
    for c, rec in impl:
        res = sorted(rec["results"])
        wakes = rec["wakes"]
        stats["skipped_steps"] += sum(1 for _, e in rec["executed"] if e == 0)
        if any(e == -1 for _, e in rec["executed"]):
            fails.append(dict(signature="ack-step-timeout", what="a step of the acknowledgement protocol did not complete (blocked)", case=c, impl=rec))
        m = mdict[id(c)]
        mres = sorted([m[0][i], m[0][i + 1]] for i in range(0, len(m[0]), 2))
        stats["outcomes"].add((tuple(tuple(x) for x in res), tuple(wakes)))
        if mres != res or m[1] != wakes:
            divs.append(dict(kind="ack", component="ack", field="poll results / wakes", schedule=c, model=dict(results=mres, wakes=m[1]), impl=dict(results=res, wakes=wakes)))
        # monitor (implementation only)
        final_code = 2 + c["final"]
        pend = [i for i, r in res if r == 1]
        for i, r in res:
            if r == 2:
                fails.append(dict(signature="ready-pending", what="a poll returned Poll::Ready(CommandStatus::Pending)", case=c, impl=rec))
            elif r >= 2 and r != final_code:
                fails.append(dict(signature="ready-wrong-status", what="a poll returned a status other than the one passed to done()", case=c, impl=rec))
            if r == 1:
                stats["pending"] += 1
            elif r >= 2:
                stats["ready"] += 1
        completer_steps = sum(1 for t, e in rec["executed"] if (t == 0 and e == 1) or (t == 99 and e == 3))
        stats["completer_waited_on_mutex"] = stats.get("completer_waited_on_mutex", 0) + sum(1 for t, e in rec["executed"] if t == 99 and e == 2)
        if any(t == 99 and e == 3 for t, e in rec["executed"]):
            divs.append(dict(kind="ack", component="ack", field="waker mutex", schedule=c, impl=rec,
                             model="done() waits for the waker mutex while a poll holds it", detail="done() got past the waker mutex although a poller was holding it"))
        # "the task that most recently polled before completion is woken": replay the executed steps to find which waker
        # was registered last before the completer's wake step
        waker_of = dict(c["pollers"])
        steps_done = {}
        last_registered = None
        expected_wake = None
        cdone = 0
        for tid, e in rec["executed"]:
            if not (e == 1 or (tid == 99 and e == 3)):
                continue
            if tid in (0, 99):
                cdone += 1
                if cdone == 3:
                    expected_wake = last_registered
            else:
                steps_done[tid] = steps_done.get(tid, 0) + 1
                if steps_done[tid] == 2:
                    last_registered = waker_of[tid]
        if completer_steps >= 3 and expected_wake is not None and wakes != [expected_wake]:
            fails.append(dict(signature="stale-waker-woken", what="done() woke %s but the waker registered most recently before completion was %d" % (wakes, expected_wake), case=c, impl=rec))
        if completer_steps >= 3:
            if len(wakes) > 1:
                fails.append(dict(signature="woken-twice", what="the completer woke more than once", case=c, impl=rec))
            if pend and not wakes:
                fails.append(dict(signature="lost-wakeup", what="a poll returned Pending and nobody was woken when the command completed", case=c, impl=rec))
            if wakes:
                stats["woken"] += 1
    stats["outcomes"] = len(stats["outcomes"])
    return divs, fails, stats
