#!/bin/sh
# Confirms a seeded change in a scratch worktree: the unedited suite passes with it, the demonstration fails with it and
# passes without it. Then stores it under /verif/seeded/<name>/.  (No git stash: worktrees share refs/stash.)
# usage: driver/confirm_seed.sh <worktree> <outdir> <name>
wt=$1; out=$2; name=$3
cd "$wt" || exit 2
export CARGO_TARGET_DIR=$wt/target
git checkout -q -- src
rm -f tests/demo_test.rs
git apply "$out/patch.diff" || { echo "patch does not apply"; exit 2; }
echo "== suite with the change"
suite=$(cargo test --offline 2>&1 | grep -E "^test result" | tr '\n' ' ')
echo "$suite"
cp "$out/demo_test.rs" tests/demo_test.rs
echo "== demo with the change"
with=$(cargo test --offline --test demo_test 2>&1 | grep -E "^test result" | tr '\n' ' ')
echo "$with"
git apply -R "$out/patch.diff"
echo "== demo without the change"
without=$(cargo test --offline --test demo_test 2>&1 | grep -E "^test result" | tr '\n' ' ')
echo "$without"
rm -f tests/demo_test.rs
mkdir -p /verif/seeded/$name
cp "$out/patch.diff" /verif/seeded/$name/patch.diff
cp "$out/demo_test.rs" /verif/seeded/$name/demo_test.rs
[ -f "$out/meta.txt" ] && cp "$out/meta.txt" /verif/seeded/$name/agent_notes.txt
printf '%s\n' "suite_with_change: $suite" "demo_with_change: $with" "demo_without_change: $without" > /verif/seeded/$name/confirmation.txt
