#!/usr/bin/env python3
"""Generates coq/theories/Props/Cxx.v from the STATEMENT lemmas of the proofs files (run by hand after the proofs change;
the generated files are committed). Each theorem restates the lemma's statement verbatim and is closed by
`close_with lemma` (= `exact (lemma <facts of InvProofs>)`), followed by Print Assumptions."""
import os
import re
import sys

ROOT = os.path.join(os.path.dirname(os.path.dirname(os.path.abspath(__file__))), "coq", "theories")


STANDALONE = {"AckProofs", "LocksProofs", "LedgerProofs", "LedgerUpdProofs", "LedgerRunProofs", "PoolProofs", "PoolRunProofs", "WindowProofs", "MicroProofs", "MicroStats", "MicroBound", "MicroBal", "MicroAll", "MicroProv", "MicroLedger", "MicroFifo", "MicroAck", "MicroPut", "MicroCharged", "MicroFlow", "MicroHeld", "MicroBoundAll", "PrecondProofs"}


def statements(modname):
    text = open(os.path.join(ROOT, "proofs", modname + ".v")).read()
    out = {}
    for m in re.finditer(r"\(\*\s*STATEMENT(.*?)\*\)\s*\n\s*Lemma\s+(\w+)\s*:(.*?)\.\s*\nProof\.", text, flags=re.S):
        comment, name, stmt = m.group(1), m.group(2), m.group(3)
        out[name] = (comment.strip(" :\n"), stmt.strip())
    return out


def emit(pid, title, imports, items, examples=""):
    """items: list of (module, lemma, theorem suffix or None)"""
    cache = {}
    lines = ["(** %s. %s" % (pid, title),
             "    This file only pins statements: every theorem restates a lemma of proofs/ verbatim and is closed by it. *)",
             ("From CacheD Require Import Base Sketch Model Precond.\nFrom CacheD.proofs Require Import Defs." if "PrecondProofs" in imports else
              "From CacheD Require Import Base Ledger LedgerUpd LedgerRun." if "LedgerRunProofs" in imports else
              "From CacheD Require Import Base Ledger LedgerUpd." if "LedgerUpdProofs" in imports else
              "From CacheD Require Import Base Ledger." if "LedgerProofs" in imports else
              "From CacheD Require Import Base PoolProto PoolRun." if "PoolRunProofs" in imports else
              "From CacheD Require Import Base PoolProto." if "PoolProofs" in imports else
              "From CacheD Require Import Base Sketch Model Window Micro.\nFrom CacheD.proofs Require Import Defs ApiProofs HistoryProofs StatsProofs." if "MicroProofs" in imports else
              "From CacheD Require Import Base Sketch Model Window.\nFrom CacheD.proofs Require Import Defs." if "WindowProofs" in imports else
              "From CacheD Require Import Base Locks.\nLocal Open Scope nat_scope." if "LocksProofs" in imports else
              "From CacheD Require Import Base Sketch Model%s." % (" Ack" if "AckProofs" in imports else "")),
             "From CacheD.proofs Require Import %s." % " ".join(["Closing"] + [i for i in imports if i not in ("Closing",)]) if not (set(imports) & STANDALONE)
             else "From CacheD.proofs Require Import %s." % " ".join(imports), ""]
    for mod, lemma, suffix in items:
        if mod not in cache:
            cache[mod] = statements(mod)
        if lemma not in cache[mod]:
            raise SystemExit("no STATEMENT lemma %s in %s" % (lemma, mod))
        comment, stmt = cache[mod][lemma]
        name = "%s_%s" % (pid.split("_")[0] if "_" in pid else pid, suffix or lemma)
        if comment:
            lines.append("(** %s *)" % comment)
        lines.append("Theorem %s :\n  %s." % (name, stmt))
        if set(imports) & STANDALONE:
            lines.append("Proof. exact %s. Qed." % lemma)
        else:
            lines.append("Proof. close_with %s. Qed." % lemma)
        lines.append("Print Assumptions %s.\n" % name)
    if examples:
        lines.append(examples)
    path = os.path.join(ROOT, "Props", pid + ".v")
    open(path, "w").write("\n".join(lines) + "\n")
    print("wrote", path, len(items), "theorems")


SPEC = {}


def spec(pid, title, imports, items, examples=""):
    SPEC[pid] = (title, imports, items, examples)


A, I, P, K, W, H, T = "AdmissionProofs", "InvProofs", "ApiProofs", "AckProofs", "SweepProofs", "HistoryProofs", "StatsProofs"

spec("C01_ledger", "Total weight never exceeds the configured cache weight: every interleaving of the individual ledger actions", ["LedgerProofs", "LedgerRunProofs"], [
    ("LedgerProofs", "ledger_bounded", "all_interleavings"), ("LedgerProofs", "ledger_exact_when_quiet", None),
    ("LedgerProofs", "ledger_add_within_limit", None), ("LedgerRunProofs", "ledger_trace_bounded", None),
])
spec("C15_pool", "Reads never wait for the sketch; access records are counted or dropped: every interleaving of any number of readers, buffers and the consumer", ["PoolProofs", "PoolRunProofs"], [
    ("PoolProofs", "hits_conserved", "all_interleavings_hits_conserved"), ("PoolProofs", "added_conserved", "all_interleavings_added_conserved"),
    ("PoolProofs", "pool_bounded", None), ("PoolProofs", "reader_never_waits_for_consumer", None),
    ("PoolRunProofs", "pool_trace_hits_conserved", None), ("PoolRunProofs", "pool_trace_bounded", None),
])
spec("C10_window", "Expiry sweeps with overtaking: put_or_update and the worker's put with time-to-live split at their schedule points", ["WindowProofs"], [
    ("WindowProofs", "upsert_halves_compose", None), ("WindowProofs", "worker_halves_compose", None),
    ("WindowProofs", "atomic_schedule_refines", None), ("WindowProofs", "atomic_schedule_sweep_spares", None),
    ("WindowProofs", "sweep_inside_upsert_window_refuted", "known_finding_sweep_inside_upsert_window"),
    ("WindowProofs", "stale_duplicate_index_entry_refuted", "known_finding_stale_duplicate_index_entry"),
])
spec("C08_window", "put_or_update split at its schedule point: the two halves are the atomic call when nothing overtakes them", ["WindowProofs"], [
    ("WindowProofs", "upsert_halves_compose", None), ("WindowProofs", "atomic_schedule_refines", None),
    ("WindowProofs", "sweep_inside_upsert_window_refuted", "known_finding_sweep_inside_upsert_window"),
])
spec("C05_ledger", "CacheWeight::update against the sweeper's CacheWeight::delete, one lock-delimited action at a time: the entry guard makes the update atomic", ["LedgerUpdProofs", "LedgerRunProofs"], [
    ("LedgerUpdProofs", "guarded_update_exact", None), ("LedgerUpdProofs", "unguarded_update_refuted", "guard_is_necessary"),
    ("LedgerRunProofs", "ledger_trace_exact_when_quiet", None), ("LedgerRunProofs", "update_trace_exact_when_quiet", None),
])
spec("C17_precond", "The documented preconditions: what the builders accept is what the theorems assume", ["PrecondProofs"], [
    ("PrecondProofs", "accepted_config_is_wf", None), ("PrecondProofs", "accepted_upsert_iff_valid", None), ("PrecondProofs", "accepted_put_weight_iff_valid", None),
])
M = "MicroProofs"
spec("C05_micro", "Accounting under every interleaving of the micro steps (calls, worker commands and shutdown() split at every schedule point)", [M, "MicroLedger", "MicroCharged", "MicroFlow", "MicroHeld"], [
    ("MicroHeld", "micro_held_is_charged_all", None), ("MicroHeld", "micro_store_ids_distinct_all", None), ("MicroHeld", "micro_index_lists_used_ids_all", None),
    ("MicroLedger", "micro_ledger_exact_all", None), ("MicroLedger", "micro_ids_fresh_all", None), ("MicroFlow", "micro_ids_flow_all", None),
    ("MicroCharged", "micro_charged_is_stored_all", None), ("MicroCharged", "micro_charged_is_stored_quiet", None),
    (M, "mcall_atomic", None), (M, "mdelete_atomic", None), (M, "mput_atomic", None), (M, "minv_step", None), (M, "minv_run", None),
    (M, "micro_accounting_exact", None), (M, "racing_puts_one_wins", None), (M, "micro_schedule_refines", None),
])
spec("C04_micro", "Delete split at its schedule points: the mark hides the key under every interleaving of micro steps", [M, "MicroBal", "MicroAll"], [
    ("MicroAll", "micro_hidden_all", None), ("MicroAll", "micro_hidden_run", None),
    (M, "micro_soft_deleted_stays_hidden", None), (M, "mcall_atomic", None), (M, "mdelete_atomic", None),
])
spec("C13_micro", "shutdown() split into its stages: the flag is final and refuses every call that begins after it; acknowledgements at every micro state", [M, "MicroBal", "MicroAll", "MicroAck"], [
    ("MicroAck", "micro_draining_no_pending_all", None), ("MicroAck", "micro_ack_pending_iff_all", None),
    ("MicroAll", "micro_shut_stable_all", None), (M, "micro_shut_stable", None), (M, "micro_after_flag_refused", None), (M, "mcall_atomic", "shutdown_stages_compose"),
])
spec("C07_micro", "put split at its schedule points: both presence checks from any state; the race between two puts of one key", [M, "MicroPut"], [
    ("MicroPut", "micro_put_check_present", None), ("MicroPut", "micro_put_check_absent", None), ("MicroPut", "micro_worker_put_status", None),
    (M, "racing_puts_one_wins", None), (M, "minv_run", None), (M, "mcall_atomic", None), (M, "mput_atomic", None),
])
spec("C08_micro", "put_or_update behind the flag check is Window.v's first half", [M], [
    (M, "mupsert_enter_is_half1", None),
])
spec("C01_micro", "The bound on the total under every interleaving of the micro steps", [M, "MicroBound", "MicroLedger", "MicroBoundAll"], [
    ("MicroBoundAll", "micro_used_bounded_all", None), ("MicroBound", "micro_used_bounded_run", None), ("MicroLedger", "micro_ledger_exact_all", None), (M, "micro_accounting_exact", None), (M, "mput_atomic", None),
])
spec("C16_micro", "Key and weight balances at every state of every micro schedule, all windows included", [M, "MicroBal"], [
    ("MicroBal", "mbal_step", None), ("MicroBal", "micro_balances_run", None),
])
spec("C10_micro", "Sweeps at every state of every interleaving of micro steps", [M, "MicroBound"], [
    ("MicroBound", "micro_sweep_spares", None),
])
spec("C03_micro", "No spurious loss through a sweep at any state of any interleaving of micro steps", [M, "MicroBound"], [
    ("MicroBound", "micro_sweep_spares", None), (M, "minv_run", None),
])
spec("C15_micro", "Hit accounting with reads split between the store lookup and the access record", [M, "MicroStats"], [
    ("MicroStats", "micro_hits_accounted_run", None), ("MicroStats", "read_in_flight_witness", None), (M, "mcall_atomic", None),
])
spec("C02_micro", "Reads split at their schedule points", [M, "MicroBal", "MicroAll", "MicroProv", "MicroPut"], [
    ("MicroProv", "micro_store_value_provenance", None), ("MicroPut", "micro_read_decides_at_lookup", None), ("MicroPut", "micro_hit_returns_lookup_value", None), (M, "mcall_atomic", None), ("MicroAll", "micro_hidden_run", "deleted_value_never_returned_micro"),
])
spec("C11_micro", "Writes split between building the command and sending it; the queue at every micro step", [M, "MicroFifo", "MicroAck"], [
    ("MicroFifo", "micro_queue_fifo_all", None), ("MicroFifo", "micro_worker_one_at_a_time", None),
    ("MicroAck", "micro_ack_ids_unique_all", None), ("MicroAck", "micro_ack_pending_iff_all", None), (M, "mcall_atomic", None), (M, "mdelete_atomic", None), (M, "mput_atomic", None), (M, "micro_schedule_refines", None),
])
spec("C01", "Total weight never exceeds the configured cache weight", [I, A], [
    (A, "used_bounded_step", None), (A, "used_bounded_run", None), (I, "used_nonneg", None),
    (A, "accepted_put_within_limit_admissible", None), (A, "accepted_put_within_limit_partial", None),
    (A, "C01_refuted_by_update", "known_finding_update_weight"),
])
spec("C05", "Weight accounting matches the set of held keys", [I], [
    (I, "inv_init", None), (I, "inv_step", None), (I, "inv_run", None), (I, "accounting_exact", None),
    (I, "inv_background_alive", None),
])
spec("C06", "Admission follows the TinyLFU rule", [I, A], [
    (A, "admission_too_heavy", None), (A, "admission_fits", None), (A, "is_max_spec", None), (A, "sample_fill_spec", None),
    (A, "create_space_spec", None), (A, "create_space_fuel_sufficient", None), (A, "admission_spec", None),
])
spec("C04", "Delete hides the key immediately and releases it completely", [P], [
    (P, "delete_hides_immediately", None), (P, "soft_deleted_stays_hidden", None), (P, "delete_cmd_releases", None),
    (P, "delete_cmd_absent", None), (P, "put_absent_not_rejected_on_the_spot", "reput_after_release"),
])
spec("C07", "put never overwrites; 'key already exists' only for keys that can be read", [P], [
    (P, "put_present_rejected_unchanged", None), (P, "put_absent_not_rejected_on_the_spot", None), (P, "worker_put_status", None),
])
spec("C08", "put_or_update changes exactly what was requested, or acts as put", [P], [
    (P, "upsert_present_fields", None), (P, "upsert_present_weight", None), (P, "upsert_absent_is_put", None),
    (P, "update_weight_charged", None),
])
spec("C09", "Expired values are never served", [P], [
    (P, "lookup_alive_spec", None), (P, "lookup_alive_expired", None), (P, "lookup_alive_no_ttl", None), (P, "read_one_spec", None),
    (P, "worker_put_entry", "expiry_is_apply_time_plus_ttl"), (P, "upsert_present_fields", "upsert_moves_the_deadline"),
    (P, "boundary_agrees_with_sweeper", None),
])
spec("C12", "Every acknowledgement resolves exactly once to the command's real outcome", [K], [
    (K, "flag_implies_status", None), (K, "never_ready_pending", None), (K, "ready_is_stable", None), (K, "status_written_once", None),
    (K, "no_lost_wakeup", None), (K, "no_pending_after_done", None), (K, "ack_no_deadlock", None),
    (K, "ack_enabled_step_progress", None), (K, "ack_disabled_step_noop", None), (K, "C12_refuted_flag_first", "original_order_refuted"),
])

spec("C10", "The sweeper removes exactly the expired keys and reclaims their weight", [I, W], [
    (W, "sweep_exact", None), (W, "sweep_spares", None), (W, "sweep_removes_due", "sweep_eventually"), (W, "stale_entry_inert", None),
    (W, "C10_starved_shard", "known_finding_starved_shard"),
])
spec("C03", "No spurious loss: without memory pressure an accepted key stays readable", [I, W, "DemandProofs"], [
    (W, "step_preserves_entry", None), (W, "now_monotone", None), (W, "no_spurious_loss", "no_spurious_loss_per_put"),
    ("DemandProofs", "fitting_demand_no_pressure", None), ("DemandProofs", "step_preserves_entry_real", None),
    ("DemandProofs", "no_spurious_loss_fitting_demand", None),
])

spec("C02", "Reads return only the current value of the key, never stale or foreign", [P, H], [
    (H, "store_value_provenance", None), (H, "read_value_was_written", None), (P, "read_one_spec", None), (P, "read_many_spec", None),
    (P, "read_variants_agree", None), (P, "lookup_alive_spec", "served_iff_stored_alive"), (P, "soft_deleted_stays_hidden", "deleted_value_never_returned"),
    (P, "upsert_present_fields", "overwrite_visible_at_return"), (P, "worker_put_entry", "accepted_put_visible"),
])
spec("C11", "Writes are applied exactly once, one at a time, in submission order", [P, H], [
    (H, "queue_only_appended", None), (H, "worker_takes_head", None), (H, "executed_is_prefix_of_sent", None), (H, "queue_bounded", None),
    (H, "ack_inv_run", None), (H, "ack_resolved_stable", None), (H, "acks_complete_in_order", None),
])
spec("C13", "Shutdown refuses new work, answers every pending command, never blocks", [P, H], [
    (H, "shut_stable", None), (H, "after_shutdown_refused", None), (H, "draining_no_pending", "every_ack_answered"), (H, "ack_inv_run", "pending_iff_queued"),
    (H, "shutdown_unblocks_reachable", None), (H, "shutdown_unblocks_chan_reachable", None), (H, "second_shutdown_returns", None),
    (H, "shutdown_completed_effect", None), (H, "queue_bounded", None), (H, "chan_bounded", None),
])
spec("C15", "Every hit is accounted exactly once; reads never wait for the counting pipeline", [P, T], [
    (T, "accept_batch_spec", None), (T, "hits_accounted_step_partial", None), (T, "hits_accounted_run", None), (T, "read_never_blocks", None),
    (T, "drain_applies_whole_batch", None), (P, "read_one_spec", "one_record_per_hit"),
])
spec("C16", "Statistics are exact", [P, T], [
    (T, "keys_balance_run", None), (T, "weight_balance_run", None), (T, "lookups_counted_step", None), (T, "rejected_counted_step", None),
    (T, "hit_ratio_spec", None),
])

spec("C17", "Valid calls never panic or kill a background worker", ["InvProofs", "PanicProofs"], [
    ("PanicProofs", "valid_calls_never_panic", None), ("PanicProofs", "valid_runs_never_panic", None), ("PanicProofs", "still_serves", None),
    ("PanicProofs", "C17_refuted_remove_ttl_small_weight", "known_finding_remove_ttl_small_weight"),
    ("PanicProofs", "C17_refuted_ttl_overflow", "known_finding_ttl_overflow"),
    ("SketchProofs", "counters_1_no_panic", "one_counter_sketch_no_panic"),
])

L = "LocksProofs"
spec("C18", "No deadlock: every call returns under every interleaving", [L], [
    (L, "ordered_locking_progress", None), (L, "lwf_step", None), (L, "lwf_run", None), (L, "lstep_disabled_noop", None),
    (L, "cached_lock_programs_ordered", None), (L, "cached_sys_wf", None), (L, "cached_no_deadlock", None),
    (L, "reentrant_get_ref_excluded", None),
])

if __name__ == "__main__":
    for pid in (sys.argv[1:] or sorted(SPEC)):
        emit(pid, *SPEC[pid])
