#!/usr/bin/env python3
"""Entry point of every check:  check.py <Cxx> [--tier quick|thorough] [--replay file]

Pipeline (DESIGN §2.2): audit of the Coq sources, full .vo build of the property's theorems, Print Assumptions,
build of the harness against /repo's working tree (hooks on), kernel correspondence, schedule correspondence,
property monitors on the implementation traces, verdict + evidence + replay."""
import argparse
import json
import os
import sys
import time
import traceback

sys.path.insert(0, os.path.dirname(os.path.abspath(__file__)))
from common import *
import props


def write_replay(pid, kind, payload):
    ensure_dirs()
    name = "%s-%s-%s.json" % (pid, kind, sha(payload))
    path = os.path.join(REPLAYS, name)
    payload = dict(payload)
    payload["property"] = pid
    payload["kind"] = kind
    payload["replay_cmd"] = "./check %s --replay %s" % (pid, path)
    with open(path, "w") as f:
        json.dump(payload, f, indent=1, default=str)
    return path


def load_known():
    path = os.path.join(VERIF, "known_findings.json")
    if not os.path.exists(path):
        return []
    return json.load(open(path))


def main():
    ap = argparse.ArgumentParser()
    ap.add_argument("property")
    ap.add_argument("--tier", default=os.environ.get("VERIF_TIER", "quick"))
    ap.add_argument("--replay", default=None)
    args = ap.parse_args()
    pid = args.property
    tier = args.tier if args.tier in ("quick", "thorough") else "quick"
    seed = int(os.environ.get("VERIF_SEED", "20260929"))
    t0 = time.time()
    ensure_dirs()
    spec = props.PROPS[pid]
    violations = []      # (replay path, found_failing_input: bool, text)
    known_lines = []
    notes = []
    cov = dict(evaluations=0, distinct_nontrivial=0, rule="", samples=[], traces_validated_against_impl=0,
               obligations=0, discharged=0, checker_cmd="", trusted_base=props.TRUSTED_BASE + spec.get("trusted_extra", []))
    assumptions = list(spec.get("assumptions", []))

    # ---- 1. audit + proofs
    proof_ok = True
    bad = audit_sources()
    if bad:
        proof_ok = False
        path = write_replay(pid, "proof", dict(theorem="(audit)", detail="forbidden constructs in the Coq development", lines=bad))
        violations.append((path, False, "audit"))
    modules = spec.get("modules", [spec["module"]])
    target = " ".join("theories/Props/%s.vo" % m for m in modules)
    ok, log = coq_make(target.split() + spec.get("extra_targets", []))
    cov["checker_cmd"] = "coq_makefile -f _CoqProject -o Makefile && make -j%d %s   (cwd /verif/coq; full .vo build)" % (NPROC, target)
    thms = []
    if not ok:
        proof_ok = False
        err = [l for l in log.splitlines() if "Error" in l or "rror:" in l or "File " in l][-12:]
        path = write_replay(pid, "proof", dict(theorem=target, detail="the Coq development no longer builds", log=log[-5000:], errors=err))
        violations.append((path, False, "proof-build"))
        import re as _re
        thms = []
        for m in modules:
            thms += _re.findall(r"^\s*Theorem\s+(\w+)", strip_comments(open(os.path.join(COQ, "theories", "Props", m + ".v")).read()), flags=_re.M)
        cov["obligations"] = len(thms)
        cov["discharged"] = 0
    else:
        thms, assum, raw = [], {}, ""
        for m in modules:
            t_, a_, r_ = print_assumptions(m)
            thms += t_
            assum.update(a_)
            raw += r_
        cov["obligations"] = len(thms)
        open_ax = {t: a for t, a in assum.items() if not a.startswith("Closed under the global context")}
        allowed = spec.get("allowed_axioms", [])
        really_open = {}
        for t, a in open_ax.items():
            names = [l.split(":")[0].strip() for l in a.splitlines()[1:] if ":" in l and not l.startswith(" ")]
            if not names or any(n not in allowed for n in names):
                really_open[t] = a
        cov["discharged"] = len(thms) - len(really_open)
        if len(assum) != len(thms):
            really_open["(parse)"] = raw[-2000:]
        if really_open:
            proof_ok = False
            path = write_replay(pid, "proof", dict(theorem=list(really_open), detail="Print Assumptions is not closed", output=really_open))
            violations.append((path, False, "assumptions"))
        assumptions.append("Print Assumptions for %d theorems of Props/%s.v: %s" % (
            len(thms), ",".join(modules), "all 'Closed under the global context'" if not open_ax else json.dumps(open_ax)))
        if tier == "thorough" and spec.get("coqchk", True):
            import subprocess
            try:
                p = subprocess.run(["coqchk", "-o", "-silent", "-Q", os.path.join(COQ, "theories"), "CacheD"] + ["CacheD.Props.%s" % m for m in modules],
                                   capture_output=True, text=True, timeout=1500, cwd=COQ)
                tail = (p.stdout + p.stderr)[-1500:]
                assumptions.append("coqchk -o: " + " ".join(tail.split())[-600:])
                if p.returncode != 0:
                    proof_ok = False
                    path = write_replay(pid, "proof", dict(theorem="coqchk", detail="coqchk rejected the compiled development", output=tail))
                    violations.append((path, False, "coqchk"))
            except subprocess.TimeoutExpired:
                notes.append("coqchk timed out")
    cov["theorems"] = thms

    # ---- 2. the tie to the code + monitors
    ctx = dict(pid=pid, tier=tier, seed=seed, spec=spec, proof_ok=proof_ok, replay=args.replay,
               known_sigs={k["signature"] for k in load_known() if k["property"] == pid and k.get("status") == "known"})
    try:
        binary, build_s = build_harness()
        ctx["binary"] = binary
        ok2, log2 = coq_make(["theories/Model.vo", "theories/Harness.vo"])
        if not ok2:
            raise Broken("model-build", log2[-3000:])
        res = spec["run"](ctx)
    except Broken as b:
        fails = []
        if b.what == "harness-hung" and b.schedule and pid in ("C18", "C13"):
            # for these two properties the stuck schedule is itself the failing input: a call that never returns
            fails = [dict(signature="schedule-hung", no_shrink=True, what=b.detail, name=b.schedule.get("name"), config=b.schedule.get("cfg"), events=b.schedule.get("events"))]
        res = dict(divergences=[dict(kind="broken", what=b.what, detail=b.detail, component=b.component or "api", schedule=b.schedule)],
                   failures=fails, evaluations=0, distinct=0, rule="", samples=[], traces=0, extra={})
    except Exception as e:  # a crash of the machinery is a broken check, reported as such
        res = dict(divergences=[dict(kind="broken", what="checker-crash", detail=traceback.format_exc()[-3000:], component="api", schedule=None)],
                   failures=[], evaluations=0, distinct=0, rule="", samples=[], traces=0, extra={})

    cov["evaluations"] = res["evaluations"]
    cov["distinct_nontrivial"] = res["distinct"]
    cov["rule"] = res["rule"]
    cov["samples"] = res["samples"][:3]
    cov["traces_validated_against_impl"] = res["traces"]
    for k, v in res.get("extra", {}).items():
        cov[k] = v

    # ---- 3. verdict
    known = load_known()
    known_sigs = {(k["property"], k["signature"]) for k in known if k.get("status") == "known"}
    seen_known = set()
    by_sig = {}
    for f in res["failures"]:
        sig = f.get("signature", "unclassified")
        if (pid, sig) in known_sigs:
            if sig not in seen_known:
                seen_known.add(sig)
                what = next(k["what"] for k in known if k["property"] == pid and k["signature"] == sig)
                known_lines.append("KNOWN-FINDING: property=%s %s [%s]" % (pid, what, sig))
            continue
        # one report per cause signature: the failing history with the fewest events
        if sig not in by_sig or len(f.get("events") or []) < len(by_sig[sig].get("events") or []):
            by_sig[sig] = f
    cov["unknown_failures"] = {sig: sum(1 for f in res["failures"] if f.get("signature") == sig) for sig in by_sig}
    for sig, f in sorted(by_sig.items())[:6]:
        if f.get("events") and f.get("config") and "binary" in ctx and not f.get("no_shrink"):
            try:
                f = props.shrink_failure(ctx["binary"], pid, f)
            except Exception:
                pass
        path = write_replay(pid, "impl-violation", f)
        violations.append((path, True, sig))
    flagged_divs = [d for d in res["divergences"] if d.get("component") in spec["components"] or d.get("kind") == "broken"]
    other_divs = [d for d in res["divergences"] if d not in flagged_divs]
    for d in other_divs:
        notes.append("divergence in component %s (not a dependency of %s): %s" % (d.get("component"), pid, str(d.get("field", d.get("what")))))
    if flagged_divs and not any(v[1] for v in violations):
        # the tie is broken and no monitor found a failing input on the implementation
        d = flagged_divs[0]
        path = write_replay(pid, "correspondence", dict(
            correspondence="model component '%s' vs /repo" % d.get("component"), theorems_resting_on_it=thms,
            detail=d, note="no failing input found by the monitors of %s on the diverging schedule, the corpus and the directed search" % pid))
        violations.append((path, False, "correspondence:" + str(d.get("component"))))

    for line in known_lines:
        print(line)
    # one VIOLATION line per distinct replay; prefer concrete failing inputs
    concrete = [v for v in violations if v[1]]
    out = concrete if concrete else violations
    printed = set()
    for path, found, sig in out:
        if path in printed:
            continue
        printed.add(path)
        if found:
            print("VIOLATION property=%s replay=%s" % (pid, path))
        else:
            print("VIOLATION property=%s replay=%s no-failing-input-found" % (pid, path))

    evidence = dict(property_id=pid, tier=tier, seed=seed, level=spec.get("level", "proof"), coverage=cov,
                    assumptions=assumptions, wall_s=round(time.time() - t0, 2), violations=len(printed),
                    known_findings=known_lines, notes=notes)
    with open(os.path.join(EVIDENCE, pid + ".json"), "w") as f:
        json.dump(evidence, f, indent=1, default=str)
    print("%s %s tier=%s seed=%d theorems=%d/%d evaluations=%d violations=%d known=%d wall=%.1fs" % (
        pid, "FAIL" if printed else "ok", tier, seed, cov["discharged"], cov["obligations"], cov["evaluations"], len(printed), len(known_lines),
        time.time() - t0))
    sys.exit(1 if printed else 0)


if __name__ == "__main__":
    main()
