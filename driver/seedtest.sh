#!/bin/sh
# Applies a seeded change to /repo, runs the given checks (default: all), prints which raise an alarm, and undoes the change.
# usage: driver/seedtest.sh <seeded dir with patch.diff> [properties...]
cd "$(dirname "$0")/.."
dir=$1; shift
props="$@"
[ -z "$props" ] && props="C01 C02 C03 C04 C05 C06 C07 C08 C09 C10 C11 C12 C13 C14 C15 C16 C17 C18"
git -C /repo apply "$dir/patch.diff" || { echo "patch does not apply"; exit 2; }
for p in $props; do
  out=$(./check $p 2>&1); rc=$?
  echo "$p exit=$rc $(echo "$out" | grep -c VIOLATION) violation line(s): $(echo "$out" | grep VIOLATION | head -2 | sed 's/.*replay=//' | tr '\n' ' ')"
done
git -C /repo checkout -- .
