"""Action-level correspondence of the access-pool model (PoolProto.v) with the real Pool: the harness mode `pool` drives
`Pool::add` from three reader threads, stopping them at the schedule point inside `Buffer::add` (the full buffer handed
over, not yet cleared, its lock held); the batches handed over and the buffers are compared with the model (PoolRun.v:
pobs) after every step. The monitor judges the implementation's own observations: every access recorded is in flight,
buffered or handed over exactly once (C15), no buffer exceeds its capacity."""
import os
import random
from concurrent.futures import ThreadPoolExecutor

from common import *


def gen_cases(rng, n):
    cases = []
    for _ in range(n):
        pool = rng.choice([1, 1, 2, 3])
        buffer = rng.choice([1, 1, 2, 3])
        toks = []
        at_mid = set()
        h = 100
        for _ in range(rng.randint(6, 30)):
            r = rng.randint(1, 3)
            if at_mid and rng.random() < 0.4:
                f = rng.choice(sorted(at_mid))
                toks.append("F%d" % f)
                at_mid.discard(f)
            elif rng.random() < 0.1:
                toks.append("F%d" % r)
                at_mid.discard(r)
            else:
                h += 1
                toks.append("A%d:%d" % (r, rng.choice([h, h, 7])))
                if rng.random() < (0.6 if buffer == 1 else 0.3):
                    at_mid.add(r)
        toks += ["F1", "F2", "F3", "F1", "F2", "F3"]
        cases.append(dict(pool=pool, buffer=buffer, sched=toks))
    return cases


def run_impl(binary, cases, tag="pool"):
    chunks = [cases[i::NPROC] for i in range(NPROC)]

    def one(idx_chunk):
        idx, chunk = idx_chunk
        if not chunk:
            return []
        path = os.path.join(TMP, "%s_%d.txt" % (tag, idx))
        with open(path, "w") as f:
            for n, c in enumerate(chunk):
                f.write("case c%d_%d pool=%d buffer=%d sched=%s\n" % (idx, n, c["pool"], c["buffer"], ",".join(c["sched"])))
        return list(zip(chunk, run_harness(binary, ["pool", path])))

    out = []
    with ThreadPoolExecutor(max_workers=NPROC) as ex:
        for pairs in ex.map(one, enumerate(chunks)):
            out += pairs
    return out


def model_groups(c, rec):
    """One group of model actions per observation, from what the code did: the buffer index comes from the code's own draw
    (PHit's index is arbitrary in the model), a reader that waits for a lock takes its remaining steps when it went on."""
    groups = []
    pending = {}          # reader -> (hash, index) of a reader waiting for a buffer lock
    for i, (outcome, index, batches, buffers, late) in enumerate(rec["obs"]):
        t = c["sched"][i]
        g = []
        if t[0] == "A" and outcome in (1, 2, 3):
            r, h = t[1:].split(":")
            r = int(r)
            g.append("PHit %d %s %d" % (r, zlit(h), index))
            if outcome in (1, 2):
                g += ["PLock %d" % r, "PDrain %d" % r]
            if outcome == 1:
                g += ["PPush %d" % r, "PUnlock %d" % r]
        if t[0] == "F" and outcome == 1:
            r = int(t[1:])
            g += ["PPush %d" % r, "PUnlock %d" % r]
        for w, res in late:
            g += ["PLock %d" % w, "PDrain %d" % w]
            if res == 1:
                g += ["PPush %d" % w, "PUnlock %d" % w]
        groups.append(g)
    return groups


def run_model(pairs, tag="poolm"):
    ok, log = coq_make(["theories/PoolRun.vo"])
    if not ok:
        raise Broken("model-build", log[-3000:])
    chunks = [pairs[i::NPROC] for i in range(NPROC)]

    def one(idx_chunk):
        idx, chunk = idx_chunk
        if not chunk:
            return []
        vfile = os.path.join(TMP, "%s_%d.v" % (tag, idx))
        with open(vfile, "w") as f:
            f.write("From CacheD Require Import Base PoolProto PoolRun.\nOpen Scope Z_scope.\n")
            f.write("Eval vm_compute in [\n")
            f.write(";\n".join("pobs %d 1000000 [%s]" % (c["buffer"], "; ".join("[" + "; ".join(g) + "]" for g in c["groups"])) for c, _ in chunk))
            f.write("].\n")
        v = parse_coq_values(coqc_eval(vfile))
        return list(zip(chunk, v[0]))

    out = []
    with ThreadPoolExecutor(max_workers=NPROC) as ex:
        for res in ex.map(one, enumerate(chunks)):
            out += res
    return out


def split_dump(d):
    head = d[0]
    i1 = d.index([-1])
    i2 = d.index([-2])
    chan = d[i1 + 1:i2]
    bufs = {b[0]: b[1:] for b in d[i2 + 1:]}
    return head, chan, bufs


def compare(binary, cases, tag="pool"):
    impl = run_impl(binary, cases, tag)
    stats = dict(cases=len(cases), steps=0, finished=0, stopped_holding_the_lock=0, waited_for_the_lock=0, went_on_after_release=0, batches_handed_over=0, observations_compared=0)
    divs, fails = [], []
    for c, rec in impl:
        c["groups"] = model_groups(c, rec)
        started, inflight = 0, set()
        for i, (outcome, index, batches, buffers, late) in enumerate(rec["obs"]):
            t = c["sched"][i]
            stats["steps"] += 1
            stats["finished"] += outcome == 1
            stats["stopped_holding_the_lock"] += outcome == 2
            stats["waited_for_the_lock"] += outcome == 3
            stats["went_on_after_release"] += len(late)
            if outcome == 9:
                fails.append(dict(signature="pool-step-stuck", no_shrink=True, case=dict(c, sched=c["sched"][: i + 1], groups=None), impl=rec["obs"][: i + 1],
                                  what="the pool step '%s' did not come back within 10 s" % t))
                break
            r = int(t[1:].split(":")[0])
            if t[0] == "A" and outcome in (1, 2, 3):
                started += 1
                if outcome != 1:
                    inflight.add(r)
            if t[0] == "F" and outcome == 1:
                inflight.discard(r)
            for w, res in late:
                if res == 1:
                    inflight.discard(w)
            handed = sum(len(b) for b in batches)
            if buffers is not None:
                # nobody holds a buffer lock: the readers still in flight are exactly the ones waiting (none, after a release)
                buffered = sum(len(b) for b in buffers)
                if started != len(inflight) + buffered + handed:
                    fails.append(dict(signature="access-record-lost-or-duplicated", no_shrink=True, case=dict(c, sched=c["sched"][: i + 1], groups=None), impl=rec["obs"][: i + 1],
                                      what="Pool::add driven one step at a time (pool of %d buffers of %d): after '%s' %d accesses were recorded, %d are still in flight, %d are buffered and %d were handed over"
                                           % (c["pool"], c["buffer"], t, started, len(inflight), buffered, handed)))
                    break
                if any(len(b) > c["buffer"] for b in buffers):
                    fails.append(dict(signature="buffer-over-capacity", no_shrink=True, case=dict(c, sched=c["sched"][: i + 1], groups=None), impl=rec["obs"][: i + 1],
                                      what="after '%s' a buffer holds %s, capacity %d" % (t, buffers, c["buffer"])))
                    break
        stats["batches_handed_over"] += len(rec["obs"][-1][2]) if rec["obs"] else 0
    model = run_model(impl, tag + "m")
    for (c, rec), mobs in model:
        for i, (outcome, index, batches, buffers, late) in enumerate(rec["obs"]):
            if i >= len(mobs):
                break
            head, chan, bufs = split_dump(mobs[i])
            stats["observations_compared"] += 1
            m_bufs = [bufs.get(k, []) for k in range(c["pool"])]
            if chan != batches or (buffers is not None and m_bufs != buffers):
                divs.append(dict(kind="pool", component="pool", field="batches handed over / buffers after '%s' (step %d)" % (c["sched"][i], i),
                                 schedule=dict(pool=c["pool"], buffer=c["buffer"], sched=c["sched"][: i + 1]),
                                 model=dict(batches=chan, buffers=m_bufs, hits_added_dropped_inflight=head), impl=dict(outcome=outcome, index=index, batches=batches, buffers=buffers, late=late)))
                break
    for c in cases:
        c.pop("groups", None)
    return divs, fails, stats
