"""Kernel correspondence: the pure kernels of the real crate and of the model evaluated on the same grids
(exhaustive where the domain is finite), and sketch streams on the real TinyLFU against the model."""
import os
import random

from common import *


def next_power_2_inputs():
    xs = list(range(1, 1026))
    for k in range(1, 64):
        p = 1 << k
        for d in (-1, 0, 1):
            c = p + d
            if 1 <= c <= (1 << 63):
                xs.append(c)
    return sorted(set(xs))


def half_multi_inputs():
    out = []
    for ln in range(1, 41):
        for pat in range(3):
            if pat == 0:
                out.append([((i * 37) + 0x5f) % 256 for i in range(ln)])
            elif pat == 1:
                out.append([0xff] * ln)
            else:
                out.append([((((i * 101) % 256 + ln) % 256) * 13) % 256 | 0x10 for i in range(ln)])
    return out


def model_kernels(wanted=None):
    """Generates kernels.v, evaluates it, returns {kernel: value} in the harness's shapes."""
    weights = [1, 2, 3, 7, (1 << 63) - 1]
    lines = ["From CacheD Require Import Harness Precond.", "Open Scope Z_scope."]
    names = []

    def ev(name, expr):
        if wanted is not None and name not in wanted:
            return
        names.append(name)
        lines.append("Eval vm_compute in (%s)." % expr)

    bytes_ = "(map Z.of_nat (seq 0 256))"
    ev("row_increment_at", "flat_map (fun b => [k_row_inc b 0; k_row_inc b 1]) %s" % bytes_)
    ev("row_get_at", "flat_map (fun b => [k_row_get b 0; k_row_get b 1]) %s" % bytes_)
    ev("row_half", "map k_row_half %s" % bytes_)
    multi = []
    multi_keys = []
    for ln in range(1, 9):
        bs = [((i * 37) + 0x5f) % 256 for i in range(ln)]
        for pos in range(2 * ln):
            multi.append("k_row_multi %s %d" % (zlist(bs), pos))
            multi_keys.append((ln, pos))
    ev("row_multi", "[" + "; ".join(multi) + "]")
    ev("row_half_multi", "[" + "; ".join("row_half %s" % zlist(bs) for bs in half_multi_inputs()) + "]")
    np2 = next_power_2_inputs()
    ev("next_power_2", "map next_power_2 %s" % zlist(np2))
    ev("sampled_key_cmp",
       "flat_map (fun fa => flat_map (fun wa => flat_map (fun fb => map (fun wb => k_cmp fa wa fb wb) %s) (map Z.of_nat (seq 0 17))) %s) (map Z.of_nat (seq 0 17))"
       % (zlist(weights), zlist(weights)))
    opts = ["None", "(Some 100)", "(Some 200)"]
    ev("type_of_expiry_update", "[" + "; ".join("k_expiry_update %s %s" % (e, n) for e in opts for n in opts) + "]")
    ev("hit_ratio", "flat_map (fun h => map (fun m => k_hit_ratio h m) (map Z.of_nat (seq 0 13))) (map Z.of_nat (seq 0 13))")
    space = []
    space_keys = []
    for mx in (1, 10, 100):
        for used in (0, 1, 5, 9, 10):
            if used > mx:
                continue
            for w in (1, mx - used - 1, mx - used, mx - used + 1, mx, mx + 1):
                if w <= 0:
                    continue
                space.append("k_space %d %d %d" % (mx, used, w))
                space_keys.append((mx, used, w))
    ev("is_space_available_for", "[" + "; ".join(space) + "]")
    upd_keys = [(o, n) for o in (1, 5, 24, 25, 100) for n in (1, 4, 5, 6, 24, 25, 200)]
    ev("update_weight_stats", "[" + "; ".join("k_update %d %d" % k for k in upd_keys) + "]")
    sh_keys = []
    for shards in (2, 4, 8):
        for secs in range(3 * shards + 2):
            for nanos in (0, 1, 999999999):
                sh_keys.append((shards, secs * 1000000000 + nanos))
    ev("shard_index", "[" + "; ".join("k_shard %d %d" % k for k in sh_keys) + "]")
    cfg_keys = [(c, cap, w, p, b, q, sh) for c in (0, 1, 16) for cap in (0, 1, 16) for w in (-1, 0, 1, 100) for p in (0, 1, 2) for b in (0, 1)
                for q in (0, 1) for sh in (0, 1, 2, 3, 4, 6, 8, 12, 16)]
    ev("config_accepted", "[" + "; ".join("bool_to_Z (config_accepted %s %s %s %s %s %s %s)" % tuple(zlit(x) for x in k) for k in cfg_keys) + "]")
    def o(x):
        return "None" if x is None else "(Some %s)" % zlit(x)
    ups_keys = [(v, w, t, rm) for v in (None, 7) for w in (None, -1, 0, 1, 5) for t in (None, 0, 5000000000) for rm in (False, True)]
    ev("upsert_accepted", "[" + "; ".join("bool_to_Z (upsert_accepted %s %s %s %s)" % (o(v), o(w), o(t), "true" if rm else "false") for v, w, t, rm in ups_keys) + "]")
    vfile = os.path.join(TMP, "kernels_%s.v" % ("all" if wanted is None else sha(sorted(wanted))[:8]))
    with open(vfile, "w") as f:
        f.write("\n".join(lines) + "\n")
    vals = parse_coq_values(coqc_eval(vfile))
    if len(vals) != len(names):
        raise Broken("model-eval", "kernels.v: %d answers for %d kernels" % (len(vals), len(names)))
    res = dict(zip(names, vals))
    res["_keys"] = dict(row_multi=multi_keys, next_power_2=np2, is_space_available_for=space_keys, update_weight_stats=upd_keys,
                        shard_index=sh_keys, config_accepted=cfg_keys, upsert_accepted=ups_keys)
    return res


# which model component each kernel belongs to
KERNEL_COMPONENT = {
    "row_increment_at": "sketch", "row_get_at": "sketch", "row_half": "sketch", "row_multi": "sketch", "row_half_multi": "sketch", "next_power_2": "sketch",
    "sampled_key_cmp": "admission", "type_of_expiry_update": "api", "hit_ratio": "stats.hit_ratio",
    "is_space_available_for": "weights", "update_weight_stats": "weights", "shard_index": "ticker",
    "config_accepted": "preconditions", "upsert_accepted": "preconditions",
}


def compare_kernels(binary, wanted=None):
    """Returns (list of mismatches, number of cases compared, per-kernel counts). A mismatch is
    dict(kernel, component, index, input, model, impl)."""
    from corr import ratio_bits, f64_bits
    impl = {r["kernel"]: r["value"] for r in run_harness(binary, ["kernels"])}
    model = model_kernels(wanted)
    keys = model["_keys"]
    mism = []
    counts = {}

    def cmp_list(name, mvals, ivals, inputs=None):
        counts[name] = len(ivals)
        if len(mvals) != len(ivals):
            mism.append(dict(kernel=name, component=KERNEL_COMPONENT[name], index=-1, input=None, model=len(mvals), impl=len(ivals)))
            return
        for i, (m, v) in enumerate(zip(mvals, ivals)):
            if m != v:
                mism.append(dict(kernel=name, component=KERNEL_COMPONENT[name], index=i, input=inputs[i] if inputs else i, model=m, impl=v))
                return

    for name in KERNEL_COMPONENT:
        if wanted is not None and name not in wanted:
            continue
        if name not in impl:
            mism.append(dict(kernel=name, component=KERNEL_COMPONENT[name], index=-1, input=None, model="present", impl="missing"))
            continue
        iv = impl[name]
        mv = model[name]
        if name in ("row_increment_at", "row_get_at"):
            cmp_list(name, mv, iv, [(i // 2, i % 2) for i in range(512)])
        elif name == "row_half":
            cmp_list(name, mv, iv)
        elif name == "row_multi":
            ivc = [[x[3]] + x[2] for x in iv]
            cmp_list(name, mv, ivc, keys["row_multi"])
        elif name == "row_half_multi":
            ins = half_multi_inputs()
            if [x[0] for x in iv] != ins:
                mism.append(dict(kernel=name, component="sketch", index=-1, input=None, model="inputs", impl="harness and driver disagree on the input rows"))
            else:
                cmp_list(name, mv, [x[1] for x in iv], ins)
        elif name == "next_power_2":
            # the model wraps (release semantics) where debug code would panic: inputs stay <= 2^63 so both agree
            cmp_list(name, mv, [x[1] for x in iv], keys["next_power_2"])
        elif name == "sampled_key_cmp":
            cmp_list(name, mv, iv)
        elif name == "type_of_expiry_update":
            cmp_list(name, mv, iv)
        elif name == "hit_ratio":
            cmp_list(name, [ratio_bits(a, b) for a, b in mv], [f64_bits(x[2]) for x in iv], [(x[0], x[1]) for x in iv])
        elif name == "is_space_available_for":
            cmp_list(name, mv, [[x[3], 1 if x[4] else 0] for x in iv], keys[name])
        elif name == "update_weight_stats":
            cmp_list(name, mv, [[1 if x[2] else 0, x[3], x[4], x[5], x[6]] for x in iv], keys[name])
        elif name == "shard_index":
            cmp_list(name, mv, [x[2] for x in iv], keys[name])
        elif name in ("config_accepted", "upsert_accepted"):
            cmp_list(name, mv, [1 if x[-1] else 0 for x in iv], keys[name])
    return mism, sum(counts.values()), counts


# ---------------------------------------------------------------------------------------------------------------------
# sketch streams

def gen_lfu_cases(seed, n):
    rng = random.Random(seed)
    cases = []
    for i in range(n):
        counters = rng.choice([1, 2, 3, 4, 5, 7, 8, 9, 16, 17, 31, 32, 33, 64])
        seeds = [rng.getrandbits(64) for _ in range(4)]
        universe = [rng.getrandbits(64) for _ in range(rng.randint(1, 5))] + [0, 1, 2, (1 << 64) - 1]
        if rng.random() < 0.3:
            universe = universe[:2]           # few hashes: saturation
        ops = []
        for _ in range(rng.randint(5, 80)):
            h = rng.choice(universe)
            ops.append(("inc", h) if rng.random() < 0.75 else ("est", h))
        for h in universe[:4]:
            ops.append(("est", h))
        cases.append(dict(name="lfu%d_%d" % (seed, i), counters=counters, seeds=seeds, ops=ops))
    return cases


def compare_lfu(binary, cases, tag="lfu"):
    """Returns (mismatches, evaluations, stats). stats: resets seen, saturations seen, counters used."""
    path = os.path.join(TMP, tag + ".txt")
    with open(path, "w") as f:
        for c in cases:
            f.write("case %s %d %s\n" % (c["name"], c["counters"], " ".join(str(s) for s in c["seeds"])))
            for op, h in c["ops"]:
                f.write("%s %d\n" % (op, h))
            f.write("end\n")
    impl = {r["case"]: r for r in run_harness(binary, ["lfu", path])}
    # model side, with the bloom answers the implementation gave
    nshards = min(NPROC, max(1, len(cases) // 8 + 1))
    chunks = [cases[i::nshards] for i in range(nshards)]

    def one(idx_chunk):
        idx, chunk = idx_chunk
        vfile = os.path.join(TMP, "%s_%d.v" % (tag, idx))
        with open(vfile, "w") as f:
            f.write("From CacheD Require Import Harness.\nOpen Scope Z_scope.\n")
            for c in chunk:
                ops = []
                for (op, h), rec in zip(c["ops"], impl[c["name"]]["ops"]):
                    if rec.get("op") == "panic":
                        # the model decides by itself whether this access panics: give it an admissible answer
                        ops.append(("OInc %d true" if op == "inc" else "OEst %d true") % h)
                        break
                    if op == "inc":
                        ops.append("OInc %d %s" % (h, "true" if rec["had"] else "false"))
                    else:
                        ops.append("OEst %d %s" % (h, "true" if rec["door"] else "false"))
                f.write("Eval vm_compute in (lfu_trace (lfu_new %d %s) [%s]).\n" % (c["counters"], zlist(c["seeds"]), "; ".join(ops)))
        vals = parse_coq_values(coqc_eval(vfile))
        return list(zip(chunk, vals))

    from concurrent.futures import ThreadPoolExecutor
    mism = []
    evals = 0
    stats = dict(resets=0, saturated=0, counters=set(), max_estimate=0)
    with ThreadPoolExecutor(max_workers=NPROC) as ex:
        for pairs in ex.map(one, enumerate([c for c in chunks if c])):
            for c, trace in pairs:
                recs = impl[c["name"]]["ops"]
                stats["counters"].add(c["counters"])
                prev_incs = 0
                for i, ((op, h), rec) in enumerate(zip(c["ops"], recs)):
                    evals += 1
                    if i >= len(trace):
                        mism.append(dict(case=c, index=i, component="tinylfu", model="(trace ended: %s)" % trace[-1:], impl=rec))
                        break
                    t = trace[i]
                    if rec.get("op") == "panic":
                        if t != [1]:
                            mism.append(dict(case=c, index=i, component="sketch", model=t[:12], impl="panic"))
                        break
                    if op == "inc":
                        want = [0, rec["incs"]] + [b for row in rec["rows"] for b in row]
                        if rec["incs"] == 0 and prev_incs + 1 >= c["counters"]:
                            stats["resets"] += 1
                        prev_incs = rec["incs"]
                        if any(b & 0xf == 15 or b >> 4 == 15 for row in rec["rows"] for b in row):
                            stats["saturated"] += 1
                    else:
                        want = [0, rec["est"]]
                        stats["max_estimate"] = max(stats["max_estimate"], rec["est"])
                    if t != want:
                        comp = "tinylfu" if (op == "est" or t[:2] != want[:2]) else "sketch"
                        mism.append(dict(case=c, index=i, component=comp, model=t[:12], impl=want[:12]))
                        break
    stats["counters"] = sorted(stats["counters"])
    return mism, evals, stats


def lfu_monitor(binary, cases, tag="lfumon"):
    """Property monitor for C14, independent of the model: within one ageing window the estimate of a hash is at least
    min(15, accesses since the last ageing); estimates never exceed 16; ageing happens exactly at the threshold."""
    path = os.path.join(TMP, tag + ".txt")
    with open(path, "w") as f:
        for c in cases:
            f.write("case %s %d %s\n" % (c["name"], c["counters"], " ".join(str(s) for s in c["seeds"])))
            for op, h in c["ops"]:
                f.write("%s %d\n" % (op, h))
            f.write("end\n")
    impl = {r["case"]: r for r in run_harness(binary, ["lfu", path])}
    fails = []
    for c in cases:
        window = {}
        incs = 0
        for i, ((op, h), rec) in enumerate(zip(c["ops"], impl[c["name"]]["ops"])):
            if rec.get("op") == "panic":
                fails.append(dict(case=c, index=i, what="the sketch panicked (index out of bounds) on a valid access", detail=h))
                break
            if op == "inc":
                incs += 1
                window[h] = window.get(h, 0) + 1
                if incs >= c["counters"]:
                    if rec["incs"] != 0:
                        fails.append(dict(case=c, index=i, what="no ageing at the threshold", detail=rec["incs"]))
                        break
                    incs = 0
                    window = {}
                elif rec["incs"] != incs:
                    fails.append(dict(case=c, index=i, what="ageing before the threshold or lost count", detail=rec["incs"]))
                    break
            else:
                n = window.get(h, 0)
                if rec["est"] < min(15, n):
                    fails.append(dict(case=c, index=i, what="estimate below the number of recorded accesses", detail=(rec["est"], n)))
                    break
                if rec["est"] > 16:
                    fails.append(dict(case=c, index=i, what="estimate above 16", detail=rec["est"]))
                    break
    return fails


def lfu_corpus():
    """Fixed regression streams that run first."""
    cases = []
    # saturation: one hash, wide sketch
    cases.append(dict(name="corpus_saturate", counters=64, seeds=[1, 2, 3, 4], ops=[("inc", 5)] * 40 + [("est", 5), ("est", 6)]))
    # ageing exactly at the threshold, non power of two
    cases.append(dict(name="corpus_age17", counters=17, seeds=[9, 8, 7, 6],
                      ops=[("inc", i % 3) for i in range(16)] + [("est", 0), ("inc", 1), ("est", 0), ("est", 1), ("inc", 1), ("est", 1)]))
    # one counter (repaired sizing)
    cases.append(dict(name="corpus_one_counter", counters=1, seeds=[0, 0, 0, 0], ops=[("inc", 5), ("inc", 5), ("est", 5), ("inc", 7), ("est", 7)]))
    # colliding hashes with equal seeds
    cases.append(dict(name="corpus_collide", counters=2, seeds=[0, 0, 0, 0], ops=[("inc", 0), ("inc", 2), ("inc", 4), ("est", 0), ("est", 2), ("est", 4)]))
    return cases


def lfu_directed():
    """Directed streams for the monitor: long windows with few hashes (saturation) and boundary ageing."""
    cases = []
    for n, counters in enumerate([32, 33, 64, 64]):
        ops = []
        for i in range(counters - 1):
            ops.append(("inc", 1 + (i % 2)))
            if i % 5 == 0:
                ops.append(("est", 1))
        ops += [("est", 1), ("est", 2), ("inc", 1), ("est", 1), ("est", 2)]
        cases.append(dict(name="directed_%d" % n, counters=counters, seeds=[n + 1, n + 2, n + 3, n + 4], ops=ops))
    return cases


def row_monitor(binary):
    """Monitor on the real packed-counter kernels (independent of the model): increment saturates at 15, touches only its
    own nibble, halving halves both nibbles."""
    impl = {r["kernel"]: r["value"] for r in run_harness(binary, ["kernels"])}
    fails = []
    inc, get, half = impl["row_increment_at"], impl["row_get_at"], impl["row_half"]
    for b in range(256):
        lo, hi = b & 15, b >> 4
        for pos in (0, 1):
            nb = inc[2 * b + pos]
            nlo, nhi = nb & 15, nb >> 4
            want = (min(15, lo + 1), hi) if pos == 0 else (lo, min(15, hi + 1))
            if (nlo, nhi) != want or not (0 <= nb < 256):
                fails.append(dict(what="increment_at(byte=%d,pos=%d) = %d" % (b, pos, nb), byte=b, pos=pos))
            if get[2 * b + pos] != (lo if pos == 0 else hi):
                fails.append(dict(what="get_at(byte=%d,pos=%d) = %d" % (b, pos, get[2 * b + pos]), byte=b, pos=pos))
        if half[b] != ((hi // 2) << 4 | (lo // 2)):
            fails.append(dict(what="half_counters(byte=%d) = %d" % (b, half[b]), byte=b))
    for row, out in impl.get("row_half_multi", []):
        want = [((x >> 4) // 2) << 4 | ((x & 15) // 2) for x in row]
        if out != want:
            j = [i for i in range(max(len(out), len(want))) if i >= len(out) or i >= len(want) or out[i] != want[i]][0]
            fails.append(dict(what="half_counters on a row of %d bytes: byte %d (%s) became %s, not every counter was halved" % (len(row), j, row[j] if j < len(row) else None, out[j] if j < len(out) else None), row=row, halved=out))
            break
    return fails[:5]
