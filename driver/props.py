"""Per-property configuration: which theorems, which correspondences, which monitors."""
import os

from common import *
import kernels

TRUSTED_BASE = [
    "Coq 8.16.1 kernel (coqc; vm_compute used for finite sweeps, witnesses and model evaluation; no native_compute)",
    "axioms: none (Print Assumptions of every property theorem: Closed under the global context)",
    "hand-written Gallina model /verif/coq/theories/{Base,Sketch,Model}.v: atomic actions stand for DashMap operations, parking_lot locks and crossbeam channels; Z nanoseconds for SystemTime; an oracle-driven set for the bloom filter; a list with admissible pop-max for BinaryHeap",
    "correspondence machinery: cfg(cached_verif) hooks in /repo (add-only), Rust harness /verif/harness, Python driver /verif/driver (generators, differ), coqc evaluation of generated cases files",
    "not verified: rustc and std, dashmap, crossbeam, parking_lot, bloomfilter, rand, the OS scheduler, allocation",
]


def run_C14(ctx):
    binary, seed, tier = ctx["binary"], ctx["seed"], ctx["tier"]
    divergences, failures = [], []
    wanted = ["row_increment_at", "row_get_at", "row_half", "row_multi", "next_power_2"]
    mism, ncases, counts = kernels.compare_kernels(binary, wanted)
    for m in mism:
        divergences.append(dict(kind="kernel", component=m["component"], field=m["kernel"], detail=m))
    n = 150 if tier == "quick" else 3000
    cases = kernels.gen_lfu_cases(seed, n)
    corpus = kernels.lfu_corpus()
    mm, evals, stats = kernels.compare_lfu(binary, corpus + cases)
    for m in mm:
        divergences.append(dict(kind="lfu-stream", component=m["component"], field="stream op %d" % m["index"],
                                detail=dict(case=m["case"], index=m["index"], model=m["model"], impl=m["impl"])))
    # the monitor looks at the implementation alone; when the tie is broken it also runs a directed search
    mon_cases = corpus + cases
    if divergences:
        mon_cases = mon_cases + kernels.gen_lfu_cases(seed + 1, 600) + kernels.lfu_directed()
    else:
        mon_cases = mon_cases + kernels.lfu_directed()
    for f in kernels.lfu_monitor(binary, mon_cases):
        failures.append(dict(signature="undercount-or-ageing", what=f["what"], detail=f["detail"], index=f["index"], case=f["case"]))
    for f in kernels.row_monitor(binary):
        failures.append(dict(signature="packed-counter", what=f["what"], detail=f))
    distinct = len({(c["counters"], tuple(c["ops"])) for c in cases if len(set(h for _, h in c["ops"])) > 1})
    return dict(divergences=divergences, failures=failures, evaluations=ncases + evals, distinct=distinct,
                rule="kernel grids (all 256 bytes x 2 nibble positions exhaustively; rows of 1..8 bytes; next_power_2 on 1..1025 and 2^k+-1) "
                     "plus %d random access streams on the real TinyLFU (counters 1..64, non-powers of two included, random seeds, colliding hashes); "
                     "a stream is non-trivial and distinct if it touches more than one hash and its (counters, ops) differ" % n,
                samples=[dict(counters=c["counters"], seeds=c["seeds"], ops=c["ops"][:12]) for c in cases[:2]],
                traces=len(cases) + len(corpus),
                extra=dict(kernel_cases=counts, exhaustive=True, stream_stats=stats))


PROPS = {
    "C14": dict(module="C14", run=run_C14, components=["sketch", "tinylfu"],
                assumptions=["the bloom filter has no false negatives between clears (its answers are logged and replayed as an oracle)",
                             "u64 hashes and seeds"]),
}
