"""Per-property configuration: which theorems, which correspondences, which monitors."""
import os

from common import *
import kernels

TRUSTED_BASE = [
    "Coq 8.16.1 kernel (coqc; vm_compute used for finite sweeps, witnesses and model evaluation; no native_compute)",
    "axioms: none (Print Assumptions of every property theorem: Closed under the global context)",
    "hand-written Gallina model /verif/coq/theories/{Base,Sketch,Model}.v: atomic actions stand for DashMap operations, parking_lot locks and crossbeam channels; Z nanoseconds for SystemTime; an oracle-driven set for the bloom filter; a list with admissible pop-max for BinaryHeap",
    "correspondence machinery: cfg(cached_verif) hooks in /repo (add-only), Rust harness /verif/harness, Python driver /verif/driver (generators, differ), coqc evaluation of generated cases files",
    "not verified: rustc and std, dashmap, crossbeam, parking_lot, bloomfilter, rand, the OS scheduler, allocation",
]


def run_C14(ctx):
    binary, seed, tier = ctx["binary"], ctx["seed"], ctx["tier"]
    divergences, failures = [], []
    wanted = ["row_increment_at", "row_get_at", "row_half", "row_multi", "row_half_multi", "next_power_2"]
    mism, ncases, counts = kernels.compare_kernels(binary, wanted)
    for m in mism:
        divergences.append(dict(kind="kernel", component=m["component"], field=m["kernel"], detail=m))
    n = 150 if tier == "quick" else 3000
    cases = kernels.gen_lfu_cases(seed, n)
    corpus = kernels.lfu_corpus()
    mm, evals, stats = kernels.compare_lfu(binary, corpus + cases)
    for m in mm:
        divergences.append(dict(kind="lfu-stream", component=m["component"], field="stream op %d" % m["index"],
                                detail=dict(case=m["case"], index=m["index"], model=m["model"], impl=m["impl"])))
    # the monitor looks at the implementation alone; when the tie is broken it also runs a directed search
    mon_cases = corpus + cases
    if divergences:
        mon_cases = mon_cases + kernels.gen_lfu_cases(seed + 1, 600) + kernels.lfu_directed()
    else:
        mon_cases = mon_cases + kernels.lfu_directed()
    for f in kernels.lfu_monitor(binary, mon_cases):
        failures.append(dict(signature="undercount-or-ageing", what=f["what"], detail=f["detail"], index=f["index"], case=f["case"]))
    for f in kernels.row_monitor(binary):
        failures.append(dict(signature="packed-counter", what=f["what"], detail=f))
    distinct = len({(c["counters"], tuple(c["ops"])) for c in cases if len(set(h for _, h in c["ops"])) > 1})
    return dict(divergences=divergences, failures=failures, evaluations=ncases + evals, distinct=distinct,
                rule="kernel grids (all 256 bytes x 2 nibble positions exhaustively; rows of 1..8 bytes; halving of rows of 1..40 bytes; next_power_2 on 1..1025 and 2^k+-1) "
                     "plus %d random access streams on the real TinyLFU (counters 1..64, non-powers of two included, random seeds, colliding hashes); "
                     "a stream is non-trivial and distinct if it touches more than one hash and its (counters, ops) differ" % n,
                samples=[dict(counters=c["counters"], seeds=c["seeds"], ops=c["ops"][:12]) for c in cases[:2]],
                traces=len(cases) + len(corpus),
                extra=dict(kernel_cases=counts, exhaustive=True, stream_stats=stats))


PROPS = {
    "C14": dict(module="C14", run=run_C14, components=["sketch", "tinylfu"],
                assumptions=["the bloom filter has no false negatives between clears (its answers are logged and replayed as an oracle)",
                             "u64 hashes and seeds"]),
}


# ---------------------------------------------------------------------------------------------------------------------
# schedule-based properties

import corr
import gen
import monitors
import json as _json

SEC = 1000000000


def corpus_for(pid):
    path = os.path.join(CORPUS, pid + ".json")
    out = []
    if os.path.exists(path):
        out = _json.load(open(path))
    shared = os.path.join(CORPUS, "shared.json")
    if os.path.exists(shared):
        out = out + [dict(s, name=pid + "_" + s["name"]) for s in _json.load(open(shared))]
    return out


def nontrivial(sched, recs):
    """at least one accepted put and at least one of eviction / sweep removal / upsert / delete / shutdown"""
    accepted = any(1 in r["acks"] for r in recs)
    other = False
    prev = []
    for r in recs:
        p = r["ev"].split()
        keys = [e[0] for e in r["snap"]["store"]]
        if p[0] in ("worker", "sweep") and not r["skipped"] and len(keys) < len(prev) and not (p[0] == "worker" and False):
            other = True
        if p[0] == "call" and p[2] in ("upsert", "delete", "shutdown") and not r["skipped"]:
            other = True
        prev = keys
    return accepted and other


def distribution(schedules, impl):
    ev_kinds, statuses, rets = {}, {}, {}
    states = dict(evictions=0, sweep_removals=0, parked=0, panics=0, expired_unswept_reads=0, soft_deleted=0, dead_roles=0)
    for s in schedules:
        recs = impl.get(s["name"], [])
        prev_keys = set()
        for r in recs:
            if r["skipped"]:
                ev_kinds["skipped"] = ev_kinds.get("skipped", 0) + 1
                continue
            p = r["ev"].split()
            kind = p[0] if p[0] != "call" else "call:" + p[2]
            ev_kinds[kind] = ev_kinds.get(kind, 0) + 1
            keys = set(e[0] for e in r["snap"]["store"])
            if p[0] == "worker" and len(prev_keys - keys) > 0 and r["oracle"]["pops"]:
                states["evictions"] += len(prev_keys - keys)
            if p[0] == "sweep":
                states["sweep_removals"] += len(prev_keys - keys)
            if r["ret"] and r["ret"][0] == 3:
                states["parked"] += 1
            if r["ret"] and r["ret"][0] == 4:
                states["panics"] += 1
            if any(e[4] for e in r["snap"]["store"]):
                states["soft_deleted"] += 1
            if any(e[3] != -1 and e[3] < r["now"] for e in r["snap"]["store"]):
                states["expired_unswept_reads"] += 1
            if any(v.startswith("dead") for v in r["roles"].values()):
                states["dead_roles"] += 1
            prev_keys = keys
        if recs:
            for a in recs[-1]["acks"]:
                statuses[a] = statuses.get(a, 0) + 1
    return dict(events=ev_kinds, final_ack_statuses=statuses, states=states)


def sched_sample(s):
    return dict(config={k: v for k, v in s["cfg"].items() if k != "seeds"}, events=s["events"][:14])


def run_sched(ctx, pid, profiles, n_quick, n_thorough, extra=None, monitor_profiles=None):
    """Generic: corpus + generated schedules on both sides, the property's monitor on the implementation traces, and a
    directed implementation-only search when the tie or a proof is broken."""
    binary, seed, tier = ctx["binary"], ctx["seed"], ctx["tier"]
    n = n_quick if tier == "quick" else n_thorough
    if ctx.get("replay"):
        rp = _json.load(open(ctx["replay"]))
        sched_of = (rp.get("detail") or {}).get("schedule") if isinstance(rp.get("detail"), dict) else None
        cfg_of = rp.get("config") or (sched_of or {}).get("cfg") or {}
        evs_of = rp.get("events") or (sched_of or {}).get("events") or []
        stepped = any(e.split()[0] not in ("call", "worker", "sweep", "drain", "advance", "poll", "run") or (e.split()[0] == "call" and e.split()[2] in ("hold_ref", "release_ref")) for e in evs_of)
        if (not (rp.get("events") and rp.get("config")) and not (isinstance(sched_of, dict) and sched_of.get("events"))) or cfg_of.get("points") or stepped or str(rp.get("signature", "")).startswith("probe-"):
            # a replay that is not one phase-contiguous gated schedule (a free-running run, a probe / micro / window schedule, an acknowledgement interleaving, a ledger case,
            # a broken proof): the replay file names the harness command or the case; the verdict comes from the whole check
            print("replay %s is not a single schedule (%s): running the whole check" % (ctx["replay"], rp.get("signature") or rp.get("kind")))
            ctx["replay"] = None
    if ctx.get("replay"):
        scheds = [dict(name="replay", cfg=rp.get("config") or rp["detail"]["schedule"]["cfg"], events=rp.get("events") or rp["detail"]["schedule"]["events"])]
        corpus = []
    else:
        corpus = corpus_for(pid)
        scheds = gen.generate(seed, n, profiles)
    # schedules the phase-contiguous model cannot express (a caller keeping a reference guard while another call blocks
    # on that shard) run on the implementation only and are judged by the monitors
    impl_only = [s for s in corpus if s.get("impl_only")]
    probes = [s for s in corpus if s.get("probe") and pid in s.get("props", [])]
    corpus = [s for s in corpus if not s.get("impl_only") and not s.get("probe")]
    # atomicity probes: the serial orders of each probe are ordinary schedules (run on both sides like the rest)
    serials = []
    for s in probes:
        base_cfg = {k: v for k, v in s["cfg"].items() if k != "points"}
        for n, evs in enumerate(s["serial"]):
            serials.append(dict(name="%s_serial%d" % (s["name"], n), cfg=base_cfg, events=evs, profile="probe-serial"))
    allsched = corpus + serials + scheds
    divs, impl, model = corr.correspond(binary, allsched, pid)
    if impl_only:
        impl.update(corr.run_impl(binary, impl_only, pid + "_implonly"))
        allsched = allsched + impl_only
    divergences = []
    for d in divs:
        divergences.append(dict(kind="schedule", component=d["component"], field=d["field"], schedule=dict(name=d["schedule"]["name"], cfg=d["schedule"]["cfg"], events=d["schedule"]["events"][: d["event_index"] + 1]),
                                event_index=d["event_index"], event=d["event"], model=d["model"], impl=d["impl"]))
    mon_scheds = (corpus + scheds) if monitor_profiles is None else corpus + [s for s in scheds if s.get("profile") in monitor_profiles]
    failures = monitors.run_monitor(pid, mon_scheds, impl) if pid in monitors.MONITORS else []
    for s in impl_only:
        if s.get("monitor", "guard") == "guard" and pid in ("C02", "C04", "C08"):
            failures += monitors.mon_guard(monitors.Trace(s, impl[s["name"]]))
        if s.get("monitor") == "window" and pid in s.get("props", []):
            failures += monitors.mon_window(monitors.Trace(s, impl[s["name"]]))
        if s.get("monitor") == "micro" and pid in s.get("props", []):
            fs = monitors.mon_micro(pid, s, impl[s["name"]])
            for f in fs:
                f["no_shrink"] = True
            failures += fs
        if s.get("monitor") == "own" and pid in s.get("props", []):
            fs = monitors.MONITORS[pid](monitors.Trace(s, impl[s["name"]]))
            for f in fs:
                f["no_shrink"] = True
            failures += fs
        if s.get("monitor") == "window" and pid == "C05":
            fs = monitors.mon_C05(monitors.Trace(s, impl[s["name"]]))
            for f in fs:
                f["no_shrink"] = True
            failures += fs
    probe_log = []
    if probes:
        impl_p = corr.run_impl(binary, probes, pid + "_probes")
        impl.update(impl_p)
        for s in probes:
            f = guard_accounting_check(s, impl_p.get(s["name"], [])) or \
                probe_verdict(s, impl_p.get(s["name"], []), [impl.get("%s_serial%d" % (s["name"], n), []) for n in range(len(s["serial"]))])
            rp = impl_p.get(s["name"], [])
            eb = s.get("expect_blocked")
            probe_log.append(dict(name=s["name"], stops=[r["ret"][1] for r in rp if r["ret"] and r["ret"][0] == 7 and len(r["ret"]) > 1],
                                  conflicting_action_blocked=(bool(rp[eb]["ret"]) and rp[eb]["ret"][0] == 8) if eb is not None and len(rp) > eb else None,
                                  verdict="ok" if not f else f["signature"]))
            if f and f.get("divergence"):
                divergences.append(dict(kind="probe", component=s.get("component", "locks"), field="lock scope", detail=f,
                                        schedule=dict(name=s["name"], cfg=s["cfg"], events=s["events"]), what=f["what"]))
            elif f:
                failures.append(f)
        allsched = allsched + probes
    searched = 0
    if (divergences or not ctx["proof_ok"]) and not [f for f in failures if f["signature"] not in ctx.get("known_sigs", set())] and not ctx.get("replay"):
        # directed search on the implementation alone: the diverging schedules' neighbourhood plus a fresh larger sample
        more = neighbourhood(divs) + gen.generate(seed + 7919, max(400, 2 * n), profiles)
        impl2 = corr.run_impl(binary, more, pid + "_search")
        searched = len(more)
        sel = more if monitor_profiles is None else [s for s in more if s.get("profile") in monitor_profiles or s["name"].startswith("nb")]
        if pid in monitors.MONITORS:
            failures += monitors.run_monitor(pid, sel, impl2)
    res = dict(divergences=divergences, failures=failures,
               evaluations=sum(len(impl.get(s["name"], [])) for s in allsched),
               distinct=len({sha(s["events"]) for s in allsched if nontrivial(s, impl.get(s["name"], []))}),
               rule="corpus of %d directed schedules + %d generated phase-contiguous schedules (profiles %s; 15-70 events; keys 2-6; all put variants, all upsert shapes, "
                    "delete, all seven reads, unawaited bursts, parked senders, worker steps, sweeps, drains, clock steps, polls, shutdown) run on the real cache and on the model, "
                    "full state compared after every event; a schedule is non-trivial if it has an accepted put and at least one eviction, sweep removal, upsert, delete or shutdown; "
                    "distinct = distinct event lists" % (len(corpus), len(scheds), ",".join(profiles)),
               samples=[sched_sample(s) for s in scheds[:2]], traces=len(allsched),
               extra=dict(distribution=distribution(allsched, impl), impl_only_search_schedules=searched, atomicity_probes=probe_log))
    if extra:
        extra(ctx, res, allsched, impl)
    return res


def probe_verdict(s, recs, serial_recs):
    """An atomicity probe stops one thread in the middle of an action the model treats as atomic (holding the lock that
    makes it atomic) and starts a conflicting action on another thread. Whatever the interleaving, the outcome must be the
    outcome of one of the two serial orders: the records of the probe's tail (state, return values) are compared with the
    tails of the serial runs (which are themselves compared with the model like every schedule)."""
    n = s["tail"]
    # probes with a blocking expectation: the conflicting action must wait while the stopped thread holds its lock. If it does,
    # nothing more is judged when the entry says so (what follows is concurrent in the code as it stands); if it does not, the
    # lock scope differs from the model's atomic action - the tail then decides between a failing input and a broken tie
    eb = s.get("expect_blocked")
    not_blocked = None
    if eb is not None and len(recs) > eb:
        blocked = bool(recs[eb]["ret"]) and recs[eb]["ret"][0] == 8
        if blocked and s.get("blocked_is_enough"):
            return None
        if not blocked:
            not_blocked = dict(signature="probe-lock-scope", divergence=True, name=s["name"], config=s["cfg"], events=s["events"], no_shrink=True,
                               what="%s: '%s' completed (%s) while the other thread was stopped inside the action holding its lock - the action is not atomic with respect to it, as the model assumes"
                                    % (s.get("note", s["name"])[:200], recs[eb]["ev"], recs[eb]["ret"]))
    enb = s.get("expect_not_blocked")
    if enb is not None and len(recs) > enb and recs[enb]["ret"] and recs[enb]["ret"][0] == 8:
        # a step that needs only locks nobody may be holding at this moment: a thread that waits for a lock must not keep another one
        return dict(signature="lock-held-while-waiting", name=s["name"], config=s["cfg"], events=s["events"][: enb + 1], no_shrink=True,
                    what="%s: '%s' did not get through - the lock it needs is still held by a thread that is itself waiting for another lock" % (s.get("note", s["name"])[:260], recs[enb]["ev"]))
    if s.get("alive_only"):
        # probes judged by C17 alone: the overlapped execution may end differently from both serial orders (the code's actions are
        # smaller than the model's here); what is demanded is that no thread died, the probe ran to its end, every acknowledgement
        # is resolved and the last write was accepted and reads back
        for i, r in enumerate(recs):
            dead = {k: v for k, v in r["roles"].items() if isinstance(v, str) and "Dead" in v}
            if dead:
                return dict(signature="background-thread-died", name=s["name"], config=s["cfg"], events=s["events"][: i + 1], no_shrink=True,
                            what="%s: after '%s' %s" % (s.get("note", s["name"])[:200], r["ev"], dead))
        if len(recs) < len(s["events"]) or any(r.get("stale_snap") for r in recs[-n:]):
            return dict(signature="probe-did-not-complete", what="the probe %s did not run to its end (a thread stayed blocked)" % s["name"], name=s["name"],
                        config=s["cfg"], events=s["events"], no_shrink=True, records=[(r["ev"], r["ret"]) for r in recs][-12:])
        last = recs[-1]
        if any(a == 0 for a in last["acks"]) or last["acks"][-1] != 1:
            return dict(signature="writes-no-longer-complete", name=s["name"], config=s["cfg"], events=s["events"], no_shrink=True,
                        what="%s: at the end the acknowledgements are %s (0 = never completed; the last put fits an empty cache and must be accepted)" % (s.get("note", s["name"])[:200], last["acks"]))
        return None
    def view(r):
        sn = r["snap"]
        ret = r["ret"] if r["ev"].split()[0] == "call" else None
        return (r["ev"], _json.dumps([ret, r["skipped"]]), _json.dumps([sn["store"], sn["weights"], sn["used"], sn["ticker"], sn["stats"]]))
    if len(recs) < n or any(r.get("stale_snap") for r in recs[-n:]):
        return dict(signature="probe-did-not-complete", what="the probe %s did not run to its end (a thread stayed blocked)" % s["name"], name=s["name"],
                    config=s["cfg"], events=s["events"], no_shrink=True, records=[(r["ev"], r["ret"]) for r in recs][-12:])
    mine = [view(r) for r in recs[-n:]]
    for sr in serial_recs:
        if len(sr) >= n and [view(r) for r in sr[-n:]] == mine:
            return not_blocked
    first = None
    for i in range(n):
        if all(len(sr) < n or view(sr[-n + i]) != mine[i] for sr in serial_recs):
            first = i
            break
    return dict(signature="probe-not-serializable", name=s["name"], config=s["cfg"], events=s["events"], no_shrink=True,
                what="%s: the overlapped execution ends in a state / with answers that neither serial order produces (first difference at '%s'): got %s; serial orders give %s"
                     % (s.get("note", s["name"])[:160], mine[first or 0][0], mine[first or 0][1:], [view(sr[-n + (first or 0)])[1:] for sr in serial_recs if len(sr) >= n]),
                observed=[(r["ev"], r["ret"], r["snap"]["used"], r["snap"]["weights"], r["snap"]["store"], r["snap"]["ticker"]) for r in recs[-n:]])


def guard_accounting_check(s, recs):
    """For a probe in which a caller keeps a reference guard on a key (the entry cannot leave the store while the guard is
    alive): at every total_weight_used() answered between hold_ref and release_ref at a moment when every acknowledgement
    is resolved, the total is the sum of the weights of the pinned key and of every key whose put is acknowledged as accepted
    (C05 through the public API; a correct cache cannot have acknowledged an eviction of the pinned key yet)."""
    ga = s.get("guard_accounting")
    if not ga:
        return None
    weights = {int(k): v for k, v in ga["weights"].items()}
    pinned, ack_key = set(), {}
    for i, r in enumerate(recs):
        if r["skipped"]:
            continue
        p = r["ev"].split()
        if p[0] == "call" and p[2] == "hold_ref" and r["ret"] and r["ret"][0] == 5 and len(r["ret"]) > 1:
            pinned.add(int(p[3]))
        if p[0] == "call" and p[2] == "release_ref":
            pinned.clear()
        if p[0] == "call" and p[2] == "put_w" and r["ret"] and r["ret"][0] == 0:
            ack_key[r["ret"][1]] = int(p[3])
        if p[0] == "call" and p[2] == "weight_used" and r["ret"] and r["ret"][0] == 5 and pinned and all(a != 0 for a in r["acks"]):
            held = set(pinned) | {k for a, k in ack_key.items() if a < len(r["acks"]) and r["acks"][a] == 1}
            want = sum(weights[k] for k in held)
            if r["ret"][1] != want:
                return dict(signature="weight-not-counted-for-held-key", name=s["name"], config=s["cfg"], events=s["events"][: i + 1], no_shrink=True,
                            what="every acknowledgement is resolved (put of %s acknowledged as accepted) while a reference guard pins key %s in the store: the keys held weigh %d, total_weight_used() answers %d"
                                 % (sorted(held - pinned), sorted(pinned), want, r["ret"][1]))
    return None


def neighbourhood(divs, limit=6):
    """Continuations of the diverging schedules that let a latent difference surface: drain the queue, let time pass over
    every shard with a sweep per second, change / remove the TTL of the keys involved, read everything, quiesce."""
    out = []
    for n, d in enumerate(divs[:limit]):
        s = d["schedule"]
        cfg = corr.DEFAULT_CFG.copy()
        cfg.update(s["cfg"])
        prefix = [e for e in s["events"][: d["event_index"] + 1]]
        keys = sorted({int(e.split()[3]) for e in s["events"] if e.startswith("call") and len(e.split()) > 3 and e.split()[3].isdigit()})[:8]
        # the key of the diverging event (or of the call a diverging worker step executed) goes first
        involved = []
        for e in reversed(prefix[-4:]):
            pe = e.split()
            if pe[0] == "call" and len(pe) > 3 and pe[3].isdigit():
                involved.append(int(pe[3]))
        keys = list(dict.fromkeys(involved + keys))
        reads = ["call 0 get %d" % k for k in keys] + ["call 0 stats", "call 0 weight_used"]
        drainq = ["run 0", "run 1", "run 2"] + ["worker"] * 10
        sweeps = []
        for _ in range(2 * cfg["shards"] + 2):
            sweeps += ["advance 1000000000", "sweep"]
        far = ["advance 120000000000"] + sweeps
        ups_rm = ["call 0 upsert %d - - - 1" % k for k in keys[:3]] + ["worker"] * 4
        ups_long = ["call 0 upsert %d - - 300000000000 0" % k for k in keys[:3]] + ["worker"] * 4
        dels = ["call 0 delete %d" % k for k in keys] + ["worker"] * (len(keys) + 2)
        variants = [drainq + reads, drainq + sweeps + reads, drainq + far + reads, drainq + ups_rm + far + reads,
                    drainq + ups_long + far + reads, drainq + dels + reads + sweeps + reads,
                    drainq + ["call 0 put_w %d %d 1" % (k, 900000 + k) for k in keys] + ["worker"] * len(keys) + reads + far + reads]
        for m, v in enumerate(variants):
            out.append(dict(name="nb%d_%d" % (n, m), cfg=s["cfg"], events=prefix + v, profile=s.get("profile", "neighbourhood")))
    return out


def stress2_extra(pid, mode=None):
    """Free-running runs with perturbation through the public API (a key type whose Hash occasionally busy-waits), judged
    by public invariants: the total is never negative; after deleting everything the total is 0 and keys added = deleted."""
    def extra(ctx, res, allsched, impl):
        import subprocess
        binary, seed, tier = ctx["binary"], ctx["seed"], ctx["tier"]
        plan = [(4, 1500, mode)] if tier == "quick" else [(2, 5000, mode), (4, 5000, mode), (8, 5000, mode), (4, 20000, mode)]
        if pid == "C05" and mode is None:
            # weight-changing upserts racing sweeps, evictions and deletes: at the end every charge must be gone again
            plan += [(4, 1500, "upserts")] if tier == "quick" else [(2, 5000, "upserts"), (4, 8000, "upserts"), (8, 8000, "upserts")]
        runs = []
        for n, (threads, millis, md) in enumerate(plan):
            try:
                p = subprocess.run([binary, "stress2", str(threads), str(millis), str(seed + n)] + ([md] if md else []), capture_output=True, text=True, timeout=millis / 1000.0 + 90)
                out = [json.loads(l) for l in p.stdout.splitlines() if l.startswith("{")]
            except subprocess.TimeoutExpired:
                res["failures"].append(dict(signature="stress-run-hung", what="the perturbed stress run with %d threads did not finish" % threads, threads=threads, millis=millis, seed=seed + n))
                continue
            for d in out:
                if not d.get("stress2"):
                    continue
                runs.append({k: d[k] for k in ("threads", "millis", "operations", "min_total_seen", "max_total_seen", "final_total", "keys_balance", "panic_count", "hung")})
                res["evaluations"] += d["operations"]
                rep = dict(threads=threads, millis=millis, seed=seed + n, replay="./.build/target/debug/cached-verif-harness stress2 %d %d %d%s" % (threads, millis, seed + n, " " + md if md else ""), observed=d)
                if pid == "C07" and d.get("unreadable_but_present"):
                    res["failures"].append(dict(rep, signature="unreadable-key-rejected-as-existing-under-concurrency", no_shrink=True, what="after a concurrent run without any time-to-live, with every acknowledgement completed, keys %s read as absent and a put of them is rejected as already existing" % d["unreadable_but_present"]))
                if pid == "C07" and d.get("accepted_put_unreadable"):
                    res["failures"].append(dict(rep, signature="accepted-put-unreadable-after-racing-delete", no_shrink=True, what="delete(k) raced with 'wait until k reads as absent, then put k until accepted': with both acknowledged the accepted put of keys %s is not readable (and a further put is rejected as already existing)" % d["accepted_put_unreadable"]))
                if pid == "C17" and d["panic_count"]:
                    res["failures"].append(dict(rep, signature="caller-panicked-under-stress", no_shrink=True, what="%d valid calls panicked in a concurrent run, e.g. %s" % (d["panic_count"], d["panics"][:1])))
                if d["hung"]:
                    res["failures"].append(dict(rep, signature="stress-callers-hung", what="callers or acknowledgements did not complete under the perturbed stress run"))
                    continue
                if pid in ("C01", "C05") and d["min_total_seen"] < 0:
                    res["failures"].append(dict(rep, signature="negative-total-under-concurrency", what="total weight used went down to %d during a concurrent run (sweeps, deletes, evictions on the same keys)" % d["min_total_seen"]))
                if pid == "C01" and d["max_total_seen"] > d["cache_weight"]:
                    res["failures"].append(dict(rep, signature="total-over-limit-under-concurrency", what="total weight used reached %d > cache weight %d during a concurrent run without any weight-changing upsert" % (d["max_total_seen"], d["cache_weight"])))
                if pid in ("C01", "C05", "C04") and d["final_total"] != 0:
                    res["failures"].append(dict(rep, signature="weight-left-after-deleting-everything", what="after every key was deleted and acknowledged the total weight used is %d, not 0" % d["final_total"]))
                if pid in ("C05", "C16") and d["keys_balance"] != 0:
                    res["failures"].append(dict(rep, signature="keys-balance-after-deleting-everything", what="after every key was deleted KeysAdded - KeysDeleted is %d, not 0" % d["keys_balance"]))
                for role, st in d["roles"].items():
                    if "Dead" in st and pid in ("C01", "C05", "C17"):
                        res["failures"].append(dict(rep, signature="background-thread-died-under-stress", what="%s died: %s" % (role, st)))
        res["extra"]["perturbed_stress_runs"] = runs
        res["rule"] += "; plus %d free-running perturbed stress run(s) (key Hash occasionally busy-waits) judged by public invariants" % len(plan)
    return extra


def stress_quiescent_extra(pid, inner=None):
    """A free-running multi-threaded run (2 shards, queue / pool / buffer of 1, sweeps, evictions, consumer stalled and
    resumed); when it is over and the queue is drained, the counters are compared with the internal state."""
    def extra(ctx, res, allsched, impl):
        import subprocess
        if inner:
            inner(ctx, res, allsched, impl)
        binary, seed, tier = ctx["binary"], ctx["seed"], ctx["tier"]
        plan = [(8, 1200)] if tier == "quick" else [(2, 5000), (4, 5000), (8, 8000)]
        runs = []
        for n, (threads, millis) in enumerate(plan):
            try:
                p = subprocess.run([binary, "stress", str(threads), str(millis), str(seed + 100 + n)] + (["readers"] if pid == "C15" else []), capture_output=True, text=True, timeout=millis / 1000.0 + 90)
                out = [json.loads(l) for l in p.stdout.splitlines() if l.startswith("{")]
            except subprocess.TimeoutExpired:
                res["failures"].append(dict(signature="stress-run-hung", what="the stress run with %d threads did not finish" % threads, threads=threads, millis=millis, seed=seed + 100 + n))
                continue
            q = [d for d in out if d.get("stress_quiescent")]
            st = [d for d in out if d.get("stress")]
            if st:
                res["evaluations"] += st[0]["operations"]
            if not q:
                continue
            d = q[0]
            runs.append(d)
            rep = dict(threads=threads, millis=millis, seed=seed + 100 + n, replay="./.build/target/debug/cached-verif-harness stress %d %d %d" % (threads, millis, seed + 100 + n), observed=d)
            U = 1 << 64
            if pid == "C15" and (d["buffered"] + d["access_added"] + d["access_dropped"]) % U != d["hits"]:
                res["failures"].append(dict(rep, signature="hit-not-accounted-under-concurrency", what="after a concurrent run: hits %d != buffered %d + AccessAdded %d + AccessDropped %d" % (d["hits"], d["buffered"], d["access_added"], d["access_dropped"])))
            if pid == "C16" and (d["keys_added"] - d["keys_deleted"]) % U != d["keys_held"]:
                res["failures"].append(dict(rep, signature="keys-miscounted-under-concurrency", what="after a concurrent run: KeysAdded %d - KeysDeleted %d != keys held %d" % (d["keys_added"], d["keys_deleted"], d["keys_held"])))
            if pid == "C16" and (d["weight_added"] - d["weight_removed"]) % U != d["used"] % U:
                res["failures"].append(dict(rep, signature="weight-miscounted-under-concurrency", what="after a concurrent run: WeightAdded %d - WeightRemoved %d != total weight used %d" % (d["weight_added"], d["weight_removed"], d["used"])))
            if pid == "C05" and (d["used"] != d["charges"] or not d["ids_match"]):
                res["failures"].append(dict(rep, signature="accounting-broken-under-concurrency", what="after a concurrent run: total %d, sum of charges %d, charged ids %s the ids of the held keys" % (d["used"], d["charges"], "=" if d["ids_match"] else "!=")))
        res["extra"]["stress_quiescent_runs"] = runs
        res["rule"] += "; plus %d free-running stress run(s) whose counters are compared with the internal state at quiescence" % len(plan)
    return extra


def order_extra(pid, inner=None):
    """Free-running program-order runs (harness `order`): caller threads on disjoint keys issue, without awaiting, per-key
    programs whose outcome is the same under every interleaving with the worker provided one thread's commands are applied
    in call order; the queue has 1, 2 or 4 slots."""
    def extra(ctx, res, allsched, impl):
        import subprocess
        if inner:
            inner(ctx, res, allsched, impl)
        binary, seed, tier = ctx["binary"], ctx["seed"], ctx["tier"]
        plan = [(1, 1, 8, 100), (2, 1, 8, 100), (4, 2, 8, 100), (2, 4, 8, 100)] if tier == "quick" else \
               [(t, q, 40, 200) for t in (1, 2, 4, 8) for q in (1, 2, 4)]
        if pid == "C04":
            # many callers drawing key ids at the same moment: every key is deleted again, so no weight may be left
            plan = [(8, 4, 8, 100), (16, 8, 6, 100)] if tier == "quick" else [(t, q, 30, 200) for t in (4, 8, 16) for q in (2, 8)]
        runs = []
        for n, (threads, queue, rounds, keys) in enumerate(plan):
            args = ["order", str(threads), str(queue), str(rounds), str(keys), str(seed + 200 + n)]
            rep = dict(threads=threads, queue=queue, rounds=rounds, keys=keys, seed=seed + 200 + n, replay="./.build/target/debug/cached-verif-harness " + " ".join(args))
            try:
                p = subprocess.run([binary] + args, capture_output=True, text=True, timeout=300)
                out = [json.loads(l) for l in p.stdout.splitlines() if l.startswith("{")]
            except subprocess.TimeoutExpired:
                res["failures"].append(dict(rep, signature="order-run-hung", no_shrink=True, what="the program-order run with %d threads and a queue of %d did not finish" % (threads, queue)))
                continue
            d = [x for x in out if x.get("order")]
            if not d:
                res["failures"].append(dict(rep, signature="order-run-crashed", no_shrink=True, what="the program-order run printed no result: %s" % p.stderr[-800:]))
                continue
            d = d[0]
            runs.append(d)
            res["evaluations"] += d["operations"]
            if d["violation_count"]:
                res["failures"].append(dict(rep, signature="program-order-broken", no_shrink=True, observed=d,
                                            what="%d per-key programs of one thread ended differently from their call order, e.g. %s" % (d["violation_count"], json.dumps(d["violations"][:1]))))
            if d["unanswered"]:
                res["failures"].append(dict(rep, signature="acknowledgement-unanswered", no_shrink=True, observed=d, what="%d acknowledgements were not completed within 20 s" % d["unanswered"]))
            if d.get("weight_left", 0) != 0 and not d["unanswered"]:
                res["failures"].append(dict(rep, signature="weight-left-after-deleting-everything", no_shrink=True, observed=d,
                                            what="every key put by the %d concurrent callers was deleted again and every delete acknowledged, yet the total weight used is %d, not 0" % (threads, d["weight_left"])))
        res["extra"]["order_runs"] = runs
        res["rule"] += "; plus %d free-running program-order runs (threads x queue %s)" % (len(plan), sorted({(t, q) for t, q, _, _ in plan}))
    return extra


def stall_extra(pid, inner=None):
    """A caller that really waits in front of the full command queue (harness `stall`): one slot, the worker held back for
    a while in real time, then released. The write that waited must be queued and acknowledged like any other - a cache that
    is not shutting down never refuses a write because the queue stayed full for some time."""
    def extra(ctx, res, allsched, impl):
        import subprocess
        if inner:
            inner(ctx, res, allsched, impl)
        if ctx.get("replay"):
            return
        binary, tier = ctx["binary"], ctx["tier"]
        runs = []
        for millis in ([900] if tier == "quick" else [300, 900, 2500, 6000]):
            args = ["stall", str(millis)]
            rep = dict(millis=millis, replay="./.build/target/debug/cached-verif-harness " + " ".join(args))
            try:
                p = subprocess.run([binary] + args, capture_output=True, text=True, timeout=120)
                out = [json.loads(l) for l in p.stdout.splitlines() if l.startswith("{")]
            except subprocess.TimeoutExpired:
                res["failures"].append(dict(rep, signature="stall-run-hung", no_shrink=True, what="the run with a caller waiting %d ms in front of the full queue did not finish" % millis))
                continue
            d = [x for x in out if x.get("stall")]
            if not d:
                res["failures"].append(dict(rep, signature="stall-run-crashed", no_shrink=True, what="the stalled-queue run printed no result: %s" % p.stderr[-800:]))
                continue
            d = d[0]
            runs.append(d)
            res["evaluations"] += 2
            if not d["caller_returned"]:
                res["failures"].append(dict(rep, signature="blocked-write-never-returns", no_shrink=True, observed=d,
                                            what="put 2 waited for a queue slot; the worker was released after %d ms and the call still had not returned 10 s later" % millis))
            elif not (d["first_queued"] and d["second_queued"]):
                res["failures"].append(dict(rep, signature="write-refused-while-running", no_shrink=True, observed=d,
                                            what="the cache was running (no shutdown was ever requested) and the queue's single slot stayed taken for %d ms: put 1 %s, put 2 %s - a write was refused although the cache is not shutting down" % (millis, "queued" if d["first_queued"] else "refused with an error", "queued" if d["second_queued"] else "refused with an error")))
            elif (d["first_status"], d["second_status"]) != (1, 1) or (d["value_1"], d["value_2"]) != (11, 22):
                res["failures"].append(dict(rep, signature="waited-write-lost", no_shrink=True, observed=d,
                                            what="both puts were queued (weights 1 into an empty cache of weight 100000, so both are admitted) yet statuses are %s/%s and the values read back are %s/%s instead of Accepted/Accepted and 11/22" % (d["first_status"], d["second_status"], d["value_1"], d["value_2"])))
        res["extra"]["stall_runs"] = runs
        res["rule"] += "; plus %d runs with a caller really waiting in front of the full command queue" % len(runs)
    return extra


def ledger_extra(pid, inner=None):
    """Action-level correspondence of Ledger.v / LedgerUpd.v with the real CacheWeight (harness `ledger`, driver
    ledgercorr.py): worker and sweeper threads stopped at the points inside CacheWeight::delete and ::update."""
    def extra(ctx, res, allsched, impl):
        import random
        import ledgercorr
        if inner:
            inner(ctx, res, allsched, impl)
        if ctx.get("replay"):
            return
        rng = random.Random(ctx["seed"] + 977)
        ng, nu = (300, 200) if ctx["tier"] == "quick" else (6000, 4000)
        cases = ledgercorr.gen_g(rng, ng) + ledgercorr.gen_u(rng, nu)
        divs, fails, stats = ledgercorr.compare(ctx["binary"], cases, pid + "_ledger")
        for d in divs[:3]:
            res["divergences"].append(d)
        want = {"C01": ("ledger-total-out-of-bounds", "ledger-step-stuck"), "C05": ("ledger-total-differs-from-charges", "ledger-total-out-of-bounds", "ledger-step-stuck")}[pid]
        res["failures"] += [f for f in fails if f["signature"] in want][:3]
        res["evaluations"] += stats["actions"]
        res["traces"] += stats["cases"]
        res["extra"]["ledger_action_level"] = stats
        res["rule"] += "; plus %d action-level ledger cases (%d actions carried out on the real CacheWeight with worker and sweeper stopped inside delete / update, total and charges compared with Ledger.v / LedgerUpd.v after each)" % (stats["cases"], stats["carried_out"])
    return extra


def pool_extra(pid, inner=None):
    """Action-level correspondence of PoolProto.v with the real Pool (harness `pool`, driver poolcorr.py): reader threads
    stopped at the point inside Buffer::add, batches handed over and buffers compared with the model after every step."""
    def extra(ctx, res, allsched, impl):
        import random
        import poolcorr
        if inner:
            inner(ctx, res, allsched, impl)
        if ctx.get("replay"):
            return
        rng = random.Random(ctx["seed"] + 1979)
        cases = poolcorr.gen_cases(rng, 250 if ctx["tier"] == "quick" else 5000)
        divs, fails, stats = poolcorr.compare(ctx["binary"], cases, pid + "_pool")
        res["divergences"] += divs[:3]
        res["failures"] += fails[:3]
        res["evaluations"] += stats["steps"]
        res["traces"] += stats["cases"]
        res["extra"]["pool_action_level"] = stats
        res["rule"] += "; plus %d action-level pool cases (%d steps of Pool::add on the real pool with readers stopped holding a buffer lock, %d waits for a held lock; batches and buffers compared with PoolProto.v after each)" % (stats["cases"], stats["steps"], stats["waited_for_the_lock"])
    return extra


def window_extra(pid, inner=None, monitor=False):
    """Schedules with overtaking (a put_or_update stopped between its store update and its index update, the worker stopped
    between the store insert and the index registration of a put with time-to-live, other events in between), run on the
    real cache and on the window model (Window.v), full state compared after every event."""
    def extra(ctx, res, allsched, impl):
        if inner:
            inner(ctx, res, allsched, impl)
        if ctx.get("replay"):
            return
        binary, seed, tier = ctx["binary"], ctx["seed"], ctx["tier"]
        n = 160 if tier == "quick" else 2500
        scheds = gen.generate_window(seed + 13, n)
        for s in corpus_for(pid):
            if s.get("monitor") == "window":
                scheds.append(dict(s, name="wc_" + s["name"]))
        divs, impl_w, _ = corr.correspond(binary, scheds, pid + "_window", window=True)
        for d in divs:
            res["divergences"].append(dict(kind="window-schedule", component=d["component"], field=d["field"],
                                           schedule=dict(name=d["schedule"]["name"], cfg=d["schedule"]["cfg"], events=d["schedule"]["events"][: d["event_index"] + 1]),
                                           event_index=d["event_index"], event=d["event"], model=d["model"], impl=d["impl"]))
        stops = sum(1 for s in scheds for r in impl_w.get(s["name"], []) if r["ret"] and r["ret"][0] == 7)
        if monitor:
            for s in scheds:
                for f in monitors.mon_window(monitors.Trace(s, impl_w[s["name"]])):
                    if pid == "C08" and f["signature"] == "stale-duplicate-index-entry":
                        continue
                    res["failures"].append(f)
        res["evaluations"] += sum(len(impl_w.get(s["name"], [])) for s in scheds)
        res["traces"] += len(scheds)
        res["extra"]["window_schedules"] = dict(schedules=len(scheds), stops_inside_calls_or_commands=stops)
        res["rule"] += "; plus %d schedules with overtaking (%d stops inside a put_or_update or a worker put) compared with the window model" % (len(scheds), stops)
    return extra


def kernel_extra(pid, wanted, inner=None):
    """Finite kernels of the real crate and of the model on the same grids (every run)."""
    def extra(ctx, res, allsched, impl):
        if inner:
            inner(ctx, res, allsched, impl)
        if ctx.get("replay"):
            return
        mism, ncases, counts = kernels.compare_kernels(ctx["binary"], wanted)
        for m in mism:
            res["divergences"].append(dict(kind="kernel", component=m["component"], field=m["kernel"], detail=m))
            if pid == "C16" and m["kernel"] == "hit_ratio":
                # the real hit_ratio() on given counters: the pair (hits, misses) is the failing input
                res["failures"].append(dict(signature="hit-ratio-wrong", no_shrink=True, kernel=m["kernel"], input=m["input"], model=m["model"], impl=m["impl"],
                                            what="hit_ratio() with %s (hits, misses) gives the f64 bits %s, hits / (hits + misses) (0 without hits) has the bits %s"
                                                 % (m["input"], m["impl"], m["model"])))
            if m["component"] == "preconditions":
                # the builders and the model disagree on what is accepted: the offending argument tuple is the failing input
                res["failures"].append(dict(signature="precondition-mismatch", no_shrink=True, kernel=m["kernel"], input=m["input"], model=m["model"], impl=m["impl"],
                                            what="%s: for the arguments %s the builder %s while the documented precondition (the premise of the theorems) %s"
                                                 % (m["kernel"], m["input"], "accepts" if m["impl"] else "panics", "holds" if m["model"] else "fails")))
        res["evaluations"] += ncases
        res["extra"]["kernel_cases"] = counts
        res["rule"] += "; kernel grids %s compared case by case" % sorted(counts)
    return extra


def micro_extra(pid, inner=None, profiles=("general", "ttl", "reads", "queue1", "awaited", "shutdown")):
    """Micro schedules: calls started in point-stepping mode and continued one schedule point at a time (`call.entered`,
    `put.checked`, `send.enter`, `delete.marked`, `read.hit`, `upsert.after_store_update`, the six stages of shutdown) and
    worker commands stopped inside Delete and put-with-TTL, with every other thread overtaking; run on the real cache and
    on the micro model (Micro.v), full state compared after every step; judged by the micro monitors."""
    def extra(ctx, res, allsched, impl):
        if inner:
            inner(ctx, res, allsched, impl)
        if ctx.get("replay"):
            return
        binary, seed, tier = ctx["binary"], ctx["seed"], ctx["tier"]
        n = 96 if tier == "quick" else 1500
        scheds = gen.generate_micro(seed + 29, n, profiles)
        for s in corpus_for(pid):
            if s.get("monitor") == "micro":
                scheds.append(dict(s, name="mc_" + s["name"]))
        ok, log = coq_make(["theories/Micro.vo"])
        if not ok:
            raise Broken("model-build", log[-3000:])
        divs, impl_m, _ = corr.correspond(binary, scheds, pid + "_micro", window="micro")
        for d in divs:
            res["divergences"].append(dict(kind="micro-schedule", component=d["component"], field=d["field"],
                                           schedule=dict(name=d["schedule"]["name"], cfg=d["schedule"]["cfg"], events=d["schedule"]["events"][: d["event_index"] + 1]),
                                           event_index=d["event_index"], event=d["event"], model=d["model"], impl=d["impl"]))
        stops = {}
        for s in scheds:
            for r in impl_m.get(s["name"], []):
                if r["ret"] and r["ret"][0] == 7 and len(r["ret"]) > 1:
                    stops[r["ret"][1]] = stops.get(r["ret"][1], 0) + 1
        fails = monitors.run_monitor(pid, scheds, impl_m)
        if (divs or not ctx["proof_ok"]) and not fails:
            more = gen.generate_micro(seed + 7013, max(300, 2 * n), profiles, density=0.8)
            impl2 = corr.run_impl(binary, more, pid + "_microsearch")
            fails = monitors.run_monitor(pid, more, impl2)
        res["failures"] += fails
        res["evaluations"] += sum(len(impl_m.get(s["name"], [])) for s in scheds)
        res["traces"] += len(scheds)
        res["extra"]["micro_schedules"] = dict(schedules=len(scheds), stops_by_schedule_point=stops)
        res["rule"] += "; plus %d micro schedules (%d stops at schedule points inside calls and worker commands, other threads overtaking) compared with the micro model" % (len(scheds), sum(stops.values()))
    return extra


def release_extra(pid, inner=None):
    """Thorough tier only: the same correspondence with the harness and /repo built in the release profile (overflow
    wraps instead of panicking) against the model's wrapping branch (c_debug = false)."""
    def extra(ctx, res, allsched, impl):
        if inner:
            inner(ctx, res, allsched, impl)
        if ctx["tier"] != "thorough":
            return
        binary_rel, _ = build_harness("release")
        scheds = gen.generate(ctx["seed"] + 31, 400, ["boundary", "general", "default_weights"])
        for s in scheds:
            s["cfg"]["debug"] = False
            s["name"] = "rel_" + s["name"]
        divs, impl_r, _ = corr.correspond(binary_rel, scheds, pid + "_release")
        for d in divs:
            res["divergences"].append(dict(kind="schedule-release-profile", component=d["component"], field=d["field"],
                                           schedule=dict(name=d["schedule"]["name"], cfg=d["schedule"]["cfg"], events=d["schedule"]["events"][: d["event_index"] + 1]),
                                           event_index=d["event_index"], event=d["event"], model=d["model"], impl=d["impl"]))
        res["evaluations"] += sum(len(impl_r.get(s["name"], [])) for s in scheds)
        res["traces"] += len(scheds)
        res["extra"]["release_profile_schedules"] = len(scheds)
        res["rule"] += "; thorough tier: 400 more schedules with harness and /repo built in the release profile against the model's wrapping arithmetic"
    return extra


def mk(pid, profiles, nq, nt, **kw):
    return lambda ctx: run_sched(ctx, pid, profiles, nq, nt, **kw)


PROPS.update({
    "C01": dict(module="C01", modules=["C01", "C01_ledger", "C01_micro"], run=mk("C01", ["general", "default_weights", "ttl", "queue1", "evict", "evict2"], 260, 4000, extra=kernel_extra("C01", ["is_space_available_for", "update_weight_stats"], release_extra("C01", ledger_extra("C01", stress2_extra("C01"))))),
                components=["weights", "admission", "api", "queue_worker", "store", "ticker"],
                assumptions=["schedule class proved: all phase-contiguous schedules (one call / command / sweep / batch at a time; calls may be unawaited, callers may be parked); finer interleavings of the worker's check-then-add with sweeper subtractions: ledger model (Ledger.v), tied to the real CacheWeight one action at a time (harness `ledger`)",
                             "overflow-checking (debug) profile"]),
    "C03": dict(module="C03", modules=["C03", "C03_micro"], run=mk("C03", ["roomy", "awaited", "ttl", "ttlchain", "general"], 250, 4000), components=["store", "weights", "admission", "ticker", "api", "queue_worker", "time"],
                assumptions=["partial: phase-contiguous schedules; 'no memory pressure' is stated per executed put (it fits the free space)"]),
    "C04": dict(module="C04", modules=["C04", "C04_micro"], run=mk("C04", ["general", "ttl", "awaited", "queue1", "expired"], 270, 4000, extra=micro_extra("C04", order_extra("C04", stress2_extra("C04")))), components=["store", "api", "queue_worker", "weights", "ticker"]),
    "C05": dict(module="C05", modules=["C05", "C05_micro", "C05_ledger"], run=mk("C05", ["general", "queue1", "ttl", "evict", "evict2"], 250, 4000, extra=micro_extra("C05", ledger_extra("C05", stress_quiescent_extra("C05", stress2_extra("C05"))))), components=["weights", "store", "api", "queue_worker", "ticker", "admission"]),
    "C06": dict(module="C06", run=mk("C06", ["evict2", "evict", "general"], 270, 4000, extra=kernel_extra("C06", ["sampled_key_cmp", "is_space_available_for"])), components=["admission", "weights", "sketch", "tinylfu", "store"]),
    "C07": dict(module="C07", modules=["C07", "C07_micro"], run=mk("C07", ["general", "ttl", "awaited", "expired"], 260, 4000, extra=micro_extra("C07", stress2_extra("C07", "nottl"), profiles=("general", "ttl", "awaited", "queue1"))), components=["store", "api", "time", "queue_worker"]),
    "C08": dict(module="C08", modules=["C08", "C08_window", "C08_micro"], run=mk("C08", ["general", "ttl", "roomy", "ttlchain", "upsertpipe", "expired"], 270, 4000, extra=window_extra("C08", monitor=True)), components=["store", "api", "ticker", "weights", "time", "queue_worker"]),
    "C09": dict(module="C09", run=mk("C09", ["ttl", "general", "ttlchain", "expired"], 260, 4000, extra=kernel_extra("C09", ["type_of_expiry_update", "shard_index"])), components=["store", "time", "api", "ticker"]),
    "C10": dict(module="C10", modules=["C10", "C10_window", "C10_micro"], run=mk("C10", ["ttl", "general", "ttlchain"], 250, 4000, extra=kernel_extra("C10", ["shard_index"], window_extra("C10", monitor=True))), components=["ticker", "weights", "store", "api", "time"]),
})


def run_C12(ctx):
    import random
    import ackcorr
    binary, seed, tier = ctx["binary"], ctx["seed"], ctx["tier"]
    rng = random.Random(seed)
    if tier == "quick":
        cases = ackcorr.sequential_cases(2, finals=(1, 5)) + ackcorr.concurrent_cases(rng, 400, 3) + ackcorr.contended_cases(rng, 120)
        exhaustive = "every placement of the completer's 3 steps among 1 and 2 sequential polls x 2 wakers x 2 final statuses (exhaustive), plus 400 random overlapping interleavings of 2-3 pollers, plus every placement of a completer that is released into the waker mutex while the poll holds it (1 poller, exhaustive) and 120 random ones with 2-3 pollers"
    else:
        cases = ackcorr.sequential_cases(3, finals=(1, 2, 4, 5, 6)) + ackcorr.all_two_poller_interleavings() + ackcorr.concurrent_cases(rng, 4000, 3) + ackcorr.contended_cases(rng, 1500)
        exhaustive = "every placement of the completer's 3 steps among 1..3 sequential polls x wakers x 5 final statuses, all 11550 interleavings of the completer with two overlapping pollers (both exhaustive), plus 4000 random overlapping interleavings"
    divs, fails, stats = ackcorr.compare(binary, cases)
    outcomes = stats["outcomes"]
    return dict(divergences=divs[:5], failures=fails[:5], evaluations=len(cases), distinct=outcomes,
                rule="interleavings of done() with polls on the real acknowledgement, stepped one shared-memory access at a time through schedule points "
                     "(flag, status, waker slot; lock-aware): " + exhaustive + "; distinct_nontrivial counts distinct (poll results, wakes) outcomes observed",
                samples=[dict(final=c["final"], pollers=c["pollers"], sched=c["sched"]) for c in cases[:2]], traces=len(cases),
                extra=dict(stats={k: v for k, v in stats.items() if k != "outcomes"}, exhaustive=True))


PROPS.update({
    "C02": dict(module="C02", modules=["C02", "C02_micro"], run=mk("C02", ["general", "reads", "ttl", "evict", "queue1", "ttlchain"], 250, 4000, extra=micro_extra("C02", profiles=("reads", "general", "ttl"))), components=["store", "api", "queue_worker", "time"],
                assumptions=["phase-contiguous schedules; every write uses a unique value token; hash functions identity / constant / mod 2 / multiplicative"]),
    "C11": dict(module="C11", modules=["C11", "C11_micro"], run=mk("C11", ["queue1", "general", "shutdown"], 250, 4000, extra=micro_extra("C11", stall_extra("C11", order_extra("C11")), profiles=("queue1", "general", "awaited"))), components=["queue_worker", "api", "roles"],
                assumptions=["that crossbeam's bounded channel is FIFO and that send blocks when full is exercised through parked senders (queue sizes 1,2,3,8), not proved"]),
    "C12": dict(module="C12", run=run_C12, components=["ack"],
                assumptions=["each access to status / waker slot is one atomic action because it happens under its parking_lot mutex; Release/Acquire on the flag is modelled as sequentially consistent"]),
    "C13": dict(module="C13", modules=["C13", "C13_micro"], run=mk("C13", ["shutdown", "queue1", "general"], 250, 4000, extra=micro_extra("C13", profiles=("shutdown", "queue1", "general"))), components=["api", "queue_worker", "pool", "store", "weights", "ticker", "roles"],
                assumptions=["partial: 'shutdown() returns' and 'every acknowledgement completes' are proved as enabledness/progress facts of the model; that the worker and consumer threads keep being scheduled is assumed"]),
    "C15": dict(module="C15", modules=["C15", "C15_pool", "C15_micro"], run=mk("C15", ["reads", "evict", "general"], 250, 4000, extra=micro_extra("C15", pool_extra("C15", stress_quiescent_extra("C15")), profiles=("reads", "general", "shutdown"))), components=["pool", "stats", "tinylfu", "api"],
                assumptions=["partial: 'never blocks' is enabledness in the model; that crossbeam's select!{send, default} does not block is exercised with a gated (stalled) and an exited consumer, not proved"]),
    "C17": dict(module="C17", modules=["C17", "C17_precond"], run=mk("C17", ["boundary", "general", "ttl", "queue1"], 300, 5000, extra=kernel_extra("C17", ["config_accepted", "upsert_accepted"], release_extra("C17", stress2_extra("C17", "upserts")))), components=["preconditions", "panics", "roles", "api", "store", "weights", "admission", "ticker", "sketch", "tinylfu", "queue_worker", "time", "pool"],
                assumptions=["partial: covers the panic sites the model represents (assert!/unwrap/expect/index operations/i64 overflow under the debug profile/SystemTime addition); allocation failure, thread spawn failure and panics inside dependencies are not modelled",
                             "documented preconditions: positive weights, a well-formed upsert, an upsert that turns into a put carries a value"]),
    "C16": dict(module="C16", modules=["C16", "C16_micro"], run=mk("C16", ["general", "reads", "ttl", "evict"], 250, 4000, extra=micro_extra("C16", kernel_extra("C16", ["hit_ratio", "update_weight_stats"], stress_quiescent_extra("C16")), profiles=("general", "ttl", "queue1", "awaited"))), components=["stats", "stats.hit_ratio", "store", "weights", "queue_worker", "api", "admission"]),
})


def shrink_failure(binary, pid, failure, budget=60):
    """Delta-debugging on the event list of a failing history: keeps removing chunks while the property's monitor still
    reports the same cause signature on the implementation."""
    if pid not in monitors.MONITORS:
        return failure
    sig = failure["signature"]
    cfg = failure["config"]
    events = list(failure["events"])
    runs = [0]

    def still_fails(evs):
        runs[0] += 1
        sched = dict(name="shrink", cfg=cfg, events=evs)
        impl = corr.run_impl(binary, [sched], "shrink_%s" % pid)
        fs = monitors.run_monitor(pid, [sched], impl)
        hit = [f for f in fs if f["signature"] == sig]
        return hit[0] if hit else None

    best = failure
    n = 2
    while len(events) >= 2 and runs[0] < budget:
        chunk = max(1, len(events) // n)
        reduced = False
        for start in range(0, len(events), chunk):
            cand = events[:start] + events[start + chunk:]
            if not cand:
                continue
            hit = still_fails(cand)
            if runs[0] >= budget:
                break
            if hit:
                events = list(hit["events"]) if hit.get("events") else cand
                best = hit
                n = max(n - 1, 2)
                reduced = True
                break
        if not reduced:
            if chunk == 1:
                break
            n = min(len(events), n * 2)
    best = dict(best)
    best["shrunk_from_events"] = len(failure["events"])
    best["shrink_runs"] = runs[0]
    return best


LOCK_CLASSES = {"TickerShard": 0, "KeyWeightsShard": 1, "WeightUsed": 2, "SketchLock": 3, "StoreShard": 4, "PoolBuffer": 5, "AckWaker": 6, "AckStatus": 7}


def model_lock_edges():
    vfile = os.path.join(TMP, "lockedges.v")
    with open(vfile, "w") as f:
        f.write("From CacheD Require Import Locks.\nEval vm_compute in (map (fun e => [Z.of_nat (fst e); Z.of_nat (snd e)]) cached_edges).\n")
    vals = parse_coq_values(coqc_eval(vfile))
    return {tuple(e) for e in vals[0]}


def run_C18(ctx):
    import subprocess
    binary, seed, tier = ctx["binary"], ctx["seed"], ctx["tier"]
    allowed = model_lock_edges()
    divergences, failures = [], []
    observed = {}

    def note_edges(edges, where):
        for held, acq in edges:
            if acq not in LOCK_CLASSES:
                divergences.append(dict(kind="lock-edge", component="locks", field="unknown lock class %s" % acq, detail=where))
                continue
            for h in held:
                e = (LOCK_CLASSES.get(h, -1), LOCK_CLASSES[acq])
                observed[e] = observed.get(e, 0) + 1
                if e not in allowed:
                    divergences.append(dict(kind="lock-edge", component="locks", field="nested acquisition %s -> %s is not in the model's lock programs" % (h, acq),
                                            detail=dict(where=where, held=held, acquired=acq)))

    # 1. nested acquisitions seen while running phase-contiguous schedules (every API, evictions, sweeps, shutdown)
    scheds = gen.generate(seed, 120 if tier == "quick" else 1500, ["general", "ttl", "evict", "shutdown", "reads", "queue1"]) + [sc for sc in corpus_for("C18") if not sc.get("probe")]
    ensure_dirs()
    path = os.path.join(TMP, "C18_sched.txt")
    corr.write_schedule_file(path, scheds)
    try:
        recs = run_harness(binary, ["run", path])
    except HarnessHung as h:
        b = corr.hung_broken(h, scheds)
        recs = h.partial
        failures.append(dict(signature="schedule-hung", no_shrink=True, what=b.detail, name=(b.schedule or {}).get("name"),
                             config=(b.schedule or {}).get("cfg"), events=(b.schedule or {}).get("events")))
    events = 0
    for r in recs:
        if r.get("end"):
            note_edges(r.get("lock_edges", []), r["case"])
        else:
            events += 1
    # 1b. lock-order probes: a thread stopped inside a lock scope, a second one that needs locks in the other order
    probes = [sc for sc in corpus_for("C18") if sc.get("probe") and "C18" in sc.get("props", [])]
    probe_log = []
    if probes and not ctx.get("replay"):
        serials = []
        for sc in probes:
            base_cfg = {k: v for k, v in sc["cfg"].items() if k != "points"}
            for n, evs in enumerate(sc["serial"]):
                serials.append(dict(name="%s_serial%d" % (sc["name"], n), cfg=base_cfg, events=evs, profile="probe-serial"))
        divs_s, impl_s, _ = corr.correspond(binary, serials, "C18_serial")
        for d in divs_s:
            divergences.append(dict(kind="schedule", component="locks", field=d["field"], detail=dict(event=d["event"], model=d["model"], impl=d["impl"])))
        try:
            impl_p = corr.run_impl(binary, probes, "C18_probes")
        except Broken as b:
            impl_p = {}
            failures.append(dict(signature="schedule-hung", no_shrink=True, what=b.detail, name=(b.schedule or {}).get("name"),
                                 config=(b.schedule or {}).get("cfg"), events=(b.schedule or {}).get("events")))
        for sc in probes:
            if sc["name"] not in impl_p:
                continue
            f = probe_verdict(sc, impl_p[sc["name"]], [impl_s.get("%s_serial%d" % (sc["name"], n), []) for n in range(len(sc["serial"]))])
            probe_log.append(dict(name=sc["name"], verdict="ok" if not f else f["signature"]))
            if f and f.get("divergence"):
                divergences.append(dict(kind="probe", component="locks", field="lock scope", detail=f))
            elif f:
                failures.append(f)
            events += len(impl_p[sc["name"]])
    # 2. free-running stress with a watchdog: thread counts 2..8, 2 shards, queue / pool / buffer of 1, sweeps and evictions
    #    running, the consumer stalled and resumed
    ops = 0
    runs = []
    plan = [(2, 1200), (4, 1200), (8, 1500)] if tier == "quick" else [(n, 8000) for n in range(2, 9)] + [(8, 30000)]
    for n, (threads, millis) in enumerate(plan):
        try:
            p = subprocess.run([binary, "stress", str(threads), str(millis), str(seed + n)], capture_output=True, text=True, timeout=millis / 1000.0 + 60)
            out = [json.loads(l) for l in p.stdout.splitlines() if l.startswith("{")]
        except subprocess.TimeoutExpired:
            out = []
            failures.append(dict(signature="stress-run-hung", what="the stress run with %d threads did not finish: a call never returned" % threads, threads=threads, millis=millis, seed=seed + n))
            continue
        for d in out:
            if d.get("stress"):
                ops += d["operations"]
                runs.append(dict(threads=threads, millis=millis, operations=d["operations"], panics=d["panic_count"]))
                note_edges(d["lock_edges"], "stress %d threads" % threads)
                if d["hung_threads"]:
                    failures.append(dict(signature="caller-thread-hung", what="caller threads %s made no progress for 8 s under %d threads (a call never returned)" % (d["hung_threads"], threads),
                                         threads=threads, millis=millis, seed=seed + n, roles=d["roles"]))
                for role, st in d["roles"].items():
                    if "Dead" in st:
                        failures.append(dict(signature="background-thread-died", what="%s died during the stress run: %s" % (role, st), threads=threads, seed=seed + n))
            if d.get("stress_shutdown_hung"):
                failures.append(dict(signature="shutdown-hung", what="shutdown() did not return after the stress run", threads=threads, seed=seed + n))
    nested = {e: c for e, c in observed.items()}
    return dict(divergences=divergences[:5], failures=failures, evaluations=events + ops, distinct=len(nested),
                rule="nested lock acquisitions recorded by the lock tracer (a scope guard declared next to every real guard) during %d phase-contiguous schedules and %d free-running "
                     "stress runs (thread counts %s, 2 shards, queue/pool/buffer of 1, sweeps, evictions, consumer stalled and resumed) must all be edges of the model's lock programs; "
                     "a watchdog checks that every caller keeps making progress and that shutdown returns; distinct_nontrivial = distinct nested edges observed" % (
                         len(scheds), len(plan), [t for t, _ in plan]),
                samples=[dict(edge=list(e), times=c) for e, c in sorted(nested.items())][:12] + runs[:3], traces=len(scheds) + len(plan),
                extra=dict(model_edges=sorted(list(e) for e in allowed), observed_edges=sorted(list(e) for e in nested), stress_runs=runs,
                           model_edges_never_observed=sorted(list(e) for e in allowed - set(nested)), lock_order_probes=probe_log))


import json
PROPS["C18"] = dict(module="C18", run=run_C18, components=["locks"], coqchk=True,
                    assumptions=["partial: covers lock and queue wait cycles at the modelled granularity (lock classes, at most one instance per class held, blocking sends with nothing held); "
                                 "lock internals, waker code run under the waker mutex and OS scheduling are not modelled; reader/writer locks are treated as exclusive",
                                 "the lock programs are read off the source by hand; the tracer ties them to the code only for the acquisitions that carry a tracer scope"])
