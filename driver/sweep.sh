#!/bin/sh
# seed sweep of every quick check on the unchanged tree: any alarm is a false alarm (or a new finding) to look at
# usage: driver/sweep.sh <first seed> <last seed> [properties...]
cd "$(dirname "$0")/.."
./setup.sh >/dev/null 2>&1
first=$1; last=$2; shift 2
props="$@"
[ -z "$props" ] && props="C01 C02 C03 C04 C05 C06 C07 C08 C09 C10 C11 C12 C13 C14 C15 C16 C17"
for seed in $(seq $first $last); do
  for p in $props; do
    out=$(VERIF_SEED=$seed ./check $p 2>&1)
    if [ $? -ne 0 ]; then
      echo "ALARM seed=$seed $p"; echo "$out" | grep -E "VIOLATION|FAIL" | head -5
      for f in $(echo "$out" | grep -o 'replay=[^ ]*' | cut -d= -f2 | head -3); do echo "--- $f"; head -c 1500 "$f"; echo; done
    fi
  done
  echo "seed $seed done"
done
