"""Property monitors: each evaluates one property directly on an implementation trace (records produced by the harness),
independently of the Coq model. A failure carries a cause signature (matched against known_findings.json)."""
from corr import DEFAULT_CFG

SEC = 1000000000
U64 = 1 << 64


def full_cfg(cfg):
    c = dict(DEFAULT_CFG)
    c.update(cfg)
    return c


class Trace:
    """Pre-digested view of one schedule's implementation records."""

    def __init__(self, sched, recs):
        self.sched = sched
        self.cfg = full_cfg(sched["cfg"])
        self.recs = recs
        self.n = len(recs)
        # snapshot before event i
        self.before = [None] * self.n
        prev = dict(store=[], weights=[], used=0, ticker=[], stats=[0] * 10, queue_len=0, pool=[[] for _ in range(self.cfg["pool"])],
                    chan_len=0, shut=0, next_id=1, rows=None, incs=0)
        prev_now = self.cfg["t0"]
        prev_acks = []
        self.now_before = []
        self.acks_before = []
        for i, r in enumerate(recs):
            self.before[i] = prev
            self.now_before.append(prev_now)
            self.acks_before.append(prev_acks)
            prev = r["snap"]
            prev_now = r["now"]
            prev_acks = r["acks"]
        # the FIFO of queued acks -> originating call
        self.ack_call = {}
        self.ack_is_update = {}
        fifo = []
        self.executed = {}       # worker event index -> ack id executed (or 'shutdown')
        for i, r in enumerate(recs):
            if r["skipped"]:
                continue
            p = r["ev"].split()
            ret = r["ret"]
            if p[0] in ("call", "run") and ret and ret[0] == 0:
                call = self.pending_call(i) if p[0] == "run" else p[2:]
                ci = self.pending_call_index(i) if p[0] == "run" else i
                self.ack_call[ret[1]] = (ci if ci is not None else i, call)
                # an upsert that found its key physically present at call time queues UpdateWeight, otherwise a put
                k = key_of_call(call)
                at = i if (ci is not None and self.recs[ci]["ret"] and self.recs[ci]["ret"][0] == 8) else ci
                self.ack_is_update[ret[1]] = (call[0] == "upsert" and at is not None and k in self.store_before(at))
                if self.worker_role(i, before=True) == "alive":
                    fifo.append(ret[1])
            # calls that had been blocked on a shard and completed when this event released the reference guard
            for tid_ret in r.get("unblocked", []):
                utid, uret = tid_ret
                if uret and uret[0] == 0:
                    cj = None
                    for j in range(i - 1, -1, -1):
                        pj = recs[j]["ev"].split()
                        if pj[0] == "call" and pj[1] == str(utid) and not recs[j]["skipped"] and recs[j]["ret"] and recs[j]["ret"][0] == 8:
                            cj = j
                            break
                    if cj is not None:
                        ucall = recs[cj]["ev"].split()[2:]
                        self.ack_call[uret[1]] = (cj, ucall)
                        self.ack_is_update[uret[1]] = (ucall[0] == "upsert" and key_of_call(ucall) in self.store_before(i))
                        if self.worker_role(i, before=True) == "alive":
                            fifo.append(uret[1])
            if p[0] == "call" and p[2] == "shutdown" and ret and ret[0] == 5 and self.before[i]["shut"] == 0:
                if self.worker_role(i, before=True) == "alive":
                    fifo.append("shutdown")
            if p[0] == "run" and ret and ret[0] == 5 and self.before[i]["queue_len"] < r["snap"]["queue_len"]:
                fifo.append("shutdown")
            if p[0] == "worker":
                if fifo:
                    head = fifo.pop(0)
                    self.executed[i] = head
                    if head == "shutdown":
                        fifo = []

    def worker_role(self, i, before=False):
        if before:
            if i == 0:
                return "alive"
            return self.recs[i - 1]["roles"]["worker"]
        return self.recs[i]["roles"]["worker"]

    def pending_call(self, i):
        """the call whose send a `run tid` event completes"""
        tid = self.recs[i]["ev"].split()[1]
        for j in range(i - 1, -1, -1):
            p = self.recs[j]["ev"].split()
            if p[0] == "call" and p[1] == tid and not self.recs[j]["skipped"] and self.recs[j]["ret"] and self.recs[j]["ret"][0] in (3, 8):
                return p[2:]
        return ["?"]

    def pending_call_index(self, i):
        tid = self.recs[i]["ev"].split()[1]
        for j in range(i - 1, -1, -1):
            p = self.recs[j]["ev"].split()
            if p[0] == "call" and p[1] == tid and not self.recs[j]["skipped"] and self.recs[j]["ret"] and self.recs[j]["ret"][0] in (3, 8):
                return j
        return None

    def unblocked_at(self, i):
        """calls that had been blocked on a shard kept locked by a reference guard ([8]) and proceed when event i releases
        the guard (their result is collected by a later `run`)"""
        r = self.recs[i]
        p = r["ev"].split()
        if r["skipped"] or p[0] != "call" or p[2] != "release_ref":
            return []
        out = []
        for j in range(i):
            pj = self.recs[j]["ev"].split()
            rj = self.recs[j]
            if pj[0] == "call" and not rj["skipped"] and rj["ret"] and rj["ret"][0] == 8:
                collected = any(self.recs[m]["ev"].split()[:2] == ["run", pj[1]] and not self.recs[m]["skipped"] for m in range(j + 1, i))
                released_before = any(self.recs[m]["ev"].split()[0] == "call" and self.recs[m]["ev"].split()[2] == "release_ref" and not self.recs[m]["skipped"] for m in range(j + 1, i))
                if not collected and not released_before:
                    out.append((j, pj[2:]))
        return out

    def store_before(self, i):
        return {e[0]: e for e in self.before[i]["store"]}

    def store_after(self, i):
        return {e[0]: e for e in self.recs[i]["snap"]["store"]}

    def weights_before(self, i):
        return {e[0]: e for e in self.before[i]["weights"]}

    def weights_after(self, i):
        return {e[0]: e for e in self.recs[i]["snap"]["weights"]}

    def alive(self, entry, now):
        """entry = [k, v, id, exp, soft]"""
        if entry is None or entry[4]:
            return False
        return entry[3] == -1 or not (now > entry[3])

    def quiescent(self, i):
        r = self.recs[i]
        if r["snap"]["queue_len"] != 0 or any(a == 0 for a in r["acks"]):
            return False
        # no caller parked in front of a send
        parked = set()
        for j in range(i + 1):
            p = self.recs[j]["ev"].split()
            if self.recs[j]["skipped"]:
                continue
            ret = self.recs[j]["ret"]
            if p[0] in ("call", "run") and ret and ret[0] == 3:
                parked.add(p[1])
            elif p[0] == "run" and ret and ret[0] != 3:
                parked.discard(p[1])
        return not parked


def fail(t, i, sig, what, **kw):
    d = dict(signature=sig, what=what, event_index=i, event=t.recs[i]["ev"] if i is not None and i < t.n else None,
             config=t.sched["cfg"], events=t.sched["events"][: (i + 1 if i is not None else None)], name=t.sched["name"])
    d.update(kw)
    return d


def key_of_call(call):
    op = call[0]
    if op in ("put", "put_w", "put_ttl", "put_w_ttl", "upsert", "delete", "get", "get_ref", "map_get", "map_get_ref"):
        return int(call[1])
    return None


# ---------------------------------------------------------------------------------------------------------------------

def mon_C01(t):
    out = []
    mx = t.cfg["max"]
    for i, r in enumerate(t.recs):
        if r["skipped"] or r["snap"]["shut"]:
            continue
        ub, ua = t.before[i]["used"], r["snap"]["used"]
        if ua < 0:
            out.append(fail(t, i, "negative-total", "total weight used is negative: %d" % ua))
        if ua > mx and ua > ub:
            p = r["ev"].split()
            sig = "weight-over-limit"
            if p[0] == "worker" and i in t.executed and t.executed[i] in t.ack_call:
                if t.ack_is_update.get(t.executed[i]):
                    sig = "update-weight-exceeds-free-space"
            out.append(fail(t, i, sig, "total weight used %d exceeds the cache weight %d after this event (was %d)" % (ua, mx, ub)))
        # an accepted put always leaves the total within the limit
        p = r["ev"].split()
        if p[0] == "worker" and i in t.executed and t.executed[i] in t.ack_call:
            a = t.executed[i]
            call = t.ack_call[a][1]
            if (call[0].startswith("put") or (call[0] == "upsert" and not t.ack_is_update.get(a))) and a < len(r["acks"]) and r["acks"][a] == 1 and ua > mx:
                out.append(fail(t, i, "accepted-put-over-limit", "an accepted put left the total at %d > %d" % (ua, mx)))
    return out


def writes_before(t, i):
    """{(key, value): index of the call} for put/upsert calls issued before event i"""
    w = {}
    for j in range(i):
        p = t.recs[j]["ev"].split()
        if p[0] != "call":
            continue
        op = p[2]
        if op in ("put", "put_w", "put_ttl", "put_w_ttl"):
            w[(int(p[3]), int(p[4]))] = j
        elif op == "upsert" and p[4] != "-":
            w[(int(p[3]), int(p[4]))] = j
    return w


def read_results(t, i):
    """[(key, value or None)] returned by read event i (implementation)"""
    r = t.recs[i]
    p = r["ev"].split()
    if p[0] != "call" or r["skipped"] or not r["ret"] or r["ret"][0] != 5:
        return []
    op = p[2]
    vals = r["ret"][1:]
    unmap = lambda v: None if v == -1 else (v - 1) // 2
    if op == "get":
        return [(int(p[3]), vals[0] if vals else None)]
    if op in ("get_ref", "hold_ref"):
        return [(int(p[3]), vals[0] if vals else None)]
    if op in ("map_get", "map_get_ref"):
        return [(int(p[3]), (vals[0] - 1) // 2 if vals else None)]
    if op == "multi_get":
        return [(vals[j], None if vals[j + 1] == -1 else vals[j + 1]) for j in range(0, len(vals), 2)]
    if op in ("multi_iter", "multi_map_iter"):
        ks = [] if p[3] == "-" else [int(x) for x in p[3].split(",")]
        if t.before[i]["shut"]:
            return []
        vs = vals if op == "multi_iter" else [unmap(v) for v in vals]
        return [(k, None if v == -1 else v) for k, v in zip(ks, vs)]
    return []


def mon_C02(t):
    out = []
    last_delete = {}           # key -> index of the last completed delete() call
    last_upsert_present = {}   # key -> index of the last upsert-with-value that hit a physically present key
    applied = {}               # (key, value) -> index of the event that made the value visible
    for i, r in enumerate(t.recs):
        if r["skipped"]:
            continue
        p = r["ev"].split()
        if p[0] == "call" and r["ret"] and r["ret"][0] in (0, 1, 3):
            if p[2] == "delete" and r["ret"][0] != 3:
                last_delete[int(p[3])] = i
            # (a caller parked in front of the full queue has already updated the entry)
            if p[2] == "upsert" and p[4] != "-" and int(p[3]) in t.store_before(i):
                last_upsert_present[int(p[3])] = i
                applied[(int(p[3]), int(p[4]))] = i
        for j, call in t.unblocked_at(i):
            if call[0] == "delete":
                last_delete[int(call[1])] = i
            if call[0] == "upsert" and call[2] != "-" and int(call[1]) in t.store_before(i):
                last_upsert_present[int(call[1])] = i
                applied[(int(call[1]), int(call[2]))] = i
        if p[0] == "run" and r["ret"] and r["ret"][0] in (0, 1) and False:
            # (superseded by unblocked_at: the call proceeds when the guard is released)
            call = t.pending_call(i)
            ci = t.pending_call_index(i)
            if call and ci is not None and t.recs[ci]["ret"][0] == 8:
                if call[0] == "delete":
                    last_delete[int(call[1])] = i
                if call[0] == "upsert" and call[2] != "-" and int(call[1]) in t.store_before(i):
                    last_upsert_present[int(call[1])] = i
                    applied[(int(call[1]), int(call[2]))] = i
        if p[0] == "worker" and i in t.executed and t.executed[i] in t.ack_call:
            a = t.executed[i]
            ci, call = t.ack_call[a]
            if (call[0].startswith("put") or (call[0] == "upsert" and not t.ack_is_update.get(a))) and a < len(r["acks"]) and r["acks"][a] == 1:
                k = key_of_call(call)
                v = int(call[2]) if call[0] != "upsert" else (int(call[2]) if call[2] != "-" else None)
                if v is not None:
                    applied[(k, v)] = i
        reads = read_results(t, i)
        if not reads:
            continue
        w = writes_before(t, i)
        sb = t.store_before(i)
        for k, v in reads:
            if v is None:
                continue
            if (k, v) not in w:
                foreign = [kk for (kk, vv) in w if vv == v]
                out.append(fail(t, i, "foreign-or-unwritten-value", "read of key %d returned %d, which was %s" % (
                    k, v, "written to key %s" % foreign if foreign else "never written")))
                continue
            ai = applied.get((k, v))
            if ai is None:
                out.append(fail(t, i, "unapplied-value-returned", "read of key %d returned %d, whose put was never acknowledged as accepted" % (k, v)))
                continue
            # a value that became visible before a delete() of its key returned, or before a later overwrite returned
            if k in last_delete and ai < last_delete[k]:
                out.append(fail(t, i, "deleted-value-returned", "read of key %d returned %d after delete(%d) had returned" % (k, v, k)))
            if k in last_upsert_present and ai < last_upsert_present[k]:
                out.append(fail(t, i, "superseded-value-returned", "read of key %d returned %d although a later put_or_update had replaced it" % (k, v)))
            # all variants read one and the same store
            if k in sb and sb[k][1] != v:
                out.append(fail(t, i, "variants-disagree", "read of key %d returned %d but the stored value is %d" % (k, v, sb[k][1])))
    return out


def mon_C03(t):
    """Every disappearance or alteration of a stored key has a legitimate cause: its own Delete command, a sweep at which its
    own expiry has passed, an eviction by a put that did not fit the free space, an upsert of that key, or shutdown."""
    out = []
    mx = t.cfg["max"]
    for i, r in enumerate(t.recs):
        if r["skipped"]:
            continue
        p = r["ev"].split()
        sb, sa = t.store_before(i), t.store_after(i)
        if sb == sa:
            continue
        now = t.now_before[i]
        if (p[0] == "call" and p[2] == "shutdown") or (p[0] == "run" and r["snap"]["shut"] and not sb == {} and sa == {}):
            continue
        for k, ent in sb.items():
            new = sa.get(k)
            if new == ent:
                continue
            cause = None
            if p[0] == "call" and p[2] in ("upsert", "delete") and int(p[3]) == k and new is not None:
                cause = "own call"
            for j, call in t.unblocked_at(i):
                if call[0] in ("upsert", "delete") and int(call[1]) == k and new is not None:
                    cause = "own call (was blocked on the shard)"
            if p[0] == "run" and new is not None:
                call = t.pending_call(i)
                if call and call[0] in ("upsert", "delete") and int(call[1]) == k:
                    cause = "own call"
            if p[0] == "worker" and i in t.executed and t.executed[i] in t.ack_call:
                a = t.executed[i]
                ci, call = t.ack_call[a]
                if call[0] == "delete" and int(call[1]) == k and new is None:
                    cause = "own delete"
                elif (call[0].startswith("put") or call[0] == "upsert") and not t.ack_is_update.get(a) and new is None:
                    # eviction: legitimate only under memory pressure
                    wts = t.weights_after(i)
                    kk = key_of_call(call)
                    w = None
                    if call[0] in ("put_w", "put_w_ttl"):
                        w = int(call[3])
                    elif call[0] == "upsert" and call[3] != "-":
                        w = int(call[3])
                    else:
                        from sched_util import weight_calc
                        v = int(call[2]) if call[2] != "-" else 0
                        ttl = (call[0] == "put_ttl") or (call[0] == "upsert" and call[4] != "-")
                        w = weight_calc(t.cfg["wcalc"], kk, v, ttl)
                    if w > mx - t.before[i]["used"]:
                        cause = "eviction under pressure"
            if p[0] == "sweep" and new is None and ent[3] != -1 and ent[3] < now:
                cause = "expired"
            if cause is None:
                what = "removed" if new is None else "altered to %s" % (new,)
                out.append(fail(t, i, "spurious-loss", "key %d (value %d, expiry %s) was %s by '%s' without memory pressure, delete or elapsed time-to-live (clock %d)" % (
                    k, ent[1], ent[3], what, r["ev"], now)))
    return out


def mon_C04(t):
    out = []
    hidden = {}      # key -> index of the delete() call that hid it (until a later put of it is accepted)
    for i, r in enumerate(t.recs):
        if r["skipped"]:
            continue
        p = r["ev"].split()
        sb, sa = t.store_before(i), t.store_after(i)
        if p[0] == "call" and p[2] == "delete" and r["ret"] and r["ret"][0] in (0, 3):
            hidden[int(p[3])] = i
        for j, call in t.unblocked_at(i):
            if call[0] == "delete":
                hidden[int(call[1])] = i
        if p[0] == "worker" and i in t.executed and t.executed[i] in t.ack_call:
            a = t.executed[i]
            ci, call = t.ack_call[a]
            status = r["acks"][a] if a < len(r["acks"]) else 0
            k = key_of_call(call)
            if call[0].startswith("put") or call[0] == "upsert":
                if status == 1 and k in hidden and ci > hidden[k]:
                    del hidden[k]
                elif status == 1 and k in hidden and k in sa and not sa[k][4]:
                    del hidden[k]       # a put queued before the delete and applied after it re-creates the key
            if call[0] == "delete":
                if k in sb:
                    wb = t.weights_before(i)
                    ent = sb[k]
                    if status != 1:
                        out.append(fail(t, i, "delete-present-not-accepted", "delete of stored key %d acknowledged with status %d" % (k, status)))
                    if k in sa:
                        out.append(fail(t, i, "delete-left-key", "key %d still stored after its delete was acknowledged" % k))
                    if ent[2] in t.weights_after(i):
                        out.append(fail(t, i, "delete-left-weight", "weight of key %d still charged after its delete was acknowledged" % k))
                    w = wb.get(ent[2], [0, 0, 0, 0])[3]
                    if r["snap"]["used"] != t.before[i]["used"] - w:
                        out.append(fail(t, i, "delete-weight-not-released", "total weight %d -> %d after deleting a key of weight %d" % (
                            t.before[i]["used"], r["snap"]["used"], w)))
                    if any(e[1] == ent[2] for e in r["snap"]["ticker"]):
                        out.append(fail(t, i, "delete-left-expiry-entry", "expiry index still holds the deleted key id"))
                else:
                    if status != 4:
                        out.append(fail(t, i, "delete-absent-not-rejected", "delete of absent key %d acknowledged with status %d" % (k, status)))
                    for f in ("store", "weights", "used", "ticker", "stats"):
                        if t.before[i][f] != r["snap"][f]:
                            out.append(fail(t, i, "delete-absent-changed-state", "delete of absent key %d changed %s" % (k, f)))
        for k, v in read_results(t, i):
            if v is not None and k in hidden:
                out.append(fail(t, i, "deleted-key-readable", "read of key %d returned %d after delete(%d) had returned" % (k, v, k)))
    return out


def mon_C05(t):
    out = []
    for i, r in enumerate(t.recs):
        if r["skipped"] or not t.quiescent(i):
            continue
        if r["roles"]["worker"].startswith("dead"):
            continue
        s = r["snap"]
        ws = {e[0]: e for e in s["weights"]}
        ids = sorted(e[2] for e in s["store"])
        total = sum(e[3] for e in s["weights"])
        if s["used"] != total:
            out.append(fail(t, i, "total-differs-from-charges", "total weight used %d differs from the sum of the charges %d" % (s["used"], total)))
        if sorted(ws) != ids:
            ghost = sorted(set(ws) - set(ids))
            unch = sorted(set(ids) - set(ws))
            sig = "charged-id-without-key" if ghost else "held-key-uncharged"
            out.append(fail(t, i, sig, "charged ids %s vs ids of held keys %s" % (sorted(ws), ids)))
        for e in s["store"]:
            if e[2] in ws and ws[e[2]][1] != e[0]:
                out.append(fail(t, i, "charge-for-other-key", "id %d is charged for key %d but held by key %d" % (e[2], ws[e[2]][1], e[0])))
    return out


def estimate(snap, seeds, bloom, h):
    rows = snap["rows"]
    total = len(rows[0]) * 2 if len(rows[0]) > 0 else 1
    # total counters: rows have max(1, total/2) bytes; total = 1 when the builder was given one counter
    m = 255
    for row, seed in zip(rows, seeds):
        tot = total if not (len(row) == 1 and snap.get("_one", False)) else 1
        pos = (h ^ seed) % tot
        b = row[pos // 2]
        m = min(m, (b >> (4 * (pos & 1))) & 15)
    return m + (1 if bloom.get(h) else 0)


def mon_C06(t):
    out = []
    mx = t.cfg["max"]
    for i, r in enumerate(t.recs):
        p = r["ev"].split()
        if r["skipped"] or p[0] != "worker" or i not in t.executed or t.executed[i] not in t.ack_call:
            continue
        a = t.executed[i]
        ci, call = t.ack_call[a]
        if not (call[0].startswith("put") or call[0] == "upsert"):
            continue
        k = key_of_call(call)
        sb, sa = t.store_before(i), t.store_after(i)
        if t.ack_is_update.get(a):
            continue      # an UpdateWeight command
        status = r["acks"][a] if a < len(r["acks"]) else 0
        if status in (0, 5, 6):
            continue
        wa = t.weights_after(i)
        used_b, used_a = t.before[i]["used"], r["snap"]["used"]
        # weight of the incoming key
        if call[0] == "put_w" or call[0] == "put_w_ttl":
            w = int(call[3])
        elif call[0] == "upsert":
            w = int(call[3]) if call[3] != "-" else None
        else:
            w = None
        if w is None:
            new = [e for e in r["snap"]["weights"] if e[1] == k and e[0] not in t.weights_before(i)]
            w = new[0][3] if new else None
        victims = [kk for kk in sb if kk not in sa]
        if w is not None:
            if w > mx:
                if status != 3 or victims or used_a != used_b:
                    out.append(fail(t, i, "too-heavy-not-rejected", "put of weight %d > cache weight %d: status %d, victims %s" % (w, mx, status, victims)))
                continue
            if w <= mx - used_b:
                if status != 1 or victims:
                    out.append(fail(t, i, "fitting-put-not-accepted", "put of weight %d fits in free space %d: status %d, victims %s" % (w, mx - used_b, status, victims)))
                continue
            if status == 1 and used_a > mx:
                out.append(fail(t, i, "accepted-without-space", "put accepted with total %d > %d" % (used_a, mx)))
            if status == 2 and mx - used_a >= w:
                out.append(fail(t, i, "rejected-with-space", "put of weight %d rejected although free space is %d after the evictions" % (w, mx - used_a)))
            if status == 3:
                out.append(fail(t, i, "wrong-rejection-reason", "put of weight %d <= cache weight rejected as too heavy" % w))
        # the eviction sample holds five keys whenever five charged keys remain ("samples smaller than five" only arise
        # from small caches): replay of the sampler's visits and pops as the implementation logged them
        orders, pops_all = r["oracle"]["orders"], r["oracle"]["pops"]
        if orders:
            charged = set(t.weights_before(i))
            sample = set(orders[0])
            gone = set()
            oi = 1

            def sample_short(when):
                rest = charged - gone
                if len(sample) < 5 and not rest <= sample:
                    out.append(fail(t, i, "sample-smaller-than-five-while-keys-remain", "%s the eviction sample holds %d key ids %s although %d charged keys remain (%s never considered)" % (
                        when, len(sample), sorted(sample), len(rest), sorted(rest - sample))))
                    return True
                return False
            if not sample_short("initially"):
                for pp in pops_all:
                    if pp == -1 or pp in wa:
                        break           # empty heap, or popped and not evicted (the put is rejected)
                    gone.add(pp)
                    sample.discard(pp)
                    if oi < len(orders):
                        sample |= set(orders[oi])
                        oi += 1
                    if sample_short("after evicting key id %d" % pp):
                        break
        # victims are never hotter than the incoming key
        bloom = {h: b for h, b in r["oracle"]["bloom"]}
        seeds = t.cfg["seeds"]
        snap_b = dict(t.before[i])
        if snap_b.get("rows"):
            snap_b["_one"] = (t.cfg["counters"] == 1)
            from sched_util import key_hash
            inc = estimate(snap_b, seeds, bloom, key_hash(t.cfg["hash"], k))
            wb = t.weights_before(i)
            ests = {}
            for kk in victims:
                ent = sb[kk]
                ests[kk] = estimate(snap_b, seeds, bloom, wb[ent[2]][2])
                if ests[kk] > inc:
                    out.append(fail(t, i, "hotter-victim-evicted", "key %d (estimate %d) evicted for incoming key %d (estimate %d)" % (kk, ests[kk], k, inc)))
            # victims are taken lowest estimate first (order of the pops)
            pops = [x for x in r["oracle"]["pops"] if x != -1]
            id2key = {sb[kk][2]: kk for kk in sb}
            seq = [ests[id2key[x]] for x in pops if x in id2key and id2key[x] in ests]
            # the sample is refilled between pops, so only a pop that is colder than an earlier victim *of the same
            # initial sample* is informative: with at most five charged keys the sample is the whole cache
            if len(wb) <= 5 and any(seq[j] > seq[j + 1] for j in range(len(seq) - 1)):
                out.append(fail(t, i, "victims-not-lowest-first", "victims evicted with estimates %s (not ascending) although the sample held every key" % seq))
    return out


def mon_C07(t):
    out = []
    for i, r in enumerate(t.recs):
        if r["skipped"]:
            continue
        p = r["ev"].split()
        now = t.now_before[i]
        if p[0] == "call" and p[2] in ("put", "put_w", "put_ttl", "put_w_ttl") and not t.before[i]["shut"]:
            k = int(p[3])
            sb = t.store_before(i)
            ent = sb.get(k)
            ret = r["ret"]
            if t.alive(ent, now):
                if ret != [1, 5]:
                    out.append(fail(t, i, "put-of-readable-key-not-rejected", "put of readable key %d returned %s" % (k, ret)))
                for f in ("store", "weights", "used", "ticker"):
                    if t.before[i][f] != r["snap"][f]:
                        out.append(fail(t, i, "rejected-put-changed-state", "rejected put of key %d changed %s" % (k, f)))
            elif ret == [1, 5]:
                if ent is None:
                    out.append(fail(t, i, "absent-key-already-exists", "put of absent key %d rejected with KeyAlreadyExists" % k))
                elif ent[4]:
                    pass          # deleted but the delete is not acknowledged yet: outside the property
                else:
                    out.append(fail(t, i, "put-on-expired-unswept-key", "put of key %d, which reads as absent (past its time-to-live, not yet swept), rejected with KeyAlreadyExists" % k))
        if p[0] == "worker" and i in t.executed and t.executed[i] in t.ack_call:
            a = t.executed[i]
            ci, call = t.ack_call[a]
            status = r["acks"][a] if a < len(r["acks"]) else 0
            if (call[0].startswith("put") or call[0] == "upsert") and not t.ack_is_update.get(a) and status != 0:
                # a queued put applied while its key is readable never overwrites it
                k = key_of_call(call)
                ent = t.store_before(i).get(k)
                if t.alive(ent, now):
                    if status != 5:
                        out.append(fail(t, i, "queued-put-overwrote-readable-key", "a queued put of key %d was applied while the key was readable: status %d instead of KeyAlreadyExists" % (k, status)))
                    elif t.store_after(i).get(k) != ent:
                        out.append(fail(t, i, "rejected-put-changed-state", "a rejected queued put changed key %d" % k))
            if (call[0].startswith("put") or call[0] == "upsert") and status == 5 and not t.ack_is_update.get(a):
                k = key_of_call(call)
                ent = t.store_before(i).get(k)
                if ent is None:
                    out.append(fail(t, i, "absent-key-already-exists", "queued put of absent key %d rejected with KeyAlreadyExists" % k))
                elif not ent[4] and not t.alive(ent, now):
                    out.append(fail(t, i, "put-on-expired-unswept-key", "queued put of key %d, past its time-to-live and not yet swept, rejected with KeyAlreadyExists" % k))
    return out


def mon_C08(t):
    out = []
    from sched_util import weight_calc
    pending_explicit = {}     # ack -> (id, explicit weight)
    for i, r in enumerate(t.recs):
        if r["skipped"]:
            continue
        p = r["ev"].split()
        now = t.now_before[i]
        if p[0] == "call" and p[2] == "upsert" and not t.before[i]["shut"] and r["ret"] and r["ret"][0] in (0, 1, 3):
            k = int(p[3])
            v = None if p[4] == "-" else int(p[4])
            w = None if p[5] == "-" else int(p[5])
            ttl = None if p[6] == "-" else int(p[6])
            rm = p[7] == "1"
            sb, sa = t.store_before(i), t.store_after(i)
            ent = sb.get(k)
            if ent is not None:
                new = sa.get(k)
                if t.alive(ent, now):
                    if new is None:
                        out.append(fail(t, i, "upsert-removed-key", "put_or_update of readable key %d removed it" % k))
                        continue
                    want_v = v if v is not None else ent[1]
                    want_e = -1 if rm else (now + ttl if ttl is not None else ent[3])
                    if new[1] != want_v:
                        out.append(fail(t, i, "upsert-wrong-value", "value of key %d is %d after put_or_update, expected %d" % (k, new[1], want_v)))
                    if new[3] != want_e:
                        out.append(fail(t, i, "upsert-wrong-expiry", "expiry of key %d is %d after put_or_update, expected %d" % (k, new[3], want_e)))
                    if new[2] != ent[2]:
                        out.append(fail(t, i, "upsert-changed-id", "put_or_update re-created key %d" % k))
                    for kk in sb:
                        if kk != k and sa.get(kk) != sb[kk]:
                            out.append(fail(t, i, "upsert-touched-other-key", "put_or_update of key %d changed key %d" % (k, kk)))
                    if w is not None and r["ret"][0] == 0:
                        pending_explicit[r["ret"][1]] = (ent[2], w)
                else:
                    # accepted upsert of a key that reads as absent must behave as a put: here it lands on the dead entry
                    if r["ret"] in ([1, 1],) or r["ret"][0] == 0:
                        after_alive = t.alive(sa.get(k), r["now"])
                        if not after_alive and (v is not None):
                            out.append(fail(t, i, "upsert-on-dead-entry", "put_or_update of key %d, which reads as absent (%s), was accepted but the key still reads as absent" % (
                                k, "soft-deleted" if ent[4] else "past its time-to-live, unswept")))
            else:
                # behaves exactly like the corresponding put: queued with the same weight
                if v is not None and r["ret"][0] == 0:
                    want_w = w if w is not None else weight_calc(t.cfg["wcalc"], k, v, ttl is not None)
                    pending_explicit[r["ret"][1]] = ("put", k, want_w, v, ttl)
        if p[0] == "worker" and i in t.executed and t.executed[i] in pending_explicit:
            a = t.executed[i]
            status = r["acks"][a] if a < len(r["acks"]) else 0
            info = pending_explicit.pop(a)
            if info[0] == "put":
                _, k, want_w, v, ttl = info
                if status == 1:
                    ent = t.store_after(i).get(k)
                    wa = t.weights_after(i)
                    if ent is None or ent[1] != v or wa.get(ent[2], [0, 0, 0, None])[3] != want_w:
                        out.append(fail(t, i, "upsert-as-put-differs", "put_or_update of absent key %d accepted but stored %s with charge %s (expected value %d weight %d)" % (
                            k, ent, wa.get(ent[2]) if ent else None, v, want_w)))
                    elif (ent[3] == -1) != (ttl is None):
                        out.append(fail(t, i, "upsert-as-put-differs", "put_or_update of absent key %d: expiry %d for ttl %s" % (k, ent[3], ttl)))
            else:
                kid, w = info
                wa = t.weights_after(i)
                if status == 1 and kid in wa and wa[kid][3] != w:
                    out.append(fail(t, i, "explicit-weight-not-charged", "charged weight of id %d is %d after UpdateWeight(%d) was acknowledged" % (kid, wa[kid][3], w)))
    return out


def mon_C09(t):
    out = []
    # the deadline each key was configured with, followed through the history independently of the expiry the store holds:
    # put with ttl -> apply time + ttl; put_or_update with ttl -> call time + ttl; remove_time_to_live -> none; otherwise unchanged
    deadline = {}
    for i, r in enumerate(t.recs):
        if r["skipped"]:
            continue
        now = t.now_before[i]
        sb = t.store_before(i)
        if t.before[i]["shut"]:
            continue
        pe = r["ev"].split()
        for k, v in read_results(t, i):
            if v is not None and k in deadline and k in sb and deadline[k] is not None and now > deadline[k]:
                out.append(fail(t, i, "expired-value-served", "read of key %d returned %d at clock %d although the time-to-live it was last given ran out at %d (the store says %s)" % (k, v, now, deadline[k], sb[k][3])))
        if pe[0] == "call" and pe[2] == "upsert" and int(pe[3]) in sb:
            k = int(pe[3])
            if r["ret"] and r["ret"][0] == 4:
                deadline.pop(k, None)            # the call panicked half-way: nothing is claimed about this key any more
            elif k in deadline:
                if pe[7] == "1":
                    deadline[k] = None
                elif pe[6] != "-":
                    deadline[k] = now + int(pe[6])
                ent = t.store_after(i).get(k)
                want = -1 if deadline[k] is None else deadline[k]
                if ent is not None and ent[3] != want:
                    out.append(fail(t, i, "wrong-expiry-after-update", "key %d: after %s at clock %d its expiry is %d, the time-to-live it was given ends at %d" % (k, " ".join(pe[2:]), now, ent[3], want)))
        if pe[0] == "worker" and i in t.executed and t.executed[i] in t.ack_call:
            a = t.executed[i]
            ci, call = t.ack_call[a]
            status = r["acks"][a] if a < len(r["acks"]) else 0
            if status == 1 and not t.ack_is_update.get(a):
                if call[0] in ("put", "put_w") or (call[0] == "upsert" and call[4] == "-"):
                    deadline[int(call[1])] = None
                elif call[0] in ("put_ttl", "put_w_ttl", "upsert"):
                    ttl = int(call[3]) if call[0] == "put_ttl" else int(call[4])
                    deadline[int(call[1])] = now + ttl
        for k in list(deadline):
            if k not in t.store_after(i):
                del deadline[k]
        for k, v in read_results(t, i):
            ent = sb.get(k)
            if v is not None:
                if ent is None or (ent[3] != -1 and now > ent[3]):
                    out.append(fail(t, i, "expired-value-served", "read of key %d returned %d at clock %d, expiry %s" % (k, v, now, ent[3] if ent else None)))
            else:
                if ent is not None and not ent[4] and (ent[3] == -1 or now <= ent[3]):
                    out.append(fail(t, i, "hidden-before-expiry", "read of key %d returned absent at clock %d although it is stored, not deleted and expires at %d" % (k, now, ent[3])))
        # expiry written by a put is apply time + ttl
        p = r["ev"].split()
        if p[0] == "worker" and i in t.executed and t.executed[i] in t.ack_call:
            a = t.executed[i]
            ci, call = t.ack_call[a]
            status = r["acks"][a] if a < len(r["acks"]) else 0
            if status == 1 and call[0] in ("put_ttl", "put_w_ttl", "put", "put_w"):
                k = int(call[1])
                ent = t.store_after(i).get(k)
                ttl = int(call[3]) if call[0] == "put_ttl" else (int(call[4]) if call[0] == "put_w_ttl" else None)
                want = -1 if ttl is None else now + ttl
                if ent is not None and ent[3] != want:
                    out.append(fail(t, i, "wrong-expiry", "key %d put with ttl %s at clock %d has expiry %d" % (k, ttl, now, ent[3])))
    return out


def mon_C10(t):
    out = []
    shards = t.cfg["shards"]
    # liveness: "as the clock advances and sweeps keep occurring every expired key is eventually removed": a key that
    # stays stored through 2 * shards completed sweeps after its expiry passed is being starved
    overdue = {}
    for i, r in enumerate(t.recs):
        if r["skipped"] or r["ev"].split()[0] != "sweep" or r["roles"]["sweeper"] != "alive":
            continue
        now = t.now_before[i]
        sa = t.store_after(i)
        for k, ent in sa.items():
            if ent[3] != -1 and ent[3] < now:
                overdue[(k, ent[2], ent[3])] = overdue.get((k, ent[2], ent[3]), 0) + 1
                if overdue[(k, ent[2], ent[3])] == 2 * shards:
                    out.append(fail(t, i, "sweeper-starves-shards", "key %d (expiry %d) is still stored after %d sweeps past its expiry: its shard %d is never visited" % (
                        k, ent[3], 2 * shards, (ent[3] // SEC) % shards)))
    for i, r in enumerate(t.recs):
        if r["skipped"] or r["ev"].split()[0] != "sweep":
            continue
        if r["roles"]["sweeper"].startswith("dead"):
            out.append(fail(t, i, "sweeper-died", "the sweeper panicked: %s" % r["roles"]["sweeper"]))
            continue
        now = t.now_before[i]
        sh = (now // SEC) % shards
        sb, sa = t.store_before(i), t.store_after(i)
        wb = t.weights_before(i)
        # due = ticker entries of the visited shard with expiry < now whose id is charged
        due_ids = [e[1] for e in t.before[i]["ticker"] if e[0] == sh and e[2] < now]
        id2key = {ent[2]: k for k, ent in sb.items()}
        expect_removed = set()
        released = 0
        for kid in due_ids:
            if kid in wb:
                released += wb[kid][3]
                if wb[kid][1] in sb:
                    expect_removed.add(wb[kid][1])
        removed = set(sb) - set(sa)
        for k in removed:
            ent = sb[k]
            if ent[3] == -1:
                out.append(fail(t, i, "sweep-removed-key-without-ttl", "sweep removed key %d which has no time-to-live" % k))
            elif ent[3] >= now:
                out.append(fail(t, i, "sweep-removed-live-key", "sweep at clock %d removed key %d whose expiry %d has not passed" % (now, k, ent[3])))
            elif k not in expect_removed:
                out.append(fail(t, i, "sweep-removed-unindexed-key", "sweep removed key %d that was not due in the visited shard" % k))
        for k in expect_removed - removed:
            ent = sb[k]
            if ent[3] != -1 and ent[3] < now:
                out.append(fail(t, i, "sweep-missed-due-key", "sweep at clock %d visited shard %d but left key %d (expiry %d) in place" % (now, sh, k, ent[3])))
        # the same from the store alone (independent of what the expiry index holds): a stored key whose expiry has passed and
        # belongs to the visited shard does not survive the sweep
        if r["roles"]["worker"] in ("alive", "running", "draining") and not t.before[i]["shut"]:
            for k, ent in sb.items():
                if ent[3] != -1 and ent[3] < now and (ent[3] // SEC) % shards == sh and k in sa and k not in expect_removed:
                    out.append(fail(t, i, "sweep-missed-due-key", "sweep at clock %d visited shard %d but left key %d (expiry %d, id %d) in place: the expiry index does not list it" % (now, sh, k, ent[3], ent[2])))
        if not (set(sb) - removed <= set(sa)):
            pass
        if r["snap"]["used"] != t.before[i]["used"] - released:
            out.append(fail(t, i, "sweep-weight-not-reclaimed", "sweep released %d but the total went %d -> %d" % (released, t.before[i]["used"], r["snap"]["used"])))
        if not t.before[i]["shut"]:
            kd = (r["snap"]["stats"][3] - t.before[i]["stats"][3]) % U64
            if kd != len(removed):
                out.append(fail(t, i, "sweep-keys-deleted-miscounted", "sweep removed %d keys, KeysDeleted grew by %d" % (len(removed), kd)))
        for k in set(sb) & set(sa):
            if sb[k] != sa[k]:
                out.append(fail(t, i, "sweep-altered-key", "sweep altered key %d" % k))
    return out


def mon_C11(t):
    out = []
    # acknowledgements of queued commands complete in submission order, each exactly once
    order = []
    for i, r in enumerate(t.recs):
        if r["skipped"]:
            continue
        prev = t.acks_before[i]
        cur = r["acks"]
        for a in range(len(prev)):
            if prev[a] != 0 and cur[a] != prev[a]:
                out.append(fail(t, i, "ack-changed-after-resolution", "acknowledgement %d went from status %d to %d" % (a, prev[a], cur[a])))
        newly = [a for a in range(len(cur)) if cur[a] != 0 and (a >= len(prev) or prev[a] == 0)]
        p = r["ev"].split()
        if p[0] == "worker" and r["roles"]["worker"] == "alive" and len(newly) > 1:
            out.append(fail(t, i, "more-than-one-command-per-step", "one worker step resolved acknowledgements %s" % newly))
        order += sorted(newly)
    if order != sorted(order):
        out.append(fail(t, t.n - 1, "acks-out-of-order", "acknowledgements resolved in order %s" % order))
    # writes are applied in submission order: at quiescence, a key whose last issued write is a delete is absent
    last_write = {}
    for i, r in enumerate(t.recs):
        if r["skipped"]:
            continue
        p = r["ev"].split()
        if p[0] == "call" and p[2] in ("put", "put_w", "put_ttl", "put_w_ttl", "upsert", "delete") and r["ret"] and r["ret"][0] in (0, 1):
            if t.before[i]["shut"]:
                continue
            last_write[int(p[3])] = (i, p[2])
        if p[0] == "run" and r["ret"] and r["ret"][0] in (0, 1):
            call = t.pending_call(i)      # a parked write is queued now: it is the latest write of its key
            if call and call[0] in ("put", "put_w", "put_ttl", "put_w_ttl", "upsert", "delete"):
                last_write[int(call[1])] = (i, call[0])
        if p[0] in ("call", "run") and r["ret"] and r["ret"][0] == 3:
            last_write.clear()      # a parked sender makes "last issued" ambiguous: restart the bookkeeping
        if r["snap"]["shut"]:
            last_write.clear()
        if t.quiescent(i) and r["roles"]["worker"] == "alive":
            sa = t.store_after(i)
            for k, (ci, op) in last_write.items():
                if op == "delete" and k in sa:
                    out.append(fail(t, i, "delete-after-put-lost", "delete(%d) was issued after every other write of key %d and everything is acknowledged, yet the key is still stored" % (k, k)))
    # writes are applied in submission order: at quiescence, the charge of a key whose last issued write is a put_or_update
    # with an explicit weight (accepted, key still held under the same id) is that weight
    last_weight = {}
    for i, r in enumerate(t.recs):
        if r["skipped"]:
            continue
        p = r["ev"].split()
        call = None
        if p[0] == "call" and p[2] in ("put", "put_w", "put_ttl", "put_w_ttl", "upsert", "delete") and r["ret"] and r["ret"][0] in (0, 1):
            call = p[2:]
        if p[0] == "run" and r["ret"] and r["ret"][0] in (0, 1):
            c = t.pending_call(i)
            if c and c[0] in ("put", "put_w", "put_ttl", "put_w_ttl", "upsert", "delete"):
                call = c
        if call and not t.before[i]["shut"]:
            k = int(call[1])
            last_weight.pop(k, None)
            sb = {e[0]: e for e in t.before[i]["store"]}
            if call[0] == "upsert" and call[3] != "-" and k in sb:
                accepted_on_spot = r["ret"][0] == 1 and r["ret"][1:] == [1]
                if r["ret"][0] == 0 or accepted_on_spot:
                    last_weight[k] = (i, int(call[3]), r["ret"][1] if r["ret"][0] == 0 else None, sb[k][2])
        if p[0] in ("call", "run") and r["ret"] and r["ret"][0] == 3:
            last_weight.clear()
        if r["snap"]["shut"]:
            last_weight.clear()
        if t.quiescent(i) and r["roles"]["worker"] == "alive":
            sa = t.store_after(i)
            wa = {w[0]: w[3] for w in r["snap"]["weights"]}
            for k, (ci, w, ack, kid) in last_weight.items():
                if ack is not None and (ack >= len(r["acks"]) or r["acks"][ack] != 1):
                    continue
                if k in sa and sa[k][2] == kid and wa.get(kid) is not None and wa[kid] != w:
                    out.append(fail(t, i, "weight-update-order-lost", "put_or_update(%d, weight %d) was issued after every other write of key %d and is acknowledged as accepted, everything is acknowledged, yet the key is charged %d" % (k, w, k, wa[kid])))
    return out


def mon_C13(t):
    out = []
    shut_done = False
    worker_pt = False       # the worker is stopped at a schedule point (window schedules): it has not finished its step
    for i, r in enumerate(t.recs):
        if r["skipped"]:
            continue
        p = r["ev"].split()
        if shut_done and p[0] == "call":
            op = p[2]
            if op in ("put", "put_w", "put_ttl", "put_w_ttl", "upsert", "delete"):
                if r["ret"] != [2]:
                    out.append(fail(t, i, "write-accepted-after-shutdown", "%s after shutdown() returned %s" % (op, r["ret"])))
            elif op in ("get", "get_ref", "map_get", "map_get_ref", "multi_get", "multi_iter", "multi_map_iter"):
                if r["ret"] != [5]:
                    out.append(fail(t, i, "read-served-after-shutdown", "%s after shutdown() returned %s" % (op, r["ret"])))
        if p[0] in ("call", "run") and r["ret"] == [5]:
            call = p[2:] if p[0] == "call" else t.pending_call(i)
            if call and call[0] == "shutdown":
                shut_done = True
        at_point = p[0] in ("workerp", "runw") and r["ret"] and r["ret"][0] == 7
        worker_pt = at_point if p[0] in ("workerp", "runw") else worker_pt
        if r["roles"]["worker"] in ("draining", "exited") and not worker_pt and any(a == 0 for a in r["acks"]):
            out.append(fail(t, i, "ack-pending-after-shutdown-executed", "acknowledgements %s still pending although the worker has executed Shutdown" % [a for a, s in enumerate(r["acks"]) if s == 0]))
        if shut_done and worker_died_unrecorded(r) and any(a == 0 for a in r["acks"]):
            out.append(fail(t, i, "ack-never-completes-worker-died", "shutdown() has returned, the worker thread has died (%s) and acknowledgements %s can never complete" % (r["roles"]["worker"][:160], [a for a, s in enumerate(r["acks"]) if s == 0])))
    return out


def worker_died_unrecorded(r):
    """the worker thread has died of something other than the recorded C17 findings (time-to-live overflow, weight overflow)"""
    w = r["roles"]["worker"]
    return w.startswith("dead") and "overflow" not in w


def mon_C15(t):
    out = []
    for i, r in enumerate(t.recs):
        if r["skipped"] or r["snap"]["shut"]:
            continue
        s = r["snap"]
        hits, added, dropped = s["stats"][0], s["stats"][8], s["stats"][9]
        buffered = sum(len(b) for b in s["pool"])
        if (buffered + added + dropped) % U64 != hits:
            out.append(fail(t, i, "hit-not-accounted", "hits %d != buffered %d + AccessAdded %d + AccessDropped %d" % (hits, buffered, added, dropped)))
        p = r["ev"].split()
        if p[0] == "call" and p[2] in ("get", "get_ref", "map_get", "map_get_ref", "multi_get", "multi_iter", "multi_map_iter"):
            if not r["ret"] or r["ret"][0] != 5:
                out.append(fail(t, i, "read-did-not-return", "read returned %s" % r["ret"]))
    return out


def mon_C16(t):
    out = []
    lookups = 0
    refused = 0
    for i, r in enumerate(t.recs):
        if r["skipped"]:
            continue
        p = r["ev"].split()
        if p[0] == "call" and p[2] == "shutdown" and r["ret"] and r["ret"][0] in (5, 3) and not t.before[i]["shut"]:
            lookups, refused = 0, 0
        if r["snap"]["shut"]:
            continue
        lookups += len(read_results(t, i))
        if p[0] == "worker" and i in t.executed and t.executed[i] in t.ack_call:
            a = t.executed[i]
            call = t.ack_call[a][1]
            if (call[0].startswith("put") or call[0] == "upsert") and not t.ack_is_update.get(a) and a < len(r["acks"]) and r["acks"][a] in (2, 3):
                refused += 1
        if p[0] == "call" and p[2].startswith("put") and r["ret"] and r["ret"][0] == 1 and len(r["ret"]) > 1 and r["ret"][1] in (2, 3):
            # a put answered on the spot with an admission verdict (not enough space / heavier than the cache) is a put refused by admission too
            refused += 1
        s = r["snap"]
        st = s["stats"]
        if (st[0] + st[1]) % U64 != lookups % U64:
            out.append(fail(t, i, "lookups-miscounted", "hits %d + misses %d != lookups %d" % (st[0], st[1], lookups)))
        if st[5] != refused % U64:
            out.append(fail(t, i, "rejected-miscounted", "KeysRejected %d != puts refused by admission %d" % (st[5], refused)))
        if r["roles"]["worker"].startswith("dead"):
            continue
        if (st[2] - st[3]) % U64 != len(s["store"]):
            out.append(fail(t, i, "keys-miscounted", "KeysAdded %d - KeysDeleted %d != keys held %d" % (st[2], st[3], len(s["store"]))))
        if (st[6] - st[7]) % U64 != s["used"] % U64:
            out.append(fail(t, i, "weight-miscounted", "WeightAdded %d - WeightRemoved %d != total weight used %d" % (st[6], st[7], s["used"])))
        import struct
        ratio = struct.unpack("<d", struct.pack("<Q", s["hit_ratio_bits"]))[0]
        want = 0.0 if st[0] == 0 else float(st[0]) / float(st[0] + st[1])
        if ratio != want:
            sig = "hit-ratio-zero-without-misses" if (ratio == 0.0 and st[1] == 0) else "hit-ratio-wrong"
            out.append(fail(t, i, sig, "hit ratio %r with %d hits and %d misses (expected %r)" % (ratio, st[0], st[1], want)))
    return out


PANIC_SIG = {"weight": "upsert-ttl-adjust-nonpositive", "expiry-overflow": "expiry-overflow", "i64-overflow": "weight-arithmetic-overflow",
             "row-index": "sketch-row-index-out-of-bounds", "value-missing": "upsert-without-value-on-absent-key"}


def mon_C17(t):
    from corr import panic_class
    out = []
    for i, r in enumerate(t.recs):
        if r["skipped"]:
            continue
        if r["ret"] and r["ret"][0] == 4:
            cls = panic_class(r["ret"][1])
            p = r["ev"].split()
            if cls == "value-missing":
                continue      # documented precondition: an upsert that turns into a put must carry a value
            sig = PANIC_SIG.get(cls, "panic-" + cls)
            call = p[2:] if p[0] == "call" else t.pending_call(i)
            if cls == "weight":
                # the known class: an upsert that adds / removes a time-to-live without giving a weight or a value
                known = call and call[0] == "upsert" and call[2] == "-" and call[3] == "-" and (call[4] != "-" or call[5] == "1")
                if not known:
                    sig = "weight-assert-on-valid-call"
            if cls == "expiry-overflow" and not (call and call[0] == "upsert" and call[4] != "-" and int(call[4]) > (1 << 62)):
                sig = "expiry-overflow-with-small-ttl"
            if cls == "i64-overflow" and not (call and call[0] == "upsert" and call[2] == "-" and call[3] == "-"):
                sig = "arithmetic-overflow-in-caller"
            out.append(fail(t, i, sig, "the caller panicked: %s" % r["ret"][1]))
        for role in ("worker", "sweeper", "consumer"):
            st = r["roles"][role]
            before = t.recs[i - 1]["roles"][role] if i > 0 else "alive"
            if st.startswith("dead") and not before.startswith("dead"):
                cls = panic_class(st)
                sig = PANIC_SIG.get(cls, "panic-" + cls) + ("" if role == "worker" else "-" + role)
                if role == "worker":
                    a = t.executed.get(i)
                    call = t.ack_call[a][1] if a in t.ack_call else None
                    is_update = bool(t.ack_is_update.get(a))
                    # the known classes: UpdateWeight whose new total leaves i64; a put whose time-to-live overflows SystemTime
                    if cls == "i64-overflow" and not is_update:
                        sig = "weight-overflow-outside-update-weight"
                    if cls == "expiry-overflow":
                        ttl = None
                        if call and call[0] == "put_ttl":
                            ttl = int(call[3])
                        elif call and call[0] == "put_w_ttl":
                            ttl = int(call[4])
                        elif call and call[0] == "upsert" and call[4] != "-":
                            ttl = int(call[4])
                        if ttl is None or ttl < (1 << 62):
                            sig = "expiry-overflow-with-small-ttl"
                out.append(fail(t, i, sig, "the %s panicked: %s" % (role, st)))
    return out


MONITORS = {"C01": mon_C01, "C02": mon_C02, "C03": mon_C03, "C04": mon_C04, "C05": mon_C05, "C06": mon_C06, "C07": mon_C07, "C08": mon_C08,
            "C09": mon_C09, "C10": mon_C10, "C11": mon_C11, "C13": mon_C13, "C15": mon_C15, "C16": mon_C16, "C17": mon_C17}


def mon_C08_latest_weight(t):
    """put_or_update calls on one key are applied in the order issued: at quiescence the charged weight of a key is the one
    the latest weight-determining put_or_update on it asked for (explicit weight, else the weight recomputed from a value)."""
    from sched_util import weight_calc
    out = []
    want = {}      # key -> (id, weight, call index) from the latest weight-determining upsert on a present key
    parked = set()
    for i, r in enumerate(t.recs):
        if r["skipped"]:
            continue
        p = r["ev"].split()
        if p[0] == "call" and p[2] == "upsert" and r["ret"] and r["ret"][0] in (0, 1):
            k = int(p[3])
            ent = t.store_before(i).get(k)
            if ent is not None:
                v = None if p[4] == "-" else int(p[4])
                w = None if p[5] == "-" else int(p[5])
                ttl = p[6] != "-"
                if w is None and v is not None:
                    w = weight_calc(t.cfg["wcalc"], k, v, ttl)
                if w is not None:
                    want[k] = (ent[2], w, i)
                elif p[6] != "-" or p[7] == "1":
                    want.pop(k, None)      # a TTL-only change adjusts the weight by +-24 depending on the old one: not tracked
        # a parked caller (blocked at its send) makes the order of application ambiguous: its command is queued when it is
        # released, after commands of calls that were issued later - nothing is claimed while one is parked or just released
        if p[0] == "call" and r["ret"] and r["ret"][0] == 3:
            parked.add(p[1])
        if p[0] == "run":
            if not (r["ret"] and r["ret"][0] == 3):
                parked.discard(p[1])
            want.clear()
        if parked:
            want.clear()
        if p[0] == "call" and p[2] in ("delete", "shutdown") and len(p) > 3 and int(p[3]) in want:
            want.pop(int(p[3]), None)
        if t.quiescent(i) and r["roles"]["worker"] == "alive" and not r["snap"]["shut"]:
            wa = t.weights_after(i)
            sa = t.store_after(i)
            for k, (kid, w, ci) in list(want.items()):
                if k in sa and sa[k][2] == kid and kid in wa and wa[kid][3] != w:
                    out.append(fail(t, i, "latest-upsert-weight-not-charged", "key %d: the latest put_or_update (event %d) asked for weight %d, everything is acknowledged, the charged weight is %d" % (k, ci, w, wa[kid][3])))
                    want.pop(k)
    return out


def mon_C08_all(t):
    # "an upsert acknowledged as accepted is never silently lost": a key that was upserted must not disappear without cause
    upserted = {int(r["ev"].split()[3]) for r in t.recs if r["ev"].startswith("call") and r["ev"].split()[2] == "upsert" and not r["skipped"]}
    lost = [f for f in mon_C03(t) if any(("key %d " % k) in f["what"] for k in upserted)]
    for f in lost:
        f["signature"] = "accepted-upsert-lost"
    return mon_C08(t) + lost + mon_C08_latest_weight(t)


MONITORS["C08"] = mon_C08_all


def mon_C09_all(t):
    # "never hidden by expiry while the clock is before its expiry": a sweep that removes a key whose current expiry has
    # not passed hides it through the expiry machinery
    early = [f for f in mon_C03(t) if f["event"] == "sweep"]
    for f in early:
        f["signature"] = "removed-by-sweep-before-expiry"
    return mon_C09(t) + early


MONITORS["C09"] = mon_C09_all


def mon_C10_all(t):
    early = [f for f in mon_C03(t) if f["event"] == "sweep"]
    for f in early:
        f["signature"] = "sweep-removed-live-key"
    return mon_C10(t) + early


MONITORS["C10"] = mon_C10_all


def mon_guard(t):
    """For the directed schedules in which a caller keeps a get_ref reference guard while another caller's write blocks on
    that shard: once delete(k) has returned (or has proceeded after the guard was released) no read returns k's value;
    once put_or_update(k, v) has returned every read returns v."""
    out = []
    deleted, current = set(), {}
    put_ack, put_acknowledged = {}, set()
    delete_ack, acked = {}, set()      # acknowledgement index -> key of a queued delete; keys whose delete is acknowledged as accepted
    for i, r in enumerate(t.recs):
        if r["skipped"]:
            continue
        p = r["ev"].split()
        done = []
        if p[0] == "call" and r["ret"] and r["ret"][0] in (0, 1):
            done.append(p[2:])
        if p[0] == "call" and p[2] in ("put", "put_w", "put_ttl", "put_w_ttl") and r["ret"] and r["ret"][0] == 0 and len(r["ret"]) > 1:
            put_ack[r["ret"][1]] = int(p[3])
        if p[0] == "call" and p[2] == "delete":
            # the puts of this key that were acknowledged as accepted when delete was called
            if any(k == int(p[3]) and a < len(t.recs[i - 1]["acks"]) and t.recs[i - 1]["acks"][a] == 1 for a, k in put_ack.items()) if i > 0 else False:
                put_acknowledged.add(int(p[3]))
            else:
                put_acknowledged.discard(int(p[3]))
        if p[0] == "call" and p[2] == "delete" and r["ret"] and r["ret"][0] == 0 and len(r["ret"]) > 1:
            delete_ack[r["ret"][1]] = int(p[3])
        if p[0] == "call" and p[2] in ("put", "put_w", "put_ttl", "put_w_ttl", "upsert") and int(p[3]) in delete_ack.values():
            # a write of the key after its delete was called: what a read may return is no longer decided by the delete alone
            delete_ack = {a: k for a, k in delete_ack.items() if k != int(p[3])}
            acked.discard(int(p[3]))
        for a, k in delete_ack.items():
            if a < len(r["acks"]) and r["acks"][a] == 1:
                acked.add(k)
        for k, v in read_results(t, i):
            if v is not None and k in acked and k not in deleted:
                out.append(fail(t, i, "deleted-key-readable-after-acknowledgement", "read of key %d returned %d although the acknowledgement of delete(%d) had completed as accepted (the worker was waiting for the key's store shard, on which a reference guard is held)" % (k, v, k), no_shrink=True))
        for tid_ret in r.get("unblocked", []):
            if tid_ret[1] and tid_ret[1][0] in (0, 1):
                for j in range(i - 1, -1, -1):
                    pj = t.recs[j]["ev"].split()
                    if pj[0] == "call" and pj[1] == str(tid_ret[0]) and t.recs[j]["ret"] and t.recs[j]["ret"][0] == 8:
                        done.append(pj[2:])
                        break
        for call in done:
            if call[0] == "delete" and int(call[1]) in put_acknowledged:
                # (C04: "once delete(k) has returned for a key whose put was acknowledged"; a delete called while the put is still
                #  queued marks nothing and hides the key only when the worker gets to it: judged by its acknowledgement below)
                deleted.add(int(call[1]))
            if call[0] == "upsert" and call[2] != "-":
                current[int(call[1])] = int(call[2])
        for k, v in read_results(t, i):
            if v is not None and k in deleted:
                out.append(fail(t, i, "deleted-key-readable", "read of key %d returned %d after delete(%d) had returned (a reference guard was held on its shard)" % (k, v, k), no_shrink=True))
            if v is not None and k in current and v != current[k]:
                out.append(fail(t, i, "superseded-value-returned", "read of key %d returned %d after put_or_update had set %d" % (k, v, current[k]), no_shrink=True))
    return out


def mon_window(t):
    """For schedules with overtaking (a caller or the worker stopped at a schedule point *inside* a call / command while
    other events run): a sweep must not remove a key whose current expiry has not passed.  The cause is classified by
    what overtook what:
      sweep-inside-upsert-window    put_or_update is not atomic with the expiry index: between its store update and its index
                                    update a sweep ran, or another put_or_update on the same key, so the index holds an
                                    entry that no longer matches the stored expiry
      stale-duplicate-index-entry   the worker's put with time-to-live is not atomic with the expiry index: a put_or_update
                                    fell between the store insert and the index registration, which then registers an
                                    entry the store no longer agrees with"""
    out = []
    at_point = {}            # tid -> (label, call)
    worker_window = None     # (key, id) the worker has inserted and not yet registered
    upsert_overtaken = set() # key ids whose put_or_update window was overtaken by a sweep or another put_or_update
    worker_overtaken = set() # key ids whose worker window was overtaken by a put_or_update
    for i, r in enumerate(t.recs):
        if r["skipped"]:
            continue
        p = r["ev"].split()
        sb, sa = t.store_before(i), t.store_after(i)
        if p[0] == "workerp" and r["ret"] and r["ret"][0] == 7:
            new = [k for k in sa if k not in sb or sa[k][2] != sb[k][2]]
            worker_window = (new[0], sa[new[0]][2]) if new else None
        elif p[0] in ("runw", "workerp"):
            worker_window = None
        is_upsert = p[0] in ("call", "callp") and len(p) > 3 and p[2] == "upsert"
        resumed = p[0] == "run" and p[1] in at_point
        if is_upsert or resumed:
            k = int(p[3]) if is_upsert else int(at_point[p[1]][1][1])
            if worker_window and worker_window[0] == k:
                worker_overtaken.add(worker_window[1])
            for tid, (label, call) in at_point.items():
                if tid != p[1] and int(call[1]) == k and k in sb:
                    upsert_overtaken.add(sb[k][2])
        if p[0] == "callp" and r["ret"] and r["ret"][0] == 7:
            at_point[p[1]] = (r["ret"][1], p[2:])
        if resumed and (not r["ret"] or r["ret"][0] != 7):
            del at_point[p[1]]
        if p[0] != "sweep":
            continue
        for tid, (label, call) in at_point.items():
            if int(call[1]) in sb:
                upsert_overtaken.add(sb[int(call[1])][2])
        now = t.now_before[i]
        for k, ent in sb.items():
            if k in sa:
                continue
            if ent[3] != -1 and ent[3] < now:
                continue          # due: fine
            entries = [e for e in t.before[i]["ticker"] if e[1] == ent[2]]
            if ent[2] in worker_overtaken:
                sig = "stale-duplicate-index-entry"
                why = "a put_or_update fell between the worker's store insert and its index registration; the index then held %s for this key id" % entries
            elif ent[2] in upsert_overtaken:
                sig = "sweep-inside-upsert-window"
                why = "a sweep or another put_or_update fell between store.update and the index update of a put_or_update on this key; the index then held %s for this key id" % entries
            else:
                sig = "sweep-removed-live-key"
                why = "no cause identified"
            out.append(fail(t, i, sig, "sweep at clock %d removed key %d whose current expiry %s has not passed: %s" % (now, k, ent[3], why), no_shrink=True))
    return out


READ_OPS = ("get", "get_ref", "map_get", "map_get_ref")
WRITE_OPS = ("put", "put_w", "put_ttl", "put_w_ttl", "upsert", "delete")
MICRO_CHECKS = {"C01": ("accounting",), "C05": ("accounting",), "C07": ("accounting",), "C11": ("accounting",),
                "C02": ("deleted",), "C04": ("deleted",), "C13": ("flag", "acks"), "C15": ("hits",), "C16": ("balances",)}


def mon_micro(pid, sched, recs):
    """Monitors for micro schedules (calls stopped at the schedule points inside them, other threads overtaking), on the
    implementation trace alone:
      accounting  whenever the worker is not inside a command and the shutdown flag is down: total = sum of the charges >= 0 and
                  the charged ids are exactly the ids of the stored entries
      deleted     from the moment delete(k) has passed its `delete.marked` point, no read whose lookup happens afterwards finds k
                  while the marked entry is still the stored one
      flag        from the moment shutdown() has raised the flag, every call that begins is refused (writes: error, reads: nothing)
      balances    at every state, worker windows included, while the flag is down: KeysAdded - KeysDeleted = stored keys and
                  WeightAdded - WeightRemoved = total (mod 2^64)
      acks        once the worker has executed Shutdown (or has died after shutdown() was called) no acknowledgement is pending
      hits        until shutdown() zeroes the statistics (a read that passed its flag check is still recorded after the flag is
                  raised): hits = buffered + AccessAdded + AccessDropped + reads stopped between lookup and record"""
    checks = MICRO_CHECKS.get(pid, ())
    cfg = full_cfg(sched["cfg"])
    fails = []
    at = {}                 # tid -> (op, args, label) of a caller stopped inside a call
    worker_inside = False
    marked = {}             # key -> id of the entry that was soft-marked by a delete
    flag_up = False
    stats_cleared = False   # shutdown() has zeroed the statistics
    shutting = set()        # callers stopped inside shutdown()

    def fail(sig, what, i):
        fails.append(dict(signature=sig, what=what, name=sched["name"], config=sched["cfg"], events=sched["events"][: i + 1], index=i))

    for i, r in enumerate(recs):
        if r["skipped"]:
            continue
        p = r["ev"].split()
        ret = r["ret"]
        snap = r["snap"]
        stopped = bool(ret) and ret[0] == 7
        label = ret[1] if stopped and len(ret) > 1 else None
        began = None            # (op, args) of a call that begins with this event
        lookup = None           # (key, found) of a single-key read whose store lookup happens in this event
        if p[0] == "callp":
            began = (p[2], p[3:])
            if stopped:
                at[p[1]] = (p[2], p[3:], label)
            elif p[2] in READ_OPS and p[2] in ("get", "map_get"):
                pass
        elif p[0] == "call" and p[2] not in ("hold_ref", "release_ref"):
            began = (p[2], p[3:])
            if p[2] in READ_OPS and ret and ret[0] == 5:
                lookup = (int(p[3]), len(ret) > 1)
        elif p[0] == "run" and p[1] in at:
            op, args, was = at.pop(p[1])
            if stopped:
                at[p[1]] = (op, args, label)
            if was == "call.entered" and op in READ_OPS:
                # the lookup of a split read: a hit stops at read.hit (get, map_get) or returns the value (get_ref, map_get_ref)
                lookup = (int(args[0]), label == "read.hit" or (not stopped and bool(ret) and ret[0] == 5 and len(ret) > 1))
            if label == "delete.marked":
                k = int(args[0])
                ent = {e[0]: e for e in snap["store"]}.get(k)
                if ent is not None:
                    marked[k] = ent[2]
        elif p[0] == "workerp" or p[0] == "runw":
            worker_inside = stopped
        if label == "shutdown.flag" or snap["shut"] == 1:
            was_up = flag_up
            flag_up = True
        else:
            was_up = flag_up
        store = {e[0]: e for e in snap["store"]}
        for k in list(marked):
            if k not in store or store[k][2] != marked[k]:
                del marked[k]
        if "deleted" in checks and lookup and lookup[1] and lookup[0] in marked:
            fail("micro-deleted-key-read", "a read of key %d found it although delete(%d) had passed its mark and the marked entry (id %d) is still the stored one" % (lookup[0], lookup[0], marked[lookup[0]]), i)
        if "flag" in checks and began and was_up and began[0] != "shutdown":
            op = began[0]
            ok = True
            if op in WRITE_OPS:
                ok = bool(ret) and ret[0] == 2
            elif op in READ_OPS or op.startswith("multi"):
                ok = bool(ret) and ret[0] == 5 and all(v == -1 for v in ret[1:])
            if not ok:
                fail("micro-call-after-flag-not-refused", "the call '%s %s' began after shutdown() had raised the flag and was answered %s" % (op, " ".join(began[1]), ret), i)
        if "acks" in checks:
            pend = [a for a, st_ in enumerate(r["acks"]) if st_ == 0]
            if pend and r["roles"]["worker"] in ("draining", "exited") and not worker_inside:
                fail("ack-pending-after-shutdown-executed", "acknowledgements %s still pending although the worker has executed Shutdown" % pend, i)
            if pend and flag_up and not at and worker_died_unrecorded(r):
                fail("ack-never-completes-worker-died", "shutdown() has been called, the worker thread has died (%s) and acknowledgements %s can never complete" % (r["roles"]["worker"][:160], pend), i)
        if "accounting" in checks and not worker_inside and snap["shut"] == 0 and not flag_up:
            charges = sum(w[3] for w in snap["weights"])
            ids_w = sorted(w[0] for w in snap["weights"])
            ids_s = sorted(e[2] for e in snap["store"])
            if snap["used"] != charges or snap["used"] < 0 or ids_w != ids_s:
                fail("micro-accounting-broken", "between commands: total %d, sum of charges %d, charged ids %s, stored ids %s" % (snap["used"], charges, ids_w, ids_s), i)
        if "balances" in checks and snap["shut"] == 0 and not flag_up and not r.get("stale_snap"):
            st = snap["stats"]
            if (st[2] - st[3]) % U64 != len(snap["store"]) % U64 or (st[6] - st[7]) % U64 != snap["used"] % U64:
                fail("micro-balance-broken", "KeysAdded %d - KeysDeleted %d vs %d stored keys; WeightAdded %d - WeightRemoved %d vs total %d" % (st[2], st[3], len(snap["store"]), st[6], st[7], snap["used"]), i)
        # shutdown(): the statistics are zeroed by its AdmissionPolicy::clear; from then on the identity is void
        if label in ("shutdown.policy_cleared",) or (began and began[0] == "shutdown" and not stopped and bool(ret) and ret[0] == 5) or \
           (p[0] == "run" and not stopped and bool(ret) and ret[0] == 5 and p[1] in shutting):
            stats_cleared = True
        if began and began[0] == "shutdown" and (stopped or (bool(ret) and ret[0] == 3)):
            shutting.add(p[1])      # stopped at a schedule point inside shutdown(), or parked in front of a full queue / channel
        if "hits" in checks and not stats_cleared and not r.get("stale_snap"):
            inflight = sum(1 for v in at.values() if v[2] == "read.hit")
            st = snap["stats"]
            buffered = sum(len(b) for b in snap["pool"])
            if (buffered + st[8] + st[9] + inflight) % U64 != st[0] % U64:
                fail("micro-hit-unaccounted", "hits %d != buffered %d + AccessAdded %d + AccessDropped %d + %d reads between lookup and record" % (st[0], buffered, st[8], st[9], inflight), i)
    # one failure per signature is enough
    seen, out = set(), []
    for f in fails:
        if f["signature"] not in seen:
            seen.add(f["signature"])
            out.append(f)
    return out


def run_monitor(pid, schedules, impl):
    fails = []
    for s in schedules:
        recs = impl.get(s["name"])
        if not recs:
            continue
        try:
            if full_cfg(s["cfg"]).get("points") == "micro":
                fails += mon_micro(pid, s, recs)
                continue
            fails += MONITORS[pid](Trace(s, recs))
        except Exception as e:
            import traceback
            fails.append(dict(signature="monitor-crash", what="monitor crashed: %s" % traceback.format_exc()[-1500:], name=s["name"], config=s["cfg"], events=s["events"]))
    return fails
