#!/usr/bin/env python3
"""Writes /verif/MANIFEST.json from the table below (run by hand when a check is added)."""
import json
import os

VERIF = os.path.dirname(os.path.dirname(os.path.abspath(__file__)))
props = [json.loads(l) for l in open(os.path.join(VERIF, "properties.jsonl"))]

G1 = ("the model's schedule class is phase-contiguous: one API call's caller-side part, one worker command, one sweep, one consumer batch at a time; "
      "calls may be unawaited, callers may be parked in front of a full queue, the worker/sweeper/consumer may lag arbitrarily")
TIE = ("tied to /repo on every run: the real cache (hooks on: background threads gated, mock clock, oracle log, full snapshot) and the model "
       "(vm_compute inside coqc) run the same corpus + generated schedules and the complete state is compared after every event; an independent monitor evaluates the property on the implementation traces")
TRUST = ("Trusted: Coq 8.16.1 kernel incl. vm_compute; no axioms (Print Assumptions closed); the hand-written model (Model.v: atomic actions for DashMap/parking_lot/crossbeam operations, "
         "oracles for map iteration order, heap ties, pool index, bloom answers); the cfg(cached_verif) hooks, Rust harness and Python driver; debug (overflow-checking) profile. ")

CLAIMS = {
 "C01": ("proof", "Theorems: 0 <= used <= max at every state of every run without an over-limit UpdateWeight (used_bounded_run), every accepted put leaves the total within the limit, the lower bound from the invariant; the over-limit UpdateWeight is a proved refutation (known finding). " + TIE,
         "partial w.r.t. 'all interleavings': " + G1 + ". " + TRUST, "Coq invariant proof + differential correspondence"),
 "C02": ("proof", "Theorems: provenance of every stored/read value for every history, hash function and oracle (store_value_provenance), reads = lookup of one store filtered by is_alive, all seven variants agree, soft-deleted entries never re-exposed, overwrites visible at return. " + TIE,
         G1 + ". " + TRUST, "Coq history induction + differential correspondence"),
 "C03": ("proof", "Theorems: an event that is not about k and is under no memory pressure leaves k's entry unchanged (step_preserves_entry); trace-level no_spurious_loss until k is touched or its TTL elapses, using the inductive core invariant. " + TIE,
         "partial: " + G1 + "; 'no memory pressure' is stated per executed put (it fits the free space) rather than as a bound on the total demanded weight. " + TRUST, "Coq invariant proof + differential correspondence"),
 "C04": ("proof", "Theorems: delete() hides the key before it returns, a soft-deleted entry is never re-exposed by any event, the Delete command releases entry, charge and index entry, deleting an absent key is rejected and changes nothing. " + TIE, G1 + ". " + TRUST, "Coq proof + differential correspondence"),
 "C05": ("proof", "Theorems: the core invariant (store/ledger bijection, used = sum of charges, expiry index sound and complete, fresh ids) holds initially and is preserved by every event (inv_step, inv_run); accounting_exact at every reachable state, not only at quiescence. " + TIE,
         G1 + "; states after a worker panic are excluded. " + TRUST, "Coq inductive invariant + differential correspondence"),
 "C06": ("proof", "Theorems about admission for all contents, weights, frequency profiles and oracles: too heavy -> rejected unchanged; fits -> accepted, nothing evicted; eviction loop: each victim the sample minimum at its turn (heavier on ties), never hotter than the incoming key, accepted iff space results, fuel never exhausted, only store/ledger/statistics touched. " + TIE,
         TRUST + "The sampler's iteration order and heap ties are oracles checked for admissibility.", "Coq proof (induction on the eviction loop) + differential correspondence"),
 "C07": ("proof", "Theorems: a put of a physically present key is answered on the spot with KeyAlreadyExists and changes nothing; a put of an absent key is never rejected for that reason, neither on the spot nor by the worker. The expired-but-unswept case is a known finding. " + TIE, G1 + ". " + TRUST, "Coq proof + differential correspondence"),
 "C08": ("proof", "Theorems: on a present key value/expiry change exactly as requested and nothing else; the queued weight is explicit / recomputed / old +-24; on an absent key put_or_update equals the corresponding put; UpdateWeight charges the requested weight. Upsert on a dead entry is a known finding. " + TIE, G1 + ". " + TRUST, "Coq proof + differential correspondence"),
 "C09": ("proof", "Theorems: served iff stored, not soft-deleted and now <= expiry; never served after expiry; no TTL never expires; a put's expiry is apply time + ttl, an upsert's is call time + ttl; the read boundary agrees with the sweeper's. " + TIE, TRUST, "Coq proof + differential correspondence"),
 "C10": ("proof", "Theorems: one sweep removes exactly the stored keys due in the visited shard and releases exactly their charges (sweep_exact), spares keys without TTL / not yet due / due elsewhere, stale index entries are inert; liveness is conditional (sweep_removes_due) and the starved-shard run is a proved refutation of unconditional liveness (known finding). " + TIE,
         "partial: liveness needs the sweeper to visit the expiry's shard. " + G1 + ". " + TRUST, "Coq invariant proof + differential correspondence"),
 "C11": ("proof", "Theorems: executed ++ queued = sent (FIFO, exactly once, for every capacity), the queue never exceeds its capacity, acks are Pending exactly while queued, resolve once, in queue order. " + TIE,
         "partial: that crossbeam's bounded channel is FIFO and blocks when full is exercised (parked senders, queue sizes 1,2,3,8), not proved. " + TRUST, "Coq history induction + differential correspondence"),
 "C12": ("proof", "Theorems about a fine-grained model of the acknowledgement (Ack.v) for all interleavings of the completer with any number of pollers: never Ready(Pending), Ready is final and stable, status written once, no lost wake-up (wake after every Pending return, of the most recently registered waker), no deadlock, progress. Tied to the code by stepping the real done()/poll() one shared-memory access at a time through schedule points: exhaustive placements for sequential polls, plus overlapping interleavings, outcomes compared with the model.",
         "Trusted: Coq kernel; each status / waker-slot access is one atomic action because it is under its parking_lot mutex; Release/Acquire modelled as SC; waker code and executor not modelled. No axioms.", "Coq invariant proof over all interleavings + enumerated interleavings on the real code"),
 "C13": ("proof", "Theorems: the flag is never reset; after it every write returns an error and every read absent/empty; once the worker executed Shutdown no ack is pending and none ever will be; acks pending iff queued; a parked shutdown() is resumable as soon as the queue/channel has room and the worker/consumer can always make room; queue and channel bounded; second shutdown returns at once. " + TIE,
         "partial: 'returns' and 'completes' are enabledness/progress facts; thread scheduling fairness assumed. " + G1 + ". " + TRUST, "Coq proof + differential correspondence"),
 "C14": ("proof", "Theorems (Props/C14.v) about the sketch model for every stream, hash, seed, counter count 1..2^63 and every admissible bloom oracle; byte-level facts by an exhaustive vm_compute sweep; tied to the code by exhaustive kernel comparison and random access streams on the real TinyLFU.",
         "Trusted: Coq kernel incl. vm_compute; the model of src/cache/lfu; the bloom filter is an oracle (only 'no false negatives' assumed). No axioms.", "Coq proof (induction, exhaustive byte sweep) + differential correspondence"),
 "C15": ("proof", "Theorems: hits = buffered + AccessAdded + AccessDropped (mod 2^64) at every reachable running state for every pool/buffer size and index oracle; hand-over is all-or-nothing; reads are never parked or disabled whatever the channel/consumer state; a batch is applied whole. " + TIE,
         "partial: 'never blocks' is enabledness in the model; crossbeam select!{send, default} is exercised with a gated and an exited consumer. Reads are atomic events in the model (the in-flight window between the hit counter and the buffer push is not split). " + TRUST, "Coq invariant proof + differential correspondence"),
 "C16": ("proof", "Theorems: KeysAdded-KeysDeleted = keys held and WeightAdded-WeightRemoved = total (mod 2^64) at every reachable state; hits+misses grows by the lookups of each event; KeysRejected counts exactly admission refusals; hit ratio = hits/(hits+misses), zero only without hits. " + TIE, TRUST, "Coq invariant proof + differential correspondence"),
 "C17": ("proof", "Theorems: from a state satisfying the core invariant, a valid event outside four identified classes neither panics in the caller nor kills the worker, sweeper or consumer (valid_calls_never_panic), along whole runs (valid_runs_never_panic), and the cache keeps serving (still_serves); the four classes (remove-TTL on a small weight, TTL overflow, UpdateWeight overflow, upsert-as-put without value) are proved witnesses / documented preconditions. " + TIE + " Boundary-biased generators: weights up to i64::MAX, TTL up to Duration::MAX, counters 1.., queue/pool/buffer 1; the model must predict a panic exactly where the implementation panics.",
         "partial: covers the panic sites the model represents (assert!, unwrap/expect, index operations, i64 overflow under the debug profile, SystemTime addition); allocation failure, thread spawn failure and panics inside dependencies are not modelled. " + TRUST, "Coq proof (case analysis under the invariant) + differential correspondence"),
 "C18": ("proof", "Theorems about a generic system of threads with ranked locks and bounded queues (Locks.v): well-formedness (ordered acquisition, at most one instance per class, blocking sends with nothing held, a dedicated consumer loop per queue) is preserved by every step, and in a well-formed state some thread can always step while any thread is mid-call (ordered_locking_progress); the table of CacheD's lock programs satisfies the discipline (decided by vm_compute) so no interleaving of any number of callers with worker, sweeper and consumer deadlocks (cached_no_deadlock); the get_ref re-entrancy exclusion is shown to violate the discipline and to self-deadlock. Tied to the code by a lock tracer (a scope guard next to every real guard): every nested acquisition observed during schedules and multi-threaded stress runs must be an edge of the model's table; a watchdog searches for real hangs.",
         "partial: lock and queue wait cycles at the modelled granularity; lock internals, waker code, OS scheduling not modelled; RW locks treated as exclusive; the lock-program table is hand-written and tied to the code only through the tracer scopes (a change that moves a real guard without its tracer scope is seen only by the stress watchdog). " + TRUST, "Coq proof (ordered locking + queue consumers => progress) + lock tracer + stress watchdog"),
}

checks = []
for pid, (cat, text, note, tech) in sorted(CLAIMS.items()):
    checks.append(dict(property_id=pid, quick_cmd="./check %s --tier quick" % pid, thorough_cmd="./check %s --tier thorough" % pid,
                       evidence_file="/verif/evidence/%s.json" % pid, replay_cmd_template="./check %s --replay {path}" % pid,
                       engine="coq-model+correspondence", level_claimed=dict(category=cat, text=text, design_ref="DESIGN.md §4 " + pid),
                       level_note=note, technique=tech))
na = [dict(property_id=p["id"], reason="check not built yet (planned: Coq theorem + correspondence, see DESIGN.md §4)") for p in props if p["id"] not in CLAIMS]
m = dict(version=1, setup_cmd="./setup.sh",
         hooks=dict(guard="cached_verif", enable='RUSTFLAGS="--cfg cached_verif --check-cfg cfg(cached_verif)" (set by the checks; harness crate /verif/harness has a path dependency on /repo)',
                    baseline_off_cmd="cd /repo && cargo test --workspace --no-fail-fast --offline",
                    source_commits=HOOK_COMMITS if (HOOK_COMMITS := os.popen("git -C /repo log --format=%h --grep='verif hooks' --grep='verification hooks' -i").read().split()) else [],
                    add_only=True),
         engines=[dict(name="coq-model+correspondence", path="/verif/check", serves_properties=sorted(CLAIMS),
                       kind_free_text="Coq 8.16 proofs about a hand-written executable model; Rust harness + Python differ tie the model to /repo on every run; monitors search for failing inputs")],
         checks=checks, not_applicable=na,
         notes="Fix commits in /repo: 9a1da06 (C12 status before flag), e989e8e (C16 hit ratio), 14de0b3 (C14/C17 one-counter sketch), 4f5bc85 (C05 worker re-checks presence). Known findings: /verif/known_findings.json.")
json.dump(m, open(os.path.join(VERIF, "MANIFEST.json"), "w"), indent=1)
print("claims", len(checks), "not_applicable", [x["property_id"] for x in na], "hook commits", m["hooks"]["source_commits"])
