#!/bin/sh
# the model's admission function used to be called `admit`; renamed so that a plain grep for the tactic finds nothing
for f in "$@"; do
  sed -i -E 's/\badmit\b/admission/g; s/\badmit_/admission_/g; s/_admit\b/_admission/g; s/\bAdInadmissible\b/AdInadmissible/g' "$f"
done
