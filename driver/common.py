"""Shared plumbing: paths, building the harness and the Coq development, running them, auditing the proofs."""
import json
import os
import re
import subprocess
import sys
import time
import hashlib

VERIF = os.path.dirname(os.path.dirname(os.path.abspath(__file__)))
REPO = os.environ.get("CACHED_REPO", "/repo")
# (the four overrides exist only so that seeded changes can be tried in parallel on scratch worktrees, see seedmatrix.sh;
#  the registered checks never set them)
BUILD = os.environ.get("VERIF_BUILD_DIR", os.path.join(VERIF, ".build"))
TARGET = os.path.join(BUILD, "target")
# scratch files of one run of one check: a directory of its own (two runs of the same check at the same time must not
# overwrite each other's case files), removed when the run ends
TMP = os.path.join(BUILD, "tmp", "p%d" % os.getpid())
COQ = os.path.join(VERIF, "coq")
HARNESS_DIR = os.environ.get("VERIF_HARNESS_DIR", os.path.join(VERIF, "harness"))
EVIDENCE = os.environ.get("VERIF_EVIDENCE_DIR", os.path.join(VERIF, "evidence"))
REPLAYS = os.environ.get("VERIF_REPLAYS_DIR", os.path.join(VERIF, "replays"))
CORPUS = os.path.join(VERIF, "corpus")
NPROC = 16

RUSTFLAGS = "--cfg cached_verif --check-cfg cfg(cached_verif)"


class Broken(Exception):
    """The tie between model and code (or a proof) no longer checks. `what` names the correspondence/theorem."""

    def __init__(self, what, detail="", component=None, schedule=None):
        super().__init__(what)
        self.what = what
        self.detail = detail
        self.component = component
        self.schedule = schedule


def ensure_dirs():
    for d in (BUILD, TMP, EVIDENCE, REPLAYS):
        os.makedirs(d, exist_ok=True)


def _remove_tmp():
    import shutil
    shutil.rmtree(TMP, ignore_errors=True)


import atexit
atexit.register(_remove_tmp)


def cargo_env():
    env = dict(os.environ)
    env["RUSTFLAGS"] = RUSTFLAGS
    env["CARGO_TARGET_DIR"] = TARGET
    env["CARGO_NET_OFFLINE"] = "true"
    return env


def build_harness(profile="debug"):
    """Builds the harness (and /repo's current working tree with the hooks on). Returns the binary path."""
    ensure_dirs()
    cmd = ["cargo", "build", "--offline", "--quiet"]
    if profile == "release":
        cmd.append("--release")
    t0 = time.time()
    p = subprocess.run(cmd, cwd=HARNESS_DIR, env=cargo_env(), capture_output=True, text=True)
    if p.returncode != 0:
        errs = "\n".join(l for l in p.stderr.splitlines() if not l.startswith("warning"))
        raise Broken("harness-build", "the hooks/harness no longer compile against /repo:\n" + errs[-6000:], component="api")
    return os.path.join(TARGET, profile, "cached-verif-harness"), time.time() - t0


class HarnessHung(Exception):
    """the harness did not finish: some event never completed (a call, a worker command or a sweep is stuck)"""
    def __init__(self, partial):
        Exception.__init__(self, "harness hung")
        self.partial = partial


def run_harness(binary, args, timeout=300):
    try:
        p = subprocess.run([binary] + args, capture_output=True, text=True, timeout=timeout)
    except subprocess.TimeoutExpired as e:
        out = e.stdout or b""
        if isinstance(out, bytes):
            out = out.decode("utf-8", "replace")
        recs = []
        for line in out.splitlines():
            line = line.strip()
            if line.startswith("{"):
                try:
                    recs.append(json.loads(line))
                except ValueError:
                    pass
        raise HarnessHung(recs)
    if p.returncode != 0:
        raise Broken("harness-run", "harness exited with %d: %s" % (p.returncode, p.stderr[-3000:]))
    out = []
    for line in p.stdout.splitlines():
        line = line.strip()
        if line.startswith("{"):
            out.append(json.loads(line))
    return out


# ---------------------------------------------------------------------------------------------------------------------
# Coq side

FORBIDDEN = re.compile(r"\b(Admitted|admit(?=\s*[.;])|give_up|Axiom|Axioms|Parameter|Parameters|Conjecture|Hypothesis|Variable|bypass_check|Unset\s+Guard|Unset\s+Positivity|Unset\s+Universe|type-in-type|impredicative-set|native_compute)\b")


def strip_comments(text):
    out = []
    depth = 0
    i = 0
    while i < len(text):
        if text.startswith("(*", i):
            depth += 1
            i += 2
        elif text.startswith("*)", i) and depth > 0:
            depth -= 1
            i += 2
        else:
            if depth == 0:
                out.append(text[i])
            i += 1
    return "".join(out)


def audit_sources():
    """Greps the development for anything that would declare an axiom or switch a kernel check off.
    Variables/Hypotheses are allowed inside a Section only (Base.v's AList section)."""
    bad = []
    listed = [l.strip() for l in open(os.path.join(COQ, "_CoqProject")) if l.strip().endswith(".v")]
    on_disk = []
    for root, _, files in os.walk(os.path.join(COQ, "theories")):
        for f in files:
            if f.endswith(".v"):
                on_disk.append(os.path.relpath(os.path.join(root, f), COQ))
    for f in sorted(set(on_disk) - set(listed)):
        bad.append("coq/%s is not listed in _CoqProject (every file under theories/ must be built and audited)" % f)
    for rel in listed:
        if True:
            path = os.path.join(COQ, rel)
            text = strip_comments(open(path).read())
            in_section = 0
            for n, line in enumerate(text.splitlines(), 1):
                if re.match(r"\s*Section\b", line):
                    in_section += 1
                if re.match(r"\s*End\b", line) and in_section:
                    in_section -= 1
                for m in FORBIDDEN.finditer(line):
                    word = m.group(1)
                    if word in ("Variable", "Hypothesis") and in_section:
                        continue
                    bad.append("%s:%d: %s" % (os.path.relpath(path, VERIF), n, line.strip()))
    proj = open(os.path.join(COQ, "_CoqProject")).read()
    for flag in ("-type-in-type", "-impredicative-set", "-vos", "-vok"):
        if flag in proj:
            bad.append("_CoqProject uses " + flag)
    return bad


def coq_make(targets=None, timeout=3000):
    """Full .vo build through coq_makefile (incremental). Returns (ok, log)."""
    mk = os.path.join(COQ, "Makefile")
    proj = os.path.join(COQ, "_CoqProject")
    if not os.path.exists(mk) or os.path.getmtime(mk) < os.path.getmtime(proj):
        subprocess.run(["coq_makefile", "-f", "_CoqProject", "-o", "Makefile"], cwd=COQ, capture_output=True, text=True)
    cmd = ["make", "-j%d" % NPROC]
    if targets:
        cmd += targets
    try:
        p = subprocess.run(cmd, cwd=COQ, capture_output=True, text=True, timeout=timeout)
    except subprocess.TimeoutExpired:
        return False, "make timed out"
    return p.returncode == 0, p.stdout + p.stderr


def coqc_eval(vfile, timeout=900):
    p = subprocess.run(["coqc", "-noglob", "-Q", os.path.join(COQ, "theories"), "CacheD", vfile],
                       capture_output=True, text=True, timeout=timeout, cwd=os.path.dirname(vfile))
    if p.returncode != 0:
        raise Broken("model-eval", "coqc failed on %s:\n%s" % (vfile, (p.stdout + p.stderr)[-4000:]))
    return p.stdout


def parse_coq_values(out):
    """Parses the `= value : type` answers of a sequence of Eval commands into Python values (nested lists of ints)."""
    vals = []
    chunks = re.split(r"^\s*= ", out, flags=re.M)[1:]
    for ch in chunks:
        # cut the trailing type annotation
        idx = ch.rfind("\n     : ")
        if idx < 0:
            idx = ch.rfind(" : ")
        body = ch[:idx]
        body = body.replace("%Z", "").replace("\n", " ")
        body = re.sub(r"\(\s*(-\s*\d+)\s*\)", r"\1", body)
        body = body.replace(";", ",").replace("true", "1").replace("false", "0")
        body = re.sub(r"-\s+(\d)", r"-\1", body)
        vals.append(json.loads(body))
    return vals


def zlit(n):
    n = int(n)
    return str(n) if n >= 0 else "(%d)" % n


def zlist(xs):
    return "[" + "; ".join(zlit(x) for x in xs) + "]"


def sha(obj):
    return hashlib.sha1(json.dumps(obj, sort_keys=True).encode()).hexdigest()[:12]


def print_assumptions(vo_module):
    """Runs `Print Assumptions` for every Theorem of a Props module; returns {theorem: text}."""
    src = os.path.join(COQ, "theories", "Props", vo_module + ".v")
    text = strip_comments(open(src).read())
    thms = re.findall(r"^\s*Theorem\s+(\w+)", text, flags=re.M)
    vfile = os.path.join(TMP, "assume_%s.v" % vo_module)
    with open(vfile, "w") as f:
        f.write("From CacheD.Props Require Import %s.\n" % vo_module)
        for t in thms:
            f.write('Print Assumptions %s.\n' % t)
    out = coqc_eval(vfile)
    res = {}
    parts = re.split(r"(?=Closed under the global context|Axioms:)", out)
    parts = [p for p in parts if p.strip()]
    for t, p in zip(thms, parts):
        res[t] = p.strip()
    return thms, res, out
