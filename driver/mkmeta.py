#!/usr/bin/env python3
"""Writes /verif/seeded/<name>/meta.json for the seeds of one round from the matrix rows (driver/seedmatrix.sh logs).
usage: mkmeta.py <round> <needs.json> <first-pass log> [<after-strengthening log> ...]
needs.json maps seed name -> what the change needs to manifest (one sentence, written after reading the agent's notes)."""
import json
import os
import re
import sys

ROOT = os.path.dirname(os.path.dirname(os.path.abspath(__file__)))
TEXT = {"INPUT": "violation with a failing input as replay",
        "nofi": "violation, no-failing-input-found (the correspondence of a component the theorems rest on broke)"}


def rows(path):
    out = {}
    for line in open(path):
        m = re.match(r"ROW (\S+) (.*)", line.strip())
        if m:
            out.setdefault(m.group(1), {}).update(dict(x.split(":") for x in m.group(2).split()))
    return out


def main():
    rnd, needs = int(sys.argv[1]), json.load(open(sys.argv[2]))
    first = rows(sys.argv[3])
    after = {}
    for p in sys.argv[4:]:
        for name, r in rows(p).items():
            after.setdefault(name, {}).update(r)
    for name, need in needs.items():
        d = os.path.join(ROOT, "seeded", name)
        own = name.split("r")[0]
        conf = [l.strip() for l in open(os.path.join(d, "confirmation.txt")) if l.strip()]
        fp = {k: v for k, v in first.get(name, {}).items() if v != "-"}
        final = dict(first.get(name, {}))
        final.update(after.get(name, {}))
        meta = {
            "name": name, "breaks_property": own, "round": rnd, "needs_to_manifest": need,
            "produced_by": "an independent sub-agent given only the property text, the list of mechanisms already used in earlier rounds, and a scratch worktree of /repo",
            "confirmed_by_me": {"how": "driver/confirm_seed.sh in the scratch worktree: cargo test --offline with the change (whole unedited suite), then the demonstration with and without the change", "results": conf},
            "checks_run": "driver/seedmatrix.sh (every check's quick tier on a scratch worktree with the patch applied; /repo itself untouched); the own property's check re-run after strengthening where the first pass missed it",
            "first_pass": fp if fp else "no check fired",
            "own_check_first_pass": first.get(name, {}).get(own, "not run"),
            "caught_by": {k: TEXT[v] for k, v in sorted(final.items()) if v in TEXT},
            "not_flagged_by": sorted(k for k, v in final.items() if v == "-"),
        }
        json.dump(meta, open(os.path.join(d, "meta.json"), "w"), indent=1)
        print(name, "own:", first.get(name, {}).get(own), "->", final.get(own), "| others:", {k: v for k, v in final.items() if v != "-" and k != own})


if __name__ == "__main__":
    main()
