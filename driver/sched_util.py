"""Python copies of the harness's configurable functions (hash and weight calculation), used by monitors only."""


def key_hash(kind, key):
    if kind == 0:
        return key
    if kind == 1:
        return 7
    if kind == 2:
        return key % 2
    return (key * 0x9E3779B97F4A7C15) % (1 << 64)


def weight_calc(kind, key, value, ttl):
    if kind == 0:
        return 64 if ttl else 40
    return 1 + value % 5 + (24 if ttl else 0)
