"""Schedule correspondence: the same phase-contiguous schedules are run on the real cache (harness) and on the
Coq model (vm_compute inside coqc); the complete observable and internal state is compared after every event."""
import json
import os
import re
import struct
import subprocess
from concurrent.futures import ThreadPoolExecutor
from fractions import Fraction

from common import *

DEFAULT_CFG = dict(max=100, counters=16, cap=16, shards=2, queue=8, pool=1, buffer=2, hash=0, wcalc=1,
                   t0=1000000000000, seeds=[1, 2, 3, 4], clients=3, debug=True, points="window")


def cfg_line(cfg):
    c = dict(DEFAULT_CFG)
    c.update(cfg)
    return ("config max=%d counters=%d cap=%d shards=%d queue=%d pool=%d buffer=%d hash=%d wcalc=%d t0=%d seeds=%s clients=%d points=%s"
            % (c["max"], c["counters"], c["cap"], c["shards"], c["queue"], c["pool"], c["buffer"], c["hash"], c["wcalc"],
               c["t0"], ",".join(str(x) for x in c["seeds"]), c["clients"], c["points"]))


def cfg_coq(cfg):
    c = dict(DEFAULT_CFG)
    c.update(cfg)
    return ("{| c_max := %s; c_counters := %s; c_shards := %s; c_queue := %s; c_pool := %s; c_buffer := %s; c_hash := %s; "
            "c_wcalc := %s; c_seeds := %s; c_t0 := %s; c_debug := %s |}"
            % (zlit(c["max"]), zlit(c["counters"]), zlit(c["shards"]), zlit(c["queue"]), zlit(c["pool"]), zlit(c["buffer"]),
               zlit(c["hash"]), zlit(c["wcalc"]), zlist(c["seeds"]), zlit(c["t0"]), "true" if c["debug"] else "false"))


def write_schedule_file(path, schedules):
    with open(path, "w") as f:
        for s in schedules:
            f.write("case %s\n%s\n" % (s["name"], cfg_line(s["cfg"])))
            for ev in s["events"]:
                f.write(ev + "\n")
            f.write("end\n")


def hung_broken(h, chunk):
    """Which schedule and which event the harness was stuck in: the first schedule without an end record; the event after
    its last record."""
    ended = {r["case"] for r in h.partial if r.get("end")}
    last = {}
    for r in h.partial:
        if not r.get("end"):
            last[r["case"]] = r["i"]
    for sc in chunk:
        if sc["name"] not in ended:
            i = last.get(sc["name"], -1) + 1
            evs = sc["events"][: i + 1]
            return Broken("harness-hung", "the run never finished: event %d ('%s') of schedule %s did not complete and nothing else could proceed (a thread holds a lock or a queue slot another one waits for)"
                          % (i, sc["events"][i] if i < len(sc["events"]) else "<end of schedule / shutdown>", sc["name"]),
                          component="locks", schedule=dict(name=sc["name"], cfg=sc["cfg"], events=evs))
    return Broken("harness-hung", "the run never finished", component="locks")


def run_impl(binary, schedules, tag="sched"):
    """Runs schedules on the real code. Returns {name: [event records]}."""
    ensure_dirs()
    names = [s["name"] for s in schedules]
    assert len(set(names)) == len(names)
    chunks = [schedules[i::NPROC] for i in range(NPROC)]
    chunks = [c for c in chunks if c]
    results = {}

    def one(idx_chunk):
        idx, chunk = idx_chunk
        path = os.path.join(TMP, "%s_%d.txt" % (tag, idx))
        write_schedule_file(path, chunk)
        try:
            return run_harness(binary, ["run", path])
        except HarnessHung as h:
            raise hung_broken(h, chunk)

    with ThreadPoolExecutor(max_workers=NPROC) as ex:
        for recs in ex.map(one, enumerate(chunks)):
            for r in recs:
                if "end" in r:
                    continue
                results.setdefault(r["case"], []).append(r)
    for recs in results.values():
        normalize_iterators(recs)
    return results


def normalize_iterators(recs):
    """A lazy multi_get_iterator kept by a caller (`iter_open` / `iter_open_map`, then one `iter_next` per element) is, element
    by element, a single-key read: the records are rewritten to `get k` / `map_get k` (and `advance 0` for opening it and for a
    `next()` behind the last element), so that the model, the differ and the monitors see what was read when."""
    its = {}
    for r in recs:
        if r["skipped"]:
            continue
        p = r["ev"].split()
        if p[0] != "call" or len(p) < 3:
            continue
        if p[2] in ("iter_open", "iter_open_map"):
            its[p[1]] = ([] if p[3] == "-" else [int(x) for x in p[3].split(",")], p[2] == "iter_open_map")
            r["orig_ev"], r["ev"], r["ret"] = r["ev"], "advance 0", []
        elif p[2] == "iter_next":
            keys, mapped = its.get(p[1], ([], False))
            r["orig_ev"] = r["ev"]
            if keys:
                r["ev"] = "call %s %s %d" % (p[1], "map_get" if mapped else "get", keys.pop(0))
            else:
                r["ev"], r["ret"] = "advance 0", []


def opt(s):
    return "None" if s == "-" else "(Some %s)" % zlit(int(s))


def event_coq(ev, rec):
    """Coq term of one event, with the oracle values the implementation logged."""
    p = ev.split()
    orc = rec["oracle"]
    if p[0] == "call":
        tid, op, a = p[1], p[2], p[3:]
        idx = zlist(orc["pool"])
        if op == "put":
            r = "RPut %s %s" % (zlit(a[0]), zlit(a[1]))
        elif op == "put_w":
            r = "RPutW %s %s %s" % (zlit(a[0]), zlit(a[1]), zlit(a[2]))
        elif op == "put_ttl":
            r = "RPutTTL %s %s %s" % (zlit(a[0]), zlit(a[1]), zlit(a[2]))
        elif op == "put_w_ttl":
            r = "RPutWTTL %s %s %s %s" % (zlit(a[0]), zlit(a[1]), zlit(a[2]), zlit(a[3]))
        elif op == "upsert":
            r = "RUpsert %s %s %s %s %s" % (zlit(a[0]), opt(a[1]), opt(a[2]), opt(a[3]), "true" if a[4] == "1" else "false")
        elif op == "delete":
            r = "RDelete %s" % zlit(a[0])
        elif op in ("get", "get_ref", "map_get", "map_get_ref"):
            r = "%s %s" % ({"get": "RGet", "get_ref": "RGetRef", "map_get": "RMapGet", "map_get_ref": "RMapGetRef"}[op], zlit(a[0]))
        elif op in ("multi_get", "multi_iter", "multi_map_iter"):
            ks = [] if a[0] == "-" else [int(x) for x in a[0].split(",")]
            r = "%s %s" % ({"multi_get": "RMultiGet", "multi_iter": "RMultiIter", "multi_map_iter": "RMultiMapIter"}[op], zlist(ks))
        elif op == "weight_used":
            r = "RWeightUsed"
        elif op == "stats":
            r = "RStats"
        elif op == "shutdown":
            r = "RShutdown"
        else:
            raise ValueError(op)
        return "ECall %s (%s) %s" % (zlit(tid), r, idx)
    if p[0] == "run":
        return "ERun %s" % zlit(p[1])
    if p[0] == "worker":
        bloom = {}
        for h, b in orc["bloom"]:
            if h in bloom and bloom[h] != b:
                raise Broken("oracle-bloom", "inconsistent bloom answers within one worker command", component="tinylfu")
            bloom[h] = b
        bl = "[" + "; ".join("(%s, %s)" % (zlit(h), "true" if b else "false") for h, b in bloom.items()) + "]"
        orders = "[" + "; ".join(zlist(o) for o in orc["orders"]) + "]"
        return "EWorker {| o_orders := %s; o_pops := %s; o_bloom := %s |}" % (orders, zlist(orc["pops"]), bl)
    if p[0] == "sweep":
        return "ESweep"
    if p[0] == "drain":
        return "EDrain [%s]" % "; ".join("true" if b else "false" for _, b in orc["bloom"])
    if p[0] == "advance":
        return "EAdvance %s" % zlit(p[1])
    if p[0] == "poll":
        return "EPoll %s" % zlit(p[1])
    raise ValueError(ev)


def event_coq_w(ev, rec, st):
    """Coq term of one event of a window schedule (Window.wevent); st carries which callers / the worker are in a window."""
    p = ev.split()
    if p[0] == "callp" and p[2] == "upsert":
        a = p[3:]
        if rec["ret"] and rec["ret"][0] == 7:
            st["stepping"].add(p[1])
        return "WUpsert1 %s %s %s %s %s %s" % (zlit(p[1]), zlit(a[0]), opt(a[1]), opt(a[2]), opt(a[3]), "true" if a[4] == "1" else "false")
    if p[0] == "callp":
        return "WBase (%s)" % event_coq("call " + " ".join(p[1:]), rec)
    if p[0] == "run" and p[1] in st["stepping"]:
        st["stepping"].discard(p[1])
        return "WUpsert2 %s" % zlit(p[1])
    if p[0] == "workerp":
        return "WPut1 " + event_coq("worker", rec)[len("EWorker "):]
    if p[0] == "runw":
        return "WPut2"
    return "WBase (%s)" % event_coq(ev, rec)


SPLIT_OPS = ("put", "put_w", "put_ttl", "put_w_ttl", "upsert", "delete", "get", "get_ref", "map_get", "map_get_ref", "shutdown")


def event_coq_m(ev, rec, st):
    """Coq term of one event of a micro schedule (Micro.mevent). st["at"] maps a stepping caller to the label of the schedule
    point it is stopped at (as the implementation reported it)."""
    p = ev.split()
    stopped = rec["ret"] and rec["ret"][0] == 7
    label = rec["ret"][1] if stopped and len(rec["ret"]) > 1 else None
    idx = zlist(rec["oracle"]["pool"])
    if p[0] == "callp":
        call = event_coq("call " + " ".join(p[1:]), rec)          # ECall tid (request) idxs
        if stopped:
            st["at"][p[1]] = label
        return "MEnter " + call[len("ECall "):]
    if p[0] == "run" and p[1] in st["at"]:
        was = st["at"].pop(p[1])
        if stopped:
            st["at"][p[1]] = label
        if was == "upsert.after_store_update":
            return "MWin (WUpsert2 %s)" % zlit(p[1])
        return "MStepC %s %s" % (zlit(p[1]), idx)
    if p[0] == "workerp":
        return "MWorker1 " + event_coq("worker", rec)[len("EWorker "):]
    if p[0] == "runw":
        return "MWorker2"
    return "MWin (WBase (%s))" % event_coq(ev, rec)


def canon_window_event(ev, pending):
    """The event name under which the observation of a window event is canonicalised (a resumed put_or_update returns what
    the call returns)."""
    p = ev.split()
    if p[0] == "callp":
        pending[p[1]] = "call " + " ".join(p[1:])
        return pending[p[1]]
    if p[0] == "run" and p[1] in pending:
        return pending.pop(p[1])
    if p[0] in ("workerp", "runw"):
        return "worker"
    return ev


def run_model(cases, tag="cases", window=False):
    micro = window == "micro"
    """cases: list of (name, cfg, [coq event terms]). Returns {name: [dump per event]} by vm_compute inside coqc."""
    ensure_dirs()
    if not cases:
        return {}
    nshards = min(NPROC, max(1, len(cases) // 4 + 1))
    chunks = [cases[i::nshards] for i in range(nshards)]
    chunks = [c for c in chunks if c]

    def one(idx_chunk):
        idx, chunk = idx_chunk
        vfile = os.path.join(TMP, "%s_%d.v" % (tag, idx))
        with open(vfile, "w") as f:
            f.write("From CacheD Require Import %s.\nOpen Scope Z_scope.\n" % ("Micro" if micro else "Window" if window else "Model"))
            for n, (name, cfg, evs) in enumerate(chunk):
                f.write("Definition cfg_%d : config := %s.\n" % (n, cfg_coq(cfg)))
                f.write("Definition evs_%d : list %s := [\n  %s].\n" % (n, "mevent" if micro else "wevent" if window else "event", ";\n  ".join(evs)))
                if micro:
                    f.write("Eval vm_compute in (mtrace cfg_%d (minit cfg_%d) evs_%d).\n" % (n, n, n))
                elif window:
                    f.write("Eval vm_compute in (wtrace cfg_%d (winit cfg_%d) evs_%d).\n" % (n, n, n))
                else:
                    f.write("Eval vm_compute in (trace cfg_%d (init cfg_%d) evs_%d).\n" % (n, n, n))
        out = coqc_eval(vfile)
        vals = parse_coq_values(out)
        if len(vals) != len(chunk):
            raise Broken("model-eval", "expected %d answers from coqc, got %d" % (len(chunk), len(vals)))
        return [(chunk[i][0], vals[i]) for i in range(len(chunk))]

    res = {}
    with ThreadPoolExecutor(max_workers=NPROC) as ex:
        for pairs in ex.map(one, enumerate(chunks)):
            for name, v in pairs:
                res[name] = v
    return res


# ---------------------------------------------------------------------------------------------------------------------
# canonicalisation and comparison

PANIC_CLASSES = [
    (re.compile(r"must be greater than zero"), "weight"),
    (re.compile(r"value must be specified"), "value-missing"),
    (re.compile(r"overflow when adding duration"), "expiry-overflow"),
    (re.compile(r"attempt to (add|subtract|negate|multiply) with overflow"), "i64-overflow"),
    (re.compile(r"index out of bounds"), "row-index"),
]
MODEL_PANIC = {1: "weight", 2: "value-missing", 3: "weight", 4: "expiry-overflow", 5: "i64-overflow", 6: "row-index"}


def panic_class(msg):
    for rx, cls in PANIC_CLASSES:
        if rx.search(msg):
            return cls
    return "other:" + msg[:80]


def f64_bits(x):
    if x is None:
        return "not-finite"      # the harness prints NaN / infinity as null
    return struct.unpack("<Q", struct.pack("<d", x))[0]


def ratio_bits(num, den):
    if num == 0:
        return f64_bits(0.0)
    return f64_bits(float(num) / float(den))


def canon_impl_ret(ev, rec):
    p = ev.split()
    ret = rec["ret"]
    if p[0] in ("worker", "sweep", "drain", "advance"):
        return None  # background events: the observation is the state
    if not ret:
        return []
    code = ret[0]
    if code == 4:
        return [4, panic_class(ret[1])]
    if p[0] == "call":
        op = p[2]
        if code == 5:
            vals = ret[1:]
            if op in ("get_ref", "hold_ref"):
                vals = vals[:1]
            if op == "multi_get":
                vals = vals[1::2]
            if op == "stats":
                return [5] + vals[:10] + ["ratio", vals[10]]
            return [5] + vals
    return ret


def canon_model_ret(ev, ret):
    p = ev.split()
    if p[0] in ("worker", "sweep", "drain", "advance"):
        if ret and ret[0] in (6, 7):
            return ret
        return None
    if ret and ret[0] == 4:
        return [4, MODEL_PANIC.get(ret[1], "site%d" % ret[1])]
    if p[0] == "call" and p[2] == "stats" and ret and ret[0] == 5:
        return [5] + ret[1:11] + ["ratio", ratio_bits(ret[11], ret[12])]
    return ret


ROLE_IMPL = {"alive": 0, "running": 0, "unknown": 0, "draining": 1, "exited": 2}


def role_impl(s):
    if s.startswith("dead"):
        return 3
    return ROLE_IMPL[s]


def chunks_of(xs, n):
    return [xs[i:i + n] for i in range(0, len(xs), n)]


FIELD_COMPONENT = {
    "ret": "api", "acks": "queue_worker", "store": "store", "weights": "weights", "used": "weights", "ticker": "ticker",
    "stats": "stats", "hit_ratio": "stats.hit_ratio", "queue_len": "queue_worker", "chan_len": "pool", "incs": "tinylfu",
    "next_id": "api", "shut": "api", "worker": "roles", "sweeper": "roles", "consumer": "roles", "now": "time",
    "pool": "pool", "rows": "sketch", "enabled": "queue_worker", "oracle": "admission",
}


def compare_event(cfg, ev, rec, dump):
    """Returns None or (field, model value, impl value)."""
    c = dict(DEFAULT_CFG)
    c.update(cfg)
    snap = rec["snap"]
    ret, acks, store, weights, used, ticker, stats, misc = dump[:8]
    rest = dump[8:]
    pool = rest[:c["pool"]]
    rows = rest[c["pool"]:]
    mret = canon_model_ret(ev, ret)
    iret = canon_impl_ret(ev, rec)
    if mret is not None and mret and mret[0] == 7:
        return ("oracle", mret, rec["oracle"])
    if mret is not None and mret and mret[0] == 6:
        return ("enabled", mret, iret)
    if mret != iret:
        return ("ret", mret, iret)
    macks = [code for _, code in sorted(chunks_of(acks, 2))]
    if macks != rec["acks"]:
        return ("acks", macks, rec["acks"])
    mstore = sorted(chunks_of(store, 5))
    if mstore != snap["store"]:
        return ("store", mstore, snap["store"])
    mweights = sorted(chunks_of(weights, 4))
    if mweights != snap["weights"]:
        return ("weights", mweights, snap["weights"])
    if used[0] != snap["used"]:
        return ("used", used[0], snap["used"])
    mticker = sorted(chunks_of(ticker, 3))
    if mticker != snap["ticker"]:
        return ("ticker", mticker, snap["ticker"])
    if stats[:10] != snap["stats"]:
        return ("stats", stats[:10], snap["stats"])
    if ratio_bits(stats[10], stats[11]) != snap["hit_ratio_bits"]:
        return ("hit_ratio", [stats[10], stats[11]], snap["hit_ratio_bits"])
    qlen, clen, incs, next_id, shut, wrole, srole, crole, now = misc
    iw, isw, ic = role_impl(rec["roles"]["worker"]), role_impl(rec["roles"]["sweeper"]), role_impl(rec["roles"]["consumer"])
    if wrole != iw:
        return ("worker", wrole, rec["roles"]["worker"])
    if srole != isw:
        return ("sweeper", srole, rec["roles"]["sweeper"])
    if crole != ic:
        return ("consumer", crole, rec["roles"]["consumer"])
    if wrole == 0 and qlen != snap["queue_len"]:
        return ("queue_len", qlen, snap["queue_len"])
    if clen != snap["chan_len"]:
        return ("chan_len", clen, snap["chan_len"])
    if incs != snap["incs"]:
        return ("incs", incs, snap["incs"])
    if next_id != snap["next_id"]:
        return ("next_id", next_id, snap["next_id"])
    if shut != snap["shut"]:
        return ("shut", shut, snap["shut"])
    if now != rec["now"]:
        return ("now", now, rec["now"])
    if pool != snap["pool"]:
        return ("pool", pool, snap["pool"])
    if rows != snap["rows"]:
        return ("rows", rows, snap["rows"])
    return None


def correspond(binary, schedules, tag="sched", window=False):
    """Runs every schedule on both sides. Returns (divergences, impl traces, stats).
    A divergence is a dict with the schedule, the event index, the field, the component and both values.
    window=True: schedules with overtaking (callp / workerp / runw), evaluated on the window model (Window.v)."""
    impl = run_impl(binary, schedules, tag)
    cases = []
    kept = {}
    for s in schedules:
        recs = impl.get(s["name"], [])
        if len(recs) != len(s["events"]):
            raise Broken("harness-run", "case %s: %d events in, %d records out" % (s["name"], len(s["events"]), len(recs)), schedule=s)
        evs = []
        pairs = []
        st = dict(stepping=set(), at={})
        pending = {}
        for ev, rec in zip(s["events"], recs):
            if rec["skipped"]:
                continue
            ev = rec.get("ev", ev)
            if window:
                evs.append(event_coq_m(ev, rec, st) if window == "micro" else event_coq_w(ev, rec, st))
                cev = canon_window_event(ev, pending)
                if rec["ret"] and rec["ret"][0] == 7:
                    rec = dict(rec, ret=[9])        # stopped at the schedule point
                    cev = "call 0 point" if ev.split()[0] in ("workerp", "runw") else cev
                pairs.append((cev, rec))
            else:
                evs.append(event_coq(ev, rec))
                pairs.append((ev, rec))
        kept[s["name"]] = pairs
        cases.append((s["name"], s["cfg"], evs))
    model = run_model(cases, tag, window=window)
    divs = []
    for s in schedules:
        pairs = kept[s["name"]]
        dumps = model[s["name"]]
        if len(dumps) != len(pairs):
            raise Broken("model-eval", "case %s: %d events, %d dumps" % (s["name"], len(pairs), len(dumps)))
        for i, ((ev, rec), dump) in enumerate(zip(pairs, dumps)):
            if window and ev == "worker" and dump[0] == [9]:
                d = ("ret", [9], "the worker ran the command to its end")      # the model stops at the point, the code did not
            else:
                d = compare_event(s["cfg"], ev, rec, dump)
            if d is not None:
                divs.append(dict(schedule=s, event_index=rec["i"], event=ev, field=d[0], component=FIELD_COMPONENT.get(d[0], "api"),
                                 model=d[1], impl=d[2]))
                break
    return divs, impl, model


if __name__ == "__main__":
    import sys
    binary, _ = build_harness()
    ok, log = coq_make(["theories/Model.vo"])
    assert ok, log
    # ad-hoc: run a schedule file given in the harness's text format
    text = open(sys.argv[1]).read()
    scheds = []
    cur = None
    for line in text.splitlines():
        p = line.split()
        if not p:
            continue
        if p[0] == "case":
            cur = dict(name=p[1], cfg={}, events=[])
        elif p[0] == "config":
            kv = dict(x.split("=") for x in p[1:])
            cfg = {}
            for k, v in kv.items():
                cfg[k] = [int(x) for x in v.split(",")] if k == "seeds" else int(v)
            cur["cfg"] = cfg
        elif p[0] == "end":
            scheds.append(cur)
        else:
            cur["events"].append(line.strip())
    divs, impl, model = correspond(binary, scheds, "adhoc")
    for d in divs:
        print("DIVERGENCE", d["schedule"]["name"], d["event_index"], d["event"], d["field"], "model=", d["model"], "impl=", d["impl"])
    print("cases", len(scheds), "divergences", len(divs))
