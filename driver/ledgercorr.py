"""Action-level correspondence of the ledger models (Ledger.v, LedgerUpd.v) with the real CacheWeight: the harness mode
`ledger` drives `CacheWeight::add / delete / update / is_space_available_for` from a worker thread and a sweeper thread,
stopping them at the schedule points inside delete and update, one model action at a time; the total and the charges
are compared with the model (LedgerRun.v: gobs / uobs) after every action. The monitors judge the implementation's own
observations: 0 <= total <= cache weight (C01), total = sum of the charges whenever nothing is half-way (C05)."""
import os
import random
from concurrent.futures import ThreadPoolExecutor

from common import *


def gen_g(rng, n):
    """Ledger.v family: worker's put (start, check, insert+add, evictions, give up) against the sweeper's two halves.
    The generator follows the ledger it expects (charges, total, what is half-way) so that most actions are enabled, and
    throws in one arbitrary action in six."""
    cases = []
    for _ in range(n):
        mx = rng.choice([10, 10, 20, 100])
        ids = list(range(1, 9))
        charged, used, wput, pc, spending, evicting = {}, 0, None, "idle", None, None
        toks = []
        for _ in range(rng.randint(14, 44)):
            if rng.random() < 0.16:
                k = rng.choice("SCIEeGRr")
            else:
                enabled = []
                if pc == "idle" and wput is None:
                    enabled += ["S"] * 4
                if pc == "idle" and wput is not None:
                    fits = wput[1] <= mx - used
                    enabled += ["C"] * 4 if fits else (["E"] * 4 if charged else []) + ["C", "G"]
                if pc == "checked":
                    enabled += ["I"] * 4
                if pc == "evicting":
                    enabled += ["e"] * 3
                if spending is not None:
                    enabled += ["r"] * 2
                elif charged:
                    enabled += ["R"]
                k = rng.choice(enabled or ["S"])
            if k == "S":
                i = rng.choice(ids)
                w = rng.choice([1, 2, 3, mx // 3, mx // 2, mx // 2 + 1, mx - 1, mx, mx + 1, rng.randint(1, mx)])
                toks.append("S%d:%d" % (i, max(w, 0)))
                if pc == "idle" and i not in charged and 0 < w <= mx:
                    wput = (i, w)
            elif k == "C":
                toks.append("C")
                if pc == "idle" and wput and wput[1] <= mx - used:
                    pc = "checked"
            elif k == "I":
                toks.append("I")
                if pc == "checked" and wput:
                    charged[wput[0]] = wput[1]; used += wput[1]; wput = None; pc = "idle"
            elif k == "E":
                v = rng.choice(sorted(charged) or ids)
                toks.append("E%d" % v)
                if pc == "idle" and wput and v in charged and not wput[1] <= mx - used:
                    pc = "evicting"; evicting = charged.pop(v)
            elif k == "e":
                toks.append("e")
                if pc == "evicting":
                    pc = "idle"; used -= evicting
            elif k == "G":
                toks.append("G")
                if pc == "idle":
                    wput = None
            elif k == "R":
                v = rng.choice(sorted(charged) or ids)
                toks.append("R%d" % v)
                if spending is None and v in charged:
                    spending = charged.pop(v)
            elif k == "r":
                toks.append("r")
                if spending is not None:
                    used -= spending; spending = None
        cases.append(dict(fam="g", max=mx, init=[], sched=toks))
    return cases


def gen_u(rng, n):
    """LedgerUpd.v family: the worker's update (entry guard held across the point) and deletes against the sweeper's."""
    cases = []
    for _ in range(n):
        k = rng.randint(1, 5)
        init = [(i + 1, rng.choice([1, 5, 7, 20, 60])) for i in range(k)]
        toks = []
        upd = None
        for _ in range(rng.randint(6, 24)):
            r = rng.random()
            i = rng.randint(1, k + 1)
            if upd is not None and r < 0.35:
                toks.append(rng.choice(["R%d" % upd, "R%d" % upd, "u"]))
                if toks[-1] == "u":
                    upd = None
            elif r < 0.3:
                toks.append("U%d:%d" % (i, rng.choice([1, 3, 9, 60, 100])))
                if upd is None:
                    upd = i
            elif r < 0.5:
                toks.append("u"); upd = None
            elif r < 0.65:
                toks.append("R%d" % i)
            elif r < 0.8:
                toks.append("r")
            elif r < 0.9:
                toks.append("W%d" % i)
            else:
                toks.append("w")
        toks += ["u", "r", "w", "r"]
        cases.append(dict(fam="u", max=1000, init=init, sched=toks))
    return cases


G_ACTIONS = {"C": "[ACheck]", "I": "[AInsert; AAdd]", "e": "[AEvictSub]", "G": "[AGiveUp]", "r": "[ASweepSub]"}
U_ACTIONS = {"u": "[UAdd; UStore]", "r": "[SSub]", "w": "[WSub]"}


def coq_group(fam, tok):
    k, arg = tok[0], tok[1:]
    if fam == "g":
        if k == "S":
            a, b = arg.split(":")
            return "[AStart %s %s]" % (zlit(a), zlit(b))
        if k == "E":
            return "[AEvictRemove %s]" % zlit(arg)
        if k == "R":
            return "[ASweepRemove %s]" % zlit(arg)
        return G_ACTIONS[k]
    if k == "U":
        a, b = arg.split(":")
        return "[UStart %s %s]" % (zlit(a), zlit(b))
    if k == "R":
        return "[SRemove %s]" % zlit(arg)
    if k == "W":
        return "[WRemove %s]" % zlit(arg)
    return U_ACTIONS[k]


def run_impl(binary, cases, tag="ledger"):
    chunks = [cases[i::NPROC] for i in range(NPROC)]

    def one(idx_chunk):
        idx, chunk = idx_chunk
        if not chunk:
            return []
        path = os.path.join(TMP, "%s_%d.txt" % (tag, idx))
        with open(path, "w") as f:
            for n, c in enumerate(chunk):
                f.write("case c%d_%d fam=%s max=%d init=%s sched=%s\n" % (idx, n, c["fam"], c["max"], ",".join("%d:%d" % p for p in c["init"]), ",".join(c["sched"])))
        recs = run_harness(binary, ["ledger", path])
        return list(zip(chunk, recs))

    out = []
    with ThreadPoolExecutor(max_workers=NPROC) as ex:
        for pairs in ex.map(one, enumerate(chunks)):
            out += pairs
    return out


def model_tokens(c, rec):
    """The tokens the model is run on, with the index of the observation each belongs to.
    family g: every token (the harness keeps the worker's program order the way Ledger.v's guards do).
    family u: the tokens that were carried out; a removal that had to wait for the entry guard takes place when the update
    lets go (reported by the harness as a late step)."""
    if c["fam"] == "g":
        return [(i, t) for i, t in enumerate(c["sched"][: len(rec["obs"])])]
    late = {i: (t, e) for i, t, e in rec["late"]}
    out = []
    for i, t in enumerate(c["sched"][: len(rec["obs"])]):
        if rec["obs"][i][0] == 1:
            out.append((i, t))
        if i in late and late[i][1] == 1:
            out.append((i, late[i][0]))
    return out


def run_model(pairs, tag="ledgerm"):
    ok, log = coq_make(["theories/LedgerRun.vo"])
    if not ok:
        raise Broken("model-build", log[-3000:])
    chunks = [pairs[i::NPROC] for i in range(NPROC)]

    def one(idx_chunk):
        idx, chunk = idx_chunk
        if not chunk:
            return []
        vfile = os.path.join(TMP, "%s_%d.v" % (tag, idx))
        with open(vfile, "w") as f:
            f.write("From CacheD Require Import Base Ledger LedgerUpd LedgerRun.\nOpen Scope Z_scope.\n")
            f.write("Eval vm_compute in [\n")
            lines = []
            for c, rec in chunk:
                groups = "[" + "; ".join(coq_group(c["fam"], t) for _, t in c["mtoks"]) + "]"
                if c["fam"] == "g":
                    lines.append("gobs %d %s" % (c["max"], groups))
                else:
                    lines.append("uobs [%s] %s" % ("; ".join("(%d, %d)" % p for p in c["init"]), groups))
            f.write(";\n".join(lines))
            f.write("].\n")
        v = parse_coq_values(coqc_eval(vfile))
        return list(zip(chunk, v[0]))

    out = []
    with ThreadPoolExecutor(max_workers=NPROC) as ex:
        for res in ex.map(one, enumerate(chunks)):
            out += res
    return out


def pairs_of(flat):
    return sorted([flat[i], flat[i + 1]] for i in range(0, len(flat), 2))


def compare(binary, cases, tag="ledger"):
    impl = run_impl(binary, cases, tag)
    stats = dict(cases=len(cases), actions=0, carried_out=0, by_token={}, waited_for_entry_guard=0, same_shard_artefacts=0, observations_compared=0)
    divs, fails = [], []
    usable = []
    for c, rec in impl:
        obs = rec["obs"]
        # a removal of another id that waited although the model lets it go: both ids live in one DashMap shard (the guard
        # is the shard's lock) - an artefact of the real map's layout the model does not have: the case ends there
        cut = len(obs)
        upd = None
        for i, (e, used, ch, pcc, swp) in enumerate(obs):
            t = c["sched"][i]
            if c["fam"] == "u":
                if t[0] == "U" and e == 1 and ch is None:
                    upd = int(t[1:].split(":")[0])
                if t[0] == "u" and e == 1:
                    upd = None
                if t[0] == "R" and e == 2:
                    if upd is not None and int(t[1:]) != upd:
                        stats["same_shard_artefacts"] += 1
                        cut = i
                        break
                    stats["waited_for_entry_guard"] += 1
            if e == 9:
                fails.append(dict(signature="ledger-step-stuck", what="the ledger action '%s' did not come back within 10 s (a thread stayed blocked inside CacheWeight)" % t, case=dict(c, sched=c["sched"][: i + 1]), impl=obs[: i + 1]))
                cut = i
                break
        rec = dict(rec, obs=obs[:cut])
        c["cut"] = cut
        c["mtoks"] = [(i, t) for i, t in model_tokens(c, rec) if i < cut]
        for i, (e, used, ch, pcc, swp) in enumerate(rec["obs"]):
            t = c["sched"][i]
            stats["actions"] += 1
            if e == 1:
                stats["carried_out"] += 1
                stats["by_token"][t[0]] = stats["by_token"].get(t[0], 0) + 1
        usable.append((c, rec))
        # monitors on the implementation's own observations
        for i, (e, used, ch, pcc, swp) in enumerate(rec["obs"]):
            t = c["sched"][i]
            quiet = pcc in (0, 1) and not swp
            if c["fam"] == "g" and not (0 <= used <= c["max"]):
                fails.append(dict(signature="ledger-total-out-of-bounds", no_shrink=True, case=dict(c, sched=c["sched"][: i + 1]), impl=rec["obs"][: i + 1],
                                  what="CacheWeight driven one action at a time (worker's check / add / evictions, sweeper's removals): after '%s' the total is %d, cache weight %d" % (t, used, c["max"])))
                break
            if ch is not None and quiet and used != sum(w for _, w in ch):
                fails.append(dict(signature="ledger-total-differs-from-charges", no_shrink=True, case=dict(c, sched=c["sched"][: i + 1]), impl=rec["obs"][: i + 1],
                                  what="CacheWeight driven one action at a time: after '%s' nothing is half-way, the charges are %s (sum %d) and the total is %d" % (t, ch, sum(w for _, w in ch), used)))
                break
    model = run_model(usable, tag + "m")
    for (c, rec), mobs in model:
        if len(mobs) != len(c["mtoks"]):
            divs.append(dict(kind="ledger", component="weights", field="trace length", schedule=c, model=len(mobs), impl=len(c["mtoks"])))
            continue
        # the model state after the last model token of observation i is compared with observation i
        last = {}
        for n, (i, t) in enumerate(c["mtoks"]):
            last[i] = n
        cur = None
        for i, (e, used, ch, pcc, swp) in enumerate(rec["obs"]):
            if i in last:
                cur = mobs[last[i]]
            if cur is None:
                m_used, m_ch = (0, []) if c["fam"] == "g" else (sum(w for _, w in c["init"]), sorted(list(p) for p in c["init"]))
            else:
                m_used, m_ch = cur[0], pairs_of(cur[3:] if c["fam"] == "g" else cur[4:])
            stats["observations_compared"] += 1
            if used != m_used or (ch is not None and sorted(ch) != m_ch):
                divs.append(dict(kind="ledger", component="weights", field="total / charges after '%s' (action %d)" % (c["sched"][i], i),
                                 schedule=dict(fam=c["fam"], max=c["max"], init=c["init"], sched=c["sched"][: i + 1]),
                                 model=dict(total=m_used, charges=m_ch), impl=dict(carried_out=e, total=used, charges=ch)))
                break
            if c["fam"] == "g" and cur is not None and (cur[1] != pcc or (cur[2] >= 0) != swp):
                divs.append(dict(kind="ledger", component="weights", field="which actions are enabled: worker pc / sweeper half-way after '%s' (action %d)" % (c["sched"][i], i),
                                 schedule=dict(fam=c["fam"], max=c["max"], init=c["init"], sched=c["sched"][: i + 1]),
                                 model=dict(pc=cur[1], sweeper_pending=cur[2]), impl=dict(carried_out=e, pc=pcc, sweeper_half_way=swp)))
                break
    return divs, fails, stats
