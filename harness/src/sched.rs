//! Phase-contiguous schedules on a real CacheD<u64, u64>.
//!
//! The three background threads are held at their gates and released one unit of work at a time; client calls run
//! on registered client threads, which park in front of a blocking send when the queue is full. After every event
//! the complete internal state is dumped.
use std::collections::HashMap;
use std::fs;
use std::future::Future;
use std::panic::{self, AssertUnwindSafe};
use std::pin::Pin;
use std::sync::atomic::{AtomicU64, Ordering};
use std::sync::mpsc;
use std::sync::{Arc, Mutex};
use std::task::{Context, Poll, RawWaker, RawWakerVTable, Waker};
use std::thread;
use std::time::{Duration, SystemTime, UNIX_EPOCH};

use tinylfu_cached::cache::cached::CacheD;
use tinylfu_cached::cache::clock::Clock;
use tinylfu_cached::cache::command::acknowledgement::CommandAcknowledgement;
use tinylfu_cached::cache::command::{CommandStatus, RejectionReason};
use tinylfu_cached::cache::config::ConfigBuilder;
use tinylfu_cached::cache::put_or_update::PutOrUpdateRequestBuilder;
use tinylfu_cached::cache::stats::StatsType;
use tinylfu_cached::cache::verif::{ClientState, Controller, Oracle, Role, RoleState, Snapshot};

use crate::json::J;

const STEP_TIMEOUT: Duration = Duration::from_secs(20);
/// schedule points at which the stopped thread holds a lock (atomicity probes): no snapshot can be taken meanwhile
const LOCK_POINTS: [&str; 6] = ["weight.update.mid", "weight.delete.mid", "sweep.entry", "store.update.mid", "pool.add.mid", "lfu.batch.mid"];

#[derive(Clone)]
pub struct MockClock(pub Arc<AtomicU64>);

impl Clock for MockClock {
    fn now(&self) -> SystemTime { UNIX_EPOCH + Duration::from_nanos(self.0.load(Ordering::SeqCst)) }
}

fn noop_waker() -> Waker {
    fn clone(_: *const ()) -> RawWaker { RawWaker::new(std::ptr::null(), &VTABLE) }
    fn noop(_: *const ()) {}
    static VTABLE: RawWakerVTable = RawWakerVTable::new(clone, noop, noop, noop);
    unsafe { Waker::from_raw(RawWaker::new(std::ptr::null(), &VTABLE)) }
}

pub fn status_code(status: CommandStatus) -> i128 {
    match status {
        CommandStatus::Pending => 0,
        CommandStatus::Accepted => 1,
        CommandStatus::Rejected(RejectionReason::EnoughSpaceIsNotAvailableAndKeyFailedToEvictOthers) => 2,
        CommandStatus::Rejected(RejectionReason::KeyWeightIsGreaterThanCacheWeight) => 3,
        CommandStatus::Rejected(RejectionReason::KeyDoesNotExist) => 4,
        CommandStatus::Rejected(RejectionReason::KeyAlreadyExists) => 5,
        CommandStatus::ShuttingDown => 6,
        _ => 99,
    }
}

/// One poll of an acknowledgement: None = Poll::Pending, Some(code) = Ready(status)
pub fn poll_ack(ack: &Arc<CommandAcknowledgement>) -> Option<i128> {
    let waker = noop_waker();
    let mut cx = Context::from_waker(&waker);
    let mut handle = ack.handle();
    match Pin::new(&mut handle).poll(&mut cx) {
        Poll::Pending => None,
        Poll::Ready(status) => Some(status_code(status)),
    }
}

#[derive(Clone, Debug)]
struct Cfg {
    max: i64, counters: u64, cap: usize, shards: usize, queue: usize, pool: usize, buffer: usize,
    hash: u8, wcalc: u8, t0: u64, seeds: [u64; 4], clients: usize,
    /// which schedule points stop a thread in point-stepping mode: "window" (the two windows of Window.v and the end of the
    /// shutdown drain) or "micro" (every point of Micro.v as well)
    points: String,
}

fn parse_kv(parts: &[&str]) -> HashMap<String, String> {
    parts.iter().filter_map(|p| p.split_once('=')).map(|(k, v)| (k.to_string(), v.to_string())).collect()
}

fn parse_cfg(parts: &[&str]) -> Cfg {
    let kv = parse_kv(parts);
    let g = |k: &str, d: &str| kv.get(k).cloned().unwrap_or(d.to_string());
    let seeds: Vec<u64> = g("seeds", "1,2,3,4").split(',').map(|s| s.parse().unwrap()).collect();
    Cfg {
        max: g("max", "100").parse().unwrap(), counters: g("counters", "16").parse().unwrap(),
        cap: g("cap", "16").parse().unwrap(), shards: g("shards", "2").parse().unwrap(),
        queue: g("queue", "8").parse().unwrap(), pool: g("pool", "1").parse().unwrap(),
        buffer: g("buffer", "2").parse().unwrap(), hash: g("hash", "0").parse().unwrap(),
        wcalc: g("wcalc", "0").parse().unwrap(), t0: g("t0", "1000000000000").parse().unwrap(),
        seeds: [seeds[0], seeds[1], seeds[2], seeds[3]], clients: g("clients", "3").parse().unwrap(),
        points: g("points", "window"),
    }
}

pub fn key_hash(kind: u8, key: u64) -> u64 {
    match kind {
        0 => key,
        1 => 7,
        2 => key % 2,
        _ => key.wrapping_mul(0x9E3779B97F4A7C15),
    }
}

/// weight calculation: 0 = the crate's default (size based: 40 / 64 with TTL), 1 = small table 1 + v mod 5 (+24 with TTL)
pub fn weight_calc(kind: u8, _key: u64, value: u64, ttl: bool) -> i64 {
    match kind {
        0 => if ttl { 64 } else { 40 },
        _ => 1 + (value % 5) as i64 + if ttl { 24 } else { 0 },
    }
}

enum Ret {
    Write(Result<Arc<CommandAcknowledgement>, ()>),
    Ints(Vec<i128>),
    Panic(String),
}

type JobFn = Box<dyn FnOnce(&CacheD<u64, u64>) -> Ret + Send>;

/// what a client thread is asked to do: an API call, or keep / drop a `get_ref` reference guard (which keeps the store
/// shard of its key read-locked, as a caller of the real API can)
enum Job {
    Call(JobFn),
    HoldRef(u64),
    ReleaseRef,
    /// a lazy multi_get_iterator (or its mapping variant) is created and kept by the client thread; every `iter_next` takes one
    /// element from it, so writes by other callers (or by this one) fall between two `next()` calls
    IterOpen(Vec<u64>, bool),
    IterNext,
}

struct Client {
    tx: mpsc::Sender<Option<Job>>,
    results: Arc<Mutex<Vec<Ret>>>,
    handle: Option<thread::JoinHandle<()>>,
}

fn dur_from_ns(ns: u128) -> Duration {
    Duration::new((ns / 1_000_000_000) as u64, (ns % 1_000_000_000) as u32)
}

fn parse_opt_u128(s: &str) -> Option<u128> { if s == "-" { None } else { Some(s.parse().unwrap()) } }

fn build_job(parts: &[&str]) -> JobFn {
    let op = parts[0].to_string();
    let args: Vec<String> = parts[1..].iter().map(|s| s.to_string()).collect();
    Box::new(move |cache: &CacheD<u64, u64>| {
        let a = |i: usize| -> u128 { args[i].parse().unwrap() };
        let keys = |i: usize| -> Vec<u64> { if args[i] == "-" { vec![] } else { args[i].split(',').map(|s| s.parse().unwrap()).collect() } };
        match op.as_str() {
            "put" => Ret::Write(cache.put(a(0) as u64, a(1) as u64).map_err(|_| ())),
            "put_w" => Ret::Write(cache.put_with_weight(a(0) as u64, a(1) as u64, args[2].parse::<i64>().unwrap()).map_err(|_| ())),
            "put_ttl" => Ret::Write(cache.put_with_ttl(a(0) as u64, a(1) as u64, dur_from_ns(a(2))).map_err(|_| ())),
            "put_w_ttl" => Ret::Write(cache.put_with_weight_and_ttl(a(0) as u64, a(1) as u64, args[2].parse::<i64>().unwrap(), dur_from_ns(a(3))).map_err(|_| ())),
            "upsert" => {
                let mut builder = PutOrUpdateRequestBuilder::new(a(0) as u64);
                if let Some(v) = parse_opt_u128(&args[1]) { builder = builder.value(v as u64); }
                if args[2] != "-" { builder = builder.weight(args[2].parse::<i64>().unwrap()); }
                if let Some(t) = parse_opt_u128(&args[3]) { builder = builder.time_to_live(dur_from_ns(t)); }
                if args[4] == "1" { builder = builder.remove_time_to_live(); }
                Ret::Write(cache.put_or_update(builder.build()).map_err(|_| ()))
            }
            "delete" => Ret::Write(cache.delete(a(0) as u64).map_err(|_| ())),
            "get" => Ret::Ints(cache.get(&(a(0) as u64)).map(|v| vec![v as i128]).unwrap_or_default()),
            "get_ref" => {
                let key = a(0) as u64;
                let r = cache.get_ref(&key);
                Ret::Ints(match r {
                    None => vec![],
                    Some(kv) => {
                        let sv = kv.value();
                        vec![*sv.value_ref() as i128, *kv.key() as i128]
                    }
                })
            }
            "map_get" => Ret::Ints(cache.map_get(&(a(0) as u64), |v| v as i128 * 2 + 1).map(|v| vec![v]).unwrap_or_default()),
            "map_get_ref" => Ret::Ints(cache.map_get_ref(&(a(0) as u64), |sv| *sv.value_ref() as i128 * 2 + 1).map(|v| vec![v]).unwrap_or_default()),
            "multi_get" => {
                let ks = keys(0);
                let refs: Vec<&u64> = ks.iter().collect();
                let m = cache.multi_get(refs);
                let mut out: Vec<(u64, i128)> = m.into_iter().map(|(k, v)| (*k, v.map(|x| x as i128).unwrap_or(-1))).collect();
                out.sort();
                Ret::Ints(out.into_iter().flat_map(|(k, v)| vec![k as i128, v]).collect())
            }
            "multi_iter" => {
                let ks = keys(0);
                let refs: Vec<&u64> = ks.iter().collect();
                Ret::Ints(cache.multi_get_iterator(refs).map(|v| v.map(|x| x as i128).unwrap_or(-1)).collect())
            }
            "multi_map_iter" => {
                let ks = keys(0);
                let refs: Vec<&u64> = ks.iter().collect();
                Ret::Ints(cache.multi_get_map_iterator(refs, |v| v as i128 * 2 + 1).map(|v| v.unwrap_or(-1)).collect())
            }
            "weight_used" => Ret::Ints(vec![cache.total_weight_used() as i128]),
            "stats" => {
                let s = cache.stats_summary();
                let order = [StatsType::CacheHits, StatsType::CacheMisses, StatsType::KeysAdded, StatsType::KeysDeleted, StatsType::KeysUpdated,
                    StatsType::KeysRejected, StatsType::WeightAdded, StatsType::WeightRemoved, StatsType::AccessAdded, StatsType::AccessDropped];
                let mut out: Vec<i128> = order.iter().map(|t| s.get(t).unwrap() as i128).collect();
                // the ratio is reported as its f64 bit pattern; the driver compares it with the correctly rounded quotient
                out.push(s.hit_ratio.to_bits() as i128);
                Ret::Ints(out)
            }
            "shutdown" => { cache.shutdown(); Ret::Ints(vec![]) }
            other => panic!("unknown op {}", other),
        }
    })
}

fn spawn_client(tid: usize, ctl: Arc<Controller>, cache: Arc<CacheD<u64, u64>>) -> Client {
    let (tx, rx) = mpsc::channel::<Option<Job>>();
    let results: Arc<Mutex<Vec<Ret>>> = Arc::new(Mutex::new(Vec::new()));
    let results_clone = results.clone();
    let handle = thread::spawn(move || {
        ctl.register_client(tid);
        let cache_ref: &CacheD<u64, u64> = &cache;
        let mut held = None;
        let mut iter_plain: Option<tinylfu_cached::cache::cached::MultiGetIterator<'_, u64, u64>> = None;
        let mut iter_mapped: Option<Box<dyn Iterator<Item = Option<i128>> + '_>> = None;
        while let Ok(Some(job)) = rx.recv() {
            let outcome = panic::catch_unwind(AssertUnwindSafe(|| match job {
                Job::Call(f) => f(cache_ref),
                Job::HoldRef(key) => {
                    let guard = cache_ref.get_ref(&key);
                    let ret = Ret::Ints(guard.as_ref().map(|kv| vec![*kv.value().value_ref() as i128, *kv.key() as i128]).unwrap_or_default());
                    held = guard;
                    ret
                }
                Job::ReleaseRef => { held = None; Ret::Ints(vec![]) }
                Job::IterOpen(keys, mapped) => {
                    // the keys must outlive the iterator: they are leaked (a few words per schedule)
                    let owned: &'static Vec<u64> = Box::leak(Box::new(keys));
                    let refs: Vec<&u64> = owned.iter().collect();
                    if mapped {
                        iter_plain = None;
                        iter_mapped = Some(Box::new(cache_ref.multi_get_map_iterator(refs, |v| v as i128 * 2 + 1)));
                    } else {
                        iter_mapped = None;
                        iter_plain = Some(cache_ref.multi_get_iterator(refs));
                    }
                    Ret::Ints(vec![])
                }
                Job::IterNext => {
                    let item: Option<Option<i128>> = if let Some(it) = iter_plain.as_mut() { it.next().map(|v| v.map(|x| x as i128)) }
                        else if let Some(it) = iter_mapped.as_mut() { it.next() } else { None };
                    match item { Some(Some(v)) => Ret::Ints(vec![v]), _ => Ret::Ints(vec![]) }
                }
            }));
            let ret = match outcome {
                Ok(ret) => ret,
                Err(payload) => {
                    let msg = if let Some(s) = payload.downcast_ref::<&str>() { s.to_string() }
                    else if let Some(s) = payload.downcast_ref::<String>() { s.clone() } else { "panic".to_string() };
                    Ret::Panic(msg)
                }
            };
            results_clone.lock().unwrap().push(ret);
            ctl.set_client_state(tid, ClientState::Idle);
        }
    });
    Client { tx, results, handle: Some(handle) }
}

fn role_str(state: &RoleState) -> J {
    match state {
        RoleState::Unknown => J::s("unknown"),
        RoleState::AtGate => J::s("alive"),
        RoleState::Running => J::s("running"),
        RoleState::Draining => J::s("draining"),
        RoleState::Exited => J::s("exited"),
        RoleState::Dead(msg) => J::S(format!("dead:{}", msg)),
    }
}

pub fn snapshot_json(s: &Snapshot, consumer_gone: bool) -> J {
    J::obj(vec![
        ("store", J::A(s.store.iter().map(|(k, v, id, exp, soft)| J::A(vec![
            J::I(*k as i128), J::I(*v as i128), J::I(*id as i128), exp.map(|e| J::I(e as i128)).unwrap_or(J::I(-1)), J::I(*soft as i128)])).collect())),
        ("weights", J::A(s.weights.iter().map(|(id, k, h, w)| J::A(vec![J::I(*id as i128), J::I(*k as i128), J::I(*h as i128), J::I(*w as i128)])).collect())),
        ("used", J::I(s.weight_used as i128)),
        ("ticker", J::A(s.ticker.iter().map(|(sh, id, e)| J::A(vec![J::I(*sh as i128), J::I(*id as i128), J::I(*e as i128)])).collect())),
        ("stats", J::A(s.stats.iter().map(|x| J::I(*x as i128)).collect())),
        ("hit_ratio_bits", J::I(s.hit_ratio.to_bits() as i128)),
        ("queue_len", J::I(s.queue_len as i128)),
        ("pool", J::A(s.pool.iter().map(|b| J::u64s(b)).collect())),
        ("chan_len", J::I(if consumer_gone { 0 } else { s.chan_len as i128 })),
        ("rows", J::A(s.rows.iter().map(|r| J::u8s(r)).collect())),
        ("incs", J::I(s.total_increments as i128)),
        ("next_id", J::I(s.next_id as i128)),
        ("shut", J::I(s.is_shutting_down as i128)),
    ])
}

fn oracle_json(entries: Vec<Oracle>) -> J {
    let mut orders = Vec::new();
    let mut pops = Vec::new();
    let mut pool = Vec::new();
    let mut bloom = Vec::new();
    for e in entries {
        match e {
            Oracle::Order(ids) => orders.push(J::u64s(&ids)),
            Oracle::Pop(id) => pops.push(J::I(id.map(|x| x as i128).unwrap_or(-1))),
            Oracle::PoolIndex(i) => pool.push(J::I(i as i128)),
            Oracle::Bloom(h, b) => bloom.push(J::A(vec![J::I(h as i128), J::I(b as i128)])),
        }
    }
    J::obj(vec![("orders", J::A(orders)), ("pops", J::A(pops)), ("pool", J::A(pool)), ("bloom", J::A(bloom))])
}

struct Case {
    name: String,
    cfg: Cfg,
    ctl: Arc<Controller>,
    cache: Arc<CacheD<u64, u64>>,
    clock: Arc<AtomicU64>,
    clients: Vec<Client>,
    acks: Vec<Arc<CommandAcknowledgement>>,
    consumed: Vec<usize>,
    index: usize,
    guards_held: usize,
    stepping_clients: Vec<usize>,
    worker_at_point: bool,
    client_job: Vec<String>,
    sweeper_at_point: bool,
    sweeper_stepping: bool,
    sweeps_before: u64,
    last_snap: Option<Snapshot>,
}

impl Case {
    fn new(name: &str, cfg: Cfg) -> Case {
        let ctl = Controller::new();
        let clock = Arc::new(AtomicU64::new(cfg.t0));
        let (hash_kind, wcalc_kind) = (cfg.hash, cfg.wcalc);
        let config = ConfigBuilder::new(cfg.counters, cfg.cap, cfg.max)
            .shards(cfg.shards)
            .command_buffer_size(cfg.queue)
            .access_pool_size(cfg.pool)
            .access_buffer_size(cfg.buffer)
            .clock(Box::new(MockClock(clock.clone())))
            .key_hash_fn(Box::new(move |k: &u64| key_hash(hash_kind, *k)))
            .weight_calculation_fn(Box::new(move |k: &u64, v: &u64, ttl| weight_calc(wcalc_kind, *k, *v, ttl)))
            .build();
        ctl.install();
        let cache = Arc::new(CacheD::new(config));
        Controller::uninstall();
        cache.verif_set_seeds(cfg.seeds);
        ctl.wait_at_gate(Role::Worker, STEP_TIMEOUT);
        ctl.wait_at_gate(Role::Consumer, STEP_TIMEOUT);
        let clients = (0..cfg.clients).map(|tid| spawn_client(tid, ctl.clone(), cache.clone())).collect::<Vec<_>>();
        for tid in 0..cfg.clients {
            let deadline = std::time::Instant::now() + STEP_TIMEOUT;
            while ctl.role_state(Role::Client(tid)) != RoleState::Running && std::time::Instant::now() < deadline {
                thread::sleep(Duration::from_micros(50));
            }
        }
        let consumed = vec![0; cfg.clients];
        let ncl = cfg.clients;
        let _ = ctl.take_oracle();
        Case { name: name.to_string(), cfg, ctl, cache, clock, clients, acks: Vec::new(), consumed, index: 0, guards_held: 0, stepping_clients: Vec::new(), worker_at_point: false, client_job: vec![String::new(); ncl], sweeper_at_point: false, sweeper_stepping: false, sweeps_before: 0, last_snap: None }
    }

    /// does a thread in point-stepping mode stop at this schedule point (in this case's mode, for this job)?
    fn interesting(&self, label: &str, job: &str) -> bool {
        let window = matches!(label, "upsert.after_store_update" | "worker.put_ttl.after_store_insert" | "worker.drain.end");
        if window { return true; }
        if self.cfg.points == "probe" && LOCK_POINTS.contains(&label) { return true; }
        if self.cfg.points != "micro" && self.cfg.points != "probe" { return false; }
        match label {
            "call.entered" | "put.checked" | "delete.marked" | "read.hit" => true,
            "send.enter" => matches!(job, "put" | "put_w" | "put_ttl" | "put_w_ttl"),
            "worker.delete.after_store" | "worker.delete.after_weight" | "worker.put.after_admission" => true,
            l if l.starts_with("shutdown.") => true,
            _ => false,
        }
    }

    /// how long an event may take before it is reported as still running ([8]): in probe schedules a thread is stopped while it
    /// holds a lock, so other threads are expected to block on it
    fn step_timeout(&self) -> Duration {
        if self.cfg.points == "probe" { Duration::from_millis(800) } else { STEP_TIMEOUT }
    }

    /// probe schedules only: a thread that had not reached its schedule point within the step timeout when it was started
    /// (a loaded machine) may have arrived since, or be about to
    fn late_arrival(&self, role: Role) -> bool {
        if self.cfg.points != "probe" { return false; }
        let in_progress = |c: &Case| match role {
            Role::Sweeper => c.ctl.sweeps_done() <= c.sweeps_before && !matches!(c.ctl.role_state(Role::Sweeper), RoleState::Dead(_) | RoleState::Exited),
            _ => matches!(c.ctl.role_state(role), RoleState::Running),
        };
        if !in_progress(self) && self.ctl.at_point(role).is_none() { return false; }
        let deadline = std::time::Instant::now() + Duration::from_secs(3);
        while std::time::Instant::now() < deadline {
            if let Some(label) = self.ctl.at_point(role) { if self.interesting(label, "") { return true; } self.ctl.step_point(role); }
            if !in_progress(self) { return false; }
            thread::sleep(Duration::from_micros(200));
        }
        false
    }

    /// waits until the sweeper is stopped at a schedule point, has finished its sweep, or the time is up
    fn wait_sweeper_point(&mut self) -> J {
        let deadline = std::time::Instant::now() + self.step_timeout();
        loop {
            if let Some(label) = self.ctl.at_point(Role::Sweeper) {
                if !self.interesting(label, "") { self.ctl.step_point(Role::Sweeper); thread::sleep(Duration::from_micros(20)); continue; }
                self.sweeper_at_point = true;
                return J::A(vec![J::I(7), J::S(label.to_string())]);
            }
            if self.ctl.sweeps_done() > self.sweeps_before || matches!(self.ctl.role_state(Role::Sweeper), RoleState::Dead(_) | RoleState::Exited) {
                self.sweeper_at_point = false;
                self.ctl.set_stepping(Role::Sweeper, false);
                return J::A(vec![]);
            }
            if std::time::Instant::now() >= deadline { self.sweeper_at_point = false; return J::A(vec![J::I(8)]); }
            thread::sleep(Duration::from_micros(50));
        }
    }

    fn wait_consumer_point(&mut self, timeout: Duration) -> J {
        let deadline = std::time::Instant::now() + timeout;
        loop {
            if let Some(label) = self.ctl.at_point(Role::Consumer) {
                if !self.interesting(label, "") { self.ctl.step_point(Role::Consumer); thread::sleep(Duration::from_micros(20)); continue; }
                return J::A(vec![J::I(7), J::S(label.to_string())]);
            }
            match self.ctl.role_state(Role::Consumer) {
                RoleState::AtGate | RoleState::Dead(_) | RoleState::Exited => { self.ctl.set_stepping(Role::Consumer, false); return J::A(vec![]); }
                _ => {}
            }
            if std::time::Instant::now() >= deadline { return J::A(vec![J::I(8)]); }
            thread::sleep(Duration::from_micros(50));
        }
    }

    fn collect_client(&mut self, tid: usize) -> J {
        // the client is Idle (finished), blocked, or still running (timeout)
        // a client in point-stepping mode may stop at a schedule point inside its call
        if self.stepping_clients.contains(&tid) {
            let deadline = std::time::Instant::now() + STEP_TIMEOUT;
            while std::time::Instant::now() < deadline {
                if let Some(label) = self.ctl.at_point(Role::Client(tid)) {
                    if !self.interesting(label, &self.client_job[tid]) {
                        self.ctl.step_point(Role::Client(tid));
                        let d2 = std::time::Instant::now() + Duration::from_millis(200);
                        while self.ctl.at_point(Role::Client(tid)) == Some(label) && std::time::Instant::now() < d2 { thread::sleep(Duration::from_micros(20)); }
                        continue;
                    }
                    return J::A(vec![J::I(7), J::S(label.to_string())]);
                }
                if self.ctl.client_state(tid) != ClientState::Running { break; }
                thread::sleep(Duration::from_micros(50));
            }
            self.ctl.set_stepping(Role::Client(tid), false);
            self.stepping_clients.retain(|t| *t != tid);
        }
        // while some client keeps a reference guard a call may legitimately block on that shard: do not wait long
        let state = self.ctl.wait_client(tid, if self.guards_held > 0 { Duration::from_millis(250) } else { self.step_timeout() });
        match state {
            ClientState::Idle => {
                let mut results = self.clients[tid].results.lock().unwrap();
                if results.len() <= self.consumed[tid] { return J::A(vec![J::I(9)]); }
                let idx = self.consumed[tid];
                self.consumed[tid] += 1;
                let ret = std::mem::replace(&mut results[idx], Ret::Ints(vec![]));
                drop(results);
                match ret {
                    Ret::Write(Err(())) => J::A(vec![J::I(2)]),
                    Ret::Write(Ok(ack)) => {
                        match poll_ack(&ack) {
                            Some(code) if self.ctl.role_state(Role::Worker) != RoleState::Draining => J::A(vec![J::I(1), J::I(code)]),
                            _ => {
                                self.acks.push(ack);
                                J::A(vec![J::I(0), J::I(self.acks.len() as i128 - 1)])
                            }
                        }
                    }
                    Ret::Ints(v) => { let mut out = vec![J::I(5)]; out.extend(v.into_iter().map(J::I)); J::A(out) }
                    Ret::Panic(msg) => J::A(vec![J::I(4), J::S(msg)]),
                }
            }
            ClientState::BlockedAtSend(which) => J::A(vec![J::I(3), J::I(which as i128)]),
            ClientState::Running => J::A(vec![J::I(8)]),
            ClientState::AtPoint(_) => J::A(vec![J::I(7)]),
        }
    }

    /// waits until the worker is back at its gate (command finished) or stopped at a point of interest; points inside
    /// the acknowledgement are stepped through
    fn wait_worker_point(&mut self) -> J {
        let deadline = std::time::Instant::now() + self.step_timeout();
        let mut drain_grace = false;
        loop {
            if let Some(label) = self.ctl.at_point(Role::Worker) {
                if label.starts_with("ack.") || !self.interesting(label, "") { self.ctl.step_point(Role::Worker); thread::sleep(Duration::from_micros(20)); continue; }
                self.worker_at_point = true;
                return J::A(vec![J::I(7), J::S(label.to_string())]);
            }
            match self.ctl.role_state(Role::Worker) {
                RoleState::Draining if !drain_grace => {
                    // the drain loop may end (it does not while the cache lives, in the code as it stands): give the
                    // worker a moment to reach the point behind the loop before concluding that it keeps draining
                    drain_grace = true;
                    thread::sleep(Duration::from_millis(3));
                    continue;
                }
                RoleState::AtGate | RoleState::Dead(_) | RoleState::Exited | RoleState::Draining => {
                    self.worker_at_point = false;
                    self.ctl.set_stepping(Role::Worker, false);
                    return J::A(vec![]);
                }
                _ => {}
            }
            if std::time::Instant::now() >= deadline { return J::A(vec![J::I(8)]); }
            thread::sleep(Duration::from_micros(50));
        }
    }

    fn settle_draining(&self) {
        if self.ctl.role_state(Role::Worker) == RoleState::Draining && !self.worker_at_point {
            let deadline = std::time::Instant::now() + Duration::from_secs(5);
            while self.cache.verif_snapshot().queue_len > 0 && std::time::Instant::now() < deadline {
                thread::sleep(Duration::from_micros(200));
            }
            // and every handed-out acknowledgement queued so far has been answered
            let deadline = std::time::Instant::now() + Duration::from_secs(5);
            while std::time::Instant::now() < deadline {
                // (also while other callers are parked: they hold no acknowledgement yet, and the draining worker answers
                // everything that reaches the queue - under load it may take a moment)
                if self.acks.iter().all(|a| poll_ack(a).is_some()) { break; }
                thread::sleep(Duration::from_micros(200));
            }
        }
    }

    fn blocked_clients(&self) -> usize {
        (0..self.cfg.clients).filter(|tid| matches!(self.ctl.client_state(*tid), ClientState::BlockedAtSend(_))).count()
    }

    fn event(&mut self, parts: &[&str]) {
        let mut skipped = false;
        let mut ret = J::A(vec![]);
        let mut unblocked: Vec<J> = Vec::new();
        match parts[0] {
            "call" => {
                let tid: usize = parts[1].parse().unwrap();
                if self.ctl.client_state(tid) != ClientState::Idle {
                    skipped = true;
                } else {
                    self.ctl.set_client_state(tid, ClientState::Running);
                    let job = match parts[2] {
                        "hold_ref" => { self.guards_held += 1; Job::HoldRef(parts[3].parse().unwrap()) }
                        "release_ref" => Job::ReleaseRef,
                        "iter_open" | "iter_open_map" => {
                            let keys: Vec<u64> = if parts[3] == "-" { vec![] } else { parts[3].split(',').map(|x| x.parse().unwrap()).collect() };
                            Job::IterOpen(keys, parts[2] == "iter_open_map")
                        }
                        "iter_next" => Job::IterNext,
                        _ => Job::Call(build_job(&parts[2..])),
                    };
                    let releasing = parts[2] == "release_ref";
                    self.clients[tid].tx.send(Some(job)).unwrap();
                    ret = self.collect_client(tid);
                    if releasing && self.guards_held > 0 {
                        self.guards_held -= 1;
                        // calls that were blocked on the shard proceed now: let them finish before the state is dumped
                        if self.guards_held == 0 {
                            for other in 0..self.cfg.clients {
                                if other != tid && self.ctl.client_state(other) == ClientState::Running {
                                    let r = self.collect_client(other);
                                    unblocked.push(J::A(vec![J::I(other as i128), r]));
                                }
                            }
                        }
                    }
                }
            }
            "callp" => {
                // a call in point-stepping mode: it stops at the schedule points inside the call
                let tid: usize = parts[1].parse().unwrap();
                if self.ctl.client_state(tid) != ClientState::Idle {
                    skipped = true;
                } else {
                    self.ctl.set_stepping(Role::Client(tid), true);
                    self.stepping_clients.push(tid);
                    self.client_job[tid] = parts[2].to_string();
                    self.ctl.set_client_state(tid, ClientState::Running);
                    self.clients[tid].tx.send(Some(Job::Call(build_job(&parts[2..])))).unwrap();
                    ret = self.collect_client(tid);
                }
            }
            "workerp" => {
                // one worker command in point-stepping mode: stops at the points inside the command (not inside done())
                let state = self.ctl.role_state(Role::Worker);
                // (a sweeper stopped at a probe point holds a lock the snapshot needs: go by the last snapshot then)
                // (the last snapshot may predate the latest sends: an acknowledgement that is still pending while the worker waits at its
                //  gate belongs to a queued command)
                let queue_len = if self.cfg.points == "probe" && self.last_snap.is_some() {
                    let pending = self.acks.iter().filter(|a| poll_ack(a).is_none()).count();
                    std::cmp::max(self.last_snap.as_ref().unwrap().queue_len, pending)
                } else { self.cache.verif_snapshot().queue_len };
                if state != RoleState::AtGate || queue_len == 0 || self.worker_at_point { skipped = true; }
                else {
                    self.ctl.set_stepping(Role::Worker, true);
                    self.ctl.grant(Role::Worker);
                    ret = self.wait_worker_point();
                }
            }
            "sweepp" => {
                // one sweep in point-stepping mode: stops in front of every eviction (holding the shard's lock)
                match self.ctl.role_state(Role::Sweeper) {
                    RoleState::Dead(_) | RoleState::Exited => skipped = true,
                    _ if self.sweeper_at_point => skipped = true,
                    _ => {
                        self.sweeps_before = self.ctl.sweeps_done();
                        self.sweeper_stepping = true;
                        self.ctl.set_stepping(Role::Sweeper, true);
                        self.ctl.tick_async();
                        ret = self.wait_sweeper_point();
                    }
                }
            }
            "runs" => {
                if !self.sweeper_at_point && self.late_arrival(Role::Sweeper) { self.sweeper_at_point = true; }
                if !self.sweeper_at_point { skipped = true; } else {
                    self.ctl.step_point(Role::Sweeper);
                    thread::sleep(Duration::from_micros(100));
                    ret = self.wait_sweeper_point();
                }
            }
            "sweep_join" => {
                // waits for a sweep that was reported as still running
                let deadline = std::time::Instant::now() + STEP_TIMEOUT;
                while self.ctl.sweeps_done() <= self.sweeps_before && std::time::Instant::now() < deadline
                    && !matches!(self.ctl.role_state(Role::Sweeper), RoleState::Dead(_) | RoleState::Exited) {
                    if self.ctl.at_point(Role::Sweeper).is_some() { self.ctl.step_point(Role::Sweeper); }
                    thread::sleep(Duration::from_micros(100));
                }
                if self.ctl.sweeps_done() > self.sweeps_before { self.ctl.set_stepping(Role::Sweeper, false); self.sweeper_at_point = false; }
                else { ret = J::A(vec![J::I(8)]); }
            }
            "drainp" => {
                // one consumer batch in point-stepping mode: stops between two accesses of the batch (sketch write lock held)
                let state = self.ctl.role_state(Role::Consumer);
                let chan_len = if self.cfg.points == "probe" && self.last_snap.is_some() { self.last_snap.as_ref().unwrap().chan_len } else { self.cache.verif_snapshot().chan_len };
                if state != RoleState::AtGate || chan_len == 0 { skipped = true; }
                else {
                    self.ctl.set_stepping(Role::Consumer, true);
                    self.ctl.grant(Role::Consumer);
                    ret = self.wait_consumer_point(self.step_timeout());
                }
            }
            "rund" => {
                if self.ctl.at_point(Role::Consumer).is_none() { skipped = true; } else {
                    self.ctl.step_point(Role::Consumer);
                    thread::sleep(Duration::from_micros(100));
                    ret = self.wait_consumer_point(self.step_timeout());
                }
            }
            "joind" => {
                // lets the consumer finish its batch (stepping through every remaining point)
                let deadline = std::time::Instant::now() + STEP_TIMEOUT;
                loop {
                    if self.ctl.at_point(Role::Consumer).is_some() { self.ctl.step_point(Role::Consumer); }
                    match self.ctl.role_state(Role::Consumer) { RoleState::AtGate | RoleState::Dead(_) | RoleState::Exited => break, _ => {} }
                    if std::time::Instant::now() >= deadline { ret = J::A(vec![J::I(8)]); break; }
                    thread::sleep(Duration::from_micros(100));
                }
                self.ctl.set_stepping(Role::Consumer, false);
            }
            "joinw" => {
                // waits for a worker step that was reported as still running
                let deadline = std::time::Instant::now() + STEP_TIMEOUT;
                loop {
                    ret = self.wait_worker_point();
                    let still = matches!(&ret, J::A(v) if v.len() == 1 && matches!(v[0], J::I(8)));
                    if !still || std::time::Instant::now() >= deadline { break; }
                }
            }
            "runw" => {
                if !self.worker_at_point && self.late_arrival(Role::Worker) { self.worker_at_point = true; }
                if !self.worker_at_point { skipped = true; } else {
                    self.ctl.step_point(Role::Worker);
                    ret = self.wait_worker_point();
                }
            }
            "run" if self.stepping_clients.contains(&parts[1].parse::<usize>().unwrap()) => {
                let tid: usize = parts[1].parse().unwrap();
                if self.ctl.at_point(Role::Client(tid)).is_some() {
                    self.ctl.step_point(Role::Client(tid));
                    // give the thread a moment to leave the point before we look again
                    let deadline = std::time::Instant::now() + Duration::from_millis(200);
                    while self.ctl.at_point(Role::Client(tid)).is_some() && std::time::Instant::now() < deadline { thread::sleep(Duration::from_micros(20)); }
                    ret = self.collect_client(tid);
                } else { skipped = true; }
            }
            "run" => {
                let tid: usize = parts[1].parse().unwrap();
                match self.ctl.client_state(tid) {
                    ClientState::BlockedAtSend(which) => {
                        let snap = self.cache.verif_snapshot();
                        let full = if which == 0 { snap.queue_len >= self.cfg.queue && self.ctl.role_state(Role::Worker) != RoleState::Draining } else { snap.chan_len >= 10 };
                        if full { skipped = true; } else {
                            self.ctl.set_client_state(tid, ClientState::Running);
                            self.ctl.release_client(tid);
                            ret = self.collect_client(tid);
                        }
                    }
                    // a call that was still blocked (on a shard kept locked by a reference guard) when we last looked
                    ClientState::Running => { ret = self.collect_client(tid); }
                    // ... and has completed in the meantime without its result having been collected
                    ClientState::Idle if self.clients[tid].results.lock().unwrap().len() > self.consumed[tid] => { ret = self.collect_client(tid); }
                    _ => skipped = true,
                }
            }
            "worker" => {
                let state = self.ctl.role_state(Role::Worker);
                if state != RoleState::AtGate || self.cache.verif_snapshot().queue_len == 0 { skipped = true; }
                else { let _ = self.ctl.step(Role::Worker, if self.guards_held > 0 { Duration::from_millis(600) } else { STEP_TIMEOUT }); }
            }
            "sweep" => {
                match self.ctl.role_state(Role::Sweeper) {
                    RoleState::Dead(_) | RoleState::Exited => skipped = true,
                    _ => {
                        let _ = self.ctl.tick(STEP_TIMEOUT);
                    }
                }
            }
            "drain" => {
                let state = self.ctl.role_state(Role::Consumer);
                if state != RoleState::AtGate || self.cache.verif_snapshot().chan_len == 0 { skipped = true; }
                else { let _ = self.ctl.step(Role::Consumer, STEP_TIMEOUT); }
            }
            "advance" => {
                let ns: u64 = parts[1].parse().unwrap();
                self.clock.fetch_add(ns, Ordering::SeqCst);
            }
            "poll" => {
                let id: usize = parts[1].parse().unwrap();
                if id >= self.acks.len() { skipped = true; }
                else { ret = J::A(vec![J::I(5), J::I(poll_ack(&self.acks[id]).unwrap_or(0))]); }
            }
            other => panic!("unknown event {}", other),
        }
        self.settle_draining();
        // a role that panicked: wait until its thread has finished unwinding (its channel ends are dropped)
        for role in [Role::Worker, Role::Sweeper, Role::Consumer] {
            if matches!(self.ctl.role_state(role), RoleState::Dead(_) | RoleState::Exited) {
                let deadline = std::time::Instant::now() + Duration::from_secs(5);
                while !self.ctl.role_gone(role) && std::time::Instant::now() < deadline { thread::sleep(Duration::from_micros(50)); }
            }
        }
        let consumer_gone = matches!(self.ctl.role_state(Role::Consumer), RoleState::Exited | RoleState::Dead(_));
        // a thread stopped at a probe point holds a lock the snapshot needs: keep the previous snapshot meanwhile
        // probe schedules: no snapshot while any thread is inside a stepped action - stopped at a lock-holding point, blocked on
        // a lock another stopped thread holds, or still on its way to its next point (it may stop there holding a lock the
        // snapshot needs, and only this thread could release it)
        let mut lock_held = false;
        if self.cfg.points == "probe" {
            let sweeping = self.sweeper_stepping && self.ctl.sweeps_done() <= self.sweeps_before
                && !matches!(self.ctl.role_state(Role::Sweeper), RoleState::Dead(_) | RoleState::Exited);
            let working = matches!(self.ctl.role_state(Role::Worker), RoleState::Running) || self.ctl.at_point(Role::Worker).is_some();
            let consuming = matches!(self.ctl.role_state(Role::Consumer), RoleState::Running) || self.ctl.at_point(Role::Consumer).is_some();
            let calling = (0..self.cfg.clients).any(|tid| matches!(self.ctl.client_state(tid), ClientState::Running | ClientState::AtPoint(_))
                || self.ctl.at_point(Role::Client(tid)).is_some());
            lock_held = sweeping || working || consuming || calling;
        }
        let snap = if lock_held && self.last_snap.is_some() { self.last_snap.clone().unwrap() } else { self.cache.verif_snapshot() };
        self.last_snap = Some(snap.clone());
        let acks: Vec<J> = self.acks.iter().map(|a| J::I(poll_ack(a).unwrap_or(0))).collect();
        let line = J::obj(vec![
            ("case", J::s(&self.name)),
            ("i", J::I(self.index as i128)),
            ("ev", J::S(parts.join(" "))),
            ("skipped", J::Bool(skipped)),
            ("ret", ret),
            ("unblocked", J::A(unblocked)),
            ("oracle", oracle_json(self.ctl.take_oracle())),
            ("now", J::I(self.clock.load(Ordering::SeqCst) as i128)),
            ("acks", J::A(acks)),
            ("roles", J::obj(vec![
                ("worker", role_str(&self.ctl.role_state(Role::Worker))),
                ("sweeper", role_str(&self.ctl.role_state(Role::Sweeper))),
                ("consumer", role_str(&self.ctl.role_state(Role::Consumer))),
            ])),
            ("snap", snapshot_json(&snap, consumer_gone)),
            ("stale_snap", J::Bool(lock_held)),
        ]);
        println!("{}", line.to_string());
        self.index += 1;
    }

    fn finish(mut self) {
        // let everything run to completion so that threads can be joined
        self.ctl.set_stepping(Role::Worker, false);
        self.ctl.set_stepping(Role::Sweeper, false);
        self.ctl.set_stepping(Role::Consumer, false);
        for tid in 0..self.cfg.clients { self.ctl.set_stepping(Role::Client(tid), false); }
        self.ctl.free_run(Role::Worker);
        self.ctl.free_run(Role::Consumer);
        for tid in 0..self.cfg.clients {
            if let ClientState::BlockedAtSend(_) = self.ctl.client_state(tid) {
                self.ctl.release_client(tid);
            }
        }
        for tid in 0..self.cfg.clients {
            let deadline = std::time::Instant::now() + Duration::from_secs(5);
            while std::time::Instant::now() < deadline {
                match self.ctl.client_state(tid) {
                    ClientState::Idle => break,
                    ClientState::BlockedAtSend(_) => self.ctl.release_client(tid),
                    _ => {}
                }
                thread::sleep(Duration::from_millis(1));
            }
        }
        let cache = self.cache.clone();
        let shutdown = thread::spawn(move || cache.shutdown());
        let deadline = std::time::Instant::now() + Duration::from_secs(5);
        while !shutdown.is_finished() && std::time::Instant::now() < deadline { thread::sleep(Duration::from_millis(1)); }
        self.ctl.tick_async();
        for client in self.clients.iter_mut() {
            let _ = client.tx.send(None);
            if let Some(handle) = client.handle.take() {
                let deadline = std::time::Instant::now() + Duration::from_secs(2);
                while !handle.is_finished() && std::time::Instant::now() < deadline { thread::sleep(Duration::from_millis(1)); }
                if handle.is_finished() { let _ = handle.join(); }
            }
        }
    }
}

pub fn install_panic_hook() {
    panic::set_hook(Box::new(|info| {
        let location = info.location().map(|l| format!("{}:{}", l.file(), l.line())).unwrap_or_default();
        let payload = if let Some(s) = info.payload().downcast_ref::<&str>() { s.to_string() }
        else if let Some(s) = info.payload().downcast_ref::<String>() { s.clone() } else { "panic".to_string() };
        Controller::note_panic(format!("{} @ {}", payload, location));
    }));
}

pub fn run_file(path: &str) {
    install_panic_hook();
    let text = fs::read_to_string(path).expect("cannot read schedule file");
    let mut case: Option<Case> = None;
    let mut name = String::new();
    for raw in text.lines() {
        let parts: Vec<&str> = raw.split_whitespace().collect();
        if parts.is_empty() || parts[0].starts_with('#') { continue; }
        match parts[0] {
            "case" => { name = parts[1].to_string(); }
            "config" => { case = Some(Case::new(&name, parse_cfg(&parts[1..]))); }
            "end" => {
                let mut edges: Vec<J> = Vec::new();
                if let Some(c) = case.take() {
                    for (held, acquired) in c.ctl.take_lock_edges() {
                        edges.push(J::A(vec![J::A(held.iter().map(|h| J::s(h)).collect()), J::s(acquired)]));
                    }
                    c.finish();
                }
                println!("{}", J::obj(vec![("case", J::s(&name)), ("end", J::Bool(true)), ("lock_edges", J::A(edges))]).to_string());
            }
            _ => { case.as_mut().expect("event before config").event(&parts); }
        }
    }
}
