//! Interleavings of done() with polls on a real acknowledgement, one shared-memory access at a time.
//! Input: lines `case <name> final=<code> pollers=<id>:<waker>,... sched=<tid>,<tid>,...` (tid 0 = completer).
//! A step of a thread that would block on the waker mutex (as tracked here) is skipped and reported.
//! tid 99 = the completer's last step (taking the waker mutex) released although a poller holds the mutex: it has to wait
//! there (reported as [99,2]) and goes on by itself when the poller lets go (reported as a step [0,1] at that moment);
//! a completer that gets past the held mutex is reported as [99,3].
use std::fs;
use std::future::Future;
use std::pin::Pin;
use std::sync::{Arc, Mutex};
use std::sync::atomic::{AtomicBool, Ordering};
use std::task::{Context, Poll, Wake, Waker};
use std::thread;
use std::time::{Duration, Instant};

use tinylfu_cached::cache::command::{CommandStatus, RejectionReason};
use tinylfu_cached::cache::verif::{Controller, Role, VerifAck};

use crate::json::J;
use crate::sched::status_code;

struct LogWaker { id: u64, log: Arc<Mutex<Vec<u64>>> }
impl Wake for LogWaker {
    fn wake(self: Arc<Self>) { self.log.lock().unwrap().push(self.id); }
    fn wake_by_ref(self: &Arc<Self>) { self.log.lock().unwrap().push(self.id); }
}

fn status_of(code: u64) -> CommandStatus {
    match code {
        1 => CommandStatus::Accepted,
        2 => CommandStatus::Rejected(RejectionReason::EnoughSpaceIsNotAvailableAndKeyFailedToEvictOthers),
        3 => CommandStatus::Rejected(RejectionReason::KeyWeightIsGreaterThanCacheWeight),
        4 => CommandStatus::Rejected(RejectionReason::KeyDoesNotExist),
        5 => CommandStatus::Rejected(RejectionReason::KeyAlreadyExists),
        6 => CommandStatus::ShuttingDown,
        _ => CommandStatus::Pending,
    }
}

fn wait_stop(ctl: &Controller, role: Role, finished: &AtomicBool) -> Option<&'static str> {
    let deadline = Instant::now() + Duration::from_secs(10);
    loop {
        if let Some(l) = ctl.at_point(role) { return Some(l); }
        if finished.load(Ordering::SeqCst) { return None; }
        if Instant::now() >= deadline { return Some("TIMEOUT"); }
        thread::sleep(Duration::from_micros(20));
    }
}

fn run_case(name: &str, final_code: u64, pollers: &[(usize, u64)], sched: &[usize]) {
    let ctl = Controller::new();
    let ack = Arc::new(VerifAck::new());
    let wake_log: Arc<Mutex<Vec<u64>>> = Arc::new(Mutex::new(Vec::new()));
    // one Arc per waker id so that will_wake() recognises the same waker
    let mut wakers: Vec<(u64, Waker)> = Vec::new();
    for (_, w) in pollers {
        if !wakers.iter().any(|(id, _)| id == w) {
            wakers.push((*w, Waker::from(Arc::new(LogWaker { id: *w, log: wake_log.clone() }))));
        }
    }
    // completer
    ctl.set_stepping(Role::Worker, true);
    let done_finished = Arc::new(AtomicBool::new(false));
    let (c, a, f) = (ctl.clone(), ack.clone(), done_finished.clone());
    let status = status_of(final_code);
    let completer = thread::spawn(move || {
        c.register_as(Role::Worker);
        a.done(status);
        f.store(true, Ordering::SeqCst);
    });
    // pollers
    let mut poll_threads = Vec::new();
    let mut poll_finished = Vec::new();
    let results: Arc<Mutex<Vec<(usize, i128)>>> = Arc::new(Mutex::new(Vec::new()));
    for (id, w) in pollers {
        ctl.set_stepping(Role::Client(*id), true);
        let fin = Arc::new(AtomicBool::new(false));
        poll_finished.push((*id, fin.clone()));
        let waker = wakers.iter().find(|(wid, _)| wid == w).unwrap().1.clone();
        let (c, a, r, id) = (ctl.clone(), ack.clone(), results.clone(), *id);
        poll_threads.push(thread::spawn(move || {
            c.register_client(id);
            let mut cx = Context::from_waker(&waker);
            let mut handle = a.0.handle();
            let res = match Pin::new(&mut handle).poll(&mut cx) {
                Poll::Pending => 1,
                Poll::Ready(s) => 2 + status_code(s),
            };
            r.lock().unwrap().push((id, res));
            fin.store(true, Ordering::SeqCst);
        }));
    }
    // everyone reaches its first point
    wait_stop(&ctl, Role::Worker, &done_finished);
    for (id, fin) in &poll_finished { wait_stop(&ctl, Role::Client(*id), fin); }

    let mut holder: Option<usize> = None;
    let mut executed: Vec<J> = Vec::new();
    let mut completer_waiting = false;
    for tid in sched {
        if *tid == 99 {
            if ctl.at_point(Role::Worker) == Some("ack.done.3") && holder.is_some() && !completer_waiting {
                ctl.step_point(Role::Worker);
                let deadline = Instant::now() + Duration::from_millis(40);
                while !done_finished.load(Ordering::SeqCst) && Instant::now() < deadline { thread::sleep(Duration::from_micros(50)); }
                if done_finished.load(Ordering::SeqCst) { executed.push(J::A(vec![J::I(99), J::I(3)])); }
                else { completer_waiting = true; executed.push(J::A(vec![J::I(99), J::I(2)])); }
            } else { executed.push(J::A(vec![J::I(99), J::I(0)])); }
            continue;
        }
        let (role, fin) = if *tid == 0 { (Role::Worker, done_finished.clone()) } else {
            match poll_finished.iter().find(|(id, _)| id == tid) { Some((_, f)) => (Role::Client(*tid), f.clone()), None => { executed.push(J::A(vec![J::I(*tid as i128), J::I(0)])); continue; } }
        };
        let at = ctl.at_point(role);
        let enabled = match at {
            None => false,
            Some("ack.done.3") | Some("ack.poll.lock") => holder.is_none(),
            Some(_) => true,
        };
        if !enabled { executed.push(J::A(vec![J::I(*tid as i128), J::I(0)])); continue; }
        let label = at.unwrap();
        ctl.step_point(role);
        let next = wait_stop(&ctl, role, &fin);
        if next == Some("TIMEOUT") {
            executed.push(J::A(vec![J::I(*tid as i128), J::I(-1)]));
            break;
        }
        if label == "ack.poll.lock" { holder = Some(*tid); }
        if label == "ack.poll.ready" || label == "ack.poll.pending" { holder = None; }
        executed.push(J::A(vec![J::I(*tid as i128), J::I(1)]));
        if completer_waiting && holder.is_none() {
            // the mutex is free again: the completer takes it, wakes and finishes without a further release
            let deadline = Instant::now() + Duration::from_secs(10);
            while !done_finished.load(Ordering::SeqCst) && Instant::now() < deadline { thread::sleep(Duration::from_micros(20)); }
            completer_waiting = false;
            executed.push(J::A(vec![J::I(0), J::I(if done_finished.load(Ordering::SeqCst) { 1 } else { -1 })]));
        }
    }
    // observation
    let mut res = results.lock().unwrap().clone();
    res.sort();
    let res_json: Vec<J> = pollers.iter().map(|(id, _)| {
        let r = res.iter().find(|(i, _)| i == id).map(|(_, r)| *r).unwrap_or(0);
        J::A(vec![J::I(*id as i128), J::I(r)])
    }).collect();
    let wakes = wake_log.lock().unwrap().clone();
    println!("{}", J::obj(vec![
        ("case", J::s(name)), ("results", J::A(res_json)), ("wakes", J::u64s(&wakes)), ("executed", J::A(executed)),
    ]).to_string());
    // let everything finish
    ctl.set_stepping(Role::Worker, false);
    for (id, _) in pollers { ctl.set_stepping(Role::Client(*id), false); }
    let _ = completer.join();
    for t in poll_threads { let _ = t.join(); }
}

pub fn run_file(path: &str) {
    let text = fs::read_to_string(path).expect("cannot read ack file");
    for raw in text.lines() {
        let parts: Vec<&str> = raw.split_whitespace().collect();
        if parts.is_empty() || parts[0] != "case" { continue; }
        let name = parts[1];
        let mut final_code = 1u64;
        let mut pollers: Vec<(usize, u64)> = Vec::new();
        let mut sched: Vec<usize> = Vec::new();
        for p in &parts[2..] {
            if let Some((k, v)) = p.split_once('=') {
                match k {
                    "final" => final_code = v.parse().unwrap(),
                    "pollers" => pollers = v.split(',').filter(|s| !s.is_empty()).map(|s| { let (a, b) = s.split_once(':').unwrap(); (a.parse().unwrap(), b.parse().unwrap()) }).collect(),
                    "sched" => sched = v.split(',').filter(|s| !s.is_empty()).map(|s| s.parse().unwrap()).collect(),
                    _ => {}
                }
            }
        }
        run_case(name, final_code, &pollers, &sched);
    }
}
