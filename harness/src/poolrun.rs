//! The access pool at the granularity of PoolProto.v: the real `Pool` (through `VerifPool`, whose consumer records every batch
//! handed over) driven by reader threads that are stopped at the schedule point inside `Buffer::add` (`pool.add.mid`: the full
//! buffer has been handed over, not yet cleared, its lock held).
//! Input: lines `case <name> pool=<n> buffer=<n> sched=<token>,...`
//!   A<r>:<h>   reader r records an access of hash h (Pool::add): runs until it stops at pool.add.mid, finishes, or waits for a
//!              buffer lock held by a reader stopped there
//!   F<r>       reader r, stopped at pool.add.mid, finishes (clear, push, unlock); readers that waited for its lock go on
//! Output per token: [outcome, buffer index drawn (or -1), batches handed over so far, buffers or null (a lock is held), late]
//!   outcome 0 not enabled | 1 finished | 2 stopped at pool.add.mid | 3 waits for a buffer lock | 9 did not come back
//!   late: readers that went on after an F: [reader, outcome]
use std::fs;
use std::sync::{mpsc, Arc};
use std::sync::atomic::{AtomicBool, Ordering};
use std::thread;
use std::time::{Duration, Instant};

use tinylfu_cached::cache::verif::{Controller, Oracle, Role, VerifPool};

use crate::json::J;

enum Cmd { Add(u64), Quit }

struct Reader { id: usize, tx: mpsc::Sender<Cmd>, busy: Arc<AtomicBool>, handle: Option<thread::JoinHandle<()>> }

fn spawn(ctl: &Arc<Controller>, pool: &Arc<VerifPool>, id: usize) -> Reader {
    let (tx, rx) = mpsc::channel::<Cmd>();
    let busy = Arc::new(AtomicBool::new(false));
    let (c, p, b) = (ctl.clone(), pool.clone(), busy.clone());
    let handle = thread::spawn(move || {
        c.register_client(id);
        while let Ok(cmd) = rx.recv() {
            match cmd {
                Cmd::Add(h) => p.add(h),
                Cmd::Quit => break,
            }
            b.store(false, Ordering::SeqCst);
        }
    });
    Reader { id, tx, busy, handle: Some(handle) }
}

/// 1 finished, 2 at pool.add.mid, 3 still running after `timeout` (waiting for a lock)
fn settle(ctl: &Controller, r: &Reader, timeout: Duration) -> i128 {
    let deadline = Instant::now() + timeout;
    loop {
        if ctl.at_point(Role::Client(r.id)).is_some() { return 2; }
        if !r.busy.load(Ordering::SeqCst) { return 1; }
        if Instant::now() >= deadline { return 3; }
        thread::sleep(Duration::from_micros(50));
    }
}

fn lists(xs: &[Vec<u64>]) -> J { J::A(xs.iter().map(|b| J::u64s(b)).collect()) }

fn run_case(name: &str, pool_size: usize, buffer_size: usize, sched: &[String]) {
    let ctl = Controller::new();
    let pool = Arc::new(VerifPool::new(pool_size, buffer_size));
    let readers: Vec<Reader> = (1..=3).map(|id| { ctl.set_stepping(Role::Client(id), true); spawn(&ctl, &pool, id) }).collect();
    thread::sleep(Duration::from_millis(2));
    let long = Duration::from_secs(10);
    let short = Duration::from_millis(40);
    // 0 idle, 2 at mid, 3 waiting
    let mut state = vec![0i128; 4];
    let mut held: Vec<(i128, usize)> = Vec::new();      // (buffer index, reader stopped at pool.add.mid holding its lock)
    let mut drew = vec![-1i128; 4];
    let mut obs: Vec<J> = Vec::new();
    for tok in sched {
        let kind = tok.chars().next().unwrap();
        let arg = &tok[1..];
        let (r, h): (usize, u64) = match arg.split_once(':') {
            Some((x, y)) => (x.parse().unwrap_or(0), y.parse().unwrap_or(0)),
            None => (arg.parse().unwrap_or(0), 0),
        };
        let mut outcome = 0i128;
        let mut index = -1i128;
        let mut late: Vec<J> = Vec::new();
        if r >= 1 && r <= 3 {
            let reader = &readers[r - 1];
            match kind {
                // (at most one reader waits at any time: which of two waiters gets a released lock first is the lock's choice)
                'A' if state[r] == 0 && !state.iter().any(|s| *s == 3) => {
                    let _ = ctl.take_oracle();
                    reader.busy.store(true, Ordering::SeqCst);
                    let _ = reader.tx.send(Cmd::Add(h));
                    // the buffer index is drawn (and logged) before the buffer's lock is taken: whether this reader has to wait is
                    // known from the index, not from a time-out
                    let deadline = Instant::now() + long;
                    while index < 0 && Instant::now() < deadline {
                        for o in ctl.take_oracle() { if let Oracle::PoolIndex(i) = o { index = i as i128; } }
                        if index < 0 { thread::sleep(Duration::from_micros(20)); }
                    }
                    if index < 0 { outcome = 9; }
                    else if held.iter().any(|(i, _)| *i == index) {
                        // must wait; a reader that gets through a held lock shows up as finished / stopped
                        let res = settle(&ctl, reader, short);
                        outcome = res;
                    } else {
                        outcome = settle(&ctl, reader, long);
                        if outcome == 3 { outcome = 9; }
                    }
                    drew[r] = index;
                    if outcome == 2 { held.push((index, r)); }
                    state[r] = if outcome == 1 { 0 } else { outcome };
                }
                'F' if state[r] == 2 => {
                    ctl.step_point(Role::Client(r));
                    outcome = if settle(&ctl, reader, long) == 1 { 1 } else { 9 };
                    state[r] = 0;
                    held.retain(|(_, who)| *who != r);
                    // the readers that waited for a lock: those behind this one go on (one at a time, the next may stop at mid again)
                    let mut progressed = true;
                    while progressed {
                        progressed = false;
                        for w in 1..=3usize {
                            if state[w] == 3 {
                                if held.iter().any(|(i, _)| *i == drew[w]) { continue; }
                                let res = settle(&ctl, &readers[w - 1], long);
                                if res != 3 {
                                    state[w] = if res == 1 { 0 } else { res };
                                    if res == 2 { held.push((drew[w], w)); }
                                    late.push(J::A(vec![J::I(w as i128), J::I(res)]));
                                    progressed = true;
                                }
                            }
                        }
                    }
                }
                _ => {}
            }
        }
        let locked = state.iter().any(|s| *s == 2);
        let buffers = if locked || outcome == 9 { J::Null } else { lists(&pool.buffers()) };
        obs.push(J::A(vec![J::I(outcome), J::I(index), lists(&pool.batches()), buffers, J::A(late)]));
        if outcome == 9 { break; }
    }
    println!("{}", J::obj(vec![("case", J::s(name)), ("obs", J::A(obs))]).to_string());
    for id in 1..=3 { ctl.set_stepping(Role::Client(id), false); }
    for r in readers {
        let _ = r.tx.send(Cmd::Quit);
        let mut r = r;
        if let Some(h) = r.handle.take() {
            let deadline = Instant::now() + Duration::from_secs(5);
            while !h.is_finished() && Instant::now() < deadline { thread::sleep(Duration::from_millis(1)); }
            if h.is_finished() { let _ = h.join(); }
        }
    }
}

pub fn run_file(path: &str) {
    let text = fs::read_to_string(path).expect("cannot read pool file");
    for raw in text.lines() {
        let parts: Vec<&str> = raw.split_whitespace().collect();
        if parts.is_empty() || parts[0] != "case" { continue; }
        let name = parts[1];
        let (mut pool, mut buffer) = (1usize, 1usize);
        let mut sched: Vec<String> = Vec::new();
        for p in &parts[2..] {
            if let Some((k, v)) = p.split_once('=') {
                match k {
                    "pool" => pool = v.parse().unwrap(),
                    "buffer" => buffer = v.parse().unwrap(),
                    "sched" => sched = v.split(',').filter(|s| !s.is_empty()).map(|s| s.to_string()).collect(),
                    _ => {}
                }
            }
        }
        run_case(name, pool, buffer, &sched);
    }
}
