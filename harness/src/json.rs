//! A minimal JSON value and printer (no external crates).
#[derive(Clone, Debug)]
pub enum J {
    Null,
    Bool(bool),
    I(i128),
    F(f64),
    S(String),
    A(Vec<J>),
    O(Vec<(String, J)>),
}

impl J {
    pub fn obj(pairs: Vec<(&str, J)>) -> J { J::O(pairs.into_iter().map(|(k, v)| (k.to_string(), v)).collect()) }
    pub fn ints<T: Copy + Into<i128>>(xs: &[T]) -> J { J::A(xs.iter().map(|x| J::I((*x).into())).collect()) }
    pub fn u64s(xs: &[u64]) -> J { J::A(xs.iter().map(|x| J::I(*x as i128)).collect()) }
    pub fn u8s(xs: &[u8]) -> J { J::A(xs.iter().map(|x| J::I(*x as i128)).collect()) }
    pub fn s(x: &str) -> J { J::S(x.to_string()) }

    pub fn write(&self, out: &mut String) {
        match self {
            J::Null => out.push_str("null"),
            J::Bool(b) => out.push_str(if *b { "true" } else { "false" }),
            J::I(i) => out.push_str(&i.to_string()),
            J::F(f) => {
                if f.is_finite() { out.push_str(&format!("{:?}", f)); } else { out.push_str("null"); }
            }
            J::S(s) => {
                out.push('"');
                for c in s.chars() {
                    match c {
                        '"' => out.push_str("\\\""),
                        '\\' => out.push_str("\\\\"),
                        '\n' => out.push_str("\\n"),
                        c if (c as u32) < 0x20 => out.push_str(&format!("\\u{:04x}", c as u32)),
                        c => out.push(c),
                    }
                }
                out.push('"');
            }
            J::A(xs) => {
                out.push('[');
                for (i, x) in xs.iter().enumerate() {
                    if i > 0 { out.push(','); }
                    x.write(out);
                }
                out.push(']');
            }
            J::O(pairs) => {
                out.push('{');
                for (i, (k, v)) in pairs.iter().enumerate() {
                    if i > 0 { out.push(','); }
                    J::S(k.clone()).write(out);
                    out.push(':');
                    v.write(out);
                }
                out.push('}');
            }
        }
    }

    pub fn to_string(&self) -> String {
        let mut s = String::new();
        self.write(&mut s);
        s
    }
}
