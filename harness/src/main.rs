//! Harness that drives the real `tinylfu-cached` crate (built from /repo with `--cfg cached_verif`).
//!
//! Sub-commands:
//!   kernels            evaluate the pure kernels on fixed grids, one JSON line per kernel
//!   run <file>         run phase-contiguous schedules on a real CacheD and print one JSON line per event
//!   lfu <file>         run access streams on the real TinyLFU
//!   ack <file>         run interleavings of done()/poll() on a real acknowledgement
//!   stress <args>      free-running multi-threaded run with a watchdog
//!   order <args>       free-running per-thread program-order check with a tiny command queue
//!   ledger <file>      the real CacheWeight stepped one ledger action at a time (Ledger.v / LedgerUpd.v)
//!   pool <file>        the real access pool stepped one PoolProto.v action group at a time
//!   stall <millis>     a caller really blocked in front of the full command queue for a while
mod json;
mod kernels;
mod sched;
mod lfu;
mod ack;
mod stress;
mod stress2;
mod order;
mod stall;
mod ledger;
mod poolrun;

use std::env;

fn main() {
    let args: Vec<String> = env::args().collect();
    if args.len() < 2 {
        eprintln!("usage: cached-verif-harness <kernels|run|lfu> [file]");
        std::process::exit(2);
    }
    match args[1].as_str() {
        "kernels" => kernels::run(),
        "run" => sched::run_file(&args[2]),
        "lfu" => lfu::run_file(&args[2]),
        "ack" => ack::run_file(&args[2]),
        "stress" => stress::run(&args[2..]),
        "stress2" => stress2::run(&args[2..]),
        "order" => order::run(&args[2..]),
        "stall" => stall::run(&args[2..]),
        "ledger" => ledger::run_file(&args[2]),
        "pool" => poolrun::run_file(&args[2]),
        other => {
            eprintln!("unknown sub-command {}", other);
            std::process::exit(2);
        }
    }
}
