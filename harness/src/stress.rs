//! Free-running multi-threaded stress with a watchdog (C18): N caller threads on overlapping keys, smallest shard
//! count, queue / pool / buffer of 1, short time-to-lives, sweeps and evictions running, the consumer stalled and resumed.
//! Prints one JSON line: completed operations, whether every thread kept making progress, the lock edges observed.
//! usage: stress <threads> <millis> <seed> [getref_reentrant]
use std::sync::atomic::{AtomicBool, AtomicU64, Ordering};
use std::sync::Arc;
use std::thread;
use std::time::{Duration, Instant};

use tinylfu_cached::cache::cached::CacheD;
use tinylfu_cached::cache::config::ConfigBuilder;
use tinylfu_cached::cache::put_or_update::PutOrUpdateRequestBuilder;
use tinylfu_cached::cache::verif::{Controller, Role};

use crate::json::J;
use crate::sched::{poll_ack, MockClock};

struct Rng(u64);
impl Rng {
    fn next(&mut self) -> u64 { self.0 ^= self.0 << 13; self.0 ^= self.0 >> 7; self.0 ^= self.0 << 17; self.0 }
    fn below(&mut self, n: u64) -> u64 { self.next() % n }
}

pub fn run(args: &[String]) {
    let threads: usize = args.get(0).map(|s| s.parse().unwrap()).unwrap_or(4);
    let millis: u64 = args.get(1).map(|s| s.parse().unwrap()).unwrap_or(2000);
    let seed: u64 = args.get(2).map(|s| s.parse().unwrap()).unwrap_or(1);
    let reentrant = args.get(3).map(|s| s == "getref_reentrant").unwrap_or(false);
    // "readers": read-heavy mix on a wider access buffer (hand-over of full buffers under contention)
    let readers = args.get(3).map(|s| s == "readers").unwrap_or(false);
    crate::sched::install_panic_hook();

    let ctl = Controller::new();
    let clock = Arc::new(AtomicU64::new(1_000_000_000_000));
    let config = ConfigBuilder::new(16, 16, 40)
        .shards(2).command_buffer_size(1).access_pool_size(1).access_buffer_size(if readers { 4 } else { 1 })
        .clock(Box::new(MockClock(clock.clone())))
        .build();
    ctl.install();
    let cache = Arc::new(CacheD::new(config));
    Controller::uninstall();
    // the background threads run freely; the tick comes from a thread of ours; the consumer is stalled now and then
    ctl.set_park_senders(false);
    ctl.free_run(Role::Worker);
    ctl.free_run(Role::Consumer);
    let stop = Arc::new(AtomicBool::new(false));
    let progress: Vec<Arc<AtomicU64>> = (0..threads).map(|_| Arc::new(AtomicU64::new(0))).collect();
    let mut handles = Vec::new();
    {
        let (ctl, stop, clock) = (ctl.clone(), stop.clone(), clock.clone());
        handles.push(thread::spawn(move || {
            let mut n = 0u64;
            while !stop.load(Ordering::SeqCst) {
                clock.fetch_add(300_000_000, Ordering::SeqCst);
                ctl.tick_async();
                n += 1;
                if n % 50 == 0 { ctl.stall_consumer(true); }
                if n % 50 == 25 { ctl.stall_consumer(false); }
                thread::sleep(Duration::from_micros(300));
            }
            ctl.stall_consumer(false);
        }));
    }
    let panics: Arc<std::sync::Mutex<Vec<String>>> = Arc::new(std::sync::Mutex::new(Vec::new()));
    for t in 0..threads {
        let (ctl, cache, stop, prog, panics) = (ctl.clone(), cache.clone(), stop.clone(), progress[t].clone(), panics.clone());
        handles.push(thread::spawn(move || {
            ctl.register_client(100 + t);
            let mut rng = Rng(seed.wrapping_mul(0x9E3779B97F4A7C15) ^ (t as u64 + 1));
            let mut acks = Vec::new();
            while !stop.load(Ordering::SeqCst) {
                let k = rng.below(4);
                let v = rng.next() % 1000;
                let op = if readers && rng.below(10) < 8 { 7 } else { rng.below(12) };
                let attempt = std::panic::catch_unwind(std::panic::AssertUnwindSafe(|| match op {
                    0 | 1 => cache.put_with_weight(k, v, 1 + (rng.below(12)) as i64).ok(),
                    2 => cache.put_with_weight_and_ttl(k, v, 25 + rng.below(8) as i64, Duration::from_millis(200 + rng.below(2000))).ok(),
                    3 => cache.put_or_update(PutOrUpdateRequestBuilder::new(k).value(v).build()).ok(),
                    4 => cache.put_or_update(PutOrUpdateRequestBuilder::new(k).value(v).time_to_live(Duration::from_millis(300 + rng.below(1500))).weight(26 + rng.below(6) as i64).build()).ok(),
                    5 => cache.put_or_update(PutOrUpdateRequestBuilder::new(k).value(v).weight(1 + rng.below(9) as i64).build()).ok(),
                    6 => cache.delete(k).ok(),
                    7 | 8 => { let _ = cache.get(&k); None }
                    9 => {
                        if reentrant {
                            // the excluded pattern: keep the reference guard alive while calling back into the cache
                            let guard = cache.get_ref(&k);
                            let r = cache.put_or_update(PutOrUpdateRequestBuilder::new(k).value(v).build()).ok();
                            drop(guard);
                            r
                        } else {
                            let _ = cache.get_ref(&k).map(|r| *r.value().value_ref());
                            None
                        }
                    }
                    10 => { let _ = cache.multi_get(vec![&0, &1, &2, &3]); None }
                    _ => { let _ = cache.total_weight_used(); let _ = cache.stats_summary(); None }
                }));
                let r = match attempt {
                    Ok(r) => r,
                    Err(payload) => {
                        let msg = if let Some(s) = payload.downcast_ref::<&str>() { s.to_string() }
                        else if let Some(s) = payload.downcast_ref::<String>() { s.clone() } else { "panic".to_string() };
                        panics.lock().unwrap().push(format!("op {} key {}: {}", op, k, msg));
                        None
                    }
                };
                if let Some(a) = r { acks.push(a); }
                if acks.len() > 64 { acks.retain(|a| poll_ack(a).is_none()); }
                prog.fetch_add(1, Ordering::SeqCst);
            }
        }));
    }
    // watchdog
    let start = Instant::now();
    let mut last: Vec<u64> = vec![0; threads];
    let mut last_change = vec![Instant::now(); threads];
    let mut hung: Vec<usize> = Vec::new();
    while start.elapsed() < Duration::from_millis(millis) {
        thread::sleep(Duration::from_millis(50));
        for t in 0..threads {
            let p = progress[t].load(Ordering::SeqCst);
            if p != last[t] { last[t] = p; last_change[t] = Instant::now(); }
            else if last_change[t].elapsed() > Duration::from_secs(8) && !hung.contains(&t) { hung.push(t); }
        }
        if !hung.is_empty() { break; }
    }
    stop.store(true, Ordering::SeqCst);
    let total: u64 = progress.iter().map(|p| p.load(Ordering::SeqCst)).sum();
    let edges: Vec<J> = ctl.take_lock_edges().into_iter().map(|(held, acq)| J::A(vec![J::A(held.iter().map(|h| J::s(h)).collect()), J::s(acq)])).collect();
    let roles = J::obj(vec![
        ("worker", J::S(format!("{:?}", ctl.role_state(Role::Worker)))),
        ("sweeper", J::S(format!("{:?}", ctl.role_state(Role::Sweeper)))),
        ("consumer", J::S(format!("{:?}", ctl.role_state(Role::Consumer)))),
    ]);
    let panic_list: Vec<String> = panics.lock().unwrap().clone();
    println!("{}", J::obj(vec![
        ("stress", J::Bool(true)), ("threads", J::I(threads as i128)), ("millis", J::I(millis as i128)), ("operations", J::I(total as i128)),
        ("hung_threads", J::A(hung.iter().map(|t| J::I(*t as i128)).collect())), ("lock_edges", J::A(edges)), ("roles", roles),
        ("panics", J::A(panic_list.iter().take(5).map(|p| J::S(p.clone())).collect())), ("panic_count", J::I(panic_list.len() as i128)),
    ]).to_string());
    if !hung.is_empty() {
        // threads are stuck: do not try to join them
        std::process::exit(3);
    }
    for h in handles { let _ = h.join(); }
    // quiescence: wait until the worker has drained the queue, then compare the counters with the internal state
    let deadline = Instant::now() + Duration::from_secs(10);
    while cache.verif_snapshot().queue_len > 0 && Instant::now() < deadline { thread::sleep(Duration::from_millis(1)); }
    thread::sleep(Duration::from_millis(20));
    let snap = cache.verif_snapshot();
    let buffered: usize = snap.pool.iter().map(|b| b.len()).sum();
    let charges: i64 = snap.weights.iter().map(|w| w.3).sum();
    let mut store_ids: Vec<u64> = snap.store.iter().map(|e| e.2).collect();
    let mut weight_ids: Vec<u64> = snap.weights.iter().map(|w| w.0).collect();
    store_ids.sort();
    weight_ids.sort();
    println!("{}", J::obj(vec![
        ("stress_quiescent", J::Bool(true)),
        ("hits", J::I(snap.stats[0] as i128)), ("buffered", J::I(buffered as i128)),
        ("access_added", J::I(snap.stats[8] as i128)), ("access_dropped", J::I(snap.stats[9] as i128)),
        ("keys_added", J::I(snap.stats[2] as i128)), ("keys_deleted", J::I(snap.stats[3] as i128)), ("keys_held", J::I(snap.store.len() as i128)),
        ("weight_added", J::I(snap.stats[6] as i128)), ("weight_removed", J::I(snap.stats[7] as i128)),
        ("used", J::I(snap.weight_used as i128)), ("charges", J::I(charges as i128)),
        ("ids_match", J::Bool(store_ids == weight_ids)), ("queue_len", J::I(snap.queue_len as i128)),
    ]).to_string());
    // a final shutdown must return as well
    let c2 = cache.clone();
    let sd = thread::spawn(move || c2.shutdown());
    let deadline = Instant::now() + Duration::from_secs(5);
    while !sd.is_finished() && Instant::now() < deadline { thread::sleep(Duration::from_millis(5)); }
    if !sd.is_finished() {
        println!("{}", J::obj(vec![("stress_shutdown_hung", J::Bool(true))]).to_string());
        std::process::exit(4);
    }
    ctl.tick_async();
}
