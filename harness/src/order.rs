//! Free-running program-order check (C11): every caller thread issues, without awaiting, small per-key programs whose
//! outcome does not depend on how the calls interleave with the command worker - as long as the commands of one thread
//! are applied in the order of its calls. The command queue is tiny (1, 2 or 4 slots), so most calls find it full.
//!   P1  put k; delete k              -> Accepted, Accepted                         key absent
//!   P2  put k v1; put k v2           -> Accepted, Rejected(KeyAlreadyExists)       key holds v1
//!   P3  delete k; put k              -> Rejected(KeyDoesNotExist), Accepted        key present
//!   P5  put k; delete k; delete k    -> Accepted, Accepted, Rejected(KeyDoesNotExist)   key absent
//! The threads use disjoint keys, every weight is 1 and the cache is far from full, so admission never rejects.
//! At the end of a round every acknowledgement is awaited (bounded), statuses and final contents are compared.
//! usage: order <threads> <queue> <rounds> <keys per round> <seed>
use std::sync::Arc;
use std::thread;
use std::time::{Duration, Instant};

use tinylfu_cached::cache::cached::CacheD;
use tinylfu_cached::cache::command::acknowledgement::CommandAcknowledgement;
use tinylfu_cached::cache::config::ConfigBuilder;
use tinylfu_cached::cache::verif::{Controller, Role};

use crate::json::J;
use crate::sched::poll_ack;

struct Rng(u64);
impl Rng {
    fn next(&mut self) -> u64 { self.0 ^= self.0 << 13; self.0 ^= self.0 >> 7; self.0 ^= self.0 << 17; self.0 }
    fn below(&mut self, n: u64) -> u64 { self.next() % n }
}

#[derive(Clone, Copy)]
enum Op { Put(u64), Delete }

fn program(pattern: u64, v: u64) -> (Vec<Op>, Vec<i128>, Option<u64>) {
    match pattern {
        0 => (vec![Op::Put(v), Op::Delete], vec![1, 1], None),
        1 => (vec![Op::Put(v), Op::Put(v + 1)], vec![1, 5], Some(v)),
        2 => (vec![Op::Delete, Op::Put(v)], vec![4, 1], Some(v)),
        _ => (vec![Op::Put(v), Op::Delete, Op::Delete], vec![1, 1, 4], None),
    }
}

fn await_ack(ack: &Arc<CommandAcknowledgement>, deadline: Instant) -> i128 {
    loop {
        if let Some(code) = poll_ack(ack) { return code; }
        if Instant::now() >= deadline { return 0; }
        thread::sleep(Duration::from_micros(50));
    }
}

pub fn run(args: &[String]) {
    let threads: usize = args.get(0).map(|s| s.parse().unwrap()).unwrap_or(2);
    let queue: usize = args.get(1).map(|s| s.parse().unwrap()).unwrap_or(1);
    let rounds: usize = args.get(2).map(|s| s.parse().unwrap()).unwrap_or(10);
    let keys: usize = args.get(3).map(|s| s.parse().unwrap()).unwrap_or(50);
    let seed: u64 = args.get(4).map(|s| s.parse().unwrap()).unwrap_or(1);
    crate::sched::install_panic_hook();

    let ctl = Controller::new();
    let config = ConfigBuilder::new(10_000, 10_000, 1_000_000)
        .shards(2).command_buffer_size(queue).access_pool_size(1).access_buffer_size(4)
        .build();
    ctl.install();
    let cache: Arc<CacheD<u64, u64>> = Arc::new(CacheD::new(config));
    Controller::uninstall();
    ctl.set_park_senders(false);
    ctl.free_run(Role::Worker);
    ctl.free_run(Role::Consumer);

    let mut handles = Vec::new();
    for t in 0..threads {
        let (ctl, cache) = (ctl.clone(), cache.clone());
        handles.push(thread::spawn(move || {
            ctl.register_client(100 + t);
            let mut rng = Rng(seed.wrapping_mul(0x9E3779B97F4A7C15) ^ ((t as u64 + 1) << 17));
            let mut violations: Vec<J> = Vec::new();
            let mut ops_done = 0u64;
            let mut unanswered = 0u64;
            let mut next_key = (t as u64) << 32;
            for round in 0..rounds {
                // the programs of this round, and one issue order that keeps each key's operations in program order
                let mut progs = Vec::new();
                for _ in 0..keys {
                    let k = next_key; next_key += 1;
                    let pattern = rng.below(4);
                    let v = 10 + rng.below(1000) * 2;
                    let (ops, expected, fin) = program(pattern, v);
                    progs.push((k, pattern, ops, expected, fin, 0usize, Vec::<Option<Arc<CommandAcknowledgement>>>::new()));
                }
                let mut open: Vec<usize> = (0..progs.len()).collect();
                let burst = rng.below(3) == 0;       // sometimes key after key, sometimes interleaved
                while !open.is_empty() {
                    let pick = if burst { 0 } else { rng.below(open.len().min(4) as u64) as usize };
                    let idx = open[pick];
                    let (k, _, ops, _, _, pos, acks) = &mut progs[idx];
                    let r = match ops[*pos] {
                        Op::Put(v) => cache.put_with_weight(*k, v, 1),
                        Op::Delete => cache.delete(*k),
                    };
                    acks.push(r.ok());      // a send error shows as status 98
                    *pos += 1;
                    ops_done += 1;
                    if *pos == ops.len() { open.remove(pick); }
                }
                let deadline = Instant::now() + Duration::from_secs(20);
                for (k, pattern, _, expected, fin, _, acks) in progs.iter() {
                    let observed: Vec<i128> = acks.iter().map(|a| a.as_ref().map(|a| await_ack(a, deadline)).unwrap_or(98)).collect();
                    unanswered += observed.iter().filter(|c| **c == 0).count() as u64;
                    let now = cache.get(k);
                    if &observed != expected || now != *fin {
                        if violations.len() < 5 {
                            violations.push(J::obj(vec![
                                ("thread", J::I(t as i128)), ("round", J::I(round as i128)), ("key", J::I(*k as i128)), ("pattern", J::I(*pattern as i128)),
                                ("expected", J::A(expected.iter().map(|c| J::I(*c)).collect())), ("observed", J::A(observed.iter().map(|c| J::I(*c)).collect())),
                                ("expected_value", J::I(fin.map(|v| v as i128).unwrap_or(-1))), ("observed_value", J::I(now.map(|v| v as i128).unwrap_or(-1))),
                            ]));
                        } else {
                            violations.push(J::I(0));
                        }
                    }
                }
                // leave nothing behind
                let mut cleanup = Vec::new();
                for (k, _, _, _, fin, _, _) in progs.iter() {
                    if fin.is_some() { if let Ok(a) = cache.delete(*k) { cleanup.push(a); } }
                }
                for a in cleanup.iter() { if await_ack(a, deadline) == 0 { unanswered += 1; } }
            }
            (violations, ops_done, unanswered)
        }));
    }
    let mut all: Vec<J> = Vec::new();
    let mut count = 0usize;
    let (mut ops, mut unanswered) = (0u64, 0u64);
    for h in handles {
        match h.join() {
            Ok((v, o, u)) => {
                count += v.len();
                for j in v { if !matches!(j, J::I(_)) && all.len() < 6 { all.push(j); } }
                ops += o; unanswered += u;
            }
            Err(_) => { count += 1; all.push(J::s("a caller thread panicked")); }
        }
    }
    let used = cache.total_weight_used();
    println!("{}", J::obj(vec![
        ("order", J::Bool(true)), ("threads", J::I(threads as i128)), ("queue", J::I(queue as i128)), ("rounds", J::I(rounds as i128)),
        ("keys_per_round", J::I(keys as i128)), ("seed", J::I(seed as i128)), ("operations", J::I(ops as i128)),
        ("violation_count", J::I(count as i128)), ("violations", J::A(all)), ("unanswered", J::I(unanswered as i128)),
        ("weight_left", J::I(used as i128)),
    ]).to_string());
    cache.shutdown();
    ctl.tick_async();
}
