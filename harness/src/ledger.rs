//! The weight ledger at the granularity of Ledger.v / LedgerUpd.v: the real `CacheWeight` (through `VerifCacheWeight`) driven
//! by a worker thread and a sweeper thread, each stopped at the schedule points inside `CacheWeight::delete`
//! (`weight.delete.mid`: entry removed, total not yet lowered) and `CacheWeight::update` (`weight.update.mid`: entry guard
//! taken, total not yet adjusted), one model action at a time.
//! Input: lines `case <name> fam=<g|u> max=<n> init=<id>:<w>,... sched=<token>,<token>,...`
//!   family g (Ledger.v):    S<id>:<w> AStart | C ACheck | I AInsert+AAdd (one call of add) | E<vid> AEvictRemove | e AEvictSub
//!                           | G AGiveUp | R<vid> ASweepRemove | r ASweepSub
//!   family u (LedgerUpd.v): U<id>:<w> UStart | u UAdd+UStore | R<vid> SRemove | r SSub | W<vid> WRemove | w WSub
//! The order of one thread's actions (the worker's program counter) is kept here the way admission_policy.rs keeps it;
//! every read and write of the ledger is the real code. Output per token: [executed, total, charges or null, worker pc, sweeper half-way].
//! executed: 0 not enabled, 1 done, 2 waits for the entry guard of the update in progress, 9 a step did not come back.
use std::fs;
use std::sync::{mpsc, Arc};
use std::sync::atomic::{AtomicBool, Ordering};
use std::thread;
use std::time::{Duration, Instant};

use tinylfu_cached::cache::verif::{Controller, Role, VerifCacheWeight};

use crate::json::J;

enum Cmd { Delete(u64), Update(u64, i64), Quit }

struct Actor { role: Role, tx: mpsc::Sender<Cmd>, busy: Arc<AtomicBool>, handle: Option<thread::JoinHandle<()>> }

fn spawn(ctl: &Arc<Controller>, cw: &Arc<VerifCacheWeight>, role: Role) -> Actor {
    let (tx, rx) = mpsc::channel::<Cmd>();
    let busy = Arc::new(AtomicBool::new(false));
    let (c, w, b) = (ctl.clone(), cw.clone(), busy.clone());
    let handle = thread::spawn(move || {
        c.register_as(role);
        while let Ok(cmd) = rx.recv() {
            match cmd {
                Cmd::Delete(id) => { let _ = w.delete(id); }
                Cmd::Update(id, weight) => { let _ = w.update(id, weight); }
                Cmd::Quit => break,
            }
            b.store(false, Ordering::SeqCst);
        }
    });
    Actor { role, tx, busy, handle: Some(handle) }
}

impl Actor {
    fn start(&self, cmd: Cmd) { self.busy.store(true, Ordering::SeqCst); let _ = self.tx.send(cmd); }
    /// waits until the actor is stopped at a point (Some(label)), has finished (None) or the time is up (Some("WAIT"))
    fn settle(&self, ctl: &Controller, timeout: Duration) -> Option<&'static str> {
        let deadline = Instant::now() + timeout;
        loop {
            if let Some(l) = ctl.at_point(self.role) { return Some(l); }
            if !self.busy.load(Ordering::SeqCst) { return None; }
            if Instant::now() >= deadline { return Some("WAIT"); }
            thread::sleep(Duration::from_micros(20));
        }
    }
}

#[derive(PartialEq)]
enum Pc { Idle, Checked, Evicting, Updating(u64), Deleting }

fn run_case(name: &str, fam: &str, max: i64, init: &[(u64, i64)], sched: &[String]) {
    let ctl = Controller::new();
    let cw = Arc::new(VerifCacheWeight::new(64, 64, max));
    for (id, w) in init { cw.add(*id, *id, *id, *w); }
    ctl.set_stepping(Role::Worker, true);
    ctl.set_stepping(Role::Sweeper, true);
    let worker = spawn(&ctl, &cw, Role::Worker);
    let sweeper = spawn(&ctl, &cw, Role::Sweeper);
    let long = Duration::from_secs(10);
    let short = Duration::from_millis(40);

    let mut pc = Pc::Idle;
    let mut wput: Option<(u64, i64)> = None;
    let mut sweeping = false;
    let mut sweeper_waits: Option<u64> = None;
    // the charges as last seen while nobody held an entry guard, kept up to date across the steps taken meanwhile
    let mut mirror: Vec<(u64, i64)>;
    let mut obs: Vec<J> = Vec::new();
    let mut extra: Vec<J> = Vec::new();

    let read_entries = |cw: &VerifCacheWeight| -> Vec<(u64, i64)> {
        let mut e: Vec<(u64, i64)> = cw.entries().into_iter().map(|(id, _, _, w)| (id, w)).collect();
        e.sort();
        e
    };
    mirror = read_entries(&cw);

    for (n, tok) in sched.iter().enumerate() {
        let kind = tok.chars().next().unwrap();
        let arg = &tok[1..];
        let (a, b): (u64, i64) = match arg.split_once(':') {
            Some((x, y)) => (x.parse().unwrap_or(0), y.parse().unwrap_or(0)),
            None => (arg.parse().unwrap_or(0), 0),
        };
        let guard_held = matches!(pc, Pc::Updating(_));
        let charged = |id: u64, mirror: &Vec<(u64, i64)>| mirror.iter().any(|(i, _)| *i == id);
        let mut exec = 0i128;
        match (fam, kind) {
            ("g", 'S') => {
                if pc == Pc::Idle && b > 0 && b <= max && !charged(a, &mirror) { wput = Some((a, b)); exec = 1; }
            }
            ("g", 'C') => {
                if let (true, Some((_, w))) = (pc == Pc::Idle, wput) {
                    if cw.is_space_available_for(w).1 { pc = Pc::Checked; exec = 1; }
                }
            }
            ("g", 'I') => {
                if let (true, Some((id, w))) = (pc == Pc::Checked, wput) {
                    cw.add(id, id, id, w);
                    pc = Pc::Idle; wput = None; exec = 1;
                }
            }
            ("g", 'E') => {
                if let (true, Some((_, w))) = (pc == Pc::Idle, wput) {
                    if charged(a, &mirror) && !cw.is_space_available_for(w).1 {
                        worker.start(Cmd::Delete(a));
                        match worker.settle(&ctl, long) {
                            Some("weight.delete.mid") => { pc = Pc::Evicting; exec = 1; }
                            None => { exec = 1; }       // the entry was gone: nothing removed (reported through the charges)
                            _ => { exec = 9; }
                        }
                    }
                }
            }
            ("g", 'e') => {
                if pc == Pc::Evicting {
                    ctl.step_point(Role::Worker);
                    exec = if worker.settle(&ctl, long).is_none() { 1 } else { 9 };
                    pc = Pc::Idle;
                }
            }
            ("g", 'G') => { if pc == Pc::Idle { wput = None; exec = 1; } }
            (_, 'R') => {
                if !sweeping && charged(a, &mirror) {
                    sweeper.start(Cmd::Delete(a));
                    match sweeper.settle(&ctl, if guard_held { short } else { long }) {
                        Some("weight.delete.mid") => { sweeping = true; exec = 1; mirror.retain(|(i, _)| *i != a); }
                        None => { exec = 1; }
                        Some("WAIT") if guard_held => { sweeping = true; sweeper_waits = Some(a); exec = 2; }
                        _ => { exec = 9; }
                    }
                }
            }
            (_, 'r') => {
                if sweeping && sweeper_waits.is_none() {
                    ctl.step_point(Role::Sweeper);
                    exec = if sweeper.settle(&ctl, long).is_none() { 1 } else { 9 };
                    sweeping = false;
                }
            }
            ("u", 'U') => {
                if pc == Pc::Idle && b > 0 && charged(a, &mirror) {
                    worker.start(Cmd::Update(a, b));
                    match worker.settle(&ctl, long) {
                        Some("weight.update.mid") => { pc = Pc::Updating(a); exec = 1; }
                        None => { exec = 1; }
                        _ => { exec = 9; }
                    }
                }
            }
            ("u", 'u') => {
                if guard_held {
                    ctl.step_point(Role::Worker);
                    exec = if worker.settle(&ctl, long).is_none() { 1 } else { 9 };
                    pc = Pc::Idle;
                    if let Some(vid) = sweeper_waits.take() {
                        // the guard is free: the sweeper's removal goes through now
                        match sweeper.settle(&ctl, long) {
                            Some("weight.delete.mid") => { extra.push(J::A(vec![J::I(n as i128), J::S(format!("R{}", vid)), J::I(1)])); }
                            None => { sweeping = false; extra.push(J::A(vec![J::I(n as i128), J::S(format!("R{}", vid)), J::I(0)])); }
                            _ => { exec = 9; }
                        }
                    }
                }
            }
            ("u", 'W') => {
                if pc == Pc::Idle && charged(a, &mirror) {
                    worker.start(Cmd::Delete(a));
                    match worker.settle(&ctl, long) {
                        Some("weight.delete.mid") => { pc = Pc::Deleting; exec = 1; }
                        None => { exec = 1; }
                        _ => { exec = 9; }
                    }
                }
            }
            ("u", 'w') => {
                if pc == Pc::Deleting {
                    ctl.step_point(Role::Worker);
                    exec = if worker.settle(&ctl, long).is_none() { 1 } else { 9 };
                    pc = Pc::Idle;
                }
            }
            _ => {}
        }
        let used = cw.weight_used();
        let still_guarded = matches!(pc, Pc::Updating(_));
        let charges = if still_guarded || exec == 9 { J::Null } else {
            mirror = read_entries(&cw);
            J::A(mirror.iter().map(|(i, w)| J::A(vec![J::I(*i as i128), J::I(*w as i128)])).collect())
        };
        let pc_code = match pc { Pc::Idle => 0, Pc::Checked => 1, Pc::Evicting => 3, Pc::Updating(_) => 4, Pc::Deleting => 5 };
        obs.push(J::A(vec![J::I(exec), J::I(used as i128), charges, J::I(pc_code), J::Bool(sweeping)]));
        if exec == 9 { break; }
    }
    println!("{}", J::obj(vec![("case", J::s(name)), ("obs", J::A(obs)), ("late", J::A(extra))]).to_string());
    // let everything finish
    ctl.set_stepping(Role::Worker, false);
    ctl.set_stepping(Role::Sweeper, false);
    for a in [worker, sweeper] {
        let _ = a.tx.send(Cmd::Quit);
        let mut a = a;
        if let Some(h) = a.handle.take() {
            let deadline = Instant::now() + Duration::from_secs(5);
            while !h.is_finished() && Instant::now() < deadline { thread::sleep(Duration::from_millis(1)); }
            if h.is_finished() { let _ = h.join(); }
        }
    }
}

pub fn run_file(path: &str) {
    let text = fs::read_to_string(path).expect("cannot read ledger file");
    for raw in text.lines() {
        let parts: Vec<&str> = raw.split_whitespace().collect();
        if parts.is_empty() || parts[0] != "case" { continue; }
        let name = parts[1];
        let (mut fam, mut max) = ("g".to_string(), 100i64);
        let mut init: Vec<(u64, i64)> = Vec::new();
        let mut sched: Vec<String> = Vec::new();
        for p in &parts[2..] {
            if let Some((k, v)) = p.split_once('=') {
                match k {
                    "fam" => fam = v.to_string(),
                    "max" => max = v.parse().unwrap(),
                    "init" => init = v.split(',').filter(|s| !s.is_empty()).map(|s| { let (a, b) = s.split_once(':').unwrap(); (a.parse().unwrap(), b.parse().unwrap()) }).collect(),
                    "sched" => sched = v.split(',').filter(|s| !s.is_empty()).map(|s| s.to_string()).collect(),
                    _ => {}
                }
            }
        }
        run_case(name, &fam, max, &init, &sched);
    }
}
