//! Free-running stress with *perturbation through the public API*: the key type's `Hash` (and `Clone`) occasionally
//! busy-waits, which stretches every window in which the cache hashes a key inside one of its critical sections (store
//! and ledger map operations, the eviction hook). Invariants are checked through the public API only:
//!   - the total weight is never negative (an observer samples it continuously);
//!   - after the callers stop, everything is acknowledged, ticks stop and every key is deleted and acknowledged, the
//!     total weight is exactly 0 and KeysAdded - KeysDeleted is 0.
//! usage: stress2 <threads> <millis> <seed>
use std::hash::{Hash, Hasher};
use std::sync::atomic::{AtomicBool, AtomicI64, AtomicU64, Ordering};
use std::sync::Arc;
use std::thread;
use std::time::{Duration, Instant};

use tinylfu_cached::cache::cached::CacheD;
use tinylfu_cached::cache::config::ConfigBuilder;
use tinylfu_cached::cache::put_or_update::PutOrUpdateRequestBuilder;
use tinylfu_cached::cache::stats::StatsType;
use tinylfu_cached::cache::verif::{Controller, Role};

use crate::json::J;
use crate::sched::{poll_ack, MockClock};

static JITTER: AtomicBool = AtomicBool::new(false);
static JITTER_COUNT: AtomicU64 = AtomicU64::new(0);

fn maybe_stall() {
    if !JITTER.load(Ordering::Relaxed) { return; }
    let n = JITTER_COUNT.fetch_add(1, Ordering::Relaxed);
    if n % 41 == 0 {
        let until = Instant::now() + Duration::from_micros(40 + (n % 7) * 40);
        while Instant::now() < until { std::hint::spin_loop(); }
    } else if n % 13 == 0 {
        thread::yield_now();
    }
}

#[derive(PartialEq, Eq, Debug)]
struct SlowKey(u64);
impl Hash for SlowKey {
    fn hash<H: Hasher>(&self, state: &mut H) { maybe_stall(); self.0.hash(state); }
}
impl Clone for SlowKey {
    fn clone(&self) -> Self { maybe_stall(); SlowKey(self.0) }
}

struct Rng(u64);
impl Rng {
    fn next(&mut self) -> u64 { self.0 ^= self.0 << 13; self.0 ^= self.0 >> 7; self.0 ^= self.0 << 17; self.0 }
    fn below(&mut self, n: u64) -> u64 { self.next() % n }
}

pub fn run(args: &[String]) {
    let threads: usize = args.get(0).map(|s| s.parse().unwrap()).unwrap_or(4);
    let millis: u64 = args.get(1).map(|s| s.parse().unwrap()).unwrap_or(2000);
    let seed: u64 = args.get(2).map(|s| s.parse().unwrap()).unwrap_or(1);
    // "upserts": the mix also contains put_or_update calls that are valid whether or not the key is present (they always
    // carry a value; a time-to-live or a weight now and then); only panics and hangs are judged in this mode
    let upserts = args.get(3).map(|s| s == "upserts").unwrap_or(false);
    // "nottl": no time-to-live at all, so a key that reads as absent while nothing is pending cannot be an expired one;
    // at quiescence such a key must not be rejected as already existing
    let nottl = args.get(3).map(|s| s == "nottl").unwrap_or(false);
    crate::sched::install_panic_hook();
    const KEYS: u64 = 4;

    let ctl = Controller::new();
    let clock = Arc::new(AtomicU64::new(1_000_000_000_000));
    let config = ConfigBuilder::new(16, 16, 100)
        .shards(2).command_buffer_size(2).access_pool_size(1).access_buffer_size(2)
        .clock(Box::new(MockClock(clock.clone())))
        .key_hash_fn(Box::new(|k: &SlowKey| k.0))
        .build();
    ctl.install();
    let cache: Arc<CacheD<SlowKey, u64>> = Arc::new(CacheD::new(config));
    Controller::uninstall();
    ctl.set_park_senders(false);
    ctl.free_run(Role::Worker);
    ctl.free_run(Role::Consumer);
    JITTER.store(true, Ordering::SeqCst);

    let stop = Arc::new(AtomicBool::new(false));
    let stop_ticks = Arc::new(AtomicBool::new(false));
    let progress: Vec<Arc<AtomicU64>> = (0..threads).map(|_| Arc::new(AtomicU64::new(0))).collect();
    let min_seen = Arc::new(AtomicI64::new(0));
    let max_seen = Arc::new(AtomicI64::new(0));
    let mut handles = Vec::new();
    {
        let (ctl, stop_ticks, clock) = (ctl.clone(), stop_ticks.clone(), clock.clone());
        handles.push(thread::spawn(move || {
            while !stop_ticks.load(Ordering::SeqCst) {
                clock.fetch_add(250_000_000, Ordering::SeqCst);
                ctl.tick_async();
                thread::sleep(Duration::from_micros(150));
            }
        }));
    }
    {
        let (cache, stop, min_seen, max_seen) = (cache.clone(), stop.clone(), min_seen.clone(), max_seen.clone());
        handles.push(thread::spawn(move || {
            while !stop.load(Ordering::SeqCst) {
                let w = cache.total_weight_used();
                if w < min_seen.load(Ordering::SeqCst) { min_seen.store(w, Ordering::SeqCst); }
                if w > max_seen.load(Ordering::SeqCst) { max_seen.store(w, Ordering::SeqCst); }
                std::hint::spin_loop();
            }
        }));
    }
    let panics: Arc<std::sync::Mutex<Vec<String>>> = Arc::new(std::sync::Mutex::new(Vec::new()));
    for t in 0..threads {
        let (ctl, cache, stop, prog, panics) = (ctl.clone(), cache.clone(), stop.clone(), progress[t].clone(), panics.clone());
        handles.push(thread::spawn(move || {
            ctl.register_client(200 + t);
            let mut rng = Rng(seed.wrapping_mul(0x9E3779B97F4A7C15) ^ (t as u64 + 1));
            let mut acks = Vec::new();
            while !stop.load(Ordering::SeqCst) {
                let k = rng.below(KEYS);
                let v = rng.next() % 1000;
                let op = if upserts && rng.below(3) == 0 { 10 + rng.below(3) } else { rng.below(10) };
                let attempt = std::panic::catch_unwind(std::panic::AssertUnwindSafe(|| match op {
                    0 | 1 | 2 if nottl => cache.put_with_weight(SlowKey(k), v, match rng.below(3) { 0 => 5 + rng.below(10), 1 => 30 + rng.below(10), _ => 60 + rng.below(41) } as i64).ok(),
                    0 | 1 | 2 => {
                        // light, medium and heavy keys: a heavy put may have to evict everything it can see
                        let w = match rng.below(4) { 0 => 5 + rng.below(10), 1 | 2 => 30 + rng.below(10), _ => 60 + rng.below(41) } as i64;
                        cache.put_with_weight_and_ttl(SlowKey(k), v, w, Duration::from_millis(250 + rng.below(750))).ok()
                    }
                    3 => cache.put_with_weight(SlowKey(k), v, match rng.below(3) { 0 => 5 + rng.below(10), 1 => 30 + rng.below(10), _ => 60 + rng.below(41) } as i64).ok(),
                    4 | 5 | 6 => cache.delete(SlowKey(k)).ok(),
                    7 => { let _ = cache.get_ref(&SlowKey(k)).map(|r| *r.value().value_ref()); None }
                    10 => cache.put_or_update(PutOrUpdateRequestBuilder::new(SlowKey(k)).value(v).build()).ok(),
                    11 => cache.put_or_update(PutOrUpdateRequestBuilder::new(SlowKey(k)).value(v).time_to_live(Duration::from_millis(250 + rng.below(750))).build()).ok(),
                    12 => cache.put_or_update(PutOrUpdateRequestBuilder::new(SlowKey(k)).value(v).weight(5 + rng.below(40) as i64).build()).ok(),
                    _ => { let _ = cache.get(&SlowKey(k)); None }
                }));
                match attempt {
                    Ok(Some(a)) => acks.push(a),
                    Ok(None) => {}
                    Err(payload) => {
                        let msg = if let Some(s) = payload.downcast_ref::<&str>() { s.to_string() }
                        else if let Some(s) = payload.downcast_ref::<String>() { s.clone() } else { "panic".to_string() };
                        panics.lock().unwrap().push(msg);
                    }
                }
                if acks.len() > 64 { acks.retain(|a| poll_ack(a).is_none()); }
                prog.fetch_add(1, Ordering::SeqCst);
            }
            // everything this caller queued gets acknowledged
            let deadline = Instant::now() + Duration::from_secs(10);
            while acks.iter().any(|a| poll_ack(a).is_none()) && Instant::now() < deadline { thread::sleep(Duration::from_millis(1)); }
        }));
    }
    thread::sleep(Duration::from_millis(millis));
    stop.store(true, Ordering::SeqCst);
    let total: u64 = progress.iter().map(|p| p.load(Ordering::SeqCst)).sum();
    // join the callers and the observer (with a watchdog), then stop the ticks
    let deadline = Instant::now() + Duration::from_secs(20);
    let mut hung = false;
    let tick_handle = handles.remove(0);
    for h in handles {
        while !h.is_finished() && Instant::now() < deadline { thread::sleep(Duration::from_millis(2)); }
        if h.is_finished() { let _ = h.join(); } else { hung = true; }
    }
    stop_ticks.store(true, Ordering::SeqCst);
    let _ = tick_handle.join();
    JITTER.store(false, Ordering::SeqCst);
    thread::sleep(Duration::from_millis(20));
    // nothing is pending now: a key that reads as absent must not be rejected as already existing (no time-to-live in this mode)
    let mut unreadable_but_present: Vec<u64> = Vec::new();
    if nottl && !hung {
        for k in 0..KEYS {
            if cache.get(&SlowKey(k)).is_none() {
                if let Ok(a) = cache.put_with_weight(SlowKey(k), 1, 5) {
                    let deadline = Instant::now() + Duration::from_secs(10);
                    while poll_ack(&a).is_none() && Instant::now() < deadline { thread::sleep(Duration::from_millis(1)); }
                    if poll_ack(&a) == Some(5) { unreadable_but_present.push(k); }
                }
            }
        }
    }
    // directed races, still under perturbation: delete(k) by one thread against "wait until k reads as absent, then put k
    // until accepted" by another. When both are done and acknowledged, the accepted put must be readable.
    let mut accepted_put_unreadable: Vec<u64> = Vec::new();
    let mut race_rounds = 0u64;
    if nottl && !hung {
        let await_ack = |a: &Arc<tinylfu_cached::cache::command::acknowledgement::CommandAcknowledgement>| -> Option<i128> {
            let deadline = Instant::now() + Duration::from_secs(10);
            while poll_ack(a).is_none() && Instant::now() < deadline { thread::sleep(Duration::from_micros(20)); }
            poll_ack(a)
        };
        for k in 0..KEYS { if let Ok(a) = cache.delete(SlowKey(k)) { let _ = await_ack(&a); } }
        JITTER.store(true, Ordering::SeqCst);
        let until = Instant::now() + Duration::from_millis(millis.min(1500));
        let mut k = 1000u64;
        while Instant::now() < until {
            k += 1;
            race_rounds += 1;
            match cache.put_with_weight(SlowKey(k), 1, 5) { Ok(a) => { if await_ack(&a) != Some(1) { continue; } } Err(_) => continue }
            let c1 = cache.clone();
            let deleter = thread::spawn(move || c1.delete(SlowKey(k)).ok());
            let c2 = cache.clone();
            let putter = thread::spawn(move || {
                let deadline = Instant::now() + Duration::from_secs(5);
                while Instant::now() < deadline {
                    if c2.get(&SlowKey(k)).is_none() {
                        if let Ok(a) = c2.put_with_weight(SlowKey(k), 2, 5) {
                            while poll_ack(&a).is_none() && Instant::now() < deadline { std::hint::spin_loop(); }
                            if poll_ack(&a) == Some(1) { return true; }
                        }
                    }
                }
                false
            });
            let del_ack = deleter.join().ok().flatten();
            let put_ok = putter.join().unwrap_or(false);
            if let Some(a) = del_ack { let _ = await_ack(&a); }
            if put_ok && cache.get(&SlowKey(k)) != Some(2) { accepted_put_unreadable.push(k); }
            if let Ok(a) = cache.delete(SlowKey(k)) { let _ = await_ack(&a); }
        }
        JITTER.store(false, Ordering::SeqCst);
    }
    // quiesce: delete every key and wait for the acknowledgements
    let mut final_total = i64::MIN;
    let mut keys_balance = i128::MIN;
    if !hung {
        let mut acks = Vec::new();
        for k in 0..KEYS { if let Ok(a) = cache.delete(SlowKey(k)) { acks.push(a); } }
        let deadline = Instant::now() + Duration::from_secs(10);
        while acks.iter().any(|a| poll_ack(a).is_none()) && Instant::now() < deadline { thread::sleep(Duration::from_millis(1)); }
        hung = acks.iter().any(|a| poll_ack(a).is_none());
        final_total = cache.total_weight_used();
        let s = cache.stats_summary();
        keys_balance = s.get(&StatsType::KeysAdded).unwrap() as i128 - s.get(&StatsType::KeysDeleted).unwrap() as i128;
    }
    let panic_list: Vec<String> = panics.lock().unwrap().clone();
    println!("{}", J::obj(vec![
        ("stress2", J::Bool(true)), ("upserts", J::Bool(upserts)), ("nottl", J::Bool(nottl)),
        ("race_rounds", J::I(race_rounds as i128)), ("accepted_put_unreadable", J::A(accepted_put_unreadable.iter().take(5).map(|k| J::I(*k as i128)).collect())),
        ("unreadable_but_present", J::A(unreadable_but_present.iter().map(|k| J::I(*k as i128)).collect())), ("threads", J::I(threads as i128)), ("millis", J::I(millis as i128)), ("operations", J::I(total as i128)),
        ("hung", J::Bool(hung)), ("min_total_seen", J::I(min_seen.load(Ordering::SeqCst) as i128)),
        ("max_total_seen", J::I(max_seen.load(Ordering::SeqCst) as i128)), ("cache_weight", J::I(100)),
        ("final_total", J::I(final_total as i128)), ("keys_balance", J::I(keys_balance)),
        ("panic_count", J::I(panic_list.len() as i128)), ("panics", J::A(panic_list.iter().take(3).map(|p| J::S(p.clone())).collect())),
        ("roles", J::obj(vec![
            ("worker", J::S(format!("{:?}", ctl.role_state(Role::Worker)))),
            ("sweeper", J::S(format!("{:?}", ctl.role_state(Role::Sweeper)))),
            ("consumer", J::S(format!("{:?}", ctl.role_state(Role::Consumer)))),
        ])),
    ]).to_string());
    if hung { std::process::exit(3); }
}
