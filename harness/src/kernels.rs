//! Pure kernels of the real crate evaluated on fixed grids. One JSON line per kernel.
use std::cmp::Ordering;
use tinylfu_cached::cache::verif::{verif_row, verif_sampled_key_cmp, verif_type_of_expiry_update, verif_hit_ratio, VerifCacheWeight, VerifTicker};
use tinylfu_cached::cache::clock::{Clock, ClockType};
use std::time::{Duration, SystemTime, UNIX_EPOCH};
use crate::json::J;

#[derive(Clone)]
struct FixedClock(u64);
impl Clock for FixedClock {
    fn now(&self) -> SystemTime { UNIX_EPOCH + Duration::from_nanos(self.0) }
}

fn line(name: &str, value: J) {
    println!("{}", J::obj(vec![("kernel", J::s(name)), ("value", value)]).to_string());
}

pub fn next_power_2_inputs() -> Vec<u64> {
    let mut inputs: Vec<u64> = (1..=1025).collect();
    for k in 1..=63u32 {
        let p = 1u64 << k;
        for d in [-1i64, 0, 1] {
            let c = (p as i128 + d as i128) as u64;
            if c >= 1 && c <= (1u64 << 63) { inputs.push(c); }
        }
    }
    inputs.sort();
    inputs.dedup();
    inputs
}

pub fn run() {
    // Row kernels: all 256 bytes x both nibble positions, on a one-byte row (exhaustive)
    let mut inc = Vec::new();
    let mut get = Vec::new();
    let mut half = Vec::new();
    for b in 0..=255u8 {
        for pos in 0..2u64 {
            inc.push(J::I(verif_row::increment_at(&[b], pos)[0] as i128));
            get.push(J::I(verif_row::get_at(&[b], pos) as i128));
        }
        half.push(J::I(verif_row::half_counters(&[b])[0] as i128));
    }
    line("row_increment_at", J::A(inc));
    line("row_get_at", J::A(get));
    line("row_half", J::A(half));

    // Rows of 1..8 bytes, every position: increment only touches its own byte
    let mut multi = Vec::new();
    for len in 1..=8usize {
        let bytes: Vec<u8> = (0..len).map(|i| (i as u8).wrapping_mul(37).wrapping_add(0x5f)).collect();
        for pos in 0..(2 * len as u64) {
            multi.push(J::A(vec![J::I(len as i128), J::I(pos as i128), J::u8s(&verif_row::increment_at(&bytes, pos)), J::I(verif_row::get_at(&bytes, pos) as i128)]));
        }
    }
    line("row_multi", J::A(multi));

    // Halving whole rows of 1..40 bytes (word-sized and unaligned lengths), three byte patterns each
    let mut half_multi = Vec::new();
    for len in 1..=40usize {
        for pat in 0..3u8 {
            let bytes: Vec<u8> = (0..len).map(|i| match pat {
                0 => (i as u8).wrapping_mul(37).wrapping_add(0x5f),
                1 => 0xff,
                _ => (i as u8).wrapping_mul(101).wrapping_add(len as u8).wrapping_mul(13) | 0x10,
            }).collect();
            half_multi.push(J::A(vec![J::u8s(&bytes), J::u8s(&verif_row::half_counters(&bytes))]));
        }
    }
    line("row_half_multi", J::A(half_multi));

    // next_power_2
    let inputs = next_power_2_inputs();
    line("next_power_2", J::A(inputs.iter().map(|c| J::A(vec![J::I(*c as i128), J::I(verif_row::next_power_2(*c) as i128)])).collect()));

    // SampledKey::cmp on a grid: frequencies 0..=16, weights {1,2,3,7,i64::MAX}
    let weights = [1i64, 2, 3, 7, i64::MAX];
    let mut cmp = Vec::new();
    for fa in 0..=16u8 { for wa in weights { for fb in 0..=16u8 { for wb in weights {
        let o = verif_sampled_key_cmp((1, wa, fa), (2, wb, fb));
        cmp.push(J::I(match o { Ordering::Less => -1, Ordering::Equal => 0, Ordering::Greater => 1 }));
    }}}}
    line("sampled_key_cmp", J::A(cmp));

    // type_of_expiry_update: 3 x 3 (none / t1 / t2 for existing and new)
    let opts = [None, Some(100u64), Some(200u64)];
    let mut te = Vec::new();
    for e in opts { for n in opts {
        let (tag, a, b) = verif_type_of_expiry_update(e, n);
        te.push(J::A(vec![J::I(tag as i128), J::I(a as i128), J::I(b as i128)]));
    }}
    line("type_of_expiry_update", J::A(te));

    // hit_ratio grid
    let mut hr = Vec::new();
    for h in 0..=12u64 { for m in 0..=12u64 {
        hr.push(J::A(vec![J::I(h as i128), J::I(m as i128), J::F(verif_hit_ratio(h, m))]));
    }}
    line("hit_ratio", J::A(hr));

    // is_space_available_for, update stats: grid around the boundary
    let mut space = Vec::new();
    for max in [1i64, 10, 100] {
        for used in [0i64, 1, 5, 9, 10] {
            if used > max { continue; }
            let cw = VerifCacheWeight::new(16, 2, max);
            if used > 0 { cw.add(1, 1, 1, used); }
            for w in [1i64, max - used - 1, max - used, max - used + 1, max, max + 1] {
                if w <= 0 { continue; }
                let (avail, ok) = cw.is_space_available_for(w);
                space.push(J::A(vec![J::I(max as i128), J::I(used as i128), J::I(w as i128), J::I(avail as i128), J::Bool(ok)]));
            }
        }
    }
    line("is_space_available_for", J::A(space));

    let mut upd = Vec::new();
    for old in [1i64, 5, 24, 25, 100] { for new in [1i64, 4, 5, 6, 24, 25, 200] {
        let cw = VerifCacheWeight::new(16, 2, 1000);
        cw.add(1, 1, 1, old);
        let r = cw.update(1, new);
        let st = cw.stats();
        upd.push(J::A(vec![J::I(old as i128), J::I(new as i128), J::Bool(r), J::I(cw.weight_used() as i128), J::I(st[6] as i128), J::I(st[7] as i128), J::I(st[4] as i128)]));
    }}
    line("update_weight_stats", J::A(upd));

    // shard index: seconds around multiples of shards, with sub-second parts
    let mut sh = Vec::new();
    for shards in [2usize, 4, 8] {
        let clock: ClockType = Box::new(FixedClock(0));
        let ticker = VerifTicker::new(shards, clock);
        for secs in 0..(3 * shards as u64 + 2) {
            for nanos in [0u64, 1, 999_999_999] {
                let t = UNIX_EPOCH + Duration::from_nanos(secs * 1_000_000_000 + nanos);
                sh.push(J::A(vec![J::I(shards as i128), J::I((secs * 1_000_000_000 + nanos) as i128), J::I(ticker.shard_index(t) as i128)]));
            }
        }
        ticker.shutdown();
    }
    line("shard_index", J::A(sh));

    // what the two builders accept (a panic = rejected): grids around every boundary
    let hook = std::panic::take_hook();
    std::panic::set_hook(Box::new(|_| {}));
    let mut cfgs = Vec::new();
    for counters in [0u64, 1, 16] { for capacity in [0usize, 1, 16] { for weight in [-1i64, 0, 1, 100] {
        for pool in [0usize, 1, 2] { for buffer in [0usize, 1] { for queue in [0usize, 1] { for shards in [0usize, 1, 2, 3, 4, 6, 8, 12, 16] {
            let ok = std::panic::catch_unwind(|| {
                let _ = tinylfu_cached::cache::config::ConfigBuilder::<u64, u64>::new(counters, capacity, weight)
                    .access_pool_size(pool).access_buffer_size(buffer).command_buffer_size(queue).shards(shards).build();
            }).is_ok();
            cfgs.push(J::A(vec![J::I(counters as i128), J::I(capacity as i128), J::I(weight as i128), J::I(pool as i128), J::I(buffer as i128),
                                J::I(queue as i128), J::I(shards as i128), J::Bool(ok)]));
        }}}}
    }}}
    line("config_accepted", J::A(cfgs));
    let mut ups = Vec::new();
    for value in [None, Some(7u64)] { for weight in [None, Some(-1i64), Some(0), Some(1), Some(5)] {
        for ttl in [None, Some(0u64), Some(5_000_000_000)] { for rm in [false, true] {
            let ok = std::panic::catch_unwind(|| {
                let mut b = tinylfu_cached::cache::put_or_update::PutOrUpdateRequestBuilder::<u64, u64>::new(1);
                if let Some(v) = value { b = b.value(v); }
                if let Some(w) = weight { b = b.weight(w); }
                if let Some(t) = ttl { b = b.time_to_live(Duration::from_nanos(t)); }
                if rm { b = b.remove_time_to_live(); }
                let _ = b.build();
            }).is_ok();
            ups.push(J::A(vec![J::I(value.map(|v| v as i128).unwrap_or(-1)), J::I(weight.map(|w| w as i128).unwrap_or(-99)), J::I(ttl.map(|t| t as i128).unwrap_or(-1)), J::Bool(rm), J::Bool(ok)]));
        }}
    }}
    line("upsert_accepted", J::A(ups));
    std::panic::set_hook(hook);
}
