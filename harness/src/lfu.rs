//! Access streams on the real TinyLFU (doorkeeper + count-min sketch + ageing).
//! Input: blocks `case <name> <counters> <s0> <s1> <s2> <s3>` / `inc <h>` / `est <h>` / `end`.
use std::fs;
use tinylfu_cached::cache::verif::VerifTinyLFU;
use crate::json::J;

pub fn run_file(path: &str) {
    let text = fs::read_to_string(path).expect("cannot read lfu file");
    let mut lfu: Option<VerifTinyLFU> = None;
    let mut name = String::new();
    let mut ops: Vec<J> = Vec::new();
    let mut panicked = false;
    std::panic::set_hook(Box::new(|_| {}));
    for raw in text.lines() {
        let parts: Vec<&str> = raw.split_whitespace().collect();
        if parts.is_empty() { continue; }
        match parts[0] {
            "case" => {
                name = parts[1].to_string();
                let counters: u64 = parts[2].parse().unwrap();
                let seeds: Vec<u64> = parts[3..7].iter().map(|s| s.parse().unwrap()).collect();
                lfu = Some(VerifTinyLFU::with_seeds(counters, [seeds[0], seeds[1], seeds[2], seeds[3]]));
                ops.clear();
                panicked = false;
            }
            "inc" if panicked => {}
            "est" if panicked => {}
            "inc" => {
                let h: u64 = parts[1].parse().unwrap();
                let l = lfu.as_mut().unwrap();
                let attempt = std::panic::catch_unwind(std::panic::AssertUnwindSafe(|| l.increment_one(h)));
                if attempt.is_err() {
                    panicked = true;
                    ops.push(J::obj(vec![("op", J::s("panic")), ("h", J::I(h as i128))]));
                    continue;
                }
                let had = attempt.unwrap();
                ops.push(J::obj(vec![
                    ("op", J::s("inc")), ("h", J::I(h as i128)), ("had", J::Bool(had)),
                    ("rows", J::A(l.rows().iter().map(|r| J::u8s(r)).collect())),
                    ("incs", J::I(l.total_increments() as i128)),
                ]));
            }
            "est" => {
                let h: u64 = parts[1].parse().unwrap();
                let l = lfu.as_ref().unwrap();
                let attempt = std::panic::catch_unwind(std::panic::AssertUnwindSafe(|| l.estimate_with_door(h)));
                if attempt.is_err() {
                    panicked = true;
                    ops.push(J::obj(vec![("op", J::s("panic")), ("h", J::I(h as i128))]));
                    continue;
                }
                let (e, door) = attempt.unwrap();
                ops.push(J::obj(vec![("op", J::s("est")), ("h", J::I(h as i128)), ("est", J::I(e as i128)), ("door", J::Bool(door))]));
            }
            "end" => {
                let l = lfu.as_ref().unwrap();
                println!("{}", J::obj(vec![
                    ("case", J::s(&name)),
                    ("total_counters", J::I(l.total_counters() as i128)),
                    ("reset_at", J::I(l.reset_counters_at() as i128)),
                    ("ops", J::A(ops.clone())),
                ]).to_string());
                lfu = None;
            }
            _ => panic!("bad lfu line {}", raw),
        }
    }
}
