//! A caller that really waits in front of the full command queue (C11 / C13): the worker is held at its gate, the queue has
//! one slot, a client thread issues two puts - the second one blocks inside the channel send. After <millis> of real time the
//! worker is let go. The blocked write must then be queued and acknowledged like any other: a cache that is not shutting down
//! never refuses or drops a write because the queue was full for a while.
//! usage: stall <millis>
use std::sync::Arc;
use std::thread;
use std::time::{Duration, Instant};

use tinylfu_cached::cache::cached::CacheD;
use tinylfu_cached::cache::config::ConfigBuilder;
use tinylfu_cached::cache::verif::{Controller, Role};

use crate::json::J;
use crate::sched::poll_ack;

pub fn run(args: &[String]) {
    let millis: u64 = args.get(0).map(|s| s.parse().unwrap()).unwrap_or(900);
    crate::sched::install_panic_hook();
    let ctl = Controller::new();
    let config = ConfigBuilder::new(1000, 1000, 100_000).shards(2).command_buffer_size(1).access_pool_size(1).access_buffer_size(4).build();
    ctl.install();
    let cache: Arc<CacheD<u64, u64>> = Arc::new(CacheD::new(config));
    Controller::uninstall();
    ctl.set_park_senders(false);
    ctl.free_run(Role::Consumer);
    // the worker stays at its gate: it does not receive

    let (c2, ctl2) = (cache.clone(), ctl.clone());
    let started = Instant::now();
    let h = thread::spawn(move || {
        ctl2.register_client(100);
        let first = c2.put_with_weight(1, 11, 1);
        let second = c2.put_with_weight(2, 22, 1);       // blocks: the queue's only slot is taken and nobody receives
        let waited = started.elapsed().as_millis() as i128;
        (first.ok(), second.ok(), waited)
    });
    thread::sleep(Duration::from_millis(millis));
    ctl.free_run(Role::Worker);
    let deadline = Instant::now() + Duration::from_secs(10);
    while !h.is_finished() && Instant::now() < deadline { thread::sleep(Duration::from_millis(1)); }
    let finished = h.is_finished();
    let (mut first_ok, mut second_ok, mut waited, mut first_status, mut second_status) = (false, false, -1i128, -1i128, -1i128);
    if finished {
        if let Ok((first, second, w)) = h.join() {
            waited = w;
            first_ok = first.is_some();
            second_ok = second.is_some();
            let dl = Instant::now() + Duration::from_secs(10);
            let await_ack = |a: &Arc<tinylfu_cached::cache::command::acknowledgement::CommandAcknowledgement>| -> i128 {
                loop {
                    if let Some(code) = poll_ack(a) { return code; }
                    if Instant::now() >= dl { return 0; }
                    thread::sleep(Duration::from_micros(100));
                }
            };
            if let Some(a) = first.as_ref() { first_status = await_ack(a); }
            if let Some(a) = second.as_ref() { second_status = await_ack(a); }
        }
    }
    let v1 = cache.get(&1).map(|v| v as i128).unwrap_or(-1);
    let v2 = cache.get(&2).map(|v| v as i128).unwrap_or(-1);
    println!("{}", J::obj(vec![
        ("stall", J::Bool(true)), ("millis", J::I(millis as i128)), ("caller_returned", J::Bool(finished)), ("waited_ms", J::I(waited)),
        ("first_queued", J::Bool(first_ok)), ("second_queued", J::Bool(second_ok)),
        ("first_status", J::I(first_status)), ("second_status", J::I(second_status)), ("value_1", J::I(v1)), ("value_2", J::I(v2)),
    ]).to_string());
    cache.shutdown();
    ctl.tick_async();
}
